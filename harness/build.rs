// Detects whether the library under test still offers the verification hook (`verif_hooks`, guarded by
// `--cfg cosmian_cover_crypt_verif`): the data-structure campaign is compiled only when it does, so that a tree
// without the hook still builds (the campaign then reports that it could not run).
use std::path::Path;

fn main() {
    println!("cargo:rustc-check-cfg=cfg(have_ds_hooks)");
    let repo = std::env::var("VERIF_REPO").unwrap_or_else(|_| "/repo".to_string());
    let lib = Path::new(&repo).join("src/lib.rs");
    println!("cargo:rerun-if-changed={}", lib.display());
    println!("cargo:rerun-if-env-changed=VERIF_REPO");
    println!("cargo:rerun-if-env-changed=VERIF_NO_DS");
    if std::env::var("VERIF_NO_DS").is_ok() {
        // the data-structure executor does not compile against the internal API as it is now (internal, unstable
        // signatures): everything else is built without it
        return;
    }
    if let Ok(txt) = std::fs::read_to_string(&lib) {
        if txt.contains("cfg(cosmian_cover_crypt_verif)") && txt.contains("pub mod verif_hooks") {
            println!("cargo:rustc-cfg=have_ds_hooks");
        }
    }
}
