//! Counting global allocator: current / peak bytes and the largest single request since the last reset.

use std::alloc::{GlobalAlloc, Layout, System};
use std::sync::atomic::{AtomicUsize, Ordering};

pub struct Counting;

static CUR: AtomicUsize = AtomicUsize::new(0);
static PEAK: AtomicUsize = AtomicUsize::new(0);
static MAX_REQ: AtomicUsize = AtomicUsize::new(0);

unsafe impl GlobalAlloc for Counting {
    unsafe fn alloc(&self, l: Layout) -> *mut u8 {
        let p = System.alloc(l);
        if !p.is_null() {
            let c = CUR.fetch_add(l.size(), Ordering::Relaxed) + l.size();
            PEAK.fetch_max(c, Ordering::Relaxed);
        }
        MAX_REQ.fetch_max(l.size(), Ordering::Relaxed);
        p
    }
    unsafe fn dealloc(&self, p: *mut u8, l: Layout) {
        System.dealloc(p, l);
        CUR.fetch_sub(l.size(), Ordering::Relaxed);
    }
    unsafe fn realloc(&self, p: *mut u8, l: Layout, new: usize) -> *mut u8 {
        let q = System.realloc(p, l, new);
        MAX_REQ.fetch_max(new, Ordering::Relaxed);
        if !q.is_null() {
            if new > l.size() {
                let c = CUR.fetch_add(new - l.size(), Ordering::Relaxed) + (new - l.size());
                PEAK.fetch_max(c, Ordering::Relaxed);
            } else {
                CUR.fetch_sub(l.size() - new, Ordering::Relaxed);
            }
        }
        q
    }
}

pub fn reset() {
    PEAK.store(CUR.load(Ordering::Relaxed), Ordering::Relaxed);
    MAX_REQ.store(0, Ordering::Relaxed);
}
/// (peak above the level at reset is `peak - base`), largest single request
pub fn snapshot() -> (usize, usize, usize) {
    (CUR.load(Ordering::Relaxed), PEAK.load(Ordering::Relaxed), MAX_REQ.load(Ordering::Relaxed))
}
