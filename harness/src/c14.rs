//! C14: untrusted bytes. Mutants of valid serialisations are deserialised and *used* by the real
//! code inside worker processes (address-space limit, wall-clock watchdog, counting allocator).

use std::io::{BufRead, BufReader, Write};
use std::process::{Command, Stdio};
use std::sync::mpsc;
use std::time::{Duration, Instant};

use cosmian_cover_crypt::{
    api::Covercrypt, traits::KemAc, AccessPolicy, AccessStructure, EncryptedHeader, MasterPublicKey,
    MasterSecretKey, UserSecretKey, XEnc,
};
use cosmian_crypto_core::bytes_ser_de::Serializable;

use crate::util::{hex, unhex, SplitMix64};
use crate::wire::leb;

pub struct Base {
    pub msk: Vec<u8>,
    pub mpk: Vec<u8>,
    pub usk: Vec<u8>,
    pub usk2: Vec<u8>,
    /// a key that opens both encapsulations and the header (generated after the rekey)
    pub opener: Vec<u8>,
    pub enc_c: Vec<u8>,
    pub enc_h: Vec<u8>,
    pub hdr: Vec<u8>,
    pub st: Vec<u8>,
}

pub fn make_base() -> Base {
    let mut real = crate::exec::Real::new();
    let h = |s: &str| hex(s.as_bytes());
    for l in [
        "setup M0 K0".to_string(),
        format!("add_dim M0 h {}", h("S")),
        format!("add_attr M0 {} {} c -", h("S"), h("L")),
        format!("add_attr M0 {} {} h {}", h("S"), h("T"), h("L")),
        format!("add_dim M0 a {}", h("Dé")),
        format!("add_attr M0 {} {} c -", h("Dé"), h("A")),
        "update M0 K1".to_string(),
        format!("keygen M0 U0 t:{}", h("*")),
        format!("keygen M0 U1 t:{}", h("Dé::A && S::L")),
        format!("rekey M0 K2 t:{}", h("Dé::A")),
        "refresh M0 U0 U2 1".to_string(),
        format!("keygen M0 U3 t:{}", h("Dé::A && S::T")),
        format!("encaps K2 E0 t:{}", h("Dé::A && S::L || Dé::A")),
        format!("encaps K2 E1 t:{}", h("S::T || Dé::A && S::T")),
        format!("hdr_gen K2 H0 t:{} x{} x{}", h("Dé::A"), hex(b"metadata"), hex(b"ad")),
    ] {
        let o = real.step(&l);
        assert!(o.starts_with("ok"), "{l} -> {o}");
    }
    // the opener really opens: the success paths of decaps and header decryption are what mutants reach
    for l in ["decaps U3 E0", "decaps U3 E1", "hdr_dec U3 H0 x6164"] {
        let o = real.step(l);
        assert!(o.starts_with("ok 1") || o.starts_with("ok some") || o.contains("6d65746164617461"), "{l} -> {o}");
    }
    Base {
        opener: real.usks[3].as_ref().unwrap().serialize().unwrap().to_vec(),
        msk: real.msks[0].as_ref().unwrap().serialize().unwrap().to_vec(),
        mpk: real.mpks[2].as_ref().unwrap().serialize().unwrap().to_vec(),
        usk: real.usks[2].as_ref().unwrap().serialize().unwrap().to_vec(),
        usk2: real.usks[1].as_ref().unwrap().serialize().unwrap().to_vec(),
        enc_c: real.encs[0].as_ref().unwrap().0.serialize().unwrap().to_vec(),
        enc_h: real.encs[1].as_ref().unwrap().0.serialize().unwrap().to_vec(),
        hdr: real.hdrs[0].as_ref().unwrap().0.serialize().unwrap().to_vec(),
        st: real.msks[0].as_ref().unwrap().access_structure.serialize().unwrap().to_vec(),
    }
}

/// offsets (start, len) of every LEB128 field met while parsing `b` as `ty` with the wire reader
type ListSpan = (usize, usize, Vec<(usize, usize)>);

fn leb_fields(ty: &str, b: &[u8]) -> (Vec<(usize, usize)>, Vec<(usize, usize, usize)>, Vec<ListSpan>) {
    // re-parse and find fields by re-encoding prefixes: simpler approach — scan with the structural reader
    // and note where each leb starts by instrumenting a tiny reader here.
    use crate::wire::sz;
    let mut out = vec![];
    // (start of the length field, its size, length of the byte run it announces)
    let runs = std::cell::RefCell::new(Vec::<(usize, usize, usize)>::new());
    // counted lists: (start of the count field, its size, spans of the elements)
    let lists = std::cell::RefCell::new(Vec::<ListSpan>::new());
    let open_list = |out: &Vec<(usize, usize)>| -> usize {
        let (s0, l0) = *out.last().unwrap();
        lists.borrow_mut().push((s0, l0, vec![]));
        lists.borrow().len() - 1
    };
    let elem = |k: usize, a: usize, e: usize| lists.borrow_mut()[k].2.push((a, e));
    let fixed_list = |out: &Vec<(usize, usize)>, p: usize, n: usize, size: usize| {
        let k = open_list(out);
        for i in 0..n.min(1 << 16) {
            elem(k, p + i * size, p + (i + 1) * size);
        }
    };
    let mut p = 0usize;
    let mut rd_leb = |p: &mut usize, out: &mut Vec<(usize, usize)>| -> Option<u64> {
        let start = *p;
        let mut v: u64 = 0;
        let mut shift = 0;
        loop {
            let byte = *b.get(*p)?;
            *p += 1;
            v |= ((byte & 0x7f) as u64) << shift;
            if byte & 0x80 == 0 {
                break;
            }
            shift += 7;
            if shift > 63 {
                return None;
            }
        }
        out.push((start, *p - start));
        Some(v)
    };
    let skip = |p: &mut usize, n: usize| {
        *p += n;
    };
    let mut structure = |p: &mut usize, out: &mut Vec<(usize, usize)>| -> Option<()> {
        let v = rd_leb(p, out)?;
        if v == 1 {
            rd_leb(p, out)?;
        }
        let nd = rd_leb(p, out)?;
        let kd = open_list(out);
        for _ in 0..nd {
            let d0 = *p;
            let l = rd_leb(p, out)? as usize;
            runs.borrow_mut().push((out.last().unwrap().0, out.last().unwrap().1, l));
            skip(p, l);
            rd_leb(p, out)?;
            let na = rd_leb(p, out)?;
            let ka = open_list(out);
            for _ in 0..na {
                let a0 = *p;
                let l = rd_leb(p, out)? as usize;
                runs.borrow_mut().push((out.last().unwrap().0, out.last().unwrap().1, l));
                skip(p, l);
                rd_leb(p, out)?;
                rd_leb(p, out)?;
                rd_leb(p, out)?;
                elem(ka, a0, *p);
            }
            elem(kd, d0, *p);
        }
        Some(())
    };
    let mut key = |p: &mut usize, out: &mut Vec<(usize, usize)>, la: usize, lb: usize| -> Option<()> {
        let f = rd_leb(p, out)?;
        skip(p, la);
        if f == 1 {
            skip(p, lb);
        }
        Some(())
    };
    let _ = (|| -> Option<()> {
        match ty {
            "struct" => structure(&mut p, &mut out)?,
            "enc" | "hdr" => {
                skip(&mut p, 16);
                let n = rd_leb(&mut p, &mut out)? as usize;
                fixed_list(&out, p, n, sz::PK);
                skip(&mut p, n * sz::PK);
                let f = rd_leb(&mut p, &mut out)?;
                let l = rd_leb(&mut p, &mut out)? as usize;
                fixed_list(&out, p, l, 32 + if f == 1 { sz::ENC } else { 0 });
                skip(&mut p, l * (32 + if f == 1 { sz::ENC } else { 0 }));
                if ty == "hdr" {
                    let l = rd_leb(&mut p, &mut out)? as usize;
                    runs.borrow_mut().push((out.last().unwrap().0, out.last().unwrap().1, l));
                }
            }
            "usk" => {
                let n = rd_leb(&mut p, &mut out)? as usize;
                fixed_list(&out, p, n, sz::SK);
                skip(&mut p, n * sz::SK);
                let n = rd_leb(&mut p, &mut out)? as usize;
                fixed_list(&out, p, n, sz::PK);
                skip(&mut p, n * sz::PK);
                let nc = rd_leb(&mut p, &mut out)?;
                let kc = open_list(&out);
                for _ in 0..nc {
                    let c0 = p;
                    let l = rd_leb(&mut p, &mut out)? as usize;
                    runs.borrow_mut().push((out.last().unwrap().0, out.last().unwrap().1, l));
                    skip(&mut p, l);
                    let nk = rd_leb(&mut p, &mut out)?;
                    let kk = open_list(&out);
                    for _ in 0..nk {
                        let k0 = p;
                        key(&mut p, &mut out, sz::SK, sz::DK)?;
                        elem(kk, k0, p);
                    }
                    elem(kc, c0, p);
                }
            }
            "mpk" => {
                let n = rd_leb(&mut p, &mut out)? as usize;
                fixed_list(&out, p, n, sz::PK);
                skip(&mut p, n * sz::PK);
                let nc = rd_leb(&mut p, &mut out)?;
                let kc = open_list(&out);
                for _ in 0..nc {
                    let c0 = p;
                    let l = rd_leb(&mut p, &mut out)? as usize;
                    runs.borrow_mut().push((out.last().unwrap().0, out.last().unwrap().1, l));
                    skip(&mut p, l);
                    key(&mut p, &mut out, sz::PK, sz::EK)?;
                    elem(kc, c0, p);
                }
                structure(&mut p, &mut out)?;
            }
            "msk" => {
                skip(&mut p, sz::SK);
                let n = rd_leb(&mut p, &mut out)? as usize;
                fixed_list(&out, p, n, sz::SK + sz::PK);
                skip(&mut p, n * (sz::SK + sz::PK));
                let nu = rd_leb(&mut p, &mut out)?;
                let ku = open_list(&out);
                for _ in 0..nu {
                    let u0 = p;
                    let l = rd_leb(&mut p, &mut out)? as usize;
                    fixed_list(&out, p, l, sz::SK);
                    skip(&mut p, l * sz::SK);
                    elem(ku, u0, p);
                }
                let nc = rd_leb(&mut p, &mut out)?;
                let kc = open_list(&out);
                for _ in 0..nc {
                    let c0 = p;
                    let l = rd_leb(&mut p, &mut out)? as usize;
                    runs.borrow_mut().push((out.last().unwrap().0, out.last().unwrap().1, l));
                    skip(&mut p, l);
                    let nk = rd_leb(&mut p, &mut out)?;
                    let kk = open_list(&out);
                    for _ in 0..nk {
                        let k0 = p;
                        rd_leb(&mut p, &mut out)?;
                        key(&mut p, &mut out, sz::SK, sz::DK)?;
                        elem(kk, k0, p);
                    }
                    elem(kc, c0, p);
                }
                skip(&mut p, 16);
                structure(&mut p, &mut out)?;
            }
            _ => {}
        }
        Some(())
    })();
    let runs = runs.into_inner();
    let lists = lists.into_inner().into_iter().filter(|(_, _, e)| e.iter().all(|(a, z)| a <= z && *z <= b.len())).collect();
    (out, runs, lists)
}

pub fn mutants(tier: &str, seed: u64, base: &Base) -> Vec<(String, Vec<u8>, String)> {
    let thorough = tier == "thorough";
    let mut rng = SplitMix64::new(seed ^ 0xC14);
    let mut out: Vec<(String, Vec<u8>, String)> = vec![];
    // the same access structure in the older wire version (V1: no stored identifier counter — the reader recomputes it
    // from the identifiers in use), alone and at the end of the master key and of the public key
    let st_v1: Vec<u8> = {
        assert_eq!(base.st[0], 1, "the base structure is expected in the current wire version");
        let mut p = 1;
        while base.st[p] & 0x80 != 0 {
            p += 1;
        }
        let mut v = vec![0u8];
        v.extend_from_slice(&base.st[p + 1..]);
        v
    };
    let with_v1 = |obj: &Vec<u8>| -> Vec<u8> {
        assert!(obj.ends_with(&base.st), "the access structure is expected at the end of the key");
        let mut v = obj[..obj.len() - base.st.len()].to_vec();
        v.extend_from_slice(&st_v1);
        v
    };
    let msk_v1 = with_v1(&base.msk);
    let mpk_v1 = with_v1(&base.mpk);
    let objs: Vec<(&str, &Vec<u8>)> = vec![
        ("enc", &base.enc_c), ("enc", &base.enc_h), ("hdr", &base.hdr), ("usk", &base.usk), ("usk", &base.usk2),
        ("mpk", &base.mpk), ("msk", &base.msk), ("struct", &base.st), ("struct", &st_v1), ("msk", &msk_v1), ("mpk", &mpk_v1),
    ];
    let boundary: Vec<Vec<u8>> = {
        let mut v = vec![];
        for x in [0u64, 1, 2, 127, 128, 1 << 14, (1 << 32) - 1, 1 << 32, 1 << 56, (1 << 56) - 1, 1 << 63, u64::MAX] {
            let mut b = vec![];
            leb(&mut b, x);
            v.push(b);
        }
        // non-canonical and overflowing encodings
        v.push(vec![0x80, 0x00]);
        v.push(vec![0x81, 0x80, 0x00]);
        v.push(vec![0xff; 9].into_iter().chain([0x7f]).collect());
        v.push(vec![0xff; 10].into_iter().chain([0x01]).collect());
        v.push(vec![0x80; 20]);
        v
    };
    for (ty, b) in objs {
        out.push((ty.to_string(), b.to_vec(), "valid".into()));
        // truncations
        let n = b.len();
        let stride = if thorough || n < 600 { 1 } else { (n / 400).max(1) };
        let mut cut = 0;
        while cut < n {
            out.push((ty.to_string(), b[..cut].to_vec(), format!("trunc {cut}")));
            cut += if cut < 200 || cut + 100 > n { 1 } else { stride };
        }
        // single-byte corruption
        let mut pos = 0;
        while pos < n {
            for (k, f) in [0x01u8, 0x80, 0x00, 0xff].iter().enumerate() {
                let mut m = b.to_vec();
                m[pos] = match k {
                    0 | 1 => m[pos] ^ f,
                    _ => *f,
                };
                if m != *b {
                    out.push((ty.to_string(), m, format!("byte {pos} {k}")));
                }
            }
            pos += if pos < 200 || pos + 100 > n { 1 } else { stride };
        }
        // every count / length / flag field replaced by boundary values
        let (fields, runs, lists) = leb_fields(ty, b);
        // every counted list resized *consistently*: the count and the elements change together, so the
        // object still parses with an empty list, one element less, one element more
        for (cs, cl, elems) in &lists {
            let ne = elems.len();
            let mut variants: Vec<(&str, usize, Vec<(usize, usize)>)> = vec![];
            if ne >= 1 {
                variants.push(("empty", 0, vec![]));
                variants.push(("droplast", ne - 1, elems[..ne - 1].to_vec()));
                let mut d = elems.clone();
                d.push(elems[ne - 1]);
                variants.push(("duplast", ne + 1, d));
            }
            if ne >= 2 {
                variants.push(("dropfirst", ne - 1, elems[1..].to_vec()));
                variants.push(("firstonly", 1, elems[..1].to_vec()));
                let mut r = elems.clone();
                r.reverse();
                variants.push(("reversed", ne, r));
            }
            let body_start = cs + cl;
            let body_end = elems.last().map(|e| e.1).unwrap_or(body_start);
            for (name, cnt, keep) in variants {
                let mut m = b[..*cs].to_vec();
                leb(&mut m, cnt as u64);
                for (a, z) in keep {
                    m.extend_from_slice(&b[a..z]);
                }
                m.extend_from_slice(&b[body_end..]);
                if m != *b {
                    out.push((ty.to_string(), m, format!("list@{cs} {name}")));
                }
            }
        }
        // every length-prefixed byte run (names, rights, encrypted metadata) resized *consistently*: the object
        // still parses, the run is shorter / longer than anything the library produces
        for (start, len, run) in runs {
            let body = start + len;
            if body + run > n {
                continue;
            }
            let sizes: Vec<usize> = if ty == "hdr" { (0..=48).collect() } else { vec![0, 1, 2, 11, 12, 27, 28, 29, 127, 128, 300] };
            for k in sizes {
                for fill in 0..2 {
                    let mut m = b[..start].to_vec();
                    leb(&mut m, k as u64);
                    if fill == 0 {
                        // the original bytes, cut or repeated
                        m.extend((0..k).map(|i| if run == 0 { 0x41 } else { b[body + i % run] }));
                    } else {
                        m.extend((0..k).map(|_| rng.next() as u8));
                    }
                    m.extend_from_slice(&b[body + run..]);
                    if m != *b {
                        out.push((ty.to_string(), m, format!("resize@{start} {k} {fill}")));
                    }
                }
            }
        }
        for (start, len) in fields {
            for v in &boundary {
                let mut m = b[..start].to_vec();
                m.extend_from_slice(v);
                m.extend_from_slice(&b[start + len..]);
                if m != *b {
                    out.push((ty.to_string(), m, format!("count@{start}")));
                }
            }
        }
        // appended garbage
        for extra in [1usize, 15, 16, 31, 32, 33] {
            let mut m = b.to_vec();
            m.extend((0..extra).map(|_| rng.next() as u8));
            out.push((ty.to_string(), m, format!("append {extra}")));
        }
    }
    // random byte strings for every type
    let nr = if thorough { 3000 } else { 300 };
    for ty in ["enc", "hdr", "usk", "mpk", "msk", "struct"] {
        for _ in 0..nr {
            let l = rng.below(200);
            let m: Vec<u8> = (0..l).map(|_| rng.next() as u8).collect();
            out.push((ty.to_string(), m, "random".into()));
        }
    }
    out
}

/// worker: reads the base objects then one mutant per line (`<ty> <hex>`); prints one result line per mutant
/// what an authority does with a structure it has loaded: one more attribute in each dimension, a rename, a disable,
/// a deletion, one more dimension (errors are fine; panics are not)
fn edit_structure(s: &mut AccessStructure) {
    use cosmian_cover_crypt::{EncryptionHint, QualifiedAttribute};
    let dims: Vec<String> = s.dimensions().map(|d| d.to_string()).take(4).collect();
    for d in &dims {
        let _ = s.add_attribute(QualifiedAttribute::new(d, "verif-new"), EncryptionHint::Classic, None);
        let _ = s.add_attribute(QualifiedAttribute::new(d, "verif-new-h"), EncryptionHint::Hybridized, None);
    }
    let attrs: Vec<QualifiedAttribute> = s.attributes().take(3).collect();
    if let Some(a) = attrs.first() {
        let _ = s.rename_attribute(a, "verif-renamed".to_string());
    }
    if let Some(a) = attrs.get(1) {
        let _ = s.disable_attribute(a);
    }
    if let Some(a) = attrs.get(2) {
        let _ = s.del_attribute(a);
    }
    let _ = s.add_anarchy("verif-dim".to_string());
    let _ = s.add_attribute(QualifiedAttribute::new("verif-dim", "x"), EncryptionHint::Classic, None);
}

pub fn worker() {
    unsafe {
        let lim = libc::rlimit { rlim_cur: 2 << 30, rlim_max: 2 << 30 };
        libc::setrlimit(libc::RLIMIT_AS, &lim);
    }
    let stdin = std::io::stdin();
    let out = std::io::stdout();
    let mut lines = stdin.lock().lines();
    let mut get = |lines: &mut std::io::Lines<std::io::StdinLock>| -> Vec<u8> { unhex(lines.next().unwrap().unwrap().trim()).unwrap() };
    let cc = Covercrypt::default();
    let mut msk = MasterSecretKey::deserialize(&get(&mut lines)).unwrap();
    let mpk = MasterPublicKey::deserialize(&get(&mut lines)).unwrap();
    let usk = UserSecretKey::deserialize(&get(&mut lines)).unwrap();
    let enc_c = XEnc::deserialize(&get(&mut lines)).unwrap();
    let enc_h = XEnc::deserialize(&get(&mut lines)).unwrap();
    let opener = UserSecretKey::deserialize(&get(&mut lines)).unwrap();
    let star = AccessPolicy::parse("*").unwrap();
    for line in lines {
        let line = line.unwrap();
        let mut it = line.split(' ');
        let ty = it.next().unwrap().to_string();
        let bytes = unhex(it.next().unwrap_or("")).unwrap_or_default();
        crate::alloc::reset();
        let (cur0, _, _) = crate::alloc::snapshot();
        let t0 = Instant::now();
        let r = std::panic::catch_unwind(std::panic::AssertUnwindSafe(|| -> &'static str {
            match ty.as_str() {
                "enc" => match XEnc::deserialize(&bytes) {
                    Ok(x) => {
                        let _ = x.tracing_level();
                        let _ = x.count();
                        let _ = cc.decaps(&usk, &x);
                        let _ = cc.decaps(&opener, &x);
                        let _ = cc.recaps(&msk, &mpk, &x);
                        let _ = x.serialize();
                        "acc"
                    }
                    Err(_) => "rej",
                },
                "hdr" => match EncryptedHeader::deserialize(&bytes) {
                    Ok(h) => {
                        let _ = h.decrypt(&cc, &usk, Some(b"ad"));
                        let _ = h.decrypt(&cc, &usk, None);
                        let _ = h.decrypt(&cc, &opener, Some(b"ad"));
                        let _ = h.decrypt(&cc, &opener, None);
                        let _ = h.serialize();
                        "acc"
                    }
                    Err(_) => "rej",
                },
                "usk" => match UserSecretKey::deserialize(&bytes) {
                    Ok(mut u) => {
                        let _ = u.tracing_level();
                        let _ = u.count();
                        let _ = cc.decaps(&u, &enc_c);
                        let _ = cc.decaps(&u, &enc_h);
                        let _ = u.serialize();
                        let mut m2 = crate::exec::clone_msk(&msk);
                        let _ = cc.refresh_usk(&mut m2, &mut u, true);
                        "acc"
                    }
                    Err(_) => "rej",
                },
                "mpk" => match MasterPublicKey::deserialize(&bytes) {
                    Ok(k) => {
                        let _ = k.tracing_level();
                        let _ = cc.encaps(&k, &star);
                        let _ = k.serialize();
                        "acc"
                    }
                    Err(_) => "rej",
                },
                "msk" => match MasterSecretKey::deserialize(&bytes) {
                    Ok(mut m) => {
                        let _ = m.mpk();
                        let _ = cc.generate_user_secret_key(&mut m, &star);
                        let _ = cc.update_msk(&mut m);
                        let _ = cc.rekey(&mut m, &star);
                        let _ = m.serialize();
                        // the authority goes on editing the structure it loaded
                        edit_structure(&mut m.access_structure);
                        let _ = cc.update_msk(&mut m);
                        let _ = m.serialize();
                        "acc"
                    }
                    Err(_) => "rej",
                },
                _ => match AccessStructure::deserialize(&bytes) {
                    Ok(mut s) => {
                        let _ = s.ap_to_usk_rights(&star);
                        let _ = s.attributes().count();
                        let _ = s.serialize();
                        edit_structure(&mut s);
                        let _ = s.ap_to_usk_rights(&star);
                        let _ = s.serialize();
                        "acc"
                    }
                    Err(_) => "rej",
                },
            }
        }));
        let (_, peak, maxreq) = crate::alloc::snapshot();
        let ms = t0.elapsed().as_millis();
        let verdict = match r {
            Ok(v) => v.to_string(),
            Err(_) => "panic".to_string(),
        };
        let mut o = out.lock();
        writeln!(o, "{} peak={} maxreq={} ms={}", verdict, peak.saturating_sub(cur0), maxreq, ms).unwrap();
        o.flush().unwrap();
    }
    let _ = &mut msk;
}

pub struct MutResult {
    pub verdict: String,
    pub peak: usize,
    pub maxreq: usize,
    pub ms: u128,
}

/// run all mutants through worker processes; a mutant that exceeds `timeout` (or kills the worker)
/// is recorded as such and a fresh worker continues with the rest
pub fn run_workers(base: &Base, muts: &[(String, Vec<u8>, String)], timeout: Duration) -> Vec<MutResult> {
    let exe = std::env::current_exe().unwrap();
    let mut results: Vec<MutResult> = vec![];
    let mut idx = 0;
    while idx < muts.len() {
        let mut child = Command::new(&exe).arg("c14-worker").stdin(Stdio::piped()).stdout(Stdio::piped()).stderr(Stdio::null()).spawn().unwrap();
        let mut stdin = child.stdin.take().unwrap();
        let stdout = child.stdout.take().unwrap();
        let (tx, rx) = mpsc::channel::<String>();
        std::thread::spawn(move || {
            for l in BufReader::new(stdout).lines() {
                match l {
                    Ok(l) => {
                        if tx.send(l).is_err() {
                            break;
                        }
                    }
                    Err(_) => break,
                }
            }
        });
        for b in [&base.msk, &base.mpk, &base.usk, &base.enc_c, &base.enc_h, &base.opener] {
            writeln!(stdin, "{}", hex(b)).unwrap();
        }
        // feed from a thread so that a stuck worker cannot block us
        let batch: Vec<String> = muts[idx..].iter().map(|(ty, b, _)| format!("{ty} {}", hex(b))).collect();
        let feeder = std::thread::spawn(move || {
            for l in batch {
                if writeln!(stdin, "{l}").is_err() {
                    break;
                }
            }
        });
        let mut dead = false;
        while idx < muts.len() {
            match rx.recv_timeout(timeout) {
                Ok(l) => {
                    let mut verdict = String::new();
                    let (mut peak, mut maxreq, mut ms) = (0usize, 0usize, 0u128);
                    for (k, t) in l.split(' ').enumerate() {
                        if k == 0 {
                            verdict = t.to_string();
                        } else if let Some(v) = t.strip_prefix("peak=") {
                            peak = v.parse().unwrap_or(0);
                        } else if let Some(v) = t.strip_prefix("maxreq=") {
                            maxreq = v.parse().unwrap_or(0);
                        } else if let Some(v) = t.strip_prefix("ms=") {
                            ms = v.parse().unwrap_or(0);
                        }
                    }
                    results.push(MutResult { verdict, peak, maxreq, ms });
                    idx += 1;
                }
                Err(mpsc::RecvTimeoutError::Timeout) => {
                    results.push(MutResult { verdict: "timeout".into(), peak: 0, maxreq: 0, ms: timeout.as_millis() });
                    idx += 1;
                    dead = true;
                    break;
                }
                Err(mpsc::RecvTimeoutError::Disconnected) => {
                    // the worker died (abort, signal, out of memory) on the current mutant
                    results.push(MutResult { verdict: "crash".into(), peak: 0, maxreq: 0, ms: 0 });
                    idx += 1;
                    dead = true;
                    break;
                }
            }
        }
        let _ = child.kill();
        let _ = child.wait();
        let _ = feeder.join();
        if !dead {
            break;
        }
    }
    results
}

pub fn run(tier: &str, seed: u64, driver: &str, out: &str) {
    let t0 = Instant::now();
    let base = make_base();
    let mut muts = mutants(tier, seed, &base);
    // corpus first: byte strings of the defects found so far (`corpus/findings/*.bytes`, lines `<type> <hex>`)
    let corpus_dir = std::env::var("VERIF_CORPUS").unwrap_or("/verif/corpus/findings".into());
    if let Ok(rd) = std::fs::read_dir(&corpus_dir) {
        let mut files: Vec<_> = rd.filter_map(|e| e.ok()).map(|e| e.path()).filter(|p| p.extension().map(|x| x == "bytes").unwrap_or(false)).collect();
        files.sort();
        let mut pre = vec![];
        for f in files {
            let Ok(txt) = std::fs::read_to_string(&f) else { continue };
            if !txt.lines().next().map(|l| l.starts_with("# props:") && l.contains("C14")).unwrap_or(false) {
                continue;
            }
            let name = f.file_stem().map(|x| x.to_string_lossy().to_string()).unwrap_or_default();
            for l in txt.lines().filter(|l| !l.starts_with('#') && !l.trim().is_empty()) {
                let mut it = l.split(' ');
                if let (Some(ty), Some(h)) = (it.next(), it.next()) {
                    if let Some(b) = unhex(h) {
                        pre.push((ty.to_string(), b, format!("corpus:{name}")));
                    }
                }
            }
        }
        pre.append(&mut muts);
        muts = pre;
    }
    // split across workers
    let workers: usize = std::env::var("VERIF_WORKERS").ok().and_then(|s| s.parse().ok()).unwrap_or(16);
    let chunk = (muts.len() + workers - 1) / workers;
    let base = std::sync::Arc::new(base);
    let muts = std::sync::Arc::new(muts);
    let mut hs = vec![];
    for w in 0..workers {
        let (base, muts) = (base.clone(), muts.clone());
        hs.push(std::thread::spawn(move || {
            let lo = (w * chunk).min(muts.len());
            let hi = ((w + 1) * chunk).min(muts.len());
            run_workers(&base, &muts[lo..hi], Duration::from_secs(10))
        }));
    }
    let mut results = vec![];
    for h in hs {
        results.extend(h.join().unwrap());
    }
    // oracle + model comparison (accepted => the wire model accepts too)
    let mut fails = vec![];
    let mut hist = std::collections::BTreeMap::<String, usize>::new();
    let mut mlines = vec![];
    let mut midx = vec![];
    let mut distinct = std::collections::HashSet::new();
    let mut worst_ratio = 0f64;
    for (i, r) in results.iter().enumerate() {
        let (ty, b, what) = &muts[i];
        let kind = what.split(' ').next().unwrap().split('@').next().unwrap().to_string();
        *hist.entry(format!("{ty}:{kind}:{}", r.verdict)).or_default() += 1;
        distinct.insert(crate::util::fnv64(&[ty.as_bytes(), b.as_slice()].concat()));
        let n = b.len();
        let bad_alloc = r.maxreq > 64 * n + (1 << 20) || r.peak > 256 * n + (4 << 20);
        worst_ratio = worst_ratio.max(r.maxreq as f64 / (n as f64 + 1.0));
        if r.verdict == "panic" || r.verdict == "crash" || r.verdict == "timeout" || bad_alloc || r.ms > 5000 {
            if fails.len() < 40 {
                fails.push(serde_json::json!({
                    "kind": "impl-oracle", "oracle": "untrusted-bytes", "tags": [r.verdict.clone(), kind, if bad_alloc { "over-allocation" } else { "-" }],
                    "what": format!("{ty} mutant ({what}, {n} bytes): {} peak={} maxreq={} ms={}", r.verdict, r.peak, r.maxreq, r.ms),
                    "lines": [format!("{ty} {}", hex(b))], "case": what,
                }));
            }
        }
        if r.verdict == "acc" {
            mlines.push(format!("wire {ty} {} x{}", crate::util::CFG, hex(b)));
            midx.push(i);
        }
    }
    // time proportional to the input: large well-formed objects (many distinct rights / components), ten times larger
    // again — deserialising (and using) the larger one may cost about ten times more, not a hundred
    let mut scaling = vec![];
    {
        use crate::wire::{WEnc, WMpk, WUsk};
        let cc = Covercrypt::default();
        let enc_c = XEnc::deserialize(&base.enc_c).unwrap();
        let n1: usize = if tier == "thorough" { 6000 } else { 3000 };
        let build = |ty: &str, n: usize| -> Vec<u8> {
            let name = |i: usize| -> Vec<u8> { vec![0x7f, (i >> 16) as u8, (i >> 8) as u8, i as u8] };
            match ty {
                "usk" => {
                    let mut w = WUsk::read(&base.usk).unwrap();
                    // a classic secret when the key has one (the objects stay small)
                    let k = w.secrets.iter().flat_map(|(_, c)| c.iter()).find(|k| k.hyb == 0).unwrap_or(&w.secrets[0].1[0]).clone();
                    w.secrets = (0..n).map(|i| (name(i), vec![k.clone()])).collect();
                    w.write()
                }
                "mpk" => {
                    let mut w = WMpk::read(&base.mpk).unwrap();
                    let k = w.keys.iter().map(|(_, k)| k).find(|k| k.hyb == 0).unwrap_or(&w.keys[0].1).clone();
                    w.keys = (0..n).map(|i| (name(i), k.clone())).collect();
                    w.write()
                }
                _ => {
                    let mut w = WEnc::read(&base.enc_c).unwrap();
                    let c = w.encs[0].clone();
                    w.encs = (0..n).map(|_| c.clone()).collect();
                    w.write()
                }
            }
        };
        let time = |ty: &str, b: &[u8]| -> Option<f64> {
            let mut best = f64::MAX;
            for _ in 0..3 {
                let t0 = Instant::now();
                let ok = std::panic::catch_unwind(std::panic::AssertUnwindSafe(|| match ty {
                    "usk" => UserSecretKey::deserialize(b).map(|u| { let _ = cc.decaps(&u, &enc_c); }).is_ok(),
                    "mpk" => MasterPublicKey::deserialize(b).map(|k| { let _ = k.tracing_level(); }).is_ok(),
                    _ => XEnc::deserialize(b).map(|x| { let _ = x.count(); }).is_ok(),
                })).unwrap_or(false);
                if !ok {
                    return None;
                }
                best = best.min(t0.elapsed().as_secs_f64());
            }
            Some(best)
        };
        for ty in ["usk", "mpk", "enc"] {
            let (b1, b2) = (build(ty, n1), build(ty, 10 * n1));
            match (time(ty, &b1), time(ty, &b2)) {
                (Some(t1), Some(t2)) => {
                    let ratio = t2 / t1.max(1e-6);
                    scaling.push(serde_json::json!({"type": ty, "elements": [n1, 10 * n1], "bytes": [b1.len(), b2.len()], "seconds": [t1, t2], "ratio": ratio}));
                    if t2 > 0.05 && ratio > 35.0 && fails.len() < 40 {
                        fails.push(serde_json::json!({
                            "kind": "impl-oracle", "oracle": "untrusted-bytes", "tags": ["time-not-proportional", "scaling", "-"],
                            "what": format!("{ty} with {} distinct elements ({} bytes) takes {:.3} s to deserialise and use, {:.0} times what the same object with {} elements ({} bytes, {:.4} s) takes: not proportional to the input", 10 * n1, b2.len(), t2, ratio, n1, b1.len(), t1),
                            "lines": [format!("{ty} <synthetic: {} elements named 7f‖i, built from the base object>", 10 * n1)], "case": format!("scaling {ty}"),
                        }));
                    }
                }
                _ => scaling.push(serde_json::json!({"type": ty, "elements": [n1, 10 * n1], "rejected": true})),
            }
        }
    }
    let model = crate::run::run_model(driver, &mlines);
    let mut mism = vec![];
    for (k, o) in model.iter().enumerate() {
        if !o.starts_with("ok") && mism.len() < 20 {
            let (ty, b, what) = &muts[midx[k]];
            mism.push(serde_json::json!({"case": what, "line_no": 0, "op": "wire", "impl": "acc (deserialises)", "model": o,
                "kind": "state", "lines": [format!("{ty} {}", hex(b))], "shrunk": false}));
        }
    }
    let j = serde_json::json!({
        "property": "C14", "tier": tier, "seed": seed, "config": crate::util::CFG, "cases": results.len(), "lines": results.len(),
        "distinct_traces": distinct.len(), "distinct_lines": distinct.len(), "op_hist": hist, "status_hist": {}, "err_kind_hist": {},
        "soft_kind_mismatch": 0, "matrix_cells": 0, "matrix_open": 0,
        "samples": [{"type": muts[1].0, "mutation": muts[1].2, "bytes": hex(&muts[1].1)}, {"type": muts[muts.len() / 2].0, "mutation": muts[muts.len() / 2].2, "len": muts[muts.len() / 2].1.len()}],
        "mismatches": mism,
        "extra": {"rule": "mutants of valid serialisations of 11 objects (classic and hybridised encapsulation, header, two user keys, public key, master key, access structure; the last three also in the older wire version V1): every truncation (strided in the middle of long objects in quick), single-byte corruption at every such position x {xor 1, xor 0x80, 0, 0xff}, every count / length / flag field replaced by 17 boundary, non-canonical and overflowing LEB128 values up to 2^64-1, appended garbage, random strings; each mutant is deserialised and, when accepted, used (decaps, recaps, header decryption, refresh, encaps, mpk, update, rekey, accessors, re-serialisation; accepted structures and master keys are then edited — attributes added, renamed, disabled, deleted, a dimension added — and updated) in a worker process under RLIMIT_AS, a 10 s watchdog and a counting allocator; oracle: no panic / crash / timeout, largest allocation request <= 64 x input + 1 MiB, peak <= 256 x input + 4 MiB; accepted mutants must also be accepted by the Lean wire model; time proportional to the input: a user key, a public key and an encapsulation with thousands of distinct elements, and ten times as many (built from the base objects), may differ by a factor of about ten in the time to deserialise and use them (factor > 35 = violation); distinct = distinct (type, bytes)",
            "exhaustive": false, "per_line": true, "oracle_failures": fails, "oracle_checked": results.len(), "campaign": "C14",
            "distribution": {"accepted_mutants_checked_against_model": mlines.len(), "worst_maxreq_per_input_byte": worst_ratio, "scaling": scaling},
            "wall_s": t0.elapsed().as_secs_f64()},
    });
    std::fs::write(out, serde_json::to_string_pretty(&j).unwrap()).unwrap();
    eprintln!("C14 {tier} cfg={} mutants={} accepted={} failures={} model_rejects={} ({:.1}s)", crate::util::CFG, results.len(), mlines.len(), fails.len(), mism.len(), t0.elapsed().as_secs_f64());
}
