//! C16 (support run, not a proof): long runs of repeated identical calls, across threads and
//! instances; every value that must be fresh is extracted from the serialised outputs and checked
//! to be pairwise distinct.

use std::collections::{BTreeMap, HashSet};
use std::sync::{Arc, Mutex};

use cosmian_cover_crypt::{
    api::Covercrypt, traits::{KemAc, PkeAc}, AccessPolicy, EncryptedHeader, EncryptionHint, MasterPublicKey, QualifiedAttribute,
};
use cosmian_crypto_core::{bytes_ser_de::Serializable, Aes256Gcm};

use crate::util::hex;
use crate::wire::{WEnc, WMpk, WUsk};

#[derive(Default)]
struct Seen {
    sets: BTreeMap<&'static str, HashSet<Vec<u8>>>,
    counts: BTreeMap<&'static str, usize>,
    dups: Vec<(String, String)>,
}

impl Seen {
    fn add(&mut self, cat: &'static str, v: &[u8]) {
        *self.counts.entry(cat).or_default() += 1;
        if !self.sets.entry(cat).or_default().insert(v.to_vec()) && self.dups.len() < 20 {
            self.dups.push((cat.to_string(), hex(v)));
        }
    }
}

pub fn run(tier: &str, seed: u64, out: &str) {
    let t0 = std::time::Instant::now();
    let total: usize = if tier == "thorough" { 400_000 } else { 12_000 };
    let threads = 8usize;
    let instances = [Arc::new(Covercrypt::default()), Arc::new(Covercrypt::default())];
    let seen = Arc::new(Mutex::new(Seen::default()));
    // one master key per instance, same structure
    let mut bases = vec![];
    for cc in &instances {
        let (mut msk, _) = cc.setup().unwrap();
        let s = &mut msk.access_structure;
        s.add_hierarchy("S".into()).unwrap();
        s.add_attribute(QualifiedAttribute::new("S", "L"), EncryptionHint::Classic, None).unwrap();
        s.add_attribute(QualifiedAttribute::new("S", "T"), EncryptionHint::Hybridized, Some("L")).unwrap();
        s.add_anarchy("D".into()).unwrap();
        s.add_attribute(QualifiedAttribute::new("D", "A"), EncryptionHint::Classic, None).unwrap();
        let mpk = cc.update_msk(&mut msk).unwrap();
        bases.push((msk.serialize().unwrap().to_vec(), mpk.serialize().unwrap().to_vec()));
    }
    // key separation: the secret handed to the caller of `EncryptedHeader::generate` must not be the key (nor
    // open as a key) of the encrypted metadata, whatever authentication data the caller chooses — in
    // particular data that looks like the derivation labels
    let mut sep_fails: Vec<serde_json::Value> = vec![];
    let mut sep_checked = 0usize;
    {
        use cosmian_crypto_core::{Dem, FixedSizeCBytes, Instantiable, Nonce, SymmetricKey};
        let cc = &instances[0];
        let mpk = MasterPublicKey::deserialize(&bases[0].1).unwrap();
        let pol = AccessPolicy::parse("D::A").unwrap();
        let mut ads: Vec<Option<Vec<u8>>> = vec![None, Some(vec![]), Some(b"ad".to_vec()), Some(vec![0; 32]), Some(vec![1; 32])];
        for b in 0..=255u8 {
            ads.push(Some(vec![b]));
            ads.push(Some(vec![0, b]));
            ads.push(Some(vec![1, b]));
        }
        for ad in &ads {
            let (sec, h) = EncryptedHeader::generate(cc, &mpk, &pol, Some(b"some metadata"), ad.as_deref()).unwrap();
            let ctx = h.encrypted_metadata.as_ref().unwrap();
            sep_checked += 1;
            let key = SymmetricKey::<{ Aes256Gcm::KEY_LENGTH }>::try_from_bytes({ let mut k = [0u8; 32]; k.copy_from_slice(&sec[..]); k }).unwrap();
            let nonce = Nonce::try_from_slice(&ctx[..Aes256Gcm::NONCE_LENGTH]).unwrap();
            for try_ad in [ad.as_deref(), None] {
                if Aes256Gcm::new(&key).decrypt(&nonce, &ctx[Aes256Gcm::NONCE_LENGTH..], try_ad).is_ok() && sep_fails.len() < 10 {
                    sep_fails.push(serde_json::json!({
                        "kind": "impl-oracle", "oracle": "key-separation", "tags": ["header"],
                        "what": format!("the secret returned by EncryptedHeader::generate opens the encrypted metadata (authentication data {:?})", ad),
                        "lines": [format!("hdr_gen policy=D::A metadata=\"some metadata\" ad={}", ad.as_ref().map(|a| hex(a)).unwrap_or("-".into()))], "case": "key-separation"}));
                }
            }
        }
    }
    // the DEM entry point itself (public trait `AE`): two encryptions under the *same* key, same plaintext
    {
        use cosmian_cover_crypt::traits::AE;
        use cosmian_crypto_core::{reexport::rand_core::SeedableRng, CsRng, FixedSizeCBytes, SymmetricKey};
        let mut rng = CsRng::from_entropy();
        let key = SymmetricKey::<{ Aes256Gcm::KEY_LENGTH }>::try_from_bytes([7u8; 32]).unwrap();
        let mut nonces = std::collections::HashSet::new();
        let n_ae = 2000usize;
        for _ in 0..n_ae {
            let ctx = <Aes256Gcm as AE<{ Aes256Gcm::KEY_LENGTH }>>::encrypt(&mut rng, &key, b"same plaintext").unwrap();
            sep_checked += 1;
            if !nonces.insert(ctx[..12].to_vec()) && sep_fails.len() < 10 {
                sep_fails.push(serde_json::json!({
                    "kind": "impl-oracle", "oracle": "freshness", "tags": ["AE nonce under one key"],
                    "what": format!("two AE::encrypt calls under the same key used the same nonce {}", hex(&ctx[..12])),
                    "lines": ["ae_encrypt key=07*32 ptx=\"same plaintext\" (twice)"], "case": "ae-nonce"}));
            }
        }
    }
    let per = total / threads;
    let mut hs = vec![];
    for t in 0..threads {
        let cc = instances[t % 2].clone();
        let (mskb, mpkb) = bases[t % 2].clone();
        let seen = seen.clone();
        hs.push(std::thread::spawn(move || {
            let mut msk = cosmian_cover_crypt::MasterSecretKey::deserialize(&mskb).unwrap();
            let mpk = MasterPublicKey::deserialize(&mpkb).unwrap();
            // a copy of the master key that is never rotated: it can always re-open encapsulations made under `mpk`
            let msk0 = cosmian_cover_crypt::MasterSecretKey::deserialize(&mskb).unwrap();
            let pol_c = AccessPolicy::parse("D::A && S::L || D::A").unwrap();
            let pol_h = AccessPolicy::parse("S::T").unwrap();
            let mut local = Seen::default();
            for i in 0..per {
                // identical arguments every time
                let pol = if i % 2 == 0 { &pol_c } else { &pol_h };
                let (ss, x) = cc.encaps(&mpk, pol).unwrap();
                let w = WEnc::read(&x.serialize().unwrap()).unwrap();
                local.add("encapsulation tag", &w.tag);
                for c in &w.c {
                    local.add("trap", c);
                }
                for (e, f) in &w.encs {
                    local.add("masked seed F", f);
                    if !e.is_empty() {
                        local.add("ML-KEM ciphertext", e);
                    }
                }
                local.add("shared secret", &ss[..]);
                if i % 8 == 1 {
                    // re-encapsulation must be as fresh as an encapsulation: new seed, hence new traps, tag, masked seeds
                    if let Ok((ss2, x2)) = cc.recaps(&msk0, &mpk, &x) {
                        let w2 = WEnc::read(&x2.serialize().unwrap()).unwrap();
                        local.add("encapsulation tag", &w2.tag);
                        for c in &w2.c {
                            local.add("trap", c);
                        }
                        for (e, f) in &w2.encs {
                            local.add("masked seed F", f);
                            if !e.is_empty() {
                                local.add("ML-KEM ciphertext", e);
                            }
                        }
                        local.add("shared secret", &ss2[..]);
                    }
                }
                if i % 4 == 0 {
                    let (_, ctx) = PkeAc::<{ Aes256Gcm::KEY_LENGTH }, Aes256Gcm>::encrypt(&*cc, &mpk, &pol_c, b"same plaintext").unwrap();
                    local.add("PKE nonce", &ctx[..12]);
                    let (sec, h) = EncryptedHeader::generate(&cc, &mpk, &pol_c, Some(b"same metadata"), Some(b"ad")).unwrap();
                    local.add("header metadata nonce", &h.encrypted_metadata.as_ref().unwrap()[..12]);
                    local.add("header secret", &sec[..]);
                }
                if i % 16 == 0 {
                    let u = cc.generate_user_secret_key(&mut msk, &pol_c).unwrap();
                    let w = WUsk::read(&u.serialize().unwrap()).unwrap();
                    local.add("user id", &w.id.concat());
                    for m in &w.id[..w.id.len() - 1] {
                        local.add("user id marker", m);
                    }
                }
                if i % 64 == 0 {
                    let k = cc.rekey(&mut msk, &AccessPolicy::parse("D::A").unwrap()).unwrap();
                    let w = WMpk::read(&k.serialize().unwrap()).unwrap();
                    // the public values of the rekeyed rights ([A], [A,L], [A,T]) are new; collect those of right D::A only
                    for (r, key) in &w.keys {
                        if r.len() == 1 && r[0] == 2 {
                            local.add("published public value of the rekeyed right", &key.a);
                        }
                    }
                    // keep the chains short
                    let _ = cc.prune_master_secret_key(&mut msk, &AccessPolicy::Broadcast);
                }
            }
            let mut g = seen.lock().unwrap();
            for (cat, set) in local.sets {
                for v in set {
                    // merged into the global sets: duplicates across threads / instances are found here
                    *g.counts.entry(cat).or_default() += 1;
                    if !g.sets.entry(cat).or_default().insert(v.clone()) && g.dups.len() < 20 {
                        g.dups.push((cat.to_string(), hex(&v)));
                    }
                }
            }
            g.dups.extend(local.dups);
        }));
    }
    for h in hs {
        h.join().unwrap();
    }
    // instances of their own: every thread builds its instances itself (the one-instance-per-thread pattern of bindings and
    // servers), then makes the same calls as everybody else; whatever they draw must be fresh across threads and across
    // instances, and with respect to everything drawn above
    let own_threads = 6usize;
    let own_iters = if tier == "thorough" { 400usize } else { 40 };
    let mut hs = vec![];
    for t in 0..own_threads {
        let (mskb, mpkb) = bases[0].clone();
        let seen = seen.clone();
        hs.push(std::thread::spawn(move || {
            let mut local = Seen::default();
            for _inst in 0..2 {
                let cc = Covercrypt::default();
                let mut msk = cosmian_cover_crypt::MasterSecretKey::deserialize(&mskb).unwrap();
                let mpk = MasterPublicKey::deserialize(&mpkb).unwrap();
                let pol_c = AccessPolicy::parse("D::A && S::L || D::A").unwrap();
                let pol_h = AccessPolicy::parse("S::T").unwrap();
                for i in 0..own_iters {
                    let pol = if i % 2 == 0 { &pol_c } else { &pol_h };
                    let (ss, x) = cc.encaps(&mpk, pol).unwrap();
                    let w = WEnc::read(&x.serialize().unwrap()).unwrap();
                    local.add("encapsulation tag", &w.tag);
                    for c in &w.c {
                        local.add("trap", c);
                    }
                    for (e, f) in &w.encs {
                        local.add("masked seed F", f);
                        if !e.is_empty() {
                            local.add("ML-KEM ciphertext", e);
                        }
                    }
                    local.add("shared secret", &ss[..]);
                    if i % 4 == 0 {
                        let (_, ctx) = PkeAc::<{ Aes256Gcm::KEY_LENGTH }, Aes256Gcm>::encrypt(&cc, &mpk, &pol_c, b"same plaintext").unwrap();
                        local.add("PKE nonce", &ctx[..12]);
                        let (sec, h) = EncryptedHeader::generate(&cc, &mpk, &pol_c, Some(b"same metadata"), Some(b"ad")).unwrap();
                        local.add("header metadata nonce", &h.encrypted_metadata.as_ref().unwrap()[..12]);
                        local.add("header secret", &sec[..]);
                        let u = cc.generate_user_secret_key(&mut msk, &pol_c).unwrap();
                        let w = WUsk::read(&u.serialize().unwrap()).unwrap();
                        local.add("user id", &w.id.concat());
                    }
                    if i % 16 == 0 {
                        let k = cc.rekey(&mut msk, &AccessPolicy::parse("D::A").unwrap()).unwrap();
                        let w = WMpk::read(&k.serialize().unwrap()).unwrap();
                        for (r, key) in &w.keys {
                            if r.len() == 1 && r[0] == 2 {
                                local.add("published public value of the rekeyed right", &key.a);
                            }
                        }
                    }
                }
                // a master key set up by this instance: its public tracers and first public value are drawn by it
                let (m2, k2) = cc.setup().unwrap();
                let _ = m2;
                let w = WMpk::read(&k2.serialize().unwrap()).unwrap();
                for p in &w.tpk {
                    local.add("public tracer of a fresh master key", p);
                }
            }
            let mut g = seen.lock().unwrap();
            for (cat, set) in local.sets {
                for v in set {
                    *g.counts.entry(cat).or_default() += 1;
                    if !g.sets.entry(cat).or_default().insert(v.clone()) && g.dups.len() < 20 {
                        g.dups.push((format!("{cat} (instances built by different threads, thread {t})"), hex(&v)));
                    }
                }
            }
            g.dups.extend(local.dups);
        }));
    }
    for h in hs {
        h.join().unwrap();
    }
    let g = seen.lock().unwrap();
    let fails: Vec<serde_json::Value> = g.dups.iter().map(|(cat, v)| serde_json::json!({
        "kind": "impl-oracle", "oracle": "freshness", "tags": [cat], "what": format!("{cat} repeated: {v}"), "lines": [], "case": cat})).chain(sep_fails.iter().cloned()).collect();
    let values: usize = g.counts.values().sum();
    let distinct: usize = g.sets.values().map(|s| s.len()).sum();
    let j = serde_json::json!({
        "property": "C16", "tier": tier, "seed": seed, "config": crate::util::CFG, "cases": per * threads, "lines": values,
        "distinct_traces": distinct, "distinct_lines": distinct, "op_hist": g.counts, "status_hist": {}, "err_kind_hist": {},
        "soft_kind_mismatch": 0, "matrix_cells": 0, "matrix_open": 0,
        "samples": [{"iterations": per * threads, "threads": threads, "instances": 2, "categories": g.counts.keys().collect::<Vec<_>>()}],
        "mismatches": [],
        "extra": {"rule": format!("{} iterations of identical calls (encaps for a classic and a hybridised policy, re-encapsulation of the result, PKE encryption of the same plaintext, header generation with the same metadata, key generation, rekey of one right) on {} threads over 2 instances, then 6 threads that each build 2 instances of their own and make the same calls (and set up a master key: its public tracers); tags, traps, masked seeds, ML-KEM ciphertexts, shared secrets, AEAD nonces, header secrets, user ids and markers, published public values are extracted from the serialised outputs and must be pairwise distinct within and across threads and instances; plus 2000 direct AE::encrypt calls under one fixed key (nonces pairwise distinct), plus key separation: for 773 choices of authentication data (absent, empty, every one-byte value, 0x00/0x01 followed by every byte, longer ones) the secret returned by EncryptedHeader::generate must not open the encrypted metadata as an AES-256-GCM key; statistical support only (birthday bound 2^-64 for the 96-bit nonces at 10^6 draws is negligible); distinct = distinct extracted values", per * threads, threads),
            "exhaustive": false, "per_line": true, "oracle_failures": fails, "oracle_checked": values + sep_checked, "campaign": "C16", "wall_s": t0.elapsed().as_secs_f64()},
    });
    std::fs::write(out, serde_json::to_string_pretty(&j).unwrap()).unwrap();
    eprintln!("C16 {tier} cfg={} iterations={} values={} distinct={} duplicates={} ({:.1}s)", crate::util::CFG, per * threads, values, distinct, g.dups.len(), t0.elapsed().as_secs_f64());
}
