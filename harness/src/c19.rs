//! C19 (support run): one instance shared by many threads; every call must return what it would
//! return alone, and everything must finish under a watchdog.

use std::sync::atomic::{AtomicBool, Ordering};
use std::sync::{mpsc, Arc};
use std::time::Duration;

use cosmian_cover_crypt::{
    api::Covercrypt, traits::{KemAc, PkeAc}, AccessPolicy, EncryptedHeader, EncryptionHint, MasterPublicKey, MasterSecretKey, QualifiedAttribute,
};
use cosmian_crypto_core::{bytes_ser_de::Serializable, reexport::rand_core::RngCore, Aes256Gcm};

pub fn run(tier: &str, seed: u64, out: &str) {
    let t0 = std::time::Instant::now();
    let iters: usize = if tier == "thorough" { 20_000 } else { 600 };
    let mut fails: Vec<serde_json::Value> = vec![];
    let mut total_calls = 0usize;
    let mut configs = vec![];
    for threads in [8usize, 2, 4, 16] {
        let cc = Arc::new(Covercrypt::default());
        let (mut msk, _) = cc.setup().unwrap();
        {
            let s = &mut msk.access_structure;
            s.add_hierarchy("S".into()).unwrap();
            s.add_attribute(QualifiedAttribute::new("S", "L"), EncryptionHint::Classic, None).unwrap();
            s.add_attribute(QualifiedAttribute::new("S", "T"), EncryptionHint::Hybridized, Some("L")).unwrap();
            s.add_anarchy("D".into()).unwrap();
            s.add_attribute(QualifiedAttribute::new("D", "A"), EncryptionHint::Classic, None).unwrap();
            s.add_attribute(QualifiedAttribute::new("D", "B"), EncryptionHint::Classic, None).unwrap();
        }
        let mpk = cc.update_msk(&mut msk).unwrap();
        let mskb = msk.serialize().unwrap().to_vec();
        let mpkb = mpk.serialize().unwrap().to_vec();
        let (tx, rx) = mpsc::channel::<(usize, usize, Vec<String>, Vec<Vec<u8>>)>();
        let mut fresh_all: std::collections::HashSet<Vec<u8>> = Default::default();
        let mut fresh_count = 0usize;
        // two more threads use the public accessor `Covercrypt::rng()` directly, as `EncryptedHeader::generate` does for its
        // nonce: very short critical sections, taken as fast as possible - another contention pattern on the same mutex; what
        // they draw must be as fresh as everything else
        let stop = Arc::new(AtomicBool::new(false));
        let mut drawers = vec![];
        for _ in 0..2 {
            let (cc, stop) = (cc.clone(), stop.clone());
            drawers.push(std::thread::spawn(move || {
                let mut drawn: Vec<Vec<u8>> = vec![];
                let mut k = 0usize;
                while !stop.load(Ordering::Relaxed) {
                    let mut b = [0u8; 24];
                    cc.rng().fill_bytes(&mut b);
                    if k % 64 == 0 && drawn.len() < 4000 {
                        drawn.push(b.to_vec());
                    }
                    k += 1;
                    if k % 16 == 0 {
                        std::thread::yield_now();
                    }
                }
                drawn
            }));
        }
        // every completed iteration of any worker counts as progress: no progress at all for a while = blocked
        let progress = std::sync::Arc::new(std::sync::atomic::AtomicUsize::new(0));
        for t in 0..threads {
            let cc = cc.clone();
            let (mskb, mpkb) = (mskb.clone(), mpkb.clone());
            let tx = tx.clone();
            let per = iters / threads + 1;
            let progress = progress.clone();
            std::thread::spawn(move || {
                let mut errs = vec![];
                let mut calls = 0;
                // values that must be fresh across threads: encapsulation tags, AEAD nonces, user ids
                let mut fresh: Vec<Vec<u8>> = vec![];
                let mut msk = MasterSecretKey::deserialize(&mskb).unwrap();
                let mpk = MasterPublicKey::deserialize(&mpkb).unwrap();
                let ok_pol = AccessPolicy::parse(if t % 2 == 0 { "D::A && S::T" } else { "D::A" }).unwrap();
                let enc_pol = AccessPolicy::parse("D::A && S::L").unwrap();
                let no_pol = AccessPolicy::parse("D::B && S::T").unwrap();
                let mut usk = cc.generate_user_secret_key(&mut msk, &ok_pol).unwrap();
                for i in 0..per {
                    progress.fetch_add(1, Ordering::Relaxed);
                    let (s, x) = cc.encaps(&mpk, &enc_pol).unwrap();
                    fresh.push(x.serialize().unwrap()[..16].to_vec());
                    fresh.push(s.to_vec());
                    if cc.decaps(&usk, &x).unwrap() != Some(s) {
                        errs.push(format!("thread {t} iter {i}: decaps does not return the encapsulated secret"));
                    }
                    let (_, y) = cc.encaps(&mpk, &no_pol).unwrap();
                    if cc.decaps(&usk, &y).unwrap().is_some() {
                        errs.push(format!("thread {t} iter {i}: unauthorised decaps returned a secret"));
                    }
                    calls += 4;
                    if i % 3 == 0 {
                        let ptx = format!("plaintext {t} {i}");
                        // arguments that change from call to call (the same audience written differently: `P || P || …`), while
                        // the other threads keep calling the other entry points with the arguments they always use
                        let var_pol = AccessPolicy::parse(&vec!["D::A && S::L"; 1 + (t * per + i) % 48].join(" || ")).unwrap();
                        let c = PkeAc::<{ Aes256Gcm::KEY_LENGTH }, Aes256Gcm>::encrypt(&*cc, &mpk, &var_pol, ptx.as_bytes()).unwrap();
                        fresh.push(c.1[..12].to_vec());
                        let p = PkeAc::<{ Aes256Gcm::KEY_LENGTH }, Aes256Gcm>::decrypt(&*cc, &usk, &c).unwrap();
                        if p.as_deref().map(|v| v.as_slice()) != Some(ptx.as_bytes()) {
                            errs.push(format!("thread {t} iter {i}: PKE round trip differs"));
                        }
                        let (sec, h) = EncryptedHeader::generate(&cc, &mpk, &enc_pol, Some(b"md"), Some(b"ad")).unwrap();
                        fresh.push(h.encrypted_metadata.as_ref().unwrap()[..12].to_vec());
                        match h.decrypt(&cc, &usk, Some(b"ad")).unwrap() {
                            Some(c) if c.secret == sec && c.metadata.as_deref() == Some(&b"md"[..]) => {}
                            _ => errs.push(format!("thread {t} iter {i}: header round trip differs")),
                        }
                        calls += 4;
                    }
                    if i % 7 == 0 {
                        let _ = cc.rekey(&mut msk, &AccessPolicy::parse("D::A").unwrap()).unwrap();
                        cc.refresh_usk(&mut msk, &mut usk, i % 2 == 0).unwrap();
                        let _ = cc.prune_master_secret_key(&mut msk, &AccessPolicy::Broadcast).unwrap();
                        // keys refreshed in this thread still open encapsulations under the shared (older) public key only with keep
                        let k2 = cc.generate_user_secret_key(&mut msk, &ok_pol).unwrap();
                        let m2 = msk.mpk().unwrap();
                        let (s2, x2) = cc.encaps(&m2, &enc_pol).unwrap();
                        if cc.decaps(&k2, &x2).unwrap() != Some(s2) {
                            errs.push(format!("thread {t} iter {i}: fresh key does not open an encapsulation under the fresh public key"));
                        }
                        calls += 6;
                        // go back to the shared state so that the shared mpk stays usable by this thread
                        msk = MasterSecretKey::deserialize(&mskb).unwrap();
                        usk = cc.generate_user_secret_key(&mut msk, &ok_pol).unwrap();
                    }
                }
                fresh.push(usk.serialize().unwrap()[1..65].to_vec());
                let _ = tx.send((t, calls, errs, fresh));
            });
        }
        drop(tx);
        let mut done = 0;
        let deadline = Duration::from_secs(if tier == "thorough" { 300 } else { 120 });
        let start = std::time::Instant::now();
        let stall = Duration::from_secs(60);
        let mut last_progress = (progress.load(Ordering::Relaxed), std::time::Instant::now());
        while done < threads {
            let r = rx.recv_timeout(Duration::from_secs(1));
            if let Err(mpsc::RecvTimeoutError::Timeout) = r {
                let p = progress.load(Ordering::Relaxed);
                if p != last_progress.0 {
                    last_progress = (p, std::time::Instant::now());
                }
                if start.elapsed() < deadline && last_progress.1.elapsed() < stall {
                    continue;
                }
            }
            match r {
                Ok((_, calls, errs, fresh)) => {
                    done += 1;
                    total_calls += calls;
                    for v in fresh {
                        fresh_count += 1;
                        if !fresh_all.insert(v.clone()) && fails.len() < 20 {
                            fails.push(serde_json::json!({"kind": "impl-oracle", "oracle": "concurrent-freshness", "tags": ["repeated-across-threads"],
                                "what": format!("a value that must be fresh (encapsulation tag / secret / AEAD nonce / user id) was produced twice by calls on one shared instance with {threads} threads: {}", crate::util::hex(&v)), "lines": [], "case": format!("{threads} threads")}));
                        }
                    }
                    for e in errs.into_iter().take(5) {
                        fails.push(serde_json::json!({"kind": "impl-oracle", "oracle": "concurrent-result", "tags": ["result-differs"], "what": e, "lines": [], "case": format!("{threads} threads")}));
                    }
                }
                Err(_) => {
                    fails.push(serde_json::json!({"kind": "impl-oracle", "oracle": "concurrent-progress", "tags": ["blocked"],
                        "what": format!("{} of {threads} threads did not finish (limit {:?}; no iteration completed by any thread during the last {:?}): a call blocks (deadlock) or a thread died", threads - done, deadline, last_progress.1.elapsed()), "lines": [], "case": format!("{threads} threads")}));
                    break;
                }
            }
        }
        stop.store(true, Ordering::Relaxed);
        for d in drawers {
            // a drawer that never comes back is blocked on the generator's mutex
            let (dtx, drx) = mpsc::channel();
            std::thread::spawn(move || { let _ = dtx.send(d.join()); });
            match drx.recv_timeout(Duration::from_secs(30)) {
                Ok(Ok(drawn)) => {
                    for v in drawn {
                        if !fresh_all.insert(v.clone()) && fails.len() < 20 {
                            fails.push(serde_json::json!({"kind": "impl-oracle", "oracle": "concurrent-freshness", "tags": ["repeated-across-threads"],
                                "what": format!("bytes drawn through Covercrypt::rng() were produced twice on one shared instance with {threads} threads: {}", crate::util::hex(&v)), "lines": [], "case": format!("{threads} threads")}));
                        }
                    }
                }
                _ => {
                    if !fails.iter().any(|f| f["oracle"] == "concurrent-progress") {
                        fails.push(serde_json::json!({"kind": "impl-oracle", "oracle": "concurrent-progress", "tags": ["blocked"],
                            "what": format!("a thread drawing through Covercrypt::rng() did not come back ({threads} worker threads): the generator's mutex is never handed to it, or it died"), "lines": [], "case": format!("{threads} threads")}));
                    }
                }
            }
        }
        let _ = fresh_count;
        configs.push(threads);
        // blocked threads keep the instance busy for ever: one report is enough
        if fails.iter().any(|f| f["oracle"] == "concurrent-progress") {
            break;
        }
    }
    // fresh instances handed straight to several threads: the very first uses of an instance race each other (keys come
    // from another instance); every call must return what it returns alone - no panic, round trips, distinct secrets
    // (not when calls were already found to block: the threads of this phase are joined without a limit)
    if !fails.iter().any(|f| f["oracle"] == "concurrent-progress") {
        let admin = Covercrypt::default();
        let (mut msk, _) = admin.setup().unwrap();
        msk.access_structure.add_anarchy("D".into()).unwrap();
        msk.access_structure.add_attribute(QualifiedAttribute::new("D", "A"), EncryptionHint::Hybridized, None).unwrap();
        let mpk = admin.update_msk(&mut msk).unwrap();
        let pol = AccessPolicy::parse("D::A").unwrap();
        let usk = admin.generate_user_secret_key(&mut msk, &pol).unwrap();
        let (mpkb, uskb) = (mpk.serialize().unwrap().to_vec(), usk.serialize().unwrap().to_vec());
        let rounds = if tier == "thorough" { 400 } else { 40 };
        let mut all: std::collections::HashSet<Vec<u8>> = Default::default();
        'rounds: for round in 0..rounds {
            let cc = Arc::new(Covercrypt::default());
            let barrier = Arc::new(std::sync::Barrier::new(8));
            let mut hs = vec![];
            for _ in 0..8 {
                let (cc, barrier, mpkb, uskb, pol) = (cc.clone(), barrier.clone(), mpkb.clone(), uskb.clone(), pol.clone());
                hs.push(std::thread::spawn(move || {
                    let mpk = MasterPublicKey::deserialize(&mpkb).unwrap();
                    let usk = cosmian_cover_crypt::UserSecretKey::deserialize(&uskb).unwrap();
                    barrier.wait();
                    let (s, x) = cc.encaps(&mpk, &pol).unwrap();
                    let ok = cc.decaps(&usk, &x).unwrap() == Some(s.clone());
                    (ok, s.to_vec())
                }));
            }
            for h in hs {
                total_calls += 2;
                match h.join() {
                    Ok((ok, s)) => {
                        if !ok || !all.insert(s) {
                            fails.push(serde_json::json!({"kind": "impl-oracle", "oracle": "concurrent-result", "tags": ["fresh-instance"],
                                "what": format!("round {round}: a call on a freshly created instance shared by 8 threads did not open its own encapsulation, or returned a secret already returned"), "lines": [], "case": "fresh instance"}));
                            break 'rounds;
                        }
                    }
                    Err(p) => {
                        let msg = p.downcast_ref::<String>().cloned().or_else(|| p.downcast_ref::<&str>().map(|s| s.to_string())).unwrap_or_default();
                        fails.push(serde_json::json!({"kind": "impl-oracle", "oracle": "concurrent-result", "tags": ["fresh-instance", "panic"],
                            "what": format!("round {round}: a call on a freshly created instance shared by 8 threads panicked ({}): it does not return what it returns alone", msg.chars().take(160).collect::<String>()), "lines": [], "case": "fresh instance"}));
                        break 'rounds;
                    }
                }
            }
        }
    }
    let j = serde_json::json!({
        "property": "C19", "tier": tier, "seed": seed, "config": crate::util::CFG, "cases": configs.len(), "lines": total_calls,
        "distinct_traces": configs.len(), "distinct_lines": total_calls, "op_hist": {"api calls": total_calls}, "status_hist": {}, "err_kind_hist": {},
        "soft_kind_mismatch": 0, "matrix_cells": 0, "matrix_open": 0,
        "samples": [{"threads": configs, "iterations_per_configuration": iters}],
        "mismatches": [],
        "extra": {"rule": format!("one shared Covercrypt instance used by 8, 2, 4 and 16 threads (the contended configuration first) ({iters} iterations per configuration) for encapsulation, decapsulation (authorised and unauthorised), PKE encryption (with a policy written differently at every call) / decryption, header generation / decryption, key generation, rekey, refresh, prune on thread-local key objects, while two more threads draw through the public accessor Covercrypt::rng() in very short critical sections; then fresh instances whose very first uses race each other on 8 threads released together; every result is compared with what the call returns alone (round trips, None for unauthorised); a watchdog bounds the whole run; support for the part of C19 the model cannot exhibit; distinct = API calls made (each with fresh randomness)"),
            "exhaustive": false, "per_line": true, "oracle_failures": fails, "oracle_checked": total_calls, "campaign": "C19", "wall_s": t0.elapsed().as_secs_f64()},
    });
    std::fs::write(out, serde_json::to_string_pretty(&j).unwrap()).unwrap();
    eprintln!("C19 {tier} cfg={} calls={} failures={} ({:.1}s)", crate::util::CFG, total_calls, j["extra"]["oracle_failures"].as_array().unwrap().len(), t0.elapsed().as_secs_f64());
}
