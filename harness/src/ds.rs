//! The data structures of `src/data_struct` driven directly (hook `verif_hooks`, guarded by
//! `--cfg cosmian_cover_crypt_verif`): `Dict<String, u32>`, `RevisionMap<String, u32>`,
//! `RevisionVec<String, u32>` execute the same operation lines as the Lean definitions the theorems
//! are about (`DictRep`, `RevMap`, `RevVec` / `revisions`); outputs are compared line by line. Only what the
//! library itself observes of an operation is printed (it ignores what `Dict::insert` and `RevisionMap::keep`
//! return, and only asks `Dict::remove` whether the key was there); the state is compared through the readers.

use crate::props::Plan;
use crate::run::Case;
use crate::util::SplitMix64;

#[cfg(have_ds_hooks)]
use cosmian_cover_crypt::verif_hooks::{Dict, RevisionMap, RevisionVec};
#[cfg(have_ds_hooks)]
use std::collections::LinkedList;

pub const AVAILABLE: bool = cfg!(have_ds_hooks);

#[cfg(have_ds_hooks)]
pub struct Ds {
    dict: Dict<String, u32>,
    rmap: RevisionMap<String, u32>,
    rvec: RevisionVec<String, u32>,
}

#[cfg(not(have_ds_hooks))]
pub struct Ds;

fn opt(v: Option<u32>) -> String {
    match v {
        None => "ok -".into(),
        Some(v) => format!("ok {v}"),
    }
}

fn dots<'a>(it: impl Iterator<Item = &'a u32>) -> String {
    it.map(|v| v.to_string()).collect::<Vec<_>>().join(".")
}

#[cfg(not(have_ds_hooks))]
impl Ds {
    pub fn new() -> Self { Ds }
    pub fn step(&mut self, _t: &[&str]) -> Option<String> { None }
}

#[cfg(have_ds_hooks)]
impl Ds {
    pub fn new() -> Self {
        Ds { dict: Dict::new(), rmap: RevisionMap::new(), rvec: RevisionVec::new() }
    }

    /// `None`: not a data-structure line
    pub fn step(&mut self, t: &[&str]) -> Option<String> {
        let num = |s: &str| s.parse::<u32>().ok();
        Some(match t {
            ["d_new"] => { self.dict = Dict::new(); "ok".into() }
            ["d_insert", k, v] => { self.dict.insert(k.to_string(), num(v)?); "ok".into() }
            ["d_remove", k] => format!("ok {}", self.dict.remove(&k.to_string()).is_some() as u8),
            ["d_rename", a, b] => match self.dict.update_key(&a.to_string(), b.to_string()) {
                Ok(()) => "ok".into(),
                // which of the two errors it is travels in an internal error type whose names are free to change
                Err(_) => "err".into(),
            },
            ["d_get", k] => opt(self.dict.get(*k).copied()),
            ["d_has", k] => format!("ok {}", self.dict.contains_key(*k) as u8),
            ["d_set", k, v] => { let v = num(v)?; match self.dict.get_mut(*k) { Some(x) => { *x = v; "ok 1".into() } None => "ok 0".into() } }
            ["d_len"] => format!("ok {}", self.dict.len()),
            ["d_iter"] => {
                // three views of the same order must agree
                let a: Vec<String> = self.dict.iter().map(|(k, v)| format!("{k}={v}")).collect();
                let b: Vec<String> = self.dict.keys().zip(self.dict.values()).map(|(k, v)| format!("{k}={v}")).collect();
                let c: Vec<String> = self.dict.clone().into_iter().map(|(k, v)| format!("{k}={v}")).collect();
                if a != b || a != c { format!("ok views-differ {a:?} {b:?} {c:?}") } else { format!("ok {}", a.join(",")) }
            }
            ["d_from", l] => {
                let pairs: Vec<(String, u32)> = if *l == "-" { vec![] } else { l.split(',').filter_map(|kv| { let (k, v) = kv.split_once('=')?; Some((k.to_string(), v.parse().ok()?)) }).collect() };
                self.dict = pairs.into_iter().collect();
                "ok".into()
            }
            ["m_new"] => { self.rmap = RevisionMap::new(); "ok".into() }
            ["m_insert", k, v] => { self.rmap.insert(k.to_string(), num(v)?); "ok".into() }
            ["m_latest", k] => opt(self.rmap.get_latest(*k).copied()),
            ["m_setlatest", k, v] => { let v = num(v)?; match self.rmap.get_latest_mut(*k) { Some(x) => { *x = v; "ok 1".into() } None => "ok 0".into() } }
            ["m_has", k] => format!("ok {}", self.rmap.contains_key(&k.to_string()) as u8),
            ["m_get", k] => match self.rmap.get(*k) { None => "ok -".into(), Some(c) => format!("ok {}", dots(c.iter())) },
            ["m_keep", k, n] => { let n = n.parse::<usize>().ok()?; let _ = self.rmap.keep(*k, n).map(|it| it.count()); "ok".into() }
            ["m_retain", ks] => { let keep: Vec<&str> = if *ks == "-" { vec![] } else { ks.split(',').collect() }; self.rmap.retain(|k| keep.contains(&k.as_str())); "ok".into() }
            ["m_len"] => format!("ok {}", self.rmap.len()),
            ["m_count"] => format!("ok {}", self.rmap.count_elements()),
            ["m_dump"] => {
                let mut rows: Vec<String> = self.rmap.iter().map(|(k, c)| format!("{k}:{}", dots(c.iter()))).collect();
                rows.sort();
                // `keys()` and `chain_length` must tell the same story
                let ok = self.rmap.keys().all(|k| self.rmap.chain_length(k) == self.rmap.get(k).map_or(0, |c| c.len())) && self.rmap.keys().count() == self.rmap.len();
                if ok { format!("ok {}", rows.join(";")) } else { format!("ok views-differ {}", rows.join(";")) }
            }
            ["v_from", l] => {
                let chains: Vec<(String, LinkedList<u32>)> = if *l == "-" { vec![] } else {
                    l.split(';').filter_map(|kc| { let (k, c) = kc.split_once(':')?; let c: LinkedList<u32> = if c.is_empty() { LinkedList::new() } else { c.split('.').filter_map(|v| v.parse().ok()).collect() }; Some((k.to_string(), c)) }).collect()
                };
                self.rvec = chains.into_iter().collect();
                "ok".into()
            }
            ["v_revisions"] => {
                let revs: Vec<String> = self.rvec.revisions().map(|rev| rev.iter().map(|(k, v)| format!("{k}={v}")).collect::<Vec<_>>().join(",")).collect();
                format!("ok {}", revs.join("|"))
            }
            ["v_len"] => format!("ok {}", self.rvec.len()),
            ["v_count"] => format!("ok {}", self.rvec.count_elements()),
            ["v_keys"] => format!("ok {}", self.rvec.clone().into_keys().collect::<Vec<_>>().join(",")),
            _ => return None,
        })
    }
}

/// random operation sequences over a small key alphabet (collisions are the point)
pub fn plan_ds(tier: &str, seed: u64) -> Plan {
    let thorough = tier == "thorough";
    let n_cases = if thorough { 30000 } else { 1500 };
    let n_ops = if thorough { 60 } else { 40 };
    let mut master = SplitMix64::new(seed ^ 0xD5D5);
    let keys = ["a", "b", "c", "d", "e", "é", "zz"];
    let mut cases = vec![];
    for i in 0..n_cases {
        let mut rng = SplitMix64::new(master.next());
        let mut lines = vec!["reset".to_string()];
        let k = |rng: &mut SplitMix64| { let span = if rng.below(4) == 0 { keys.len() } else { 4 }; keys[rng.below(span)].to_string() };
        let which = i % 3;
        for _ in 0..n_ops {
            let line = match which {
                0 => match rng.below(16) {
                    0..=4 => format!("d_insert {} {}", k(&mut rng), rng.below(50)),
                    5..=7 => format!("d_remove {}", k(&mut rng)),
                    8..=9 => format!("d_rename {} {}", k(&mut rng), k(&mut rng)),
                    10 => format!("d_get {}", k(&mut rng)),
                    11 => format!("d_has {}", k(&mut rng)),
                    12 => format!("d_set {} {}", k(&mut rng), rng.below(50)),
                    13 => "d_len".to_string(),
                    14 => {
                        let n = rng.below(6);
                        if n == 0 { "d_from -".to_string() } else { format!("d_from {}", (0..n).map(|_| format!("{}={}", k(&mut rng), rng.below(50))).collect::<Vec<_>>().join(",")) }
                    }
                    _ => "d_iter".to_string(),
                },
                1 => match rng.below(16) {
                    0..=4 => format!("m_insert {} {}", k(&mut rng), rng.below(64)),
                    5 => format!("m_latest {}", k(&mut rng)),
                    6..=7 => format!("m_setlatest {} {}", k(&mut rng), rng.below(64)),
                    8 => format!("m_has {}", k(&mut rng)),
                    9 => format!("m_get {}", k(&mut rng)),
                    10..=11 => format!("m_keep {} {}", k(&mut rng), rng.below(4)),
                    12 => {
                        let n = rng.below(5);
                        if n == 0 { "m_retain -".to_string() } else { format!("m_retain {}", (0..n).map(|_| k(&mut rng)).collect::<Vec<_>>().join(",")) }
                    }
                    13 => "m_len".to_string(),
                    14 => "m_count".to_string(),
                    _ => "m_dump".to_string(),
                },
                _ => match rng.below(6) {
                    0..=1 => {
                        // chains of unequal lengths, empty chains, no chain at all, duplicate keys
                        let n = rng.below(5);
                        if n == 0 { "v_from -".to_string() } else {
                            format!("v_from {}", (0..n).map(|_| { let len = rng.below(5); format!("{}:{}", k(&mut rng), (0..len).map(|_| rng.below(40).to_string()).collect::<Vec<_>>().join(".")) }).collect::<Vec<_>>().join(";"))
                        }
                    }
                    2..=3 => "v_revisions".to_string(),
                    4 => if rng.below(2) == 0 { "v_len".to_string() } else { "v_count".to_string() },
                    _ => "v_keys".to_string(),
                },
            };
            lines.push(line);
        }
        lines.push(match which { 0 => "d_iter", 1 => "m_dump", _ => "v_revisions" }.to_string());
        cases.push(Case::new(format!("ds-{i}"), lines));
    }
    Plan {
        per_line: false,
        cases,
        exhaustive: false,
        rule: format!("{n_cases} random sequences of {n_ops} operations on the real Dict<String, u32> (insert, remove, update_key, get, get_mut, contains_key, len, iter / keys / values / into_iter, FromIterator), RevisionMap<String, u32> (insert, get_latest, get_latest_mut, contains_key, get, keep, retain, len, count_elements, iter / keys / chain_length) and RevisionVec<String, u32> (FromIterator of chains of unequal lengths, empty chains, no chain, duplicate keys; revisions, len, count_elements, into_keys), reached through the hook `verif_hooks`, against the Lean definitions DictRep / RevMap / RevVec the theorems are about; 7 keys (collisions intended); every output line compared"),
    }
}
