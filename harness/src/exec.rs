//! Executes protocol lines on the real implementation and prints the canonical output lines
//! (the same format as the Lean driver `CC/Driver.lean`).

use std::collections::HashMap;
use std::panic::{catch_unwind, AssertUnwindSafe};

use cosmian_cover_crypt::{
    api::Covercrypt, traits::{KemAc, PkeAc}, AccessPolicy, EncryptedHeader, EncryptionHint, Error, MasterPublicKey,
    MasterSecretKey, QualifiedAttribute, UserSecretKey, XEnc,
};
use cosmian_crypto_core::{bytes_ser_de::Serializable, Aes256Gcm, Secret};

use crate::util::{hex, unhex};
use crate::wire::{WMpk, WMsk, WStruct, WUsk, WEnc};

pub fn err_name(e: &Error) -> &'static str {
    match e {
        Error::Kem(_) => "Kem",
        Error::CryptoCoreError(_) => "CryptoCoreError",
        Error::KeyError(_) => "KeyError",
        Error::AttributeNotFound(_) => "AttributeNotFound",
        Error::ExistingDimension(_) => "ExistingDimension",
        Error::OperationNotPermitted(_) => "OperationNotPermitted",
        Error::InvalidBooleanExpression(_) => "InvalidBooleanExpression",
        Error::InvalidAttribute(_) => "InvalidAttribute",
        Error::DimensionNotFound(_) => "DimensionNotFound",
        Error::ConversionFailed(_) => "ConversionFailed",
        Error::Tracing(_) => "Tracing",
    }
}

fn err_line(e: &Error) -> String {
    format!("err {}", err_name(e))
}

#[derive(Default)]
pub struct Names {
    sk: HashMap<Vec<u8>, usize>,
    pk: HashMap<Vec<u8>, usize>,
    id: HashMap<Vec<u8>, usize>,
}

fn name_of(t: &mut HashMap<Vec<u8>, usize>, k: &[u8]) -> usize {
    let n = t.len();
    *t.entry(k.to_vec()).or_insert(n)
}

pub fn qa_str(a: &QualifiedAttribute) -> String {
    format!("{}.{}", hex(a.dimension.as_bytes()), hex(a.name.as_bytes()))
}

pub fn ap_str(p: &AccessPolicy) -> String {
    match p {
        AccessPolicy::Broadcast => "*".into(),
        AccessPolicy::Term(a) => qa_str(a),
        AccessPolicy::Conjunction(l, r) => format!("({}&{})", ap_str(l), ap_str(r)),
        AccessPolicy::Disjunction(l, r) => format!("({}|{})", ap_str(l), ap_str(r)),
    }
}

pub fn dnf_str(d: &[Vec<QualifiedAttribute>]) -> String {
    d.iter()
        .map(|c| c.iter().map(qa_str).collect::<Vec<_>>().join("&"))
        .collect::<Vec<_>>()
        .join("|")
}

pub fn struct_str(s: &WStruct) -> String {
    let mut dims: Vec<String> = s
        .dims
        .iter()
        .map(|d| {
            let mut attrs: Vec<String> = d
                .attrs
                .iter()
                .map(|a| {
                    format!(
                        "{}.{}.{}.{}",
                        hex(&a.name),
                        a.id,
                        if a.hint == 1 { "h" } else { "c" },
                        if a.status == 1 { "e" } else { "d" }
                    )
                })
                .collect();
            if d.ordered != 1 {
                attrs.sort();
            }
            format!("{}:{}[{}]", hex(&d.name), if d.ordered == 1 { "h" } else { "a" }, attrs.join(","))
        })
        .collect();
    dims.sort();
    format!("next={};{}", s.next_id.map(|n| n.to_string()).unwrap_or("?".into()), dims.join(";"))
}

pub fn structure_of(s: &cosmian_cover_crypt::AccessStructure) -> String {
    let b = s.serialize().unwrap();
    let mut r = crate::wire::Rd::new(&b);
    struct_str(&WStruct::read(&mut r).unwrap())
}

pub fn msk_str(nm: &mut Names, m: &MasterSecretKey) -> String {
    let b = m.serialize().unwrap();
    let w = WMsk::read(&b).expect("harness cannot parse MSK bytes");
    let mut secrets = w.secrets.clone();
    secrets.sort_by_key(|(r, _)| hex(r));
    let strs: Vec<String> = secrets
        .iter()
        .map(|(r, chain)| {
            let c: Vec<String> = chain
                .iter()
                .map(|(flag, k)| {
                    format!("{}{}#{}", if *flag == 1 { "1" } else { "0" }, if k.hyb == 1 { "h" } else { "c" }, name_of(&mut nm.sk, &k.a))
                })
                .collect();
            format!("{}:[{}]", hex(r), c.join(","))
        })
        .collect();
    format!(
        "msk users={} sign={} tr={} S{{{}}} R{{{}}}",
        w.users.len(),
        if w.signing_key.is_some() { 1 } else { 0 },
        w.tracers.len(),
        struct_str(&w.structure),
        strs.join(";")
    )
}

pub fn mpk_str(nm: &mut Names, m: &MasterPublicKey) -> String {
    let b = m.serialize().unwrap();
    let w = WMpk::read(&b).expect("harness cannot parse MPK bytes");
    let mut keys = w.keys.clone();
    keys.sort_by_key(|(r, _)| hex(r));
    let strs: Vec<String> = keys
        .iter()
        .map(|(r, k)| format!("{}:{}#P{}", hex(r), if k.hyb == 1 { "h" } else { "c" }, name_of(&mut nm.pk, &k.a)))
        .collect();
    format!("mpk tr={} S{{{}}} R{{{}}}", w.tpk.len(), struct_str(&w.structure), strs.join(";"))
}

pub fn usk_str(nm: &mut Names, u: &UserSecretKey) -> String {
    let b = u.serialize().unwrap();
    let w = WUsk::read(&b).expect("harness cannot parse USK bytes");
    let idn = name_of(&mut nm.id, w.id.first().map(|v| v.as_slice()).unwrap_or(&[]));
    let mut secrets = w.secrets.clone();
    secrets.sort_by_key(|(r, _)| hex(r));
    let strs: Vec<String> = secrets
        .iter()
        .map(|(r, chain)| {
            let c: Vec<String> = chain
                .iter()
                .map(|k| format!("{}#{}", if k.hyb == 1 { "h" } else { "c" }, name_of(&mut nm.sk, &k.a)))
                .collect();
            format!("{}:[{}]", hex(r), c.join(","))
        })
        .collect();
    format!(
        "usk id=#I{} nps={} sig={} R{{{}}}",
        idn,
        w.ps.len(),
        if w.signature.is_some() { 1 } else { 0 },
        strs.join(";")
    )
}

pub fn enc_str(e: &XEnc) -> String {
    let b = e.serialize().unwrap();
    let w = WEnc::read(&b).expect("harness cannot parse XEnc bytes");
    format!("enc {} traps={} n={}", if w.hyb == 1 { "h" } else { "c" }, w.c.len(), w.encs.len())
}

pub enum Form {
    Atom(usize),
    And(Box<Form>, Box<Form>),
    Or(Box<Form>, Box<Form>),
}

impl Form {
    pub fn eval(&self, v: &dyn Fn(usize) -> bool) -> bool {
        match self {
            Form::Atom(i) => v(*i),
            Form::And(l, r) => l.eval(v) && r.eval(v),
            Form::Or(l, r) => l.eval(v) || r.eval(v),
        }
    }
}

pub fn form_atoms() -> Vec<QualifiedAttribute> {
    [("A", "a"), ("B", "b"), ("C", "c"), ("Dé", "é"), ("E", "e"), ("F", "f g")].iter().map(|(d, n)| QualifiedAttribute::new(d, n)).collect()
}

pub fn parse_form<'a>(t: &'a [&'a str]) -> Option<(Form, &'a [&'a str])> {
    let (h, rest) = t.split_first()?;
    if *h == "&" || *h == "|" {
        let (l, r1) = parse_form(rest)?;
        let (r, r2) = parse_form(r1)?;
        Some((if *h == "&" { Form::And(Box::new(l), Box::new(r)) } else { Form::Or(Box::new(l), Box::new(r)) }, r2))
    } else {
        let i: usize = h.strip_prefix('a')?.parse().ok()?;
        Some((Form::Atom(i), rest))
    }
}

pub fn eval_ap(p: &AccessPolicy, v: &dyn Fn(&QualifiedAttribute) -> bool) -> bool {
    match p {
        AccessPolicy::Broadcast => true,
        AccessPolicy::Term(a) => v(a),
        AccessPolicy::Conjunction(l, r) => eval_ap(l, v) && eval_ap(r, v),
        AccessPolicy::Disjunction(l, r) => eval_ap(l, v) || eval_ap(r, v),
    }
}

pub struct Real {
    pub cc: Covercrypt,
    pub msks: Vec<Option<MasterSecretKey>>,
    pub mpks: Vec<Option<MasterPublicKey>>,
    pub usks: Vec<Option<UserSecretKey>>,
    pub encs: Vec<Option<(XEnc, Secret<32>)>>,
    pub pkes: Vec<Option<(XEnc, Vec<u8>)>>,
    pub hdrs: Vec<Option<(EncryptedHeader, Secret<32>)>>,
    /// encapsulation handles whose tampered bytes no longer deserialise
    pub dead: std::collections::HashSet<usize>,
    /// when set by a step: the line the *model* must be given instead of the abstract one
    /// (some lines only become concrete — e.g. carry key bytes — once executed)
    pub model_line: Option<String>,
    pub nm: Names,
    pub ds: crate::ds::Ds,
    /// `tenant on`: another master key served by the same `Covercrypt` instance, edited like `M0` but with the opposite
    /// encryption hints, operated right before every operation on `M0`; never shown to the model, never printed
    pub tenant_on: bool,
    pub tenant: Option<(MasterSecretKey, Option<MasterPublicKey>, Option<UserSecretKey>)>,
}

/// the byte stream `sign` feeds KMAC, recomputed independently from the serialised key
pub fn mac_stream(w: &WUsk) -> Vec<u8> {
    let mut out = vec![];
    for m in &w.id {
        out.extend_from_slice(m);
    }
    for (r, chain) in &w.secrets {
        out.extend_from_slice(r);
        for k in chain {
            out.extend_from_slice(&k.a);
            out.extend_from_slice(&k.b);
        }
    }
    out
}

/// `x<hex>` = bytes, `-` = absent
fn opt_bytes(s: &str) -> Option<Option<Vec<u8>>> {
    if s == "-" {
        Some(None)
    } else {
        s.strip_prefix('x').and_then(unhex).map(Some)
    }
}

fn tamper_bytes(b: &mut Vec<u8>, op: &str, arg: &str) -> bool {
    let Ok(n) = arg.parse::<usize>() else { return false };
    match op {
        "trunc" => {
            if n < b.len() {
                b.truncate(n);
            }
            true
        }
        "flip" => {
            if n < b.len() {
                b[n] ^= 1 << (n % 8);
            }
            true
        }
        _ => false,
    }
}

fn set_slot<T>(v: &mut Vec<Option<T>>, i: usize, x: Option<T>) {
    while v.len() <= i {
        v.push(None);
    }
    v[i] = x;
}

fn handle(pfx: char, s: &str) -> Option<usize> {
    let mut it = s.chars();
    if it.next()? != pfx {
        return None;
    }
    let rest = it.as_str();
    if rest.is_empty() || !rest.bytes().all(|b| b.is_ascii_digit()) {
        return None;
    }
    rest.parse().ok()
}

fn str_of_hex(s: &str) -> Option<String> {
    String::from_utf8(unhex(s)?).ok()
}

pub fn policy_of(s: &str) -> Result<AccessPolicy, Error> {
    if let Some(h) = s.strip_prefix("t:") {
        let txt = str_of_hex(h).ok_or_else(|| Error::ConversionFailed("hex".into()))?;
        AccessPolicy::parse(&txt)
    } else {
        Err(Error::ConversionFailed("policy".into()))
    }
}

pub fn clone_msk(m: &MasterSecretKey) -> MasterSecretKey {
    MasterSecretKey::deserialize(&m.serialize().unwrap()).unwrap()
}

impl Real {
    pub fn new() -> Self {
        Self { cc: Covercrypt::default(), msks: vec![], mpks: vec![], usks: vec![], encs: vec![], pkes: vec![], hdrs: vec![], dead: Default::default(), model_line: None, nm: Names::default(), ds: crate::ds::Ds::new(), tenant_on: false, tenant: None }
    }

    fn reset(&mut self) {
        self.msks.clear();
        self.mpks.clear();
        self.usks.clear();
        self.encs.clear();
        self.pkes.clear();
        self.hdrs.clear();
        self.dead.clear();
        self.nm = Names::default();
        self.ds = crate::ds::Ds::new();
        self.tenant_on = false;
        self.tenant = None;
    }

    /// the other tenant does what `M0` is about to do (its own structure has the same shape, the opposite hints)
    fn tenant_step(&mut self, t: &[&str]) {
        let first_m0 = t.get(1).map(|h| *h == "M0").unwrap_or(false);
        match t {
            ["setup", "M0", _] => {
                if let Ok((m, k)) = self.cc.setup() {
                    self.tenant = Some((m, Some(k), None));
                }
            }
            _ => {}
        }
        let Some((m, k, u)) = self.tenant.as_mut() else { return };
        match t {
            ["add_dim", "M0", kind, d] => {
                if let Some(d) = str_of_hex(d) {
                    let _ = if *kind == "h" { m.access_structure.add_hierarchy(d) } else { m.access_structure.add_anarchy(d) };
                }
            }
            ["del_dim", "M0", d] => {
                if let Some(d) = str_of_hex(d) {
                    let _ = m.access_structure.del_dimension(&d);
                }
            }
            ["add_attr", "M0", d, a, hint, after] => {
                if let (Some(d), Some(a)) = (str_of_hex(d), str_of_hex(a)) {
                    let after = if *after == "-" { None } else { str_of_hex(after) };
                    let _ = m.access_structure.add_attribute(QualifiedAttribute::new(&d, &a), EncryptionHint::new(*hint != "h"), after.as_deref());
                }
            }
            ["del_attr", "M0", d, a] => {
                if let (Some(d), Some(a)) = (str_of_hex(d), str_of_hex(a)) {
                    let _ = m.access_structure.del_attribute(&QualifiedAttribute::new(&d, &a));
                }
            }
            ["rename_attr", "M0", d, a, b] => {
                if let (Some(d), Some(a), Some(b)) = (str_of_hex(d), str_of_hex(a), str_of_hex(b)) {
                    let _ = m.access_structure.rename_attribute(&QualifiedAttribute::new(&d, &a), b);
                }
            }
            ["disable_attr", "M0", d, a] => {
                if let (Some(d), Some(a)) = (str_of_hex(d), str_of_hex(a)) {
                    let _ = m.access_structure.disable_attribute(&QualifiedAttribute::new(&d, &a));
                }
            }
            ["update", "M0", _] => {
                if let Ok(x) = self.cc.update_msk(m) {
                    *k = Some(x);
                }
            }
            ["rekey", "M0", _, p] | ["prune", "M0", _, p] => {
                if let Ok(ap) = policy_of(p) {
                    let r = if t[0] == "rekey" { self.cc.rekey(m, &ap) } else { self.cc.prune_master_secret_key(m, &ap) };
                    if let Ok(x) = r {
                        *k = Some(x);
                    }
                }
            }
            ["keygen", "M0", _, p] => {
                if let Ok(ap) = policy_of(p) {
                    if let Ok(x) = self.cc.generate_user_secret_key(m, &ap) {
                        *u = Some(x);
                    }
                }
            }
            ["refresh", "M0", _, _, keep] => {
                if let Some(x) = u.as_mut() {
                    let _ = self.cc.refresh_usk(m, x, *keep == "1");
                }
            }
            ["encaps", _, _, p] | ["pke_enc", _, _, p, _] | ["hdr_gen", _, _, p, _, _] => {
                if let (Ok(ap), Some(k)) = (policy_of(p), k.as_ref()) {
                    if let Ok((_, x)) = self.cc.encaps(k, &ap) {
                        if let Some(x2) = u.as_ref() {
                            let _ = self.cc.decaps(x2, &x);
                        }
                    }
                }
            }
            _ => {
                let _ = first_m0;
            }
        }
    }

    fn decaps_str(&self, u: &UserSecretKey, e: &(XEnc, Secret<32>)) -> String {
        match self.cc.decaps(u, &e.0) {
            Ok(None) => "0".into(),
            Ok(Some(s)) => {
                if s == e.1 {
                    "1".into()
                } else {
                    "X".into()
                }
            }
            Err(_) => "e".into(),
        }
    }

    fn edit(&mut self, ms: &str, f: impl FnOnce(&mut cosmian_cover_crypt::AccessStructure) -> Result<(), Error>) -> String {
        let Some(i) = handle('M', ms) else { return "bad-op".into() };
        let Some(Some(m)) = self.msks.get_mut(i) else { return "err NoSuchHandle".into() };
        match f(&mut m.access_structure) {
            Err(e) => err_line(&e),
            Ok(()) => format!("ok {}", structure_of(&m.access_structure)),
        }
    }

    pub fn step(&mut self, line: &str) -> String {
        match catch_unwind(AssertUnwindSafe(|| self.step_inner(line))) {
            Ok(s) => s,
            Err(p) => {
                let msg = if let Some(s) = p.downcast_ref::<&str>() {
                    s.to_string()
                } else if let Some(s) = p.downcast_ref::<String>() {
                    s.clone()
                } else {
                    "?".into()
                };
                format!("panic {}", msg.replace('\n', " "))
            }
        }
    }

    fn step_inner(&mut self, line: &str) -> String {
        let t: Vec<&str> = line.trim().split(' ').collect();
        if let Some(out) = self.ds.step(t.as_slice()) {
            return out;
        }
        if self.tenant_on {
            self.tenant_step(t.as_slice());
        }
        match t.as_slice() {
            ["reset"] => {
                self.reset();
                "ok".into()
            }
            ["tenant", "on"] => {
                self.tenant_on = true;
                self.model_line = Some("noop".into());
                "bad-op".into()
            }
            ["parse", h] => {
                let Some(txt) = str_of_hex(h.strip_prefix('x').unwrap_or("?")) else { return "bad-hex".into() };
                match AccessPolicy::parse(&txt) {
                    Err(e) => err_line(&e),
                    Ok(p) => format!("ok {} dnf {}", ap_str(&p), dnf_str(&p.to_dnf())),
                }
            }
            ["parse_eq", h, f] => {
                // parse the text with the real parser; is the policy, and its DNF, equivalent to the intended formula?
                let Some(txt) = str_of_hex(h.strip_prefix('x').unwrap_or("?")) else { return "bad-hex".into() };
                let toks: Vec<&str> = f.split('.').collect();
                let Some((form, rest)) = parse_form(&toks) else { return "bad-op".into() };
                if !rest.is_empty() {
                    return "bad-op".into();
                }
                match AccessPolicy::parse(&txt) {
                    Err(e) => err_line(&e),
                    Ok(p) => {
                        let dnf = p.to_dnf();
                        let atoms = form_atoms();
                        let mut eq = true;
                        for m in 0..(1u32 << atoms.len()) {
                            let vi = |i: usize| (m >> i) & 1 == 1;
                            let v = |a: &QualifiedAttribute| atoms.iter().position(|x| x == a).map(|i| vi(i)).unwrap_or(false);
                            let want = form.eval(&vi);
                            if eval_ap(&p, &v) != want || dnf.iter().any(|c| c.iter().all(|a| v(a))) != want {
                                eq = false;
                                break;
                            }
                        }
                        format!("ok eq={}", eq as u8)
                    }
                }
            }
            ["setup", ms, ks] => {
                let (Some(i), Some(k)) = (handle('M', ms), handle('K', ks)) else { return "bad-op".into() };
                match self.cc.setup() {
                    Err(e) => err_line(&e),
                    Ok((msk, mpk)) => {
                        let a = msk_str(&mut self.nm, &msk);
                        let b = mpk_str(&mut self.nm, &mpk);
                        set_slot(&mut self.msks, i, Some(msk));
                        set_slot(&mut self.mpks, k, Some(mpk));
                        format!("ok {a} | {b}")
                    }
                }
            }
            ["add_dim", ms, kind, d] => {
                let Some(d) = str_of_hex(d) else { return "bad-hex".into() };
                let ordered = *kind == "h";
                self.edit(ms, |s| if ordered { s.add_hierarchy(d) } else { s.add_anarchy(d) })
            }
            ["del_dim", ms, d] => {
                let Some(d) = str_of_hex(d) else { return "bad-hex".into() };
                self.edit(ms, |s| s.del_dimension(&d))
            }
            ["add_attr", ms, d, a, hint, after] => {
                let (Some(d), Some(a)) = (str_of_hex(d), str_of_hex(a)) else { return "bad-hex".into() };
                let after = if *after == "-" { None } else { match str_of_hex(after) { Some(x) => Some(x), None => return "bad-hex".into() } };
                let hyb = *hint == "h";
                self.edit(ms, |s| s.add_attribute(QualifiedAttribute::new(&d, &a), EncryptionHint::new(hyb), after.as_deref()))
            }
            ["del_attr", ms, d, a] => {
                let (Some(d), Some(a)) = (str_of_hex(d), str_of_hex(a)) else { return "bad-hex".into() };
                self.edit(ms, |s| s.del_attribute(&QualifiedAttribute::new(&d, &a)))
            }
            ["rename_attr", ms, d, a, b] => {
                let (Some(d), Some(a), Some(b)) = (str_of_hex(d), str_of_hex(a), str_of_hex(b)) else { return "bad-hex".into() };
                self.edit(ms, |s| s.rename_attribute(&QualifiedAttribute::new(&d, &a), b))
            }
            ["disable_attr", ms, d, a] => {
                let (Some(d), Some(a)) = (str_of_hex(d), str_of_hex(a)) else { return "bad-hex".into() };
                self.edit(ms, |s| s.disable_attribute(&QualifiedAttribute::new(&d, &a)))
            }
            ["update", ms, ks] => {
                let (Some(i), Some(k)) = (handle('M', ms), handle('K', ks)) else { return "bad-op".into() };
                let Some(Some(m)) = self.msks.get_mut(i) else { return "err NoSuchHandle".into() };
                let res = self.cc.update_msk(m);
                let a = msk_str(&mut self.nm, m);
                match res {
                    Err(e) => format!("{} {a}", err_line(&e)),
                    Ok(mpk) => {
                        let b = mpk_str(&mut self.nm, &mpk);
                        set_slot(&mut self.mpks, k, Some(mpk));
                        format!("ok {a} | {b}")
                    }
                }
            }
            ["rekey", ms, ks, p] | ["prune", ms, ks, p] => {
                let is_rekey = t[0] == "rekey";
                let (Some(i), Some(k)) = (handle('M', ms), handle('K', ks)) else { return "bad-op".into() };
                let Some(Some(m)) = self.msks.get_mut(i) else { return "err NoSuchHandle".into() };
                let res = policy_of(p).and_then(|ap| if is_rekey { self.cc.rekey(m, &ap) } else { self.cc.prune_master_secret_key(m, &ap) });
                let a = msk_str(&mut self.nm, m);
                match res {
                    Err(e) => format!("{} {a}", err_line(&e)),
                    Ok(mpk) => {
                        let b = mpk_str(&mut self.nm, &mpk);
                        set_slot(&mut self.mpks, k, Some(mpk));
                        format!("ok {a} | {b}")
                    }
                }
            }
            ["keygen", ms, us, p] => {
                let (Some(i), Some(j)) = (handle('M', ms), handle('U', us)) else { return "bad-op".into() };
                let Some(Some(m)) = self.msks.get_mut(i) else { return "err NoSuchHandle".into() };
                let res = policy_of(p).and_then(|ap| self.cc.generate_user_secret_key(m, &ap));
                let a = msk_str(&mut self.nm, m);
                match res {
                    Err(e) => format!("{} {a}", err_line(&e)),
                    Ok(u) => {
                        let b = usk_str(&mut self.nm, &u);
                        set_slot(&mut self.usks, j, Some(u));
                        format!("ok {a} | {b}")
                    }
                }
            }
            ["refresh", ms, us, ud, keep] => {
                let (Some(i), Some(j), Some(j2)) = (handle('M', ms), handle('U', us), handle('U', ud)) else { return "bad-op".into() };
                let Some(Some(u)) = self.usks.get(j) else { return "err NoSuchHandle".into() };
                let mut u = u.clone();
                let Some(Some(m)) = self.msks.get_mut(i) else { return "err NoSuchHandle".into() };
                let res = self.cc.refresh_usk(m, &mut u, *keep == "1");
                let a = msk_str(&mut self.nm, m);
                let b = usk_str(&mut self.nm, &u);
                set_slot(&mut self.usks, j2, Some(u));
                match res {
                    Err(e) => format!("{} {a} | {b}", err_line(&e)),
                    Ok(()) => format!("ok {a} | {b}"),
                }
            }
            ["encaps", ks, es, p] => {
                let (Some(k), Some(j)) = (handle('K', ks), handle('E', es)) else { return "bad-op".into() };
                let Some(Some(mpk)) = self.mpks.get(k) else { return "err NoSuchHandle".into() };
                match policy_of(p).and_then(|ap| self.cc.encaps(mpk, &ap)) {
                    Err(e) => err_line(&e),
                    Ok((s, x)) => {
                        let o = format!("ok {}", enc_str(&x));
                        set_slot(&mut self.encs, j, Some((x, s)));
                        o
                    }
                }
            }
            ["decaps", us, es] => {
                let (Some(i), Some(j)) = (handle('U', us), handle('E', es)) else { return "bad-op".into() };
                match (self.usks.get(i), self.encs.get(j)) {
                    (Some(Some(u)), Some(Some(e))) => format!("ok {}", self.decaps_str(u, e)),
                    (Some(Some(_)), _) if self.dead.contains(&j) => "ok 0".into(),
                    _ => "err NoSuchHandle".into(),
                }
            }
            ["recaps", ms, ks, es, ed] => {
                let (Some(i), Some(k), Some(j), Some(j2)) = (handle('M', ms), handle('K', ks), handle('E', es), handle('E', ed)) else { return "bad-op".into() };
                match (self.msks.get(i), self.mpks.get(k), self.encs.get(j)) {
                    (Some(Some(m)), Some(Some(mpk)), Some(Some(e))) => match self.cc.recaps(m, mpk, &e.0) {
                        Err(e) => err_line(&e),
                        Ok((s, x)) => {
                            let o = format!("ok {}", enc_str(&x));
                            set_slot(&mut self.encs, j2, Some((x, s)));
                            o
                        }
                    },
                    _ => "err NoSuchHandle".into(),
                }
            }
            ["matrix"] => {
                let mut rows = vec![];
                for (i, u) in self.usks.iter().enumerate() {
                    let Some(u) = u else { continue };
                    let mut cells = vec![];
                    for (j, e) in self.encs.iter().enumerate() {
                        let Some(e) = e else { continue };
                        cells.push(format!("E{}={}", j, self.decaps_str(u, e)));
                    }
                    rows.push(format!("U{}:{}", i, cells.join(",")));
                }
                format!("mx {}", rows.join(";"))
            }
            ["mpk", ms, ks] => {
                let (Some(i), Some(k)) = (handle('M', ms), handle('K', ks)) else { return "bad-op".into() };
                let Some(Some(m)) = self.msks.get(i) else { return "err NoSuchHandle".into() };
                match m.mpk() {
                    Err(e) => err_line(&e),
                    Ok(mpk) => {
                        let b = mpk_str(&mut self.nm, &mpk);
                        set_slot(&mut self.mpks, k, Some(mpk));
                        format!("ok {b}")
                    }
                }
            }
            ["copy", a, b] => {
                if let (Some(i), Some(j)) = (handle('M', a), handle('M', b)) {
                    let v = self.msks.get(i).and_then(|m| m.as_ref()).map(clone_msk);
                    set_slot(&mut self.msks, j, v);
                    "ok".into()
                } else if let (Some(i), Some(j)) = (handle('U', a), handle('U', b)) {
                    let v = self.usks.get(i).and_then(|m| m.clone());
                    set_slot(&mut self.usks, j, v);
                    "ok".into()
                } else {
                    "bad-op".into()
                }
            }
            ["forge", a, b, kind] => {
                // a copy of a user key whose bytes were altered outside the library (kept for later `refresh` lines)
                let (Some(i), Some(j)) = (handle('U', a), handle('U', b)) else { return "bad-op".into() };
                let Some(Some(u)) = self.usks.get(i) else {
                    set_slot(&mut self.usks, j, None);
                    return "ok none".into();
                };
                let mut w = WUsk::read(&u.serialize().unwrap()).expect("harness cannot parse USK bytes");
                let changed = match *kind {
                    "sig" => match w.signature.as_mut() { Some(s) => { s.iter_mut().for_each(|b| *b = 0x5a); true } None => false },
                    "strip" => { if w.signature.is_some() { w.signature = None; true } else { false } }
                    "drop" => match w.secrets.iter().position(|(r, _)| r.is_empty()) { Some(p) => { w.secrets.remove(p); true } None => false },
                    _ => return "bad-op".into(),
                };
                let v = if changed { UserSecretKey::deserialize(&w.write()).expect("forged USK bytes do not parse") } else { u.clone() };
                set_slot(&mut self.usks, j, Some(v));
                if changed { "ok forged".into() } else { "ok unchanged".into() }
            }
            ["bump_ids", ms, n] => {
                // raise the identifier counter of the structure (through the wire form: the counter is stored), so that
                // later attributes get large identifiers and rights use multi-byte LEB128 encodings
                let (Some(i), Ok(n)) = (handle('M', ms), n.parse::<u64>()) else { return "bad-op".into() };
                let Some(Some(m)) = self.msks.get(i) else { return "err NoSuchHandle".into() };
                let bytes = m.serialize().unwrap().to_vec();
                let w = crate::wire::WMsk::read(&bytes).expect("harness cannot parse MSK bytes");
                let mut old = vec![];
                w.structure.write(&mut old);
                let mut st = w.structure.clone();
                let cur = st.next_id.unwrap_or(0);
                st.version = 1;
                st.next_id = Some(cur.max(n));
                let mut new = bytes[..bytes.len() - old.len()].to_vec();
                st.write(&mut new);
                match MasterSecretKey::deserialize(&new) {
                    Ok(x) => { self.msks[i] = Some(x); format!("ok next={}", cur.max(n)) }
                    Err(e) => err_line(&e),
                }
            }
            ["set_tracers", ms, n] => {
                // a master key with more tracers (a higher tracing level) than `Covercrypt::setup` creates: copies of the
                // first tracer are appended in the wire form (the format allows any number; the API offers no way to
                // change the level), so that the level-generic code is exercised: identifiers with n markers, n traps
                let (Some(i), Ok(n)) = (handle('M', ms), n.parse::<usize>()) else { return "bad-op".into() };
                let Some(Some(m)) = self.msks.get(i) else { return "err NoSuchHandle".into() };
                let bytes = m.serialize().unwrap().to_vec();
                let off = crate::wire::sz::SK;
                let nt = bytes[off] as usize;
                if nt >= 128 || n >= 128 || n < nt { return "bad-op".into(); }
                let tl = crate::wire::sz::SK + crate::wire::sz::PK;
                let end = off + 1 + nt * tl;
                let mut new = bytes[..off].to_vec();
                new.push(n as u8);
                new.extend_from_slice(&bytes[off + 1..end]);
                for _ in nt..n {
                    new.extend_from_slice(&bytes[off + 1..off + 1 + tl]);
                }
                new.extend_from_slice(&bytes[end..]);
                match MasterSecretKey::deserialize(&new) {
                    Ok(x) => { self.msks[i] = Some(x); format!("ok tr={n}") }
                    Err(e) => err_line(&e),
                }
            }
            ["roundtrip", h] => {
                if let Some(i) = handle('M', h) {
                    if let Some(Some(m)) = self.msks.get(i) {
                        match MasterSecretKey::deserialize(&m.serialize().unwrap()) {
                            Ok(x) => self.msks[i] = Some(x),
                            Err(e) => return err_line(&e),
                        }
                    }
                } else if let Some(i) = handle('K', h) {
                    if let Some(Some(m)) = self.mpks.get(i) {
                        match MasterPublicKey::deserialize(&m.serialize().unwrap()) {
                            Ok(x) => self.mpks[i] = Some(x),
                            Err(e) => return err_line(&e),
                        }
                    }
                } else if let Some(i) = handle('U', h) {
                    if let Some(Some(m)) = self.usks.get(i) {
                        match UserSecretKey::deserialize(&m.serialize().unwrap()) {
                            Ok(x) => self.usks[i] = Some(x),
                            Err(e) => return err_line(&e),
                        }
                    }
                } else if let Some(i) = handle('E', h) {
                    if let Some(Some((x, s))) = self.encs.get(i) {
                        match XEnc::deserialize(&x.serialize().unwrap()) {
                            Ok(y) => self.encs[i] = Some((y, s.clone())),
                            Err(e) => return err_line(&e),
                        }
                    }
                } else {
                    return "bad-op".into();
                }
                "ok".into()
            }
            ["usk_rights", ms, p] | ["enc_rights", ms, p] => {
                let Some(i) = handle('M', ms) else { return "bad-op".into() };
                let Some(Some(m)) = self.msks.get(i) else { return "err NoSuchHandle".into() };
                let res = policy_of(p).and_then(|ap| {
                    if t[0] == "usk_rights" { m.access_structure.ap_to_usk_rights(&ap) } else { m.access_structure.ap_to_enc_rights(&ap) }
                });
                match res {
                    Err(e) => err_line(&e),
                    Ok(rs) => {
                        let mut v: Vec<String> = rs.iter().map(|r| hex(r)).collect();
                        v.sort();
                        format!("ok {}", v.join(","))
                    }
                }
            }
            ["trace_check", us] => {
                // the tracing relation of a user key, evaluated by the model on the real scalars of the master key
                self.model_line = Some("noop".into());
                let Some(i) = handle('U', us) else { return "bad-op".into() };
                let (Some(Some(u)), Some(Some(m))) = (self.usks.get(i), self.msks.first()) else { return "bad-op".into() };
                let wm = WMsk::read(&m.serialize().unwrap()).expect("harness cannot parse MSK bytes");
                let wu = WUsk::read(&u.serialize().unwrap()).expect("harness cannot parse USK bytes");
                if wm.tracers.len() != wu.id.len() {
                    // a key of another tracing level than the master key has now: the relation is not about it
                    return "bad-op".into();
                }
                let mut l = format!("trace {} {}", crate::util::CFG, hex(&wm.s));
                for (t, _) in &wm.tracers {
                    l.push(' ');
                    l.push_str(&hex(t));
                }
                for a in &wu.id {
                    l.push(' ');
                    l.push_str(&hex(a));
                }
                self.model_line = Some(l);
                // the implementation side only states that this is a key it produced: the relation must hold
                "ok 1".into()
            }
            ["ser", h] => {
                // serialise an object: announced length, equality after a round trip; the model is given the bytes
                macro_rules! ser {
                    ($ty:literal, $obj:expr, $t:ty) => {{
                        let o = $obj;
                        let b = o.serialize().unwrap().to_vec();
                        let len_ok = o.length() == b.len();
                        let rt = match <$t>::deserialize(&b) { Ok(x) => &x == o, Err(_) => false };
                        // keys and structures: the model also compares the shape of these bytes with the layout of its own symbolic
                        // object (`shape=`)
                        let sh = " shape=1".to_string();
                        self.model_line = Some(format!("wire {} {} x{} {}", $ty, crate::util::CFG, hex(&b), h));
                        if len_ok { format!("ok len={} rt={}{sh}", b.len(), rt as u8) } else { format!("ok len={}!={} rt={}{sh}", o.length(), b.len(), rt as u8) }
                    }};
                }
                if let Some(i) = handle('M', h) {
                    match self.msks.get(i) { Some(Some(m)) => ser!("msk", m, MasterSecretKey), _ => { self.model_line = Some("noop".into()); "bad-op".into() } }
                } else if let Some(i) = handle('K', h) {
                    match self.mpks.get(i) { Some(Some(m)) => ser!("mpk", m, MasterPublicKey), _ => { self.model_line = Some("noop".into()); "bad-op".into() } }
                } else if let Some(i) = handle('U', h) {
                    match self.usks.get(i) { Some(Some(m)) => ser!("usk", m, UserSecretKey), _ => { self.model_line = Some("noop".into()); "bad-op".into() } }
                } else if let Some(i) = handle('E', h) {
                    match self.encs.get(i) { Some(Some((m, _))) => ser!("enc", m, XEnc), _ => { self.model_line = Some("noop".into()); "bad-op".into() } }
                } else if let Some(i) = handle('H', h) {
                    match self.hdrs.get(i) { Some(Some((m, _))) => {
                        // absent and empty metadata are the same value on the wire
                        let b = m.serialize().unwrap().to_vec();
                        let len_ok = m.length() == b.len();
                        let rt = match EncryptedHeader::deserialize(&b) { Ok(x) => x.encapsulation == m.encapsulation && x.encrypted_metadata.clone().unwrap_or_default() == m.encrypted_metadata.clone().unwrap_or_default(), Err(_) => false };
                        self.model_line = Some(format!("wire hdr {} x{} {}", crate::util::CFG, hex(&b), h));
                        if len_ok { format!("ok len={} rt={} shape=1", b.len(), rt as u8) } else { format!("ok len={}!={} rt={} shape=1", m.length(), b.len(), rt as u8) }
                    } _ => { self.model_line = Some("noop".into()); "bad-op".into() } }
                } else if let Some(i) = handle('S', h) {
                    match self.msks.get(i) { Some(Some(m)) => { let s = &m.access_structure; ser!("struct", s, cosmian_cover_crypt::AccessStructure) } _ => { self.model_line = Some("noop".into()); "bad-op".into() } }
                } else {
                    "bad-op".into()
                }
            }
            ["c08", us, op, rest @ ..] => {
                // tamper with the serialised form of an issued user key, then ask the real `refresh_usk`
                // (on copies of the master key, with both flags) whether it accepts the result
                self.model_line = Some("noop".into());
                let Some(i) = handle('U', us) else { return "bad-op".into() };
                let Some(Some(u)) = self.usks.get(i) else { return "bad-op".into() };
                let Some(Some(m)) = self.msks.first() else { return "bad-op".into() };
                let issued = u.serialize().unwrap().to_vec();
                let mut w = WUsk::read(&issued).expect("harness cannot parse USK bytes");
                let num = |k: usize| -> Option<usize> { rest.get(k).and_then(|s| s.parse::<usize>().ok()) };
                let other = |k: &str| -> Option<WUsk> {
                    let k = handle('U', k)?;
                    let y = self.usks.get(k)?.as_ref()?;
                    WUsk::read(&y.serialize().ok()?).ok()
                };
                let n = w.secrets.len();
                let ok: bool = match *op {
                    "none" => true,
                    "swap_chains" => num(0).zip(num(1)).map(|(a, b)| { if a < n && b < n && a != b { w.secrets.swap(a, b); true } else { false } }).unwrap_or(false),
                    "drop_chain" => num(0).map(|a| { if a < n { w.secrets.remove(a); true } else { false } }).unwrap_or(false),
                    "dup_chain" => num(0).map(|a| { if a < n { let c = w.secrets[a].clone(); w.secrets.push(c); true } else { false } }).unwrap_or(false),
                    "rename_right" => num(0).zip(rest.get(1).and_then(|h| unhex(h))).map(|(a, nm)| { if a < n && w.secrets[a].0 != nm { w.secrets[a].0 = nm; true } else { false } }).unwrap_or(false),
                    "move_secret" => num(0).zip(num(1)).map(|(a, b)| {
                        // move the oldest secret of chain a to the end of chain b
                        if a < n && b < n && a != b && w.secrets[a].1.len() >= 1 { let k = w.secrets[a].1.pop().unwrap(); w.secrets[b].1.push(k); if w.secrets[a].1.is_empty() { w.secrets.remove(a); } true } else { false }
                    }).unwrap_or(false),
                    "split_chain" => num(0).map(|a| {
                        // one chain (R,[s1,s2,..]) becomes two chains with the same right name: (R,[s1]), (R,[s2,..])
                        if a < n && w.secrets[a].1.len() >= 2 { let (r, c) = w.secrets[a].clone(); w.secrets[a].1.truncate(1); w.secrets.insert(a + 1, (r, c[1..].to_vec())); true } else { false }
                    }).unwrap_or(false),
                    "split_chain_rev" => num(0).map(|a| {
                        // (R,[s1,s2,..]) becomes (R,[s2,..]), (R,[s1]): the older part first, the newest secret in a second entry
                        // of the same name (a reader that merged entries of one name by prepending would rebuild the issued chain)
                        if a < n && w.secrets[a].1.len() >= 2 { let (r, c) = w.secrets[a].clone(); w.secrets[a].1 = c[1..].to_vec(); w.secrets.insert(a + 1, (r, c[..1].to_vec())); true } else { false }
                    }).unwrap_or(false),
                    "split_chain_mid" => num(0).map(|a| {
                        // split in the middle, older half first
                        if a < n && w.secrets[a].1.len() >= 2 { let (r, c) = w.secrets[a].clone(); let k = c.len() / 2; w.secrets[a].1 = c[k..].to_vec(); w.secrets.insert(a + 1, (r, c[..k].to_vec())); true } else { false }
                    }).unwrap_or(false),
                    "split_chain_far" => num(0).map(|a| {
                        // the older part stays in place, the newest secret goes to a last entry of the same name
                        if a < n && w.secrets[a].1.len() >= 2 { let (r, c) = w.secrets[a].clone(); w.secrets[a].1 = c[1..].to_vec(); w.secrets.push((r, c[..1].to_vec())); true } else { false }
                    }).unwrap_or(false),
                    "split_chain_app" => num(0).map(|a| {
                        // in order, but apart: the newest secret stays, the older part goes to a last entry of the same name
                        if a < n && w.secrets[a].1.len() >= 2 { let (r, c) = w.secrets[a].clone(); w.secrets[a].1.truncate(1); w.secrets.push((r, c[1..].to_vec())); true } else { false }
                    }).unwrap_or(false),
                    "dup_secret" => num(0).map(|a| { if a < n { let k = w.secrets[a].1[0].clone(); w.secrets[a].1.insert(0, k); true } else { false } }).unwrap_or(false),
                    "join_chains" => num(0).map(|a| {
                        // two neighbouring chains merged under the name of the first
                        if a + 1 < n { let (_, c2) = w.secrets.remove(a + 1); w.secrets[a].1.extend(c2); true } else { false }
                    }).unwrap_or(false),
                    "swap_secrets" => num(0).map(|a| { if a < n && w.secrets[a].1.len() >= 2 { w.secrets[a].1.swap(0, 1); true } else { false } }).unwrap_or(false),
                    "drop_secret" => num(0).map(|a| { if a < n && w.secrets[a].1.len() >= 2 { w.secrets[a].1.pop(); true } else { false } }).unwrap_or(false),
                    "shift_bytes" => num(0).zip(num(1)).map(|(a, k)| {
                        // move k bytes from the front of the first secret into the end of the right's name
                        if a < n && k >= 1 && k < 32 { let (r, c) = &mut w.secrets[a]; let moved: Vec<u8> = c[0].a.drain(..k).collect(); r.extend_from_slice(&moved); c[0].a.extend(std::iter::repeat(0).take(k)); true } else { false }
                    }).unwrap_or(false),
                    "merge_into_name" => num(0).map(|a| {
                        // D9: right a+1 and all that precedes its last secret become part of the *name* of right a
                        if a + 1 < n { let (r2, c2) = w.secrets.remove(a + 1); let (r1, mut c1) = w.secrets.remove(a); let mut name = r1; let last = c1.pop().unwrap(); for k in c1 { name.extend_from_slice(&k.a); name.extend_from_slice(&k.b); } name.extend_from_slice(&last.a); name.extend_from_slice(&last.b); name.extend_from_slice(&r2); w.secrets.insert(a, (name, c2)); true } else { false }
                    }).unwrap_or(false),
                    "merge_broadcast" => {
                        // D9: the chain of the right with the empty name joins the chain that precedes it
                        match w.secrets.iter().position(|(r, _)| r.is_empty()) { Some(p) if p >= 1 => { let (_, c) = w.secrets.remove(p); w.secrets[p - 1].1.extend(c); true } _ => false }
                    }
                    // the boundary between the identifier and the first right: the last marker becomes the head of the first
                    // right's name (same MAC stream, one marker fewer: another tracing level, an identifier nobody issued)
                    "marker_into_name" => { if w.id.len() >= 2 && n >= 1 { let mk = w.id.pop().unwrap(); let mut name = mk; name.extend_from_slice(&w.secrets[0].0); w.secrets[0].0 = name; true } else { false } }
                    // … and the other way round: the classic secret of a first right with the empty name becomes one more marker
                    "secret_into_id" => { if n >= 1 && w.secrets[0].0.is_empty() && w.secrets[0].1[0].hyb == 0 && w.secrets[0].1[0].a.len() == w.id.first().map_or(0, |m| m.len()) {
                        let k = w.secrets[0].1.remove(0); w.id.push(k.a); if w.secrets[0].1.is_empty() { w.secrets.remove(0); } true } else { false } }
                    "reflavour" => num(0).map(|a| { if a < n && w.secrets[a].1[0].hyb == 1 { w.secrets[a].1[0].hyb = 0; w.secrets[a].1[0].b.clear(); true } else { false } }).unwrap_or(false),
                    "strip_sig" => { if w.signature.is_some() { w.signature = None; true } else { false } }
                    "flip_sig" => num(0).map(|k| { if let Some(s) = w.signature.as_mut() { s[k % 32] ^= 1; true } else { false } }).unwrap_or(false),
                    "flip_id" => num(0).map(|k| { if !w.id.is_empty() { w.id[0][k % 31] ^= 1; true } else { false } }).unwrap_or(false),
                    "swap_id" => { if w.id.len() >= 2 { w.id.swap(0, 1); true } else { false } }
                    "splice_chain" => rest.first().and_then(|k| other(k)).zip(num(1)).map(|(o, a)| { if a < n && a < o.secrets.len() && o.secrets[a] != w.secrets[a] { w.secrets[a] = o.secrets[a].clone(); true } else { false } }).unwrap_or(false),
                    "splice_sig" => rest.first().and_then(|k| other(k)).map(|o| { if o.signature != w.signature { w.signature = o.signature.clone(); true } else { false } }).unwrap_or(false),
                    "splice_id" => rest.first().and_then(|k| other(k)).map(|o| { if o.id != w.id { w.id = o.id.clone(); true } else { false } }).unwrap_or(false),
                    "foreign" => {
                        // a key issued by another master key for the same policy shape
                        let cc2 = Covercrypt::default();
                        let mut m2 = clone_msk(m);
                        // different authority: fresh setup with the same structure
                        let (mut m3, _) = cc2.setup().unwrap();
                        m3.access_structure = m2.access_structure.clone();
                        let _ = cc2.update_msk(&mut m3);
                        let _ = &mut m2;
                        match cc2.generate_user_secret_key(&mut m3, &AccessPolicy::Broadcast) { Ok(k) => { w = WUsk::read(&k.serialize().unwrap()).unwrap(); true } Err(_) => false }
                    }
                    "sibling" => {
                        // a key issued by a *copy* of this master key (a replica, or the state before a rollback): the
                        // signing key is the same, so the signature verifies, but this master key never registered it
                        let mut m2 = clone_msk(m);
                        match self.cc.generate_user_secret_key(&mut m2, &AccessPolicy::Broadcast) { Ok(k) => { w = WUsk::read(&k.serialize().unwrap()).unwrap(); true } Err(_) => false }
                    }
                    _ => false,
                };
                if !ok {
                    // the operator does not apply to this key: nothing to check
                    self.model_line = Some("noop".into());
                    return "bad-op".into();
                }
                let tampered = w.write();
                self.model_line = Some(format!("mac {} x{} x{}", crate::util::CFG, hex(&issued), hex(&tampered)));
                let same_stream = mac_stream(&w) == mac_stream(&WUsk::read(&issued).unwrap());
                let mut acc = false;
                let mut unch = true;
                if let Ok(t) = UserSecretKey::deserialize(&tampered) {
                    for keep in [true, false] {
                        let mut m2 = clone_msk(m);
                        let mut t2 = t.clone();
                        let before_m = m2.serialize().unwrap().to_vec();
                        let before_u = t2.serialize().unwrap().to_vec();
                        match self.cc.refresh_usk(&mut m2, &mut t2, keep) {
                            Ok(()) => acc = true,
                            Err(_) => {
                                if m2.serialize().unwrap().to_vec() != before_m || t2.serialize().unwrap().to_vec() != before_u {
                                    unch = false;
                                }
                            }
                        }
                    }
                }
                format!("ok acc={} unch={} same_stream={}", acc as u8, unch as u8, same_stream as u8)
            }
            ["tamper_enc", es, ed, op, rest @ ..] => {
                // structural / byte-level tampering of a serialised encapsulation; the result keeps the
                // secret of the original as "expected" so that `decaps` prints 1 only if it is recovered
                let (Some(i), Some(j)) = (handle('E', es), handle('E', ed)) else { return "bad-op".into() };
                let Some(Some((x, sec))) = self.encs.get(i) else { return "err NoSuchHandle".into() };
                let sec = sec.clone();
                let bytes = x.serialize().unwrap().to_vec();
                let other = |k: &str| -> Option<WEnc> {
                    let k = handle('E', k)?;
                    let (y, _) = self.encs.get(k)?.as_ref()?;
                    WEnc::read(&y.serialize().ok()?).ok()
                };
                let mut w = WEnc::read(&bytes).expect("harness cannot parse XEnc bytes");
                let num = |k: usize| -> Option<usize> { rest.get(k).and_then(|s| s.parse::<usize>().ok()) };
                let out: Option<Vec<u8>> = match *op {
                    "flip" => num(0).zip(num(1)).and_then(|(b, bit)| {
                        let mut v = bytes.clone();
                        if b < v.len() { v[b] ^= 1 << (bit % 8); Some(v) } else { None }
                    }),
                    "trunc" => num(0).map(|n| bytes[..n.min(bytes.len())].to_vec()),
                    "setbyte" => num(0).zip(num(1)).and_then(|(b, v)| {
                        let mut x = bytes.clone();
                        if b < x.len() && v < 256 { x[b] = v as u8; Some(x) } else { None }
                    }),
                    // two bytes changed at once: the same mask on both (differences that cancel under an xor-folding comparison)
                    "xor2" => num(0).zip(num(1)).zip(num(2)).and_then(|((a, b), m)| {
                        let mut x = bytes.clone();
                        if a < x.len() && b < x.len() && a != b && m > 0 && m < 256 { x[a] ^= m as u8; x[b] ^= m as u8; Some(x) } else { None }
                    }),
                    // … or +d on one and -d on the other (differences that cancel under an additive comparison)
                    "addsub" => num(0).zip(num(1)).zip(num(2)).and_then(|((a, b), d)| {
                        let mut x = bytes.clone();
                        if a < x.len() && b < x.len() && a != b && d > 0 && d < 256 { x[a] = x[a].wrapping_add(d as u8); x[b] = x[b].wrapping_sub(d as u8); Some(x) } else { None }
                    }),
                    // the whole tag / one whole masked seed replaced by pseudo-random bytes (a comparison that looks at fewer
                    // than all the bits of the tag accepts some of them)
                    "rand_tag" => num(0).map(|sd| { let mut r = crate::util::SplitMix64::new(sd as u64 ^ 0x7A6); for t in w.tag.iter_mut() { *t = r.below(256) as u8; } w.write() }),
                    "rand_f" => num(0).zip(num(1)).and_then(|(a, sd)| { if a < w.encs.len() { let mut r = crate::util::SplitMix64::new(sd as u64 ^ 0xF00D); for t in w.encs[a].1.iter_mut() { *t = r.below(256) as u8; } Some(w.write()) } else { None } }),
                    "swap_trap" => num(0).zip(num(1)).and_then(|(a, b)| { if a < w.c.len() && b < w.c.len() { w.c.swap(a, b); Some(w.write()) } else { None } }),
                    "drop_trap" => num(0).and_then(|a| { if a < w.c.len() { w.c.remove(a); Some(w.write()) } else { None } }),
                    "dup_trap" => num(0).and_then(|a| { if a < w.c.len() { let t = w.c[a].clone(); w.c.push(t); Some(w.write()) } else { None } }),
                    "swap_f" => num(0).zip(num(1)).and_then(|(a, b)| { if a < w.encs.len() && b < w.encs.len() { w.encs.swap(a, b); Some(w.write()) } else { None } }),
                    "swap_ff" => num(0).zip(num(1)).and_then(|(a, b)| { if a < w.encs.len() && b < w.encs.len() { let t = w.encs[a].1.clone(); w.encs[a].1 = w.encs[b].1.clone(); w.encs[b].1 = t; Some(w.write()) } else { None } }),
                    "swap_e" => num(0).zip(num(1)).and_then(|(a, b)| { if a < w.encs.len() && b < w.encs.len() { let t = w.encs[a].0.clone(); w.encs[a].0 = w.encs[b].0.clone(); w.encs[b].0 = t; Some(w.write()) } else { None } }),
                    "drop_f" => num(0).and_then(|a| { if a < w.encs.len() { w.encs.remove(a); Some(w.write()) } else { None } }),
                    "dup_f" => num(0).and_then(|a| { if a < w.encs.len() { let t = w.encs[a].clone(); w.encs.push(t); Some(w.write()) } else { None } }),
                    "splice_f" => rest.first().and_then(|k| other(k)).zip(num(1)).and_then(|(o, a)| { if a < w.encs.len() && a < o.encs.len() && o.hyb == w.hyb { w.encs[a] = o.encs[a].clone(); Some(w.write()) } else { None } }),
                    "splice_c" => rest.first().and_then(|k| other(k)).map(|o| { w.c = o.c.clone(); w.write() }),
                    "splice_tag" => rest.first().and_then(|k| other(k)).map(|o| { w.tag = o.tag.clone(); w.write() }),
                    "splice_encs" => rest.first().and_then(|k| other(k)).map(|o| { w.hyb = o.hyb; w.encs = o.encs.clone(); w.write() }),
                    "reflavour" => { if w.hyb == 1 { w.hyb = 0; for e in w.encs.iter_mut() { e.0.clear(); } Some(w.write()) } else { None } }
                    // the same encapsulation written differently: one of its LEB128 fields (0: number of traps, 1: flavour,
                    // 2: number of components) re-encoded with a redundant continuation byte (`02` -> `82 00`)
                    "noncanon" => num(0).and_then(|k| {
                        let p = match k { 0 => 16, 1 => 17 + w.c.len() * crate::wire::sz::PK, _ => 18 + w.c.len() * crate::wire::sz::PK };
                        if w.c.len() < 0x80 && p < bytes.len() && bytes[p] < 0x80 {
                            let mut o = bytes[..p].to_vec();
                            o.extend_from_slice(&[bytes[p] | 0x80, 0x00]);
                            o.extend_from_slice(&bytes[p + 1..]);
                            Some(o)
                        } else { None }
                    }),
                    _ => None,
                };
                let Some(out) = out else { return "bad-op".into() };
                if out == bytes {
                    // the operator changes nothing on this encapsulation: nothing to check (on either side)
                    self.model_line = Some("noop".into());
                    return "bad-op".into();
                }
                match XEnc::deserialize(&out) {
                    Ok(y) => set_slot(&mut self.encs, j, Some((y, sec))),
                    // not even an encapsulation any more: decaps of this handle reports "no secret"
                    Err(_) => {
                        set_slot(&mut self.encs, j, None);
                        self.dead.insert(j);
                    }
                }
                "ok".into()
            }
            ["pke_enc", ks, xs, p, ptx] => {
                let (Some(k), Some(j), Some(Some(ptx))) = (handle('K', ks), handle('X', xs), opt_bytes(ptx)) else { return "bad-op".into() };
                let Some(Some(mpk)) = self.mpks.get(k) else { return "err NoSuchHandle".into() };
                match policy_of(p).and_then(|ap| PkeAc::<{ Aes256Gcm::KEY_LENGTH }, Aes256Gcm>::encrypt(&self.cc, mpk, &ap, &ptx)) {
                    Err(e) => err_line(&e),
                    Ok(c) => {
                        let o = format!("ok len={}", c.1.len());
                        set_slot(&mut self.pkes, j, Some(c));
                        o
                    }
                }
            }
            ["pke_dec", us, xs] => {
                let (Some(i), Some(j)) = (handle('U', us), handle('X', xs)) else { return "bad-op".into() };
                match (self.usks.get(i), self.pkes.get(j)) {
                    (Some(Some(u)), Some(Some(c))) => match PkeAc::<{ Aes256Gcm::KEY_LENGTH }, Aes256Gcm>::decrypt(&self.cc, u, c) {
                        Err(e) => err_line(&e),
                        Ok(None) => "ok none".into(),
                        Ok(Some(p)) => format!("ok some x{}", hex(&p)),
                    },
                    _ => "err NoSuchHandle".into(),
                }
            }
            ["pke_tamper", xs, xd, op, arg] => {
                let (Some(i), Some(j)) = (handle('X', xs), handle('X', xd)) else { return "bad-op".into() };
                let Some(Some(c)) = self.pkes.get(i) else { return "err NoSuchHandle".into() };
                let mut c = c.clone();
                if *op == "swapenc" {
                    let Some(Some(e)) = handle('E', arg).and_then(|k| self.encs.get(k)) else { return "err NoSuchHandle".into() };
                    c.0 = e.0.clone();
                } else if !tamper_bytes(&mut c.1, op, arg) {
                    return "bad-op".into();
                }
                set_slot(&mut self.pkes, j, Some(c));
                "ok".into()
            }
            ["hdr_gen", ks, hs, p, md, ad] => {
                let (Some(k), Some(j), Some(md), Some(ad)) = (handle('K', ks), handle('H', hs), opt_bytes(md), opt_bytes(ad)) else { return "bad-op".into() };
                let Some(Some(mpk)) = self.mpks.get(k) else { return "err NoSuchHandle".into() };
                match policy_of(p).and_then(|ap| EncryptedHeader::generate(&self.cc, mpk, &ap, md.as_deref(), ad.as_deref())) {
                    Err(e) => err_line(&e),
                    Ok((sec, h)) => {
                        let o = format!("ok meta={}", h.encrypted_metadata.as_ref().map(|m| m.len().to_string()).unwrap_or("-".into()));
                        set_slot(&mut self.hdrs, j, Some((h, sec)));
                        o
                    }
                }
            }
            ["hdr_dec", us, hs, ad] => {
                let (Some(i), Some(j), Some(ad)) = (handle('U', us), handle('H', hs), opt_bytes(ad)) else { return "bad-op".into() };
                match (self.usks.get(i), self.hdrs.get(j)) {
                    (Some(Some(u)), Some(Some((h, sec)))) => match h.decrypt(&self.cc, u, ad.as_deref()) {
                        Err(e) => err_line(&e),
                        Ok(None) => "ok none".into(),
                        Ok(Some(c)) => format!(
                            "ok some sec={} meta={}",
                            if &c.secret == sec { 1 } else { 0 },
                            c.metadata.as_ref().map(|m| format!("x{}", hex(m))).unwrap_or("-".into())
                        ),
                    },
                    _ => "err NoSuchHandle".into(),
                }
            }
            ["hdr_cut", hs, hd, n] => {
                // the serialised header cut to its first n bytes, then read back: the model is given the same bytes; when the
                // implementation accepts them the result is stored so that it can be opened
                self.model_line = Some("noop".into());
                // n >= 0: keep the first n bytes; n < 0: drop the last -n bytes
                let (Some(i), Some(j), Ok(n)) = (handle('H', hs), handle('H', hd), n.parse::<i64>()) else { return "bad-op".into() };
                let Some(Some((h, sec))) = self.hdrs.get(i) else { return "bad-op".into() };
                let sec = sec.clone();
                let bytes = h.serialize().unwrap().to_vec();
                let keep = if n >= 0 { (n as usize).min(bytes.len()) } else { bytes.len().saturating_sub((-n) as usize) };
                let cut = bytes[..keep].to_vec();
                self.model_line = Some(format!("wire hdr {} x{}", crate::util::CFG, hex(&cut)));
                match EncryptedHeader::deserialize(&cut) {
                    Ok(h2) => {
                        let b2 = h2.serialize().unwrap().to_vec();
                        let o = format!("ok len={} rt={}", h2.length(), (b2 == cut) as u8);
                        set_slot(&mut self.hdrs, j, Some((h2, sec)));
                        o
                    }
                    Err(_) => { set_slot(&mut self.hdrs, j, None); "err Deserialize".into() }
                }
            }
            ["ser_clr", us, hs, ad] => {
                // the cleartext header a key obtains from an encrypted one: announced length, equality after a round trip
                // (absent = empty metadata); the model is given the bytes
                self.model_line = Some("noop".into());
                let (Some(i), Some(j), Some(ad)) = (handle('U', us), handle('H', hs), opt_bytes(ad)) else { return "bad-op".into() };
                let (Some(Some(u)), Some(Some((h, _)))) = (self.usks.get(i), self.hdrs.get(j)) else { return "bad-op".into() };
                match h.decrypt(&self.cc, u, ad.as_deref()) {
                    Ok(Some(c)) => {
                        let b = c.serialize().unwrap().to_vec();
                        let len_ok = c.length() == b.len();
                        let rt = match cosmian_cover_crypt::CleartextHeader::deserialize(&b) {
                            Ok(x) => x.secret == c.secret && x.metadata.clone().unwrap_or_default() == c.metadata.clone().unwrap_or_default(),
                            Err(_) => false,
                        };
                        self.model_line = Some(format!("wire clr {} x{}", crate::util::CFG, hex(&b)));
                        if len_ok { format!("ok len={} rt={}", b.len(), rt as u8) } else { format!("ok len={}!={} rt={}", c.length(), b.len(), rt as u8) }
                    }
                    _ => "bad-op".into(),
                }
            }
            ["hdr_tamper", hs, hd, op, arg] => {
                let (Some(i), Some(j)) = (handle('H', hs), handle('H', hd)) else { return "bad-op".into() };
                let Some(Some((h, sec))) = self.hdrs.get(i) else { return "err NoSuchHandle".into() };
                let bytes = h.serialize().unwrap();
                let mut h2 = EncryptedHeader::deserialize(&bytes).unwrap();
                let sec = sec.clone();
                // `deserialize` maps an empty ciphertext to None; keep the in-memory value unless a round trip is asked
                if *op != "roundtrip" {
                    h2.encrypted_metadata = h.encrypted_metadata.clone();
                }
                if *op == "swapenc" {
                    let Some(Some(e)) = handle('E', arg).and_then(|k| self.encs.get(k)) else { return "err NoSuchHandle".into() };
                    h2.encapsulation = e.0.clone();
                } else if *op != "roundtrip" {
                    if let Some(m) = h2.encrypted_metadata.as_mut() {
                        if !tamper_bytes(m, op, arg) {
                            return "bad-op".into();
                        }
                    } else if arg.parse::<usize>().is_err() {
                        return "bad-op".into();
                    }
                }
                set_slot(&mut self.hdrs, j, Some((h2, sec)));
                "ok".into()
            }
            ["covers", ms, ks, pu, pe] => {
                // the *implementation* verdict: fresh key for `pu`, fresh encapsulation for `pe`, real decaps
                let (Some(i), Some(k)) = (handle('M', ms), handle('K', ks)) else { return "bad-op".into() };
                let (Some(Some(m)), Some(Some(mpk))) = (self.msks.get(i), self.mpks.get(k)) else { return "err NoSuchHandle".into() };
                let mut m2 = clone_msk(m);
                let u = match policy_of(pu).and_then(|ap| self.cc.generate_user_secret_key(&mut m2, &ap)) {
                    Ok(u) => u,
                    Err(e) => return err_line(&e),
                };
                let (s, x) = match policy_of(pe).and_then(|ap| self.cc.encaps(mpk, &ap)) {
                    Ok(r) => r,
                    Err(e) => return err_line(&e),
                };
                format!("ok {}", self.decaps_str(&u, &(x, s)))
            }
            ["dump", h] => {
                if let Some(i) = handle('M', h) {
                    match self.msks.get(i) { Some(Some(m)) => format!("ok {}", msk_str(&mut self.nm, m)), _ => "err NoSuchHandle".into() }
                } else if let Some(i) = handle('K', h) {
                    match self.mpks.get(i) { Some(Some(m)) => format!("ok {}", mpk_str(&mut self.nm, m)), _ => "err NoSuchHandle".into() }
                } else if let Some(i) = handle('U', h) {
                    match self.usks.get(i) { Some(Some(m)) => format!("ok {}", usk_str(&mut self.nm, m)), _ => "err NoSuchHandle".into() }
                } else if let Some(i) = handle('E', h) {
                    match self.encs.get(i) { Some(Some(m)) => format!("ok {}", enc_str(&m.0)), _ => "err NoSuchHandle".into() }
                } else {
                    "bad-op".into()
                }
            }
            _ => "bad-op".into(),
        }
    }
}
