//! State-aware generator of operation histories (protocol lines). Every random choice comes from
//! one SplitMix64, so a case is reproduced by (profile, seed). The generator tracks its own
//! abstract view (names alive / deleted, handles created) and never looks at execution results.

use crate::util::{hex, SplitMix64};

#[derive(Clone, Debug)]
pub struct Profile {
    pub max_dims: usize,
    pub max_attrs: usize,
    pub n_ops: usize,
    pub w_edit: u32,
    pub w_update: u32,
    pub w_rekey: u32,
    pub w_prune: u32,
    pub w_keygen: u32,
    pub w_refresh: u32,
    pub w_encaps: u32,
    pub w_recaps: u32,
    pub w_roundtrip: u32,
    pub w_rollback: u32,
    pub w_mpk: u32,
    /// serialise a random object and send its bytes to the wire model
    pub w_ser: u32,
    /// evaluate the tracing relation of a random user key on the real scalars
    pub w_trace: u32,
    /// refresh attempts with copies of issued user keys altered outside the library
    pub w_forge: u32,
    /// PKE encryptions / decryptions and header generations / decryptions inside the history
    pub w_pke: u32,
    pub w_hdr: u32,
    /// raise the number of tracers of the master key in mid-history (keys issued before are then of another level)
    pub w_relevel: u32,
    /// percentage of histories whose master key gets more tracers than `setup` creates
    pub tracers_pct: u32,
    /// percentage of deliberately malformed arguments
    pub malformed_pct: u32,
    /// percentage of hybridized attributes
    pub hybrid_pct: u32,
    /// emit `matrix` after every mutation of keys when true, else only at the end
    pub matrix_often: bool,
    pub max_keys: usize,
    pub max_encs: usize,
    /// edits weights: add_dim, del_dim, add_attr, del_attr, rename, disable
    pub w_edits: [u32; 6],
    /// policies have 1..=max_clauses clauses
    pub max_clauses: usize,
}

impl Profile {
    pub fn base() -> Self {
        Self {
            max_dims: 3,
            max_attrs: 3,
            n_ops: 20,
            w_edit: 4,
            w_update: 3,
            w_rekey: 3,
            w_prune: 2,
            w_keygen: 3,
            w_refresh: 4,
            w_encaps: 4,
            w_recaps: 1,
            w_roundtrip: 1,
            w_rollback: 0,
            w_mpk: 0,
            w_ser: 0,
            w_trace: 0,
            w_forge: 0,
            w_pke: 0,
            w_hdr: 0,
            w_relevel: 0,
            tracers_pct: 0,
            malformed_pct: 10,
            hybrid_pct: 30,
            matrix_often: false,
            max_keys: 5,
            max_encs: 6,
            w_edits: [2, 1, 4, 3, 2, 2],
            max_clauses: 3,
        }
    }
}

#[derive(Clone, Debug)]
struct GAttr {
    name: String,
}
#[derive(Clone, Debug)]
struct GDim {
    name: String,
    ordered: bool,
    attrs: Vec<GAttr>,
}

pub struct HistGen {
    pub rng: SplitMix64,
    pub p: Profile,
    dims: Vec<GDim>,
    /// names that existed once (dimension, attribute)
    graveyard: Vec<(String, String)>,
    dead_dims: Vec<String>,
    next_k: usize,
    next_u: usize,
    next_e: usize,
    next_x: usize,
    relevels: usize,
    cur_tracers: usize,
    /// per header: the authentication data it was generated with
    hdr_ads: Vec<String>,
    next_m: usize,
    snapshots: Vec<usize>,
    pub lines: Vec<String>,
    fresh: usize,
}

const DIM_NAMES: &[&str] = &["D", "S", "T", "Dé", "Q"];
// (two of them are also dimension names: a dimension and an attribute may share a name)
const ATTR_NAMES: &[&str] = &["A", "B", "C", "E", "F", "é", "G1", "D", "S"];

fn h(s: &str) -> String {
    hex(s.as_bytes())
}

impl HistGen {
    pub fn new(seed: u64, p: Profile) -> Self {
        Self {
            rng: SplitMix64::new(seed),
            p,
            dims: vec![],
            graveyard: vec![],
            dead_dims: vec![],
            next_k: 0,
            next_u: 0,
            next_e: 0,
            next_x: 0,
            relevels: 0,
            cur_tracers: 2,
            hdr_ads: vec![],
            next_m: 1,
            snapshots: vec![],
            lines: vec![],
            fresh: 0,
        }
    }

    fn emit(&mut self, s: String) {
        self.lines.push(s);
    }

    fn new_k(&mut self) -> usize {
        self.next_k += 1;
        self.next_k - 1
    }

    fn malformed(&mut self) -> bool {
        let pct = self.p.malformed_pct;
        self.rng.chance(pct, 100)
    }

    fn pick_dim_name(&mut self) -> String {
        // unused name preferred; sometimes a dead one (re-add with the same name)
        if !self.dead_dims.is_empty() && self.rng.chance(1, 3) {
            return self.rng.pick(&self.dead_dims).clone();
        }
        let cands: Vec<&&str> = DIM_NAMES.iter().filter(|n| !self.dims.iter().any(|d| d.name == **n)).collect();
        if cands.is_empty() {
            self.fresh += 1;
            format!("X{}", self.fresh)
        } else {
            // rarely a name longer than 127 bytes (two-byte length prefix on the wire), with blanks and multi-byte characters inside
            if self.rng.chance(1, 25) {
                self.fresh += 1;
                return format!("Dimension {} {}", self.fresh, "é-long name ".repeat(11)).trim_end().to_string();
            }
            cands[self.rng.below(cands.len())].to_string()
        }
    }

    fn pick_attr_name(&mut self, di: usize) -> String {
        let dead: Vec<String> = self.graveyard.iter().filter(|(d, _)| *d == self.dims[di].name).map(|(_, a)| a.clone()).collect();
        if !dead.is_empty() && self.rng.chance(1, 3) {
            let a = self.rng.pick(&dead).clone();
            if !self.dims[di].attrs.iter().any(|x| x.name == a) {
                return a;
            }
        }
        let cands: Vec<&&str> = ATTR_NAMES.iter().filter(|n| !self.dims[di].attrs.iter().any(|a| a.name == **n)).collect();
        if cands.is_empty() {
            self.fresh += 1;
            format!("Y{}", self.fresh)
        } else {
            if self.rng.chance(1, 25) {
                self.fresh += 1;
                return format!("Attribute {} {}", self.fresh, "très long nom ".repeat(10)).trim_end().to_string();
            }
            cands[self.rng.below(cands.len())].to_string()
        }
    }

    fn op_add_dim(&mut self) {
        let bad = self.malformed() && !self.dims.is_empty();
        let name = if bad { self.rng.pick(&self.dims).name.clone() } else { self.pick_dim_name() };
        let ordered = self.rng.chance(1, 2);
        self.emit(format!("add_dim M0 {} {}", if ordered { "h" } else { "a" }, h(&name)));
        if !bad {
            self.dims.push(GDim { name, ordered, attrs: vec![] });
        }
    }

    fn op_del_dim(&mut self) {
        if self.dims.is_empty() || self.malformed() {
            self.emit(format!("del_dim M0 {}", h("NOPE")));
            return;
        }
        let i = self.rng.below(self.dims.len());
        let d = self.dims.remove(i);
        for a in &d.attrs {
            self.graveyard.push((d.name.clone(), a.name.clone()));
        }
        self.dead_dims.push(d.name.clone());
        self.emit(format!("del_dim M0 {}", h(&d.name)));
    }

    fn op_add_attr(&mut self) {
        if self.dims.is_empty() {
            self.emit(format!("add_attr M0 {} {} c -", h("NOPE"), h("A")));
            return;
        }
        let di = self.rng.below(self.dims.len());
        let hyb = self.rng.chance(self.p.hybrid_pct, 100);
        let hint = if hyb { "h" } else { "c" };
        if self.malformed() {
            match self.rng.below(3) {
                0 if !self.dims[di].attrs.is_empty() => {
                    // duplicate name
                    let a = self.rng.pick(&self.dims[di].attrs).name.clone();
                    self.emit(format!("add_attr M0 {} {} {} -", h(&self.dims[di].name.clone()), h(&a), hint));
                }
                1 => {
                    // unknown `after` (an error only in a hierarchy)
                    let name = self.pick_attr_name(di);
                    let dn = self.dims[di].name.clone();
                    self.emit(format!("add_attr M0 {} {} {} {}", h(&dn), h(&name), hint, h("ZZ")));
                    if !self.dims[di].ordered {
                        self.dims[di].attrs.push(GAttr { name });
                    }
                }
                _ => {
                    self.emit(format!("add_attr M0 {} {} {} -", h("NOPE"), h("A"), hint));
                }
            }
            return;
        }
        let name = self.pick_attr_name(di);
        let dn = self.dims[di].name.clone();
        let after = if !self.dims[di].attrs.is_empty() && self.rng.chance(2, 3) {
            let k = self.rng.below(self.dims[di].attrs.len());
            Some((k, self.dims[di].attrs[k].name.clone()))
        } else {
            None
        };
        match &after {
            Some((_, a)) => self.emit(format!("add_attr M0 {} {} {} {}", h(&dn), h(&name), hint, h(a))),
            None => self.emit(format!("add_attr M0 {} {} {} -", h(&dn), h(&name), hint)),
        }
        if self.dims[di].ordered {
            match after {
                Some((k, _)) => self.dims[di].attrs.insert(k + 1, GAttr { name }),
                None => self.dims[di].attrs.insert(0, GAttr { name }),
            }
        } else {
            self.dims[di].attrs.push(GAttr { name });
        }
    }

    fn pick_live_attr(&mut self) -> Option<(usize, usize)> {
        let cands: Vec<(usize, usize)> = self
            .dims
            .iter()
            .enumerate()
            .flat_map(|(i, d)| (0..d.attrs.len()).map(move |j| (i, j)))
            .collect();
        if cands.is_empty() {
            None
        } else {
            Some(cands[self.rng.below(cands.len())])
        }
    }

    fn op_del_attr(&mut self) {
        let bad = self.malformed();
        match self.pick_live_attr() {
            Some((i, j)) if !bad => {
                let a = self.dims[i].attrs.remove(j);
                let dn = self.dims[i].name.clone();
                self.graveyard.push((dn.clone(), a.name.clone()));
                self.emit(format!("del_attr M0 {} {}", h(&dn), h(&a.name)));
            }
            _ => {
                let dn = if self.dims.is_empty() { "NOPE".to_string() } else { self.rng.pick(&self.dims).name.clone() };
                self.emit(format!("del_attr M0 {} {}", h(&dn), h("ZZ")));
            }
        }
    }

    fn op_rename(&mut self) {
        let bad = self.malformed();
        match self.pick_live_attr() {
            Some((i, j)) => {
                let dn = self.dims[i].name.clone();
                let old = self.dims[i].attrs[j].name.clone();
                if bad && self.rng.chance(1, 3) {
                    // rename onto its own name (the name is in use: an error, in either kind of dimension)
                    self.emit(format!("rename_attr M0 {} {} {}", h(&dn), h(&old), h(&old)));
                } else if bad && self.rng.chance(1, 4) {
                    // unknown attribute renamed onto a name in use
                    self.emit(format!("rename_attr M0 {} {} {}", h(&dn), h("ZZ"), h(&old)));
                } else if bad && self.dims[i].attrs.len() > 1 {
                    // rename onto an existing name
                    let k = (j + 1) % self.dims[i].attrs.len();
                    let new = self.dims[i].attrs[k].name.clone();
                    self.emit(format!("rename_attr M0 {} {} {}", h(&dn), h(&old), h(&new)));
                } else if bad {
                    self.emit(format!("rename_attr M0 {} {} {}", h(&dn), h("ZZ"), h("W")));
                } else {
                    let new = self.pick_attr_name(i);
                    self.emit(format!("rename_attr M0 {} {} {}", h(&dn), h(&old), h(&new)));
                    self.graveyard.push((dn, old));
                    self.dims[i].attrs[j].name = new;
                }
            }
            None => self.emit(format!("rename_attr M0 {} {} {}", h("NOPE"), h("A"), h("B"))),
        }
    }

    fn op_disable(&mut self) {
        let bad = self.malformed();
        match self.pick_live_attr() {
            Some((i, j)) if !bad => {
                let dn = self.dims[i].name.clone();
                let a = self.dims[i].attrs[j].name.clone();
                self.emit(format!("disable_attr M0 {} {}", h(&dn), h(&a)));
            }
            _ => self.emit(format!("disable_attr M0 {} {}", h("NOPE"), h("A"))),
        }
    }

    pub fn op_edit(&mut self) {
        let w = self.p.w_edits;
        let mut w2 = w;
        if self.dims.len() >= self.p.max_dims {
            w2[0] = 0;
        }
        let total_attrs: usize = self.dims.iter().map(|d| d.attrs.len()).sum();
        if self.dims.iter().all(|d| d.attrs.len() >= self.p.max_attrs) {
            w2[2] = 0;
        }
        if total_attrs == 0 {
            w2[3] = 0;
            w2[4] = 0;
            w2[5] = 0;
        }
        let tot: u32 = w2.iter().sum();
        if tot == 0 {
            self.op_add_dim();
            return;
        }
        let mut r = (self.rng.next() % tot as u64) as u32;
        for (k, wk) in w2.iter().enumerate() {
            if r < *wk {
                match k {
                    0 => self.op_add_dim(),
                    1 => self.op_del_dim(),
                    2 => {
                        // bias to dims with room
                        self.op_add_attr()
                    }
                    3 => self.op_del_attr(),
                    4 => self.op_rename(),
                    _ => self.op_disable(),
                }
                return;
            }
            r -= wk;
        }
    }

    /// a clause: one attribute in each of a random non-empty subset of dimensions
    fn clause(&mut self) -> Vec<String> {
        let live: Vec<usize> = (0..self.dims.len()).filter(|i| !self.dims[*i].attrs.is_empty()).collect();
        if live.is_empty() {
            return vec![];
        }
        let mut terms = vec![];
        for &i in &live {
            if self.rng.chance(1, 2) || (terms.is_empty() && i == *live.last().unwrap()) {
                let a = self.rng.pick(&self.dims[i].attrs).name.clone();
                terms.push(format!("{}::{}", self.dims[i].name, a));
            }
        }
        // random order
        for i in 0..terms.len() {
            let j = self.rng.below(terms.len());
            terms.swap(i, j);
        }
        terms
    }

    /// policy text; mostly valid
    pub fn policy(&mut self) -> String {
        if self.malformed() {
            return match self.rng.below(5) {
                0 => "NOPE::A".to_string(),
                1 => {
                    if let Some((d, a)) = self.graveyard.last().cloned() {
                        format!("{d}::{a}")
                    } else {
                        "D::ZZ".into()
                    }
                }
                2 => {
                    // two attributes of one dimension in one clause
                    if let Some(d) = self.dims.iter().find(|d| d.attrs.len() >= 2) {
                        format!("{}::{} && {}::{}", d.name, d.attrs[0].name, d.name, d.attrs[1].name)
                    } else {
                        "D::A && D::B".into()
                    }
                }
                3 => "(D::A".to_string(),
                _ => {
                    if let Some(d) = self.dims.first() {
                        format!("{}::ZZ", d.name)
                    } else {
                        "||".into()
                    }
                }
            };
        }
        if self.rng.chance(1, 8) {
            return "*".into();
        }
        let n = 1 + self.rng.below(self.p.max_clauses);
        let mut clauses = vec![];
        for _ in 0..n {
            let c = self.clause();
            if c.is_empty() {
                return "*".into();
            }
            let sep = if self.rng.chance(1, 5) { " " } else { " && " };
            let mut s = c.join(sep);
            if self.rng.chance(1, 4) {
                s = format!("({s})");
            }
            clauses.push(s);
        }
        // sometimes a clause twice, or an attribute twice inside a clause (idempotence: the policy means the same)
        if self.rng.chance(1, 12) {
            let c = clauses[self.rng.below(clauses.len())].clone();
            if self.rng.chance(1, 2) {
                clauses.push(c);
            } else {
                let k = self.rng.below(clauses.len());
                clauses[k] = format!("{} && {}", clauses[k], c);
            }
        }
        // sometimes factorised: (c1 || c2) && t
        if clauses.len() >= 2 && self.rng.chance(1, 4) {
            let t = clauses.pop().unwrap();
            return format!("({}) && {}", clauses.join(" || "), t);
        }
        clauses.join(if self.rng.chance(1, 2) { " || " } else { "||" })
    }

    fn pol(&mut self) -> String {
        format!("t:{}", h(&self.policy()))
    }

    pub fn op_update(&mut self) {
        let k = self.new_k();
        self.emit(format!("update M0 K{k}"));
    }
    pub fn op_rekey(&mut self) {
        let k = self.new_k();
        let p = self.pol();
        self.emit(format!("rekey M0 K{k} {p}"));
    }
    pub fn op_prune(&mut self) {
        let k = self.new_k();
        let p = self.pol();
        self.emit(format!("prune M0 K{k} {p}"));
    }
    pub fn op_keygen(&mut self) {
        if self.next_u >= self.p.max_keys * 3 {
            return;
        }
        let u = self.next_u;
        self.next_u += 1;
        let p = self.pol();
        self.emit(format!("keygen M0 U{u} {p}"));
    }
    pub fn op_refresh(&mut self) {
        if self.next_u == 0 || self.next_u >= self.p.max_keys * 3 {
            return;
        }
        let src = self.rng.below(self.next_u);
        let dst = self.next_u;
        self.next_u += 1;
        let keep = self.rng.chance(1, 2);
        self.emit(format!("refresh M0 U{src} U{dst} {}", if keep { 1 } else { 0 }));
    }
    pub fn op_encaps(&mut self) {
        if self.next_k == 0 || self.next_e >= self.p.max_encs * 2 {
            return;
        }
        // mostly the newest public key, sometimes a stale one
        let k = if self.rng.chance(2, 3) { self.next_k - 1 } else { self.rng.below(self.next_k) };
        let e = self.next_e;
        self.next_e += 1;
        let p = self.pol();
        self.emit(format!("encaps K{k} E{e} {p}"));
    }
    fn rand_bytes_tok(&mut self, absent_ok: bool) -> String {
        match self.rng.below(if absent_ok { 5 } else { 4 }) {
            4 => "-".into(),
            0 => "x".into(),
            _ => {
                // mostly short; sometimes the lengths around the width change of the LEB128 prefix (on the wire the
                // encrypted metadata is 28 bytes longer than the metadata)
                let n = if self.rng.chance(1, 6) { *self.rng.pick(&[99usize, 100, 127, 128, 255, 256]) } else { 1 + self.rng.below(40) };
                let b: Vec<u8> = (0..n).map(|_| self.rng.next() as u8).collect();
                format!("x{}", crate::util::hex(&b))
            }
        }
    }
    /// a PKE encryption under some public key, or a decryption of an earlier ciphertext by some key
    pub fn op_pke(&mut self) {
        if self.next_k == 0 {
            return;
        }
        if self.next_x == 0 || (self.next_x < 4 && self.rng.chance(1, 2)) {
            let k = if self.rng.chance(2, 3) { self.next_k - 1 } else { self.rng.below(self.next_k) };
            let x = self.next_x;
            self.next_x += 1;
            let p = self.pol();
            let ptx = self.rand_bytes_tok(false);
            self.emit(format!("pke_enc K{k} X{x} {p} {ptx}"));
        } else if self.next_u > 0 {
            let (u, x) = (self.rng.below(self.next_u), self.rng.below(self.next_x));
            self.emit(format!("pke_dec U{u} X{x}"));
        }
    }
    /// a header generation (metadata / authentication data absent, empty or not), or the opening of an earlier
    /// header with the authentication data it was made with
    pub fn op_hdr(&mut self) {
        if self.next_k == 0 {
            return;
        }
        if self.hdr_ads.is_empty() || (self.hdr_ads.len() < 4 && self.rng.chance(1, 2)) {
            let k = if self.rng.chance(2, 3) { self.next_k - 1 } else { self.rng.below(self.next_k) };
            let hh = self.hdr_ads.len();
            let p = self.pol();
            let md = self.rand_bytes_tok(true);
            let ad = self.rand_bytes_tok(true);
            self.hdr_ads.push(ad.clone());
            self.emit(format!("hdr_gen K{k} H{hh} {p} {md} {ad}"));
        } else if self.next_u > 0 {
            let (u, hh) = (self.rng.below(self.next_u), self.rng.below(self.hdr_ads.len()));
            let ad = self.hdr_ads[hh].clone();
            self.emit(format!("hdr_dec U{u} H{hh} {ad}"));
            if self.p.w_ser > 0 {
                self.emit(format!("ser_clr U{u} H{hh} {ad}"));
                self.emit(format!("ser H{hh}"));
            }
        }
    }
    /// more tracers from now on (at most twice per history), then a fresh public key
    pub fn op_relevel(&mut self) {
        if self.relevels >= 2 {
            return;
        }
        self.relevels += 1;
        self.cur_tracers += 1 + self.rng.below(2);
        let n = self.cur_tracers;
        self.emit(format!("set_tracers M0 {n}"));
        self.op_update();
    }
    /// every key against every PKE ciphertext and every header
    pub fn final_dem_matrix(&mut self) {
        for u in 0..self.next_u {
            for x in 0..self.next_x {
                self.emit(format!("pke_dec U{u} X{x}"));
            }
            for hh in 0..self.hdr_ads.len() {
                let ad = self.hdr_ads[hh].clone();
                self.emit(format!("hdr_dec U{u} H{hh} {ad}"));
            }
        }
    }
    pub fn op_recaps(&mut self) {
        if self.next_k == 0 || self.next_e == 0 || self.next_e >= self.p.max_encs * 2 {
            return;
        }
        let k = if self.rng.chance(2, 3) { self.next_k - 1 } else { self.rng.below(self.next_k) };
        let src = self.rng.below(self.next_e);
        let e = self.next_e;
        self.next_e += 1;
        self.emit(format!("recaps M0 K{k} E{src} E{e}"));
    }
    pub fn op_roundtrip(&mut self) {
        let choices = ["M", "K", "U", "E"];
        let c = *self.rng.pick(&choices);
        let n = match c {
            "M" => 1,
            "K" => self.next_k,
            "U" => self.next_u,
            _ => self.next_e,
        };
        if n == 0 {
            return;
        }
        let i = self.rng.below(n);
        self.emit(format!("roundtrip {c}{i}"));
    }
    pub fn op_rollback(&mut self) {
        if self.snapshots.is_empty() || self.rng.chance(1, 2) {
            let m = self.next_m;
            self.next_m += 1;
            self.snapshots.push(m);
            self.emit(format!("copy M0 M{m}"));
        } else {
            let m = *self.rng.pick(&self.snapshots);
            self.emit(format!("copy M{m} M0"));
            // the generator's view of names is now approximate: fine, lines stay well-formed
        }
    }
    pub fn op_ser(&mut self) {
        let choices = ["M", "K", "U", "E", "S"];
        let c = *self.rng.pick(&choices);
        let n = match c {
            "M" | "S" => 1,
            "K" => self.next_k,
            "U" => self.next_u,
            _ => self.next_e,
        };
        if n == 0 {
            return;
        }
        let i = self.rng.below(n);
        self.emit(format!("ser {c}{i}"));
    }
    pub fn op_trace(&mut self) {
        if self.next_u == 0 {
            return;
        }
        let i = self.rng.below(self.next_u);
        self.emit(format!("trace_check U{i}"));
    }
    pub fn op_forge(&mut self) {
        if self.next_u == 0 || self.next_u + 3 >= self.p.max_keys * 3 {
            return;
        }
        let src = self.rng.below(self.next_u);
        let forged = self.next_u;
        let out = self.next_u + 1;
        self.next_u += 2;
        let kind = *self.rng.pick(&["sig", "strip", "drop"]);
        let keep = self.rng.chance(1, 2);
        self.emit(format!("forge U{src} U{forged} {kind}"));
        self.emit(format!("refresh M0 U{forged} U{out} {}", if keep { 1 } else { 0 }));
        // the genuine key must be unaffected by the refused attempt
        if self.rng.chance(1, 2) {
            let out2 = self.next_u;
            self.next_u += 1;
            self.emit(format!("refresh M0 U{src} U{out2} {}", if keep { 1 } else { 0 }));
        }
    }
    pub fn op_mpk(&mut self) {
        let k = self.new_k();
        self.emit(format!("mpk M0 K{k}"));
    }

    pub fn prelude(&mut self) {
        self.emit("reset".into());
        // sometimes the instance serves another master key as well (same shape of structure, opposite hints), operated
        // right before every operation of this history: whatever the instance remembers between calls shows
        if self.rng.chance(1, 4) {
            self.emit("tenant on".into());
        }
        let k = self.new_k();
        self.emit(format!("setup M0 K{k}"));
        // sometimes start from a large identifier counter: rights then use multi-byte LEB128 encodings
        if self.rng.chance(1, 10) {
            let n = *self.rng.pick(&[127u64, 128, 200, 16383, 16384, 70000]);
            self.emit(format!("bump_ids M0 {n}"));
        }
        // sometimes a higher tracing level than the API creates (crafted through the wire form)
        if self.p.tracers_pct > 0 && self.rng.chance(self.p.tracers_pct, 100) {
            let n = *self.rng.pick(&[3usize, 3, 4, 6]);
            self.cur_tracers = n;
            self.emit(format!("set_tracers M0 {n}"));
        }
        let nd = 1 + self.rng.below(self.p.max_dims);
        let save = self.p.malformed_pct;
        self.p.malformed_pct = 0;
        for _ in 0..nd {
            self.op_add_dim();
            let di = self.dims.len() - 1;
            let na = 1 + self.rng.below(self.p.max_attrs);
            for _ in 0..na {
                // add to the dimension just created
                let name = self.pick_attr_name(di);
                let hyb = self.rng.chance(self.p.hybrid_pct, 100);
                let dn = self.dims[di].name.clone();
                let after = if self.dims[di].ordered && !self.dims[di].attrs.is_empty() && self.rng.chance(2, 3) {
                    let k = self.rng.below(self.dims[di].attrs.len());
                    Some((k, self.dims[di].attrs[k].name.clone()))
                } else {
                    None
                };
                self.emit(format!(
                    "add_attr M0 {} {} {} {}",
                    h(&dn),
                    h(&name),
                    if hyb { "h" } else { "c" },
                    after.as_ref().map(|(_, a)| h(a)).unwrap_or("-".into())
                ));
                if self.dims[di].ordered {
                    match after {
                        Some((k, _)) => self.dims[di].attrs.insert(k + 1, GAttr { name }),
                        None => self.dims[di].attrs.insert(0, GAttr { name }),
                    }
                } else {
                    self.dims[di].attrs.push(GAttr { name });
                }
            }
        }
        self.p.malformed_pct = save;
        self.op_update();
    }

    pub fn random_op(&mut self) {
        let p = self.p.clone();
        let ws = [
            p.w_edit, p.w_update, p.w_rekey, p.w_prune, p.w_keygen, p.w_refresh, p.w_encaps, p.w_recaps,
            p.w_roundtrip, p.w_rollback, p.w_mpk, p.w_ser, p.w_trace, p.w_forge, p.w_pke, p.w_hdr, p.w_relevel,
        ];
        let tot: u32 = ws.iter().sum();
        let mut r = (self.rng.next() % tot as u64) as u32;
        for (k, w) in ws.iter().enumerate() {
            if r < *w {
                let before = self.lines.len();
                match k {
                    0 => self.op_edit(),
                    1 => self.op_update(),
                    2 => self.op_rekey(),
                    3 => self.op_prune(),
                    4 => self.op_keygen(),
                    5 => self.op_refresh(),
                    6 => self.op_encaps(),
                    7 => self.op_recaps(),
                    8 => self.op_roundtrip(),
                    9 => self.op_rollback(),
                    10 => self.op_mpk(),
                    11 => self.op_ser(),
                    12 => self.op_trace(),
                    13 => self.op_forge(),
                    14 => self.op_pke(),
                    15 => self.op_hdr(),
                    _ => self.op_relevel(),
                }
                // the same operation once more, as is: update twice, rekey / prune twice in a row, the same refresh or
                // store / load again, the same edit again (which then fails, or is idempotent)
                if self.lines.len() == before + 1 && matches!(k, 0 | 1 | 2 | 3 | 5 | 8 | 10) && self.rng.chance(1, 12) {
                    let again = self.lines[before].clone();
                    self.emit(again);
                }
                if self.p.matrix_often && self.lines.len() > before && matches!(k, 5 | 6 | 7) {
                    self.emit("matrix".into());
                }
                return;
            }
            r -= w;
        }
    }

    /// a long rotation: the same policy re-keyed `n` times in a row with nothing pruned (chains of `n + 1` revisions: sizes
    /// no short history reaches), a key that follows with `keep`, one that does not, encapsulations before, in the middle
    /// and after, then who opens what and what the master key holds
    pub fn deep_rotation(seed: u64, p: Profile, n: usize) -> Vec<String> {
        let mut g = HistGen::new(seed, p);
        g.p.malformed_pct = 0;
        g.p.tracers_pct = 0;
        g.prelude();
        g.op_update();
        let pol = g.pol();
        let u0 = g.next_u;
        g.next_u += 2;
        g.emit(format!("keygen M0 U{u0} {pol}"));
        g.emit(format!("keygen M0 U{} {pol}", u0 + 1));
        let k0 = g.next_k - 1;
        let e0 = g.next_e;
        g.next_e += 1;
        g.emit(format!("encaps K{k0} E{e0} {pol}"));
        for i in 0..n {
            let k = g.new_k();
            g.emit(format!("rekey M0 K{k} {pol}"));
            if i == n / 2 {
                let e = g.next_e;
                g.next_e += 1;
                g.emit(format!("encaps K{k} E{e} {pol}"));
            }
        }
        let k = g.next_k - 1;
        let e = g.next_e;
        g.next_e += 1;
        g.emit(format!("encaps K{k} E{e} {pol}"));
        let u = g.next_u;
        g.next_u += 2;
        g.emit(format!("refresh M0 U{u0} U{u} 1"));
        g.emit(format!("refresh M0 U{} U{} 0", u0 + 1, u + 1));
        g.emit("matrix".into());
        g.emit("dump M0".into());
        g.lines
    }

    pub fn history(seed: u64, p: Profile) -> Vec<String> {
        let mut g = HistGen::new(seed, p);
        g.prelude();
        let n = g.p.n_ops;
        for _ in 0..n {
            g.random_op();
        }
        g.emit("matrix".into());
        if g.p.w_pke + g.p.w_hdr > 0 {
            g.final_dem_matrix();
        }
        // epilogue: whatever the history did to the master key, re-encapsulate the last encapsulations under the key it
        // publishes now, and look at who opens the results (every history ends on the re-encapsulation path: the rights
        // still recoverable and publishable after all the rotations, disables, deletions and prunes of the history)
        if g.next_e > 0 && g.next_k > 0 {
            let k = g.new_k();
            g.emit(format!("mpk M0 K{k}"));
            let first = g.next_e.saturating_sub(3);
            let last = g.next_e;
            for src in first..last {
                let e = g.next_e;
                g.next_e += 1;
                g.emit(format!("recaps M0 K{k} E{src} E{e}"));
            }
            g.emit("matrix".into());
        }
        g.emit("dump M0".into());
        g.lines
    }
}
