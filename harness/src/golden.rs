//! Golden serialisation corpus: objects serialised by the tree the harness is built against.
//! `golden-gen <file>` writes one `name hex` pair per line; `golden-check <file>` (in c13.rs)
//! reads them back with the current tree and uses them.

use cosmian_cover_crypt::{
    api::Covercrypt, traits::KemAc, AccessPolicy, EncryptedHeader, EncryptionHint,
    QualifiedAttribute,
};
use cosmian_crypto_core::bytes_ser_de::Serializable;
use std::fmt::Write as _;

use crate::util::hex;

fn qa(d: &str, n: &str) -> QualifiedAttribute {
    QualifiedAttribute::new(d, n)
}
fn ap(s: &str) -> AccessPolicy {
    AccessPolicy::parse(s).unwrap()
}

pub fn generate() -> String {
    let mut out = String::new();
    let cc = Covercrypt::default();

    // empty structure
    let (msk0, mpk0) = cc.setup().unwrap();
    writeln!(out, "empty.msk {}", hex(&msk0.serialize().unwrap())).unwrap();
    writeln!(out, "empty.mpk {}", hex(&mpk0.serialize().unwrap())).unwrap();
    let (s0, e0) = cc.encaps(&mpk0, &ap("*")).unwrap();
    writeln!(out, "empty.enc {} {}", hex(&e0.serialize().unwrap()), hex(&*s0)).unwrap();

    // a history: SEC hierarchy (LOW classic < MID hybridized < TOP hybridized), DPT anarchy
    let (mut msk, _) = cc.setup().unwrap();
    {
        let s = &mut msk.access_structure;
        s.add_hierarchy("SEC".into()).unwrap();
        s.add_attribute(qa("SEC", "LOW"), EncryptionHint::Classic, None).unwrap();
        s.add_attribute(qa("SEC", "TOP"), EncryptionHint::Hybridized, Some("LOW")).unwrap();
        s.add_attribute(qa("SEC", "MID"), EncryptionHint::Hybridized, Some("LOW")).unwrap();
        s.add_anarchy("DPT".into()).unwrap();
        for (a, h) in [("RD", false), ("HR", false), ("FIN", true), ("MKG", false)] {
            s.add_attribute(qa("DPT", a), EncryptionHint::new(h), None).unwrap();
        }
    }
    let mpk1 = cc.update_msk(&mut msk).unwrap();
    writeln!(out, "h.structure {}", hex(&msk.access_structure.serialize().unwrap())).unwrap();
    let pols = ["DPT::FIN && SEC::MID", "DPT::HR", "*", "SEC::TOP", "DPT::RD || (DPT::MKG && SEC::LOW)"];
    let mut usks = vec![];
    for p in pols {
        usks.push(cc.generate_user_secret_key(&mut msk, &ap(p)).unwrap());
    }
    let encpols = ["DPT::FIN && SEC::LOW", "DPT::HR && SEC::TOP", "DPT::RD", "SEC::MID", "*",
        "DPT::FIN && SEC::MID || DPT::HR && SEC::LOW", "DPT::MKG"];
    let mut encs = vec![];
    for p in encpols {
        let (s, e) = cc.encaps(&mpk1, &ap(p)).unwrap();
        encs.push((p.to_string(), s, e));
    }
    // rotate some, disable one, refresh some keys
    let _ = cc.rekey(&mut msk, &ap("DPT::FIN")).unwrap();
    let _ = cc.rekey(&mut msk, &ap("SEC::LOW && DPT::HR")).unwrap();
    msk.access_structure.disable_attribute(&qa("DPT", "MKG")).unwrap();
    let mpk2 = cc.update_msk(&mut msk).unwrap();
    cc.refresh_usk(&mut msk, &mut usks[0], true).unwrap();
    cc.refresh_usk(&mut msk, &mut usks[2], true).unwrap();
    cc.refresh_usk(&mut msk, &mut usks[3], false).unwrap();
    for p in ["DPT::FIN && SEC::LOW", "DPT::HR && SEC::LOW", "DPT::FIN"] {
        let (s, e) = cc.encaps(&mpk2, &ap(p)).unwrap();
        encs.push((p.to_string(), s, e));
    }
    writeln!(out, "h.msk {}", hex(&msk.serialize().unwrap())).unwrap();
    writeln!(out, "h.mpk1 {}", hex(&mpk1.serialize().unwrap())).unwrap();
    writeln!(out, "h.mpk2 {}", hex(&mpk2.serialize().unwrap())).unwrap();
    for (i, u) in usks.iter().enumerate() {
        writeln!(out, "h.usk{} {} {}", i, hex(&u.serialize().unwrap()), hex(pols[i].as_bytes())).unwrap();
    }
    for (i, (p, s, e)) in encs.iter().enumerate() {
        // which keys open it, as observed on the generating tree
        let mut openers = String::new();
        for (j, u) in usks.iter().enumerate() {
            let r = cc.decaps(u, e).unwrap();
            if let Some(x) = r {
                assert_eq!(&*x, &**s);
                write!(openers, "{j},").unwrap();
            }
        }
        writeln!(out, "h.enc{} {} {} {} {}", i, hex(&e.serialize().unwrap()), hex(&**s), hex(p.as_bytes()),
            if openers.is_empty() { "-".to_string() } else { openers }).unwrap();
    }
    // headers
    for (i, (meta, ad)) in [(None, None), (Some(&b"metadata"[..]), None), (Some(&b"m"[..]), Some(&b"ad"[..]))]
        .into_iter().enumerate()
    {
        let (s, h) = EncryptedHeader::generate(&cc, &mpk2, &ap("DPT::HR && SEC::LOW"), meta, ad).unwrap();
        writeln!(out, "h.hdr{} {} {} {} {}", i, hex(&h.serialize().unwrap()), hex(&*s),
            meta.map(hex).unwrap_or("-".into()), ad.map(hex).unwrap_or("-".into())).unwrap();
        // usks[2] is the '*' key, refreshed: it opens
        let clear = h.decrypt(&cc, &usks[2], ad).unwrap().unwrap();
        writeln!(out, "h.clr{} {}", i, hex(&clear.serialize().unwrap())).unwrap();
    }
    out
}

/// Second part of the corpus (`pinned-extra-<cfg>.txt`, also generated from the pinned release): the paths the first
/// part does not reach - encapsulations whose targets are *all* hybridized with 2, 3 and 4 components (what `T` hashes
/// there includes every ML-KEM ciphertext, in order), user keys with chains of four revisions, PKE ciphertexts, headers
/// with longer metadata. Self-describing rows: `x.enc<i> bytes secret policy openers`, `x.pke<i> enc ct ptx openers`,
/// `x.hdr<i> bytes secret meta ad openers`.
pub fn generate_extra() -> String {
    use cosmian_cover_crypt::traits::PkeAc;
    use cosmian_crypto_core::Aes256Gcm;
    let mut out = String::new();
    let cc = Covercrypt::default();
    let (mut msk, _) = cc.setup().unwrap();
    {
        let s = &mut msk.access_structure;
        s.add_hierarchy("L".into()).unwrap();
        s.add_attribute(qa("L", "L1"), EncryptionHint::Classic, None).unwrap();
        s.add_attribute(qa("L", "L2"), EncryptionHint::Hybridized, Some("L1")).unwrap();
        s.add_attribute(qa("L", "L3"), EncryptionHint::Hybridized, Some("L2")).unwrap();
        s.add_anarchy("D".into()).unwrap();
        for a in ["A", "B", "C"] {
            s.add_attribute(qa("D", a), EncryptionHint::Hybridized, None).unwrap();
        }
    }
    let mpk0 = cc.update_msk(&mut msk).unwrap();
    let pols = ["L::L3 && D::A", "D::B || D::C", "*", "L::L2", "L::L1 && D::C"];
    let mut usks = vec![];
    for p in pols {
        usks.push(cc.generate_user_secret_key(&mut msk, &ap(p)).unwrap());
    }
    let encpols = ["D::A || D::B", "L::L3 && D::A || L::L3 && D::B || L::L3 && D::C", "D::A || D::B || D::C || L::L2",
        "L::L2 && D::A || L::L3 && D::C", "L::L1", "L::L1 && D::B || D::C", "*"];
    let mut encs = vec![];
    for p in encpols {
        let (s, e) = cc.encaps(&mpk0, &ap(p)).unwrap();
        encs.push((p.to_string(), s, e));
    }
    // three rotations, every key refreshed with its old secrets each time: chains of four revisions
    let mut mpk = cc.update_msk(&mut msk).unwrap();
    for _ in 0..3 {
        mpk = cc.rekey(&mut msk, &ap("*")).unwrap();
        for u in usks.iter_mut() {
            cc.refresh_usk(&mut msk, u, true).unwrap();
        }
        let (s, e) = cc.encaps(&mpk, &ap("L::L3 && D::A || L::L3 && D::B || L::L2 && D::C")).unwrap();
        encs.push(("L::L3 && D::A || L::L3 && D::B || L::L2 && D::C".to_string(), s, e));
    }
    writeln!(out, "x.msk {}", hex(&msk.serialize().unwrap())).unwrap();
    writeln!(out, "x.mpk0 {}", hex(&mpk0.serialize().unwrap())).unwrap();
    writeln!(out, "x.mpk {}", hex(&mpk.serialize().unwrap())).unwrap();
    for (i, u) in usks.iter().enumerate() {
        writeln!(out, "x.usk{} {} {}", i, hex(&u.serialize().unwrap()), hex(pols[i].as_bytes())).unwrap();
    }
    let openers_of = |f: &dyn Fn(&cosmian_cover_crypt::UserSecretKey) -> bool| -> String {
        let o: Vec<String> = usks.iter().enumerate().filter(|(_, u)| f(u)).map(|(j, _)| j.to_string()).collect();
        if o.is_empty() { "-".into() } else { o.join(",") }
    };
    for (i, (p, s, e)) in encs.iter().enumerate() {
        let o = openers_of(&|u| cc.decaps(u, e).ok().flatten().map(|x| &*x == &**s).unwrap_or(false));
        writeln!(out, "x.enc{} {} {} {} {}", i, hex(&e.serialize().unwrap()), hex(&**s), hex(p.as_bytes()), o).unwrap();
    }
    for (i, (p, n)) in [("D::A || D::B", 0usize), ("L::L3 && D::A || L::L3 && D::B || L::L3 && D::C", 37), ("L::L1", 4100)].iter().enumerate() {
        let ptx: Vec<u8> = (0..*n).map(|k| (k * 7 + i) as u8).collect();
        let (x, c) = PkeAc::<{ Aes256Gcm::KEY_LENGTH }, Aes256Gcm>::encrypt(&cc, &mpk, &ap(p), &ptx).unwrap();
        let o = openers_of(&|u| PkeAc::<{ Aes256Gcm::KEY_LENGTH }, Aes256Gcm>::decrypt(&cc, u, &(x.clone(), c.clone())).ok().flatten().map(|q| q.to_vec() == ptx).unwrap_or(false));
        writeln!(out, "x.pke{} {} {} x{} {}", i, hex(&x.serialize().unwrap()), hex(&c), hex(&ptx), o).unwrap();
    }
    for (i, (p, ml, ad)) in [("D::A || D::B", 300usize, Some(&b"authentication data"[..])), ("L::L3 && D::A || L::L3 && D::B || L::L3 && D::C", 99, None), ("L::L1", 0, Some(&b""[..]))].iter().enumerate() {
        let md: Vec<u8> = (0..*ml).map(|k| (k * 3 + i) as u8).collect();
        let (s, h) = EncryptedHeader::generate(&cc, &mpk, &ap(p), Some(&md), *ad).unwrap();
        let o = openers_of(&|u| h.decrypt(&cc, u, *ad).ok().flatten().map(|c| c.secret == s).unwrap_or(false));
        writeln!(out, "x.hdr{} {} {} x{} {} {}", i, hex(&h.serialize().unwrap()), hex(&*s), hex(&md), ad.map(|a| format!("x{}", hex(a))).unwrap_or("-".into()), o).unwrap();
    }
    out
}

/// the objects of the second part, read and *used* by the current tree
pub fn check_extra(path: &str) -> (usize, Vec<String>, Vec<String>) {
    use cosmian_cover_crypt::{traits::PkeAc, MasterPublicKey, MasterSecretKey, UserSecretKey, XEnc};
    use cosmian_crypto_core::Aes256Gcm;
    use crate::util::unhex;
    let Ok(txt) = std::fs::read_to_string(path) else { return (0, vec![], vec![]) };
    let cc = Covercrypt::default();
    let cfg = crate::util::CFG;
    let (mut checks, mut fails, mut mlines) = (0usize, vec![], vec![]);
    let rows: Vec<Vec<String>> = txt.lines().map(|l| l.split(' ').map(|s| s.to_string()).collect()).collect();
    let un = |s: &str| unhex(s.strip_prefix('x').unwrap_or(s)).unwrap();
    let mut usks: Vec<UserSecretKey> = vec![];
    let mut msk = None;
    for r in &rows {
        if r[0].starts_with("x.usk") {
            match UserSecretKey::deserialize(&un(&r[1])) { Ok(u) => usks.push(u), Err(_) => fails.push(format!("{}: no longer deserialises", r[0])) }
            mlines.push(format!("wire usk {cfg} x{}", r[1]));
        } else if r[0] == "x.msk" {
            msk = MasterSecretKey::deserialize(&un(&r[1])).ok();
            if msk.is_none() { fails.push("x.msk: no longer deserialises".into()); }
            mlines.push(format!("wire msk {cfg} x{}", r[1]));
        } else if r[0].starts_with("x.mpk") {
            if MasterPublicKey::deserialize(&un(&r[1])).is_err() { fails.push(format!("{}: no longer deserialises", r[0])); }
            mlines.push(format!("wire mpk {cfg} x{}", r[1]));
        }
        checks += 1;
    }
    let openers = |s: &str| -> Vec<usize> { s.split(',').filter_map(|j| j.parse().ok()).collect() };
    for r in &rows {
        let mut chk = |ok: bool, what: String| { checks += 1; if !ok { fails.push(what); } };
        if r[0].starts_with("x.enc") {
            mlines.push(format!("wire enc {cfg} x{}", r[1]));
            match XEnc::deserialize(&un(&r[1])) {
                Err(_) => chk(false, format!("{}: no longer deserialises", r[0])),
                Ok(e) => for j in openers(&r[4]) {
                    if let Some(u) = usks.get(j) {
                        chk(cc.decaps(u, &e).ok().flatten().map(|s| s.to_vec()) == Some(un(&r[2])), format!("{}: key {j} opened it on the pinned release and no longer recovers the same secret", r[0]));
                    }
                },
            }
        } else if r[0].starts_with("x.pke") {
            match XEnc::deserialize(&un(&r[1])) {
                Err(_) => chk(false, format!("{}: no longer deserialises", r[0])),
                Ok(e) => for j in openers(&r[4]) {
                    if let Some(u) = usks.get(j) {
                        let p = PkeAc::<{ Aes256Gcm::KEY_LENGTH }, Aes256Gcm>::decrypt(&cc, u, &(e.clone(), un(&r[2]))).ok().flatten();
                        chk(p.map(|q| q.to_vec()) == Some(un(&r[3])), format!("{}: key {j} decrypted it on the pinned release and no longer recovers the plaintext", r[0]));
                    }
                },
            }
        } else if r[0].starts_with("x.hdr") {
            mlines.push(format!("wire hdr {cfg} x{}", r[1]));
            match EncryptedHeader::deserialize(&un(&r[1])) {
                Err(_) => chk(false, format!("{}: no longer deserialises", r[0])),
                Ok(h) => {
                    let ad = if r[4] == "-" { None } else { Some(un(&r[4])) };
                    for j in openers(&r[5]) {
                        if let Some(u) = usks.get(j) {
                            match h.decrypt(&cc, u, ad.as_deref()) {
                                Ok(Some(c)) => {
                                    chk(c.secret.to_vec() == un(&r[2]), format!("{}: key {j}: secret differs", r[0]));
                                    chk(c.metadata.clone().unwrap_or_default() == un(&r[3]), format!("{}: key {j}: metadata differs", r[0]));
                                }
                                _ => chk(false, format!("{}: key {j} opened it on the pinned release and no longer does", r[0])),
                            }
                        }
                    }
                }
            }
        }
    }
    // every key is still an issued key of that master key
    if let Some(mut m) = msk {
        for (j, u) in usks.iter().enumerate() {
            for keep in [true, false] {
                let mut u2 = u.clone();
                checks += 1;
                if cc.refresh_usk(&mut m, &mut u2, keep).is_err() {
                    fails.push(format!("x.usk{j}: refresh (keep={keep}) with the deserialised master key fails"));
                }
            }
        }
    }
    (checks, fails, mlines)
}

/// Golden check: objects serialised by the *pinned* tree are read by the current tree and used.
/// Returns (number of checks, failures, model lines to decode the same bytes with the wire model).
pub fn check(path: &str) -> (usize, Vec<String>, Vec<String>) {
    use cosmian_cover_crypt::{CleartextHeader, MasterPublicKey, MasterSecretKey, UserSecretKey, XEnc};
    use crate::util::unhex;
    use std::collections::HashMap;
    let txt = std::fs::read_to_string(path).expect("golden corpus missing");
    let mut rows: HashMap<String, Vec<String>> = HashMap::new();
    let mut order = vec![];
    for l in txt.lines() {
        let t: Vec<String> = l.split(' ').map(|s| s.to_string()).collect();
        order.push(t[0].clone());
        rows.insert(t[0].clone(), t[1..].to_vec());
    }
    let cc = Covercrypt::default();
    let mut checks = 0;
    let mut fails = vec![];
    let mut mlines = vec![];
    let cfg = crate::util::CFG;
    let mut chk = |ok: bool, what: String| {
        checks += 1;
        if !ok {
            fails.push(what);
        }
    };
    let b = |name: &str, k: usize| unhex(&rows[name][k]).unwrap();
    // every object deserialises
    for name in &order {
        let bytes = b(name, 0);
        let (ty, ok) = if name.ends_with(".msk") {
            ("msk", MasterSecretKey::deserialize(&bytes).is_ok())
        } else if name.contains(".mpk") {
            ("mpk", MasterPublicKey::deserialize(&bytes).is_ok())
        } else if name.contains(".usk") {
            ("usk", UserSecretKey::deserialize(&bytes).is_ok())
        } else if name.contains(".enc") {
            ("enc", XEnc::deserialize(&bytes).is_ok())
        } else if name.contains(".hdr") {
            ("hdr", EncryptedHeader::deserialize(&bytes).is_ok())
        } else if name.contains(".clr") {
            ("clr", CleartextHeader::deserialize(&bytes).is_ok())
        } else {
            ("struct", cosmian_cover_crypt::AccessStructure::deserialize(&bytes).is_ok())
        };
        chk(ok, format!("{name}: object serialised by the pinned release no longer deserialises"));
        mlines.push(format!("wire {ty} {cfg} x{}", hex(&bytes)));
    }
    // ... and they still work
    let mut msk = MasterSecretKey::deserialize(&b("h.msk", 0)).unwrap();
    let mpk2 = MasterPublicKey::deserialize(&b("h.mpk2", 0)).unwrap();
    let mut usks: Vec<UserSecretKey> = (0..5).map(|i| UserSecretKey::deserialize(&b(&format!("h.usk{i}"), 0)).unwrap()).collect();
    for i in 0..10 {
        let name = format!("h.enc{i}");
        let enc = XEnc::deserialize(&b(&name, 0)).unwrap();
        let secret = b(&name, 1);
        let openers = &rows[&name][3];
        for j in openers.split(',').filter(|s| !s.is_empty() && *s != "-") {
            let j: usize = j.parse().unwrap();
            let r = cc.decaps(&usks[j], &enc).ok().flatten();
            chk(r.as_ref().map(|s| s.to_vec()) == Some(secret.clone()), format!("{name}: key {j} opened it on the pinned release and no longer recovers the same secret"));
        }
    }
    // empty structure
    {
        let m0 = MasterSecretKey::deserialize(&b("empty.msk", 0)).unwrap();
        let k0 = MasterPublicKey::deserialize(&b("empty.mpk", 0)).unwrap();
        let e0 = XEnc::deserialize(&b("empty.enc", 0)).unwrap();
        let mut m0 = m0;
        let u = cc.generate_user_secret_key(&mut m0, &ap("*"));
        chk(u.is_ok(), "empty.msk: cannot generate a broadcast key".into());
        if let Ok(u) = u {
            let r = cc.decaps(&u, &e0).ok().flatten();
            chk(r.map(|s| s.to_vec()) == Some(b("empty.enc", 1)), "empty.enc: broadcast key of the deserialised master key does not open it".into());
            let (s, x) = cc.encaps(&k0, &ap("*")).unwrap();
            chk(cc.decaps(&u, &x).ok().flatten() == Some(s), "empty.mpk: encapsulation under the deserialised public key is not opened".into());
        }
    }
    // refresh every key with the deserialised master key, both flags
    for (j, u) in usks.iter_mut().enumerate() {
        for keep in [true, false] {
            let mut u2 = u.clone();
            chk(cc.refresh_usk(&mut msk, &mut u2, keep).is_ok(), format!("h.usk{j}: refresh (keep={keep}) with the deserialised master key fails"));
            if !keep {
                *u = u2;
            }
        }
    }
    // fresh encapsulation under the old public key, opened by the refreshed broadcast key
    let (s, x) = cc.encaps(&mpk2, &ap("DPT::HR && SEC::LOW")).unwrap();
    chk(cc.decaps(&usks[2], &x).ok().flatten() == Some(s), "h.mpk2: encapsulation under the deserialised public key is not opened by the refreshed '*' key".into());
    // the master key still derives a working public key, updates and rekeys
    chk(cc.update_msk(&mut msk).is_ok(), "h.msk: update fails".into());
    chk(cc.rekey(&mut msk, &ap("DPT::FIN")).is_ok(), "h.msk: rekey fails".into());
    // headers
    let star_old = UserSecretKey::deserialize(&b("h.usk2", 0)).unwrap();
    for i in 0..3 {
        let hname = format!("h.hdr{i}");
        let hd = EncryptedHeader::deserialize(&b(&hname, 0)).unwrap();
        let ad = &rows[&hname][3];
        let ad = if ad == "-" { None } else { Some(unhex(ad).unwrap()) };
        let md = &rows[&hname][2];
        let md = if md == "-" { None } else { Some(unhex(md).unwrap()) };
        let r = hd.decrypt(&cc, &star_old, ad.as_deref());
        match r {
            Ok(Some(c)) => {
                chk(c.secret.to_vec() == b(&hname, 1), format!("{hname}: secret differs"));
                chk(c.metadata == md, format!("{hname}: metadata differs"));
                let clr = CleartextHeader::deserialize(&b(&format!("h.clr{i}"), 0)).unwrap();
                chk(clr == c, format!("h.clr{i}: cleartext header differs from the decrypted one"));
            }
            _ => chk(false, format!("{hname}: does not decrypt any more")),
        }
    }
    (checks, fails, mlines)
}
