//! Golden serialisation corpus: objects serialised by the tree the harness is built against.
//! `golden-gen <file>` writes one `name hex` pair per line; `golden-check <file>` (in c13.rs)
//! reads them back with the current tree and uses them.

use cosmian_cover_crypt::{
    api::Covercrypt, traits::KemAc, AccessPolicy, EncryptedHeader, EncryptionHint,
    QualifiedAttribute,
};
use cosmian_crypto_core::bytes_ser_de::Serializable;
use std::fmt::Write as _;

use crate::util::hex;

fn qa(d: &str, n: &str) -> QualifiedAttribute {
    QualifiedAttribute::new(d, n)
}
fn ap(s: &str) -> AccessPolicy {
    AccessPolicy::parse(s).unwrap()
}

pub fn generate() -> String {
    let mut out = String::new();
    let cc = Covercrypt::default();

    // empty structure
    let (msk0, mpk0) = cc.setup().unwrap();
    writeln!(out, "empty.msk {}", hex(&msk0.serialize().unwrap())).unwrap();
    writeln!(out, "empty.mpk {}", hex(&mpk0.serialize().unwrap())).unwrap();
    let (s0, e0) = cc.encaps(&mpk0, &ap("*")).unwrap();
    writeln!(out, "empty.enc {} {}", hex(&e0.serialize().unwrap()), hex(&*s0)).unwrap();

    // a history: SEC hierarchy (LOW classic < MID hybridized < TOP hybridized), DPT anarchy
    let (mut msk, _) = cc.setup().unwrap();
    {
        let s = &mut msk.access_structure;
        s.add_hierarchy("SEC".into()).unwrap();
        s.add_attribute(qa("SEC", "LOW"), EncryptionHint::Classic, None).unwrap();
        s.add_attribute(qa("SEC", "TOP"), EncryptionHint::Hybridized, Some("LOW")).unwrap();
        s.add_attribute(qa("SEC", "MID"), EncryptionHint::Hybridized, Some("LOW")).unwrap();
        s.add_anarchy("DPT".into()).unwrap();
        for (a, h) in [("RD", false), ("HR", false), ("FIN", true), ("MKG", false)] {
            s.add_attribute(qa("DPT", a), EncryptionHint::new(h), None).unwrap();
        }
    }
    let mpk1 = cc.update_msk(&mut msk).unwrap();
    writeln!(out, "h.structure {}", hex(&msk.access_structure.serialize().unwrap())).unwrap();
    let pols = ["DPT::FIN && SEC::MID", "DPT::HR", "*", "SEC::TOP", "DPT::RD || (DPT::MKG && SEC::LOW)"];
    let mut usks = vec![];
    for p in pols {
        usks.push(cc.generate_user_secret_key(&mut msk, &ap(p)).unwrap());
    }
    let encpols = ["DPT::FIN && SEC::LOW", "DPT::HR && SEC::TOP", "DPT::RD", "SEC::MID", "*",
        "DPT::FIN && SEC::MID || DPT::HR && SEC::LOW", "DPT::MKG"];
    let mut encs = vec![];
    for p in encpols {
        let (s, e) = cc.encaps(&mpk1, &ap(p)).unwrap();
        encs.push((p.to_string(), s, e));
    }
    // rotate some, disable one, refresh some keys
    let _ = cc.rekey(&mut msk, &ap("DPT::FIN")).unwrap();
    let _ = cc.rekey(&mut msk, &ap("SEC::LOW && DPT::HR")).unwrap();
    msk.access_structure.disable_attribute(&qa("DPT", "MKG")).unwrap();
    let mpk2 = cc.update_msk(&mut msk).unwrap();
    cc.refresh_usk(&mut msk, &mut usks[0], true).unwrap();
    cc.refresh_usk(&mut msk, &mut usks[2], true).unwrap();
    cc.refresh_usk(&mut msk, &mut usks[3], false).unwrap();
    for p in ["DPT::FIN && SEC::LOW", "DPT::HR && SEC::LOW", "DPT::FIN"] {
        let (s, e) = cc.encaps(&mpk2, &ap(p)).unwrap();
        encs.push((p.to_string(), s, e));
    }
    writeln!(out, "h.msk {}", hex(&msk.serialize().unwrap())).unwrap();
    writeln!(out, "h.mpk1 {}", hex(&mpk1.serialize().unwrap())).unwrap();
    writeln!(out, "h.mpk2 {}", hex(&mpk2.serialize().unwrap())).unwrap();
    for (i, u) in usks.iter().enumerate() {
        writeln!(out, "h.usk{} {} {}", i, hex(&u.serialize().unwrap()), hex(pols[i].as_bytes())).unwrap();
    }
    for (i, (p, s, e)) in encs.iter().enumerate() {
        // which keys open it, as observed on the generating tree
        let mut openers = String::new();
        for (j, u) in usks.iter().enumerate() {
            let r = cc.decaps(u, e).unwrap();
            if let Some(x) = r {
                assert_eq!(&*x, &**s);
                write!(openers, "{j},").unwrap();
            }
        }
        writeln!(out, "h.enc{} {} {} {} {}", i, hex(&e.serialize().unwrap()), hex(&**s), hex(p.as_bytes()),
            if openers.is_empty() { "-".to_string() } else { openers }).unwrap();
    }
    // headers
    for (i, (meta, ad)) in [(None, None), (Some(&b"metadata"[..]), None), (Some(&b"m"[..]), Some(&b"ad"[..]))]
        .into_iter().enumerate()
    {
        let (s, h) = EncryptedHeader::generate(&cc, &mpk2, &ap("DPT::HR && SEC::LOW"), meta, ad).unwrap();
        writeln!(out, "h.hdr{} {} {} {} {}", i, hex(&h.serialize().unwrap()), hex(&*s),
            meta.map(hex).unwrap_or("-".into()), ad.map(hex).unwrap_or("-".into())).unwrap();
        // usks[2] is the '*' key, refreshed: it opens
        let clear = h.decrypt(&cc, &usks[2], ad).unwrap().unwrap();
        writeln!(out, "h.clr{} {}", i, hex(&clear.serialize().unwrap())).unwrap();
    }
    out
}
