mod golden;
mod util;

fn main() {
    let args: Vec<String> = std::env::args().collect();
    match args.get(1).map(|s| s.as_str()) {
        Some("golden-gen") => {
            let s = golden::generate();
            std::fs::write(&args[2], s).unwrap();
        }
        _ => {
            eprintln!("usage: ccharness <cmd> ...");
            std::process::exit(2);
        }
    }
}
