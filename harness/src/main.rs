mod alloc;
mod c14;
mod c16;
mod c19;
mod ds;
mod exec;
mod gen;
mod golden;
mod props;
mod run;
mod util;
mod wire;

use std::io::{BufRead, Write};

#[global_allocator]
static GLOBAL: alloc::Counting = alloc::Counting;

fn usage() -> ! {
    eprintln!("usage: ccharness golden-gen <file> | exec [file] | run <prop> <tier> <seed> <driver> <out.json> | replay <driver> <file>");
    std::process::exit(2);
}

fn main() {
    let args: Vec<String> = std::env::args().collect();
    match args.get(1).map(|s| s.as_str()) {
        Some("golden-gen") => {
            let s = golden::generate();
            std::fs::write(&args[2], s).unwrap();
        }
        Some("golden-gen-extra") => {
            let s = golden::generate_extra();
            std::fs::write(&args[2], s).unwrap();
        }
        Some("exec") => {
            let mut real = exec::Real::new();
            let input: Box<dyn BufRead> = match args.get(2) {
                Some(p) => Box::new(std::io::BufReader::new(std::fs::File::open(p).unwrap())),
                None => Box::new(std::io::BufReader::new(std::io::stdin())),
            };
            let out = std::io::stdout();
            let mut out = out.lock();
            for line in input.lines() {
                let line = line.unwrap();
                writeln!(out, "{}", real.step(&line)).unwrap();
            }
        }
        Some("run") => {
            if args.len() < 7 {
                usage();
            }
            let prop = args[2].as_str();
            let tier = args[3].as_str();
            let seed: u64 = args[4].parse().unwrap_or(0);
            let driver = args[5].as_str();
            let out = args[6].as_str();
            let workers: usize = std::env::var("VERIF_WORKERS").ok().and_then(|s| s.parse().ok()).unwrap_or(16);
            let thorough = tier == "thorough";
            if prop == "C19" {
                c19::run(tier, seed, out);
                return;
            }
            if prop == "C16" {
                c16::run(tier, seed, out);
                return;
            }
            if prop == "C14" {
                c14::run(tier, seed, driver, out);
                return;
            }
            let plan = match prop {
                "C15" => props::plan_c15(tier, seed),
                "C12" => props::plan_c12(tier, seed),
                "C07" => props::plan_c07(tier, seed),
                "C08" => props::plan_c08(tier, seed),
                "C01" | "C02" => props::plan_c01(tier, seed, if thorough { 40000 } else { 3000 }),
                "ds" => {
                    if !ds::AVAILABLE {
                        // the library no longer offers the hook: nothing to compare (reported, not an alarm)
                        std::fs::write(out, format!("{{\"property\":\"ds\",\"tier\":\"{tier}\",\"seed\":{seed},\"config\":\"{}\",\"cases\":0,\"lines\":0,\"distinct_traces\":0,\"distinct_lines\":0,\"op_hist\":{{}},\"status_hist\":{{}},\"err_kind_hist\":{{}},\"soft_kind_mismatch\":0,\"spec_over_model\":0,\"matrix_cells\":0,\"matrix_open\":0,\"samples\":[],\"mismatches\":[],\"extra\":{{\"hook_missing\":true}}}}", util::CFG)).unwrap();
                        println!("ds {tier} cfg={} hook verif_hooks not found in the library: campaign skipped", util::CFG);
                        return;
                    }
                    ds::plan_ds(tier, seed)
                }
                "C12h" => props::plan_history(prop, tier, seed, if thorough { if util::CFG == "p256" { 2000 } else { 8000 } } else { 800 }),
                "C16h" => props::plan_history(prop, tier, seed, if thorough { 10000 } else { 1200 }),
                "C01h" | "C02h" => props::plan_history(prop, tier, seed, if thorough { if util::CFG == "p256" { 3000 } else { 10000 } } else { 1500 }),
                "C03" | "C04" | "C05" | "C06" | "C09" | "C10" | "C11" | "C13" | "C17" | "C18" => {
                    // the second configuration (P-256 + ML-KEM-768) is several times slower per operation
                    props::plan_history(prop, tier, seed, if thorough { if util::CFG == "p256" { 5000 } else { 20000 } } else { 1500 })
                }
                _ => {
                    eprintln!("no differential campaign for {prop}");
                    std::process::exit(2);
                }
            };
            let mut plan = plan;
            // corpus first: the minimised replays of the defects found so far (DESIGN.md section 7) run before anything else
            let corpus_dir = std::env::var("VERIF_CORPUS").unwrap_or("/verif/corpus/findings".into());
            if let Ok(rd) = std::fs::read_dir(&corpus_dir) {
                let mut files: Vec<_> = rd.filter_map(|e| e.ok()).map(|e| e.path()).filter(|p| p.extension().map(|x| x == "txt").unwrap_or(false)).collect();
                files.sort();
                let mut pre = vec![];
                for f in files {
                    let Ok(txt) = std::fs::read_to_string(&f) else { continue };
                    let mut it = txt.lines();
                    let Some(first) = it.next() else { continue };
                    if !first.starts_with("# props:") || !first.split(|c| c == ' ' || c == ',').any(|t| t == prop) {
                        continue;
                    }
                    // a line `#= <oracle> | <expected output> | <tag,tag>` attaches a specification expectation to the line before it
                    let mut lines: Vec<String> = vec![];
                    let mut expect = vec![];
                    for l in it {
                        if let Some(rest) = l.strip_prefix("#= ") {
                            let parts: Vec<&str> = rest.split(" | ").collect();
                            if parts.len() >= 2 && !lines.is_empty() {
                                let tags = parts.get(2).map(|t| t.split(',').map(|x| x.trim().to_string()).filter(|x| !x.is_empty()).collect()).unwrap_or_default();
                                expect.push((lines.len() - 1, run::Expect { out: parts[1].trim().to_string(), oracle: parts[0].trim().to_string(), tags }));
                            }
                        } else if !l.starts_with('#') {
                            lines.push(l.to_string());
                        }
                    }
                    let mut c = run::Case::new(format!("corpus:{}", f.file_name().unwrap().to_string_lossy()), lines);
                    c.expect = expect;
                    pre.push(c);
                }
                pre.extend(plan.cases);
                plan.cases = pre;
            }
            let (rule, exhaustive, per_line) = (plan.rule.clone(), plan.exhaustive, plan.per_line);
            let t0 = std::time::Instant::now();
            let hang_s: u64 = std::env::var("VERIF_HANG_S").ok().and_then(|s| s.parse().ok()).unwrap_or(if thorough { 300 } else { 120 });
            run::spawn_watchdog(prop.to_string(), tier.to_string(), seed, out.to_string(), std::time::Duration::from_secs(hang_s));
            let o = run::run_cases(driver, plan.cases, workers, 3);
            let j = run::outcome_json(
                prop,
                tier,
                seed,
                &o,
                serde_json::json!({"rule": rule, "exhaustive": exhaustive, "per_line": per_line, "wall_s": t0.elapsed().as_secs_f64()}),
            );
            std::fs::write(out, serde_json::to_string_pretty(&j).unwrap()).unwrap();
            eprintln!(
                "{prop} {tier} cfg={} cases={} lines={} distinct={} mismatches={} soft={} ({:.1}s)",
                util::CFG,
                o.stats.cases,
                o.stats.lines,
                o.stats.distinct.len(),
                o.mismatches.len(),
                o.stats.soft_kind_mismatch,
                t0.elapsed().as_secs_f64()
            );
        }
        Some("c14-worker") => c14::worker(),
        Some("golden-check") => {
            // golden-check <file> <driver> <out.json>
            let t0 = std::time::Instant::now();
            let (mut checks, mut fails, mut mlines) = golden::check(&args[2]);
            // the second part of the corpus, next to the first
            let (c2, f2, m2) = golden::check_extra(&args[2].replace("pinned-", "pinned-extra-"));
            checks += c2;
            fails.extend(f2);
            mlines.extend(m2);
            let model = run::run_model(&args[3], &mlines);
            let mut mism = vec![];
            for (l, o) in mlines.iter().zip(model.iter()) {
                if !o.starts_with("ok") {
                    mism.push(serde_json::json!({"case": "golden", "line_no": 0, "op": "wire", "impl": "ok (deserialises)", "model": o,
                        "kind": "state", "lines": [l.chars().take(200).collect::<String>()], "shrunk": false}));
                }
            }
            let fails_j: Vec<serde_json::Value> = fails.iter().map(|f| serde_json::json!({
                "kind": "impl-oracle", "oracle": "golden-corpus", "tags": ["golden"], "what": f, "lines": [], "case": args[2]})).collect();
            let j = serde_json::json!({
                "property": "C13", "tier": "quick", "seed": 0, "config": util::CFG, "cases": 1, "lines": checks + mlines.len(),
                "distinct_traces": 1, "distinct_lines": checks + mlines.len(), "op_hist": {"golden-check": checks, "wire": mlines.len()},
                "status_hist": {}, "err_kind_hist": {}, "soft_kind_mismatch": 0, "matrix_cells": 0, "matrix_open": 0,
                "samples": [{"golden_file": args[2], "checks": checks}], "mismatches": mism,
                "extra": {"rule": "golden corpus: objects serialised by the pinned release (both configurations; several revisions, a disabled right, mixed flavours, five users, empty structure, three headers; second part: encapsulations whose 2 / 3 / 4 targets are all hybridized, keys with four revisions, PKE ciphertexts, headers with longer metadata) are deserialised by the current code and by the Lean wire model, then used (decaps by the recorded openers, refresh with both flags, encaps under the old public key, update, rekey, header decryption) - a test on samples, labelled as such",
                    "exhaustive": false, "per_line": true, "oracle_failures": fails_j, "oracle_checked": checks, "campaign": "golden", "wall_s": t0.elapsed().as_secs_f64()},
            });
            std::fs::write(&args[4], serde_json::to_string_pretty(&j).unwrap()).unwrap();
            eprintln!("golden {} checks={} failures={} model_rejects={}", util::CFG, checks, fails.len(), mism.len());
        }
        Some("replay") => {
            // re-execute the op lines of a replay file on both sides and print the first disagreement
            let driver = args[2].as_str();
            let txt = std::fs::read_to_string(&args[3]).unwrap();
            let lines: Vec<String> = match serde_json::from_str::<serde_json::Value>(&txt) {
                Ok(v) => v["lines"].as_array().map(|a| a.iter().filter_map(|x| x.as_str().map(|s| s.to_string())).collect()).unwrap_or_default(),
                Err(_) => txt.lines().map(|s| s.to_string()).collect(),
            };
            let (i, m) = run::run_both(driver, &lines);
            for k in 0..lines.len() {
                println!("> {}\n  impl : {}\n  model: {}", lines[k], i[k], m.get(k).cloned().unwrap_or_default());
            }
            match run::first_mismatch(&lines, &i, &m) {
                Some((k, kind)) => {
                    println!("DISAGREE at line {k} ({kind})");
                    std::process::exit(1);
                }
                None => println!("AGREE"),
            }
        }
        _ => usage(),
    }
}
