//! Per-property campaigns: which cases are generated for which property and tier.

use crate::gen::{HistGen, Profile};
use crate::run::Case;
use crate::util::{hex, SplitMix64};

pub struct Plan {
    pub cases: Vec<Case>,
    pub exhaustive: bool,
    pub rule: String,
    /// distinct cases are counted per (line, outcome) rather than per trace
    pub per_line: bool,
}

fn h(s: &str) -> String {
    hex(s.as_bytes())
}

/// all strings over `alpha` of length <= n
fn all_strings(alpha: &[char], n: usize) -> Vec<String> {
    let mut out = vec![String::new()];
    let mut frontier = vec![String::new()];
    for _ in 0..n {
        let mut next = vec![];
        for s in &frontier {
            for c in alpha {
                let mut t = s.clone();
                t.push(*c);
                next.push(t);
            }
        }
        out.extend(next.iter().cloned());
        frontier = next;
    }
    out
}

/// random boolean formula printed with random spacing and redundant parentheses
fn random_formula(rng: &mut SplitMix64, depth: usize, atoms: &[&str]) -> String {
    let sp = |rng: &mut SplitMix64| -> &'static str { *rng.pick(&["", " ", "  ", "\u{a0}", " \t"]) };
    if depth == 0 || rng.chance(1, 3) {
        let a = *rng.pick(atoms);
        let s = format!("{}{}{}", sp(rng), a, sp(rng));
        return if rng.chance(1, 5) { format!("({s})") } else { s };
    }
    let l = random_formula(rng, depth - 1, atoms);
    let r = random_formula(rng, depth - 1, atoms);
    let s = match rng.below(3) {
        0 => format!("{l}&&{r}"),
        1 => format!("{l}||{r}"),
        _ => format!("({l}){}({r})", sp(rng)), // juxtaposition = AND
    };
    if rng.chance(1, 3) {
        format!("{}({s}){}", sp(rng), sp(rng))
    } else {
        s
    }
}

/// a random formula of the documented grammar with its intended meaning: printed with AND binding
/// tighter than OR, parentheses where needed (plus redundant ones), `&&` or juxtaposition, random spacing
fn grammar_formula(rng: &mut SplitMix64, depth: usize) -> (String, String, u8) {
    // returns (text, prefix-notation meaning, precedence level: 0 atom / parenthesised, 1 conjunction, 2 disjunction)
    let atoms = ["A::a", "B::b", "C::c", "Dé::é", "E :: e", "F::f g"];
    let sp = |rng: &mut SplitMix64| -> &'static str { *rng.pick(&["", " ", "  ", "\u{a0}", " \t", "\u{2003}"]) };
    if depth == 0 || rng.chance(1, 3) {
        let i = rng.below(atoms.len());
        return (format!("{}{}{}", sp(rng), atoms[i], sp(rng)), format!("a{i}"), 0);
    }
    let (l, lm, lp) = grammar_formula(rng, depth - 1);
    let (r, rm, rp) = grammar_formula(rng, depth - 1);
    let paren = |s: String, rng: &mut SplitMix64| format!("{}({}){}", sp(rng), s, sp(rng));
    if rng.chance(1, 2) {
        // conjunction: operands that are disjunctions need parentheses
        let l2 = if lp == 2 || rng.chance(1, 5) { paren(l, rng) } else { l };
        let r2 = if rp == 2 || rng.chance(1, 5) { paren(r, rng) } else { r };
        // juxtaposition only between a parenthesised group and its neighbour
        let juxt = (l2.trim_end().ends_with(')') || r2.trim_start().starts_with('(')) && rng.chance(1, 3);
        let s = if juxt { format!("{l2}{}{r2}", if l2.ends_with(')') || r2.starts_with('(') { "" } else { " " }) } else { format!("{l2}&&{r2}") };
        (s, format!("&.{lm}.{rm}"), 1)
    } else {
        let l2 = if rng.chance(1, 5) { paren(l, rng) } else { l };
        let r2 = if rng.chance(1, 5) { paren(r, rng) } else { r };
        (format!("{l2}||{r2}"), format!("|.{lm}.{rm}"), 2)
    }
}

pub fn plan_c15(tier: &str, seed: u64) -> Plan {
    let alpha = ['A', 'é', ':', '&', '|', '(', ')', ' ', '*', '\u{a0}'];
    let n = if tier == "thorough" { 6 } else { 4 };
    let mut lines = vec!["reset".to_string()];
    for s in all_strings(&alpha, n) {
        lines.push(format!("parse x{}", h(&s)));
    }
    // long expressions: flat chains of up to 300 operands, groups nested up to 80 deep, chains inside nested groups,
    // right- and left-leaning alternations (the grammar puts no bound on either; a parser may)
    {
        let atom = |k: usize| format!("D{}::A{}", k % 7, k);
        let mut longs: Vec<String> = vec![];
        for n in [8usize, 17, 18, 19, 33, 64, 65, 130, 300] {
            longs.push((0..n).map(atom).collect::<Vec<_>>().join(" || "));
            longs.push((0..n).map(atom).collect::<Vec<_>>().join(" && "));
            longs.push((0..n).map(|k| format!("{} && {}", atom(2 * k), atom(2 * k + 1))).collect::<Vec<_>>().join(" || "));
            // (a conjunction of n binary disjunctions has 2^n clauses in normal form: small n only)
            if n <= 8 {
                longs.push((0..n).map(|k| format!("({} || {})", atom(2 * k), atom(2 * k + 1))).collect::<Vec<_>>().join(" && "));
            }
        }
        for d in [4usize, 15, 16, 17, 18, 40, 80] {
            longs.push(format!("{}{}{}", "(".repeat(d), atom(1), ")".repeat(d)));
            longs.push(format!("{}{} || {}{}", "(".repeat(d), atom(1), atom(2), ")".repeat(d)));
            // right-leaning: A && (B || (C && (D || ...)))
            let mut t = atom(d);
            for k in (0..d).rev() {
                t = if k % 2 == 0 { format!("{} && ({})", atom(k), t) } else { format!("{} || ({})", atom(k), t) };
            }
            longs.push(t);
            // left-leaning: (((A || B) && C) || D) ...
            let mut t = atom(0);
            for k in 1..=d {
                t = if k % 2 == 0 { format!("({}) && {}", t, atom(k)) } else { format!("({}) || {}", t, atom(k)) };
            }
            longs.push(t);
            longs.push(format!("S::T && {}{}{}", "(".repeat(d.min(8)), (0..12).map(atom).collect::<Vec<_>>().join(" || "), ")".repeat(d.min(8))));
        }
        for s in longs {
            lines.push(format!("parse x{}", h(&s)));
        }
    }
    // documented test strings and targeted non-ASCII shapes
    for s in [
        "(D1::A && (D2::A) || D2::B)", "D1::A && D2::A || D2::B", "D1::A && (D2::A || D2::B)", "D1::A (D2::A || D2::B)",
        "*", "", "D1", "D1::A (&& D2::A || D2::B)", "|| D2::B", "é::x", "(D::é)", "D::A |é", "D::A &é",
        "D::A && (D::B || Dé::C)", "a::b::c", " :: ", "::", "A::", "::B", "A :: B", "(((A::B)))", "A::B)", "(A::B",
        "A::B && *", "* && A::B", "* || A::B", "A::B || *", "(*)", "A::B * C::D", "A::B&&C::D", "A::B||C::D", "A::B &&& C::D",
        "A::B | | C::D", "\u{3000}A::B\u{2003}", "A::B\u{85}&&\u{1680}C::D",
    ] {
        lines.push(format!("parse x{}", h(s)));
    }
    let mut rng = SplitMix64::new(seed ^ 0xC15);
    let atoms = ["A::a", "B::b", "C::c", "Dé::é", "E :: e", "*"];
    let nf = if tier == "thorough" { 20000 } else { 2000 };
    for _ in 0..nf {
        let f = random_formula(&mut rng, 4, &atoms);
        lines.push(format!("parse x{}", h(&f)));
    }
    // long expressions with multi-byte names, well formed and malformed (every error path, with the names shifted
    // byte by byte so that any fixed byte offset falls inside a multi-byte character for some of them)
    let long_names = ["Département::Ingénierie", "Sécurité::Très Secret Défense", "日本語::東京都千代田区", "Ünïcödé Dîm::Ättrïbütë №1", "ασφάλεια::άκρως απόρρητο"];
    let templates = ["&& {X}", "|| {X}", "{X} &&& {Y}", "{X} | {Y}", "({X}", "{X})", "(({X}) && ({Y}", "{X} && ({Y} || ", "{X} & {Y}", "){X}(",
        "{X} && ", "{X} || ", "({X} || {Y}) && {X}::z", "{X} && {Y}", "({X} || {Y}) && {X}", "{X}{Y}", "{X} ({Y}", "(({X})) || (({Y})", "{X} && ({Y} && ({X} || ({Y})",
        "{X} || || {Y}", "{X} && && {Y}", "({X} && {Y}))", "{X} :: {Y}", "::{X}", "{X}::", "(&& {X})", "(|| {X})", "{X} && (|| {Y})"];
    let pads = ["", "a", "ab", "abc", "abcd::e && ", "é", "(é::é) && ", "x::y || "];
    let nl = if tier == "thorough" { usize::MAX } else { 1 };
    for (ti, t) in templates.iter().enumerate() {
        for (xi, x) in long_names.iter().enumerate() {
            for (pi, pad) in pads.iter().enumerate() {
                if nl == 1 && (ti + xi + pi) % 3 != 0 {
                    continue;
                }
                let y = long_names[(xi + 1 + pi) % long_names.len()];
                let e = format!("{pad}{}", t.replace("{X}", x).replace("{Y}", y));
                lines.push(format!("parse x{}", h(&e)));
                // nested once more: errors are re-reported by the enclosing group
                lines.push(format!("parse x{}", h(&format!("{pad}(z::z || ({e})) && {y}"))));
            }
        }
    }
    // the documented grammar with its intended meaning: specification oracle on the implementation
    let mut expect = vec![];
    let ng = if tier == "thorough" { 20000 } else { 3000 };
    for _ in 0..ng {
        let (txt, meaning, _) = grammar_formula(&mut rng, 4);
        lines.push(format!("parse_eq x{} {}", h(&txt), meaning));
        expect.push((lines.len() - 1, Expect { out: "ok eq=1".into(), oracle: "parse-not-equivalent-to-formula".into(), tags: vec![] }));
    }
    Plan {
        per_line: true,
        cases: vec![Case { expect, name: format!("c15-exhaustive-len{n}+formulas"), lines }],
        exhaustive: true,
        rule: format!("every string over {{A,é,:,&,|,(,),space,*,U+00A0}} of length <= {n} (exhaustive), the documented examples and targeted non-ASCII shapes, long expressions (flat chains of up to 300 operands, groups nested up to 80 deep, leaning alternations), long well-formed and malformed expressions with multi-byte names (28 templates covering every error path x 5 names x 8 byte shifts, each also nested in a group), {nf} random printed strings (random spacing, redundant parentheses, juxtaposition) and {ng} formulas of the documented grammar (AND before OR, parentheses, && or juxtaposition, Unicode spacing, multi-byte and spaced names) whose parsed policy and DNF are compared with the intended formula under all 64 assignments, on the implementation (specification oracle) and on the model; a case is one string; parse result (AST and DNF, or error) of the implementation is compared with the Lean model; distinct = distinct (input, outcome) pairs"),
    }
}

/// enumerate small structures; for each, every policy made of <= 2 clauses picking at most one
/// attribute per dimension; compare the right sets, then the real decaps verdict with the
/// name-level cover relation.
pub fn plan_c01(tier: &str, seed: u64, kem_pairs: usize) -> Plan {
    let mut rng = SplitMix64::new(seed ^ 0xC01);
    let max_dims = if tier == "thorough" { 3 } else { 2 };
    let max_attrs = 3;
    let dim_names = ["D", "S", "T"];
    let attr_names = ["A", "B", "C", "E", "F"];
    let mut cases = vec![];
    // shapes: for each dim: (ordered, n_attrs)
    let mut shapes: Vec<Vec<(bool, usize)>> = vec![vec![]];
    for _ in 0..max_dims {
        let mut next = vec![];
        for s in &shapes {
            for ordered in [false, true] {
                for n in 1..=max_attrs {
                    let mut t = s.clone();
                    t.push((ordered, n));
                    next.push(t);
                }
            }
        }
        shapes.extend(next.iter().cloned());
        shapes.retain(|s| s.len() <= max_dims);
        // keep all lengths
        let mut uniq = vec![];
        for s in shapes.drain(..) {
            if !uniq.contains(&s) {
                uniq.push(s);
            }
        }
        shapes = uniq;
    }
    // a few taller / wider shapes beyond the exhaustive small ones
    shapes.push(vec![(true, 5)]);
    shapes.push(vec![(true, 4), (false, 4)]);
    shapes.push(vec![(false, 5), (true, 2)]);
    for (si, shape) in shapes.iter().enumerate() {
        let mut lines = vec!["reset".to_string(), "setup M0 K0".to_string()];
        let mut attrs: Vec<Vec<String>> = vec![];
        for (di, (ordered, n)) in shape.iter().enumerate() {
            lines.push(format!("add_dim M0 {} {}", if *ordered { "h" } else { "a" }, h(dim_names[di])));
            let mut names: Vec<String> = vec![];
            for ai in 0..*n {
                let hint = if rng.chance(1, 3) { "h" } else { "c" };
                // hierarchy orders: insert after a random existing attribute or at the bottom
                let after = if *ordered && !names.is_empty() && rng.chance(2, 3) { Some(rng.pick(&names).clone()) } else { None };
                lines.push(format!(
                    "add_attr M0 {} {} {} {}",
                    h(dim_names[di]),
                    h(attr_names[ai]),
                    hint,
                    after.map(|a| h(&a)).unwrap_or("-".into())
                ));
                names.push(attr_names[ai].to_string());
            }
            attrs.push(names);
        }
        lines.push("update M0 K1".to_string());
        // all clauses: at most one attribute per dimension (non-empty)
        let mut clauses: Vec<Vec<String>> = vec![vec![]];
        for (di, names) in attrs.iter().enumerate() {
            let mut next = vec![];
            for c in &clauses {
                next.push(c.clone());
                for a in names {
                    let mut t = c.clone();
                    t.push(format!("{}::{}", dim_names[di], a));
                    next.push(t);
                }
            }
            clauses = next;
        }
        clauses.retain(|c| !c.is_empty());
        let mut pols: Vec<String> = vec!["*".to_string()];
        for c in &clauses {
            pols.push(c.join(" && "));
        }
        let two: Vec<String> = {
            let mut v = vec![];
            for i in 0..clauses.len() {
                for j in (i + 1)..clauses.len() {
                    v.push(format!("{} || {}", clauses[i].join(" && "), clauses[j].join(" && ")));
                }
            }
            v
        };
        // all single clauses, and a sample (all when small) of two-clause policies
        let cap = if tier == "thorough" { 400 } else { 120 };
        if two.len() <= cap {
            pols.extend(two.iter().cloned());
        } else {
            for _ in 0..cap {
                pols.push(rng.pick(&two).clone());
            }
        }
        // '*' as an operand: neutral under AND, absorbing under OR (written on either side, nested)
        let mut stars: Vec<String> = vec![];
        if !clauses.is_empty() {
            for _ in 0..3 {
                let c = rng.pick(&clauses).join(" && ");
                let d = rng.pick(&clauses).join(" && ");
                let form = match rng.below(6) {
                    0 => format!("{c} || *"),
                    1 => format!("(*) || {c}"),
                    2 => format!("{c} && *"),
                    3 => format!("(*) && {c}"),
                    4 => format!("({c} || *) && {d}"),
                    _ => format!("{d} && ((*) || {c})"),
                };
                stars.push(form);
            }
            pols.extend(stars.iter().cloned());
        }
        for p in &pols {
            lines.push(format!("usk_rights M0 t:{}", h(p)));
            lines.push(format!("enc_rights M0 t:{}", h(p)));
        }
        // KEM layer on this structure: sampled user policies (biased to several clauses) against
        // *every* single-clause encryption policy and '*', plus sampled multi-clause encryption policies
        let per = (kem_pairs / shapes.len()).max(2);
        let singles: Vec<String> = std::iter::once("*".to_string()).chain(clauses.iter().map(|c| c.join(" && "))).collect();
        let n_users = (per / singles.len()).max(2);
        for k in 0..n_users {
            let u = if k % 3 == 0 || two.is_empty() { rng.pick(&pols).clone() } else { rng.pick(&two).clone() };
            for e in &singles {
                lines.push(format!("covers M0 K1 t:{} t:{}", h(&u), h(e)));
            }
            if !two.is_empty() {
                let e = rng.pick(&two).clone();
                lines.push(format!("covers M0 K1 t:{} t:{}", h(&u), h(&e)));
            }
        }
        for st in &stars {
            // a key whose policy mentions '*' against a plain clause, and a plain key against a target mentioning '*'
            let e = rng.pick(&singles).clone();
            lines.push(format!("covers M0 K1 t:{} t:{}", h(st), h(&e)));
            let u = rng.pick(&singles).clone();
            lines.push(format!("covers M0 K1 t:{} t:{}", h(&u), h(st)));
        }
        // second phase: the same questions on the structure after edits (rename, delete + re-add, insertion in
        // the middle of a hierarchy, store / load of the master key), made effective by an update
        let n_edits = if attrs.is_empty() { 0 } else { 2 + rng.below(3) };
        for k in 0..n_edits {
            let di = rng.below(attrs.len());
            let ordered = shape[di].0;
            let dn = dim_names[di];
            let pick_after = |rng: &mut SplitMix64, names: &Vec<String>| -> String {
                if ordered && !names.is_empty() && rng.chance(2, 3) { let a: &String = rng.pick(&names[..]); h(a) } else { "-".into() }
            };
            match rng.below(4) {
                0 if !attrs[di].is_empty() => {
                    let ai = rng.below(attrs[di].len());
                    let new = format!("R{k}");
                    lines.push(format!("rename_attr M0 {} {} {}", h(dn), h(&attrs[di][ai]), h(&new)));
                    attrs[di][ai] = new;
                }
                1 if attrs[di].len() >= 2 => {
                    let ai = rng.below(attrs[di].len());
                    let old = attrs[di].remove(ai);
                    lines.push(format!("del_attr M0 {} {}", h(dn), h(&old)));
                    let after = pick_after(&mut rng, &attrs[di]);
                    let hint = if rng.chance(1, 3) { "h" } else { "c" };
                    lines.push(format!("add_attr M0 {} {} {} {}", h(dn), h(&old), hint, after));
                    attrs[di].push(old);
                }
                2 => {
                    let new = format!("N{k}");
                    let after = pick_after(&mut rng, &attrs[di]);
                    let hint = if rng.chance(1, 3) { "h" } else { "c" };
                    lines.push(format!("add_attr M0 {} {} {} {}", h(dn), h(&new), hint, after));
                    attrs[di].push(new);
                }
                _ => lines.push("roundtrip M0".to_string()),
            }
        }
        lines.push("update M0 K2".to_string());
        if rng.chance(1, 2) {
            lines.push("roundtrip M0".to_string());
        }
        let mut clauses2: Vec<Vec<String>> = vec![vec![]];
        for (di, names) in attrs.iter().enumerate() {
            let mut next = vec![];
            for c in &clauses2 {
                next.push(c.clone());
                for a in names {
                    let mut t = c.clone();
                    t.push(format!("{}::{}", dim_names[di], a));
                    next.push(t);
                }
            }
            clauses2 = next;
        }
        clauses2.retain(|c| !c.is_empty());
        let singles2: Vec<String> = std::iter::once("*".to_string()).chain(clauses2.iter().map(|c| c.join(" && "))).collect();
        for p in &singles2 {
            lines.push(format!("usk_rights M0 t:{}", h(p)));
            lines.push(format!("enc_rights M0 t:{}", h(p)));
        }
        let n_users2 = (per / singles2.len() / 2).max(2);
        for _ in 0..n_users2 {
            let u = if clauses2.len() >= 2 && rng.chance(1, 2) {
                format!("{} || {}", rng.pick(&clauses2).join(" && "), rng.pick(&clauses2).join(" && "))
            } else {
                rng.pick(&singles2).clone()
            };
            for e in &singles2 {
                lines.push(format!("covers M0 K2 t:{} t:{}", h(&u), h(e)));
            }
        }
        cases.push(Case { expect: vec![], name: format!("c01-shape{si}"), lines });
    }
    Plan {
        per_line: false,
        cases,
        exhaustive: true,
        rule: format!("every structure shape with <= {max_dims} dimensions (anarchy or hierarchy) of 1..3 attributes (random hints and hierarchy insertion orders), plus three taller / wider shapes (a 5-level hierarchy; 4 levels x 4 siblings; 5 siblings x 2 levels); on each, every policy with one clause (at most one attribute per dimension) and '*', and all (or a sample of) two-clause policies: rights of user keys and of encapsulations compared as sets between implementation and model; plus sampled (user policy, encryption policy) pairs where the real keygen/encaps/decaps verdict is compared with the name-level cover relation of the Lean spec; then 2-4 random edits (rename, delete + re-add, insertion at a random rank, store / load of the master key) and an update, and the same rights and cover questions on the edited structure; distinct = distinct canonical traces per structure"),
    }
}

pub fn profile_for(prop: &str, tier: &str) -> Profile {
    let mut p = Profile::base();
    if tier == "thorough" {
        p.n_ops = 40;
    }
    match prop {
        // C01 / C02 over histories: keys generated at any point against encapsulations made at any later point,
        // across edits, store / load of the master key, updates and refreshes
        "C01h" | "C02h" => {
            // every kind of operation in balance (edits, updates, rotations, prunes, refreshes with either flag, store / load)
            p.w_edit = 5;
            p.w_update = 4;
            p.w_recaps = 0;
            p.w_roundtrip = 3;
            p.malformed_pct = 5;
            p.matrix_often = true;
        }
        // the PKE and header layers inside histories: ciphertexts and headers made under any public key, opened by
        // any key at any later point (after rotations, refreshes, edits, store / load)
        "C12h" => {
            p.w_pke = 6;
            p.w_hdr = 6;
            p.w_encaps = 1;
            p.w_recaps = 0;
            p.w_edit = 3;
            p.malformed_pct = 5;
        }
        // what the master key publishes over time: rotations, disables, updates, prunes, re-derivations, store / load
        "C16h" => {
            p.w_rekey = 7;
            p.w_update = 5;
            p.w_edit = 5;
            p.w_edits = [1, 1, 2, 2, 1, 6];
            p.w_prune = 3;
            p.w_mpk = 3;
            p.w_roundtrip = 2;
            p.w_keygen = 1;
            p.w_refresh = 1;
            p.w_encaps = 1;
            p.w_recaps = 0;
            p.malformed_pct = 3;
        }
        "C03" => {
            p.w_edit = 8;
            p.w_update = 5;
            p.w_rekey = 1;
            p.w_prune = 1;
            p.w_recaps = 0;
            p.matrix_often = true;
        }
        "C04" => {
            p.w_roundtrip = 3;
            p.w_edit = 1;
            p.w_rekey = 6;
            p.w_refresh = 6;
            p.w_prune = 1;
            p.w_recaps = 0;
            p.matrix_often = true;
            p.malformed_pct = 5;
        }
        "C05" => {
            p.w_roundtrip = 3;
            p.w_edit = 3;
            p.w_edits = [1, 2, 2, 5, 1, 1];
            p.w_rekey = 5;
            p.w_prune = 5;
            p.w_refresh = 6;
            p.w_recaps = 0;
            p.matrix_often = true;
            p.malformed_pct = 5;
        }
        "C06" => {
            p.w_edits = [1, 1, 2, 1, 1, 8];
            p.w_edit = 5;
            p.w_update = 4;
            p.w_mpk = 2;
            p.w_roundtrip = 3;
            p.w_recaps = 0;
        }
        "C09" | "C10" => {
            p.malformed_pct = 35;
            p.w_rollback = 2;
            p.w_edit = 6;
            p.w_forge = 2;
            // re-encapsulation is an API call with a contract of its own: more of it, after more disables
            p.w_recaps = 3;
            p.w_edits = [2, 1, 4, 3, 2, 4];
        }
        "C11" => {
            p.hybrid_pct = 50;
            p.w_roundtrip = 3;
            // re-encapsulation after the classic targets of a mixed encapsulation were disabled / deleted
            p.w_recaps = 5;
            p.w_encaps = 6;
            p.w_edits = [2, 1, 4, 4, 2, 4];
        }
        "C13" => {
            p.w_roundtrip = 8;
            p.w_ser = 6;
            p.w_hdr = 4;
            p.w_pke = 1;
            p.max_dims = 2;
            p.max_attrs = 3;
            p.hybrid_pct = 20;
            p.matrix_often = true;
        }
        "C17" => {
            p.tracers_pct = 25;
            p.w_relevel = 1;
            p.w_trace = 6;
            p.w_keygen = 6;
            p.w_refresh = 6;
            p.w_roundtrip = 3;
            p.w_rollback = 2;
            p.w_forge = 4;
            p.max_keys = 8;
        }
        "C18" => {
            // many hybridized attributes: encapsulations whose targets are all hybridized take the other branch of
            // `full_decaps`, and with several targets some become unrecoverable (disabled, deleted, pruned) while others stay
            p.hybrid_pct = 65;
            p.w_recaps = 8;
            p.w_encaps = 6;
            // encapsulations with many targets, and structures that shrink under them (whole dimensions and attributes
            // deleted): the master key may end up with fewer rights than an old encapsulation has components
            p.w_edits = [1, 3, 2, 4, 1, 4];
            p.max_clauses = 5;
            p.matrix_often = true;
        }
        _ => {}
    }
    p
}

pub fn plan_history(prop: &str, tier: &str, seed: u64, n: usize) -> Plan {
    let p = profile_for(prop, tier);
    let mut master = SplitMix64::new(seed ^ crate::util::fnv64(prop.as_bytes()));
    let mut cases = vec![];
    for i in 0..n {
        let s = master.next();
        // most histories use the base shape; some use tall hierarchies / many attributes, some many small dimensions
        let mut q = p.clone();
        match s % 10 {
            0 | 1 => { q.max_dims = 2; q.max_attrs = 6; }
            2 => { q.max_dims = 4; q.max_attrs = 2; }
            _ => {}
        }
        // a few histories on wide structures: up to 3 x 5 attributes, i.e. up to 216 rights - the counts of rights in the
        // serialised keys then need two LEB128 bytes (> 127) - and, outside C17 (which does it often), a few at a higher
        // tracing level
        if (s >> 8) % 40 == 0 {
            q.max_dims = 3;
            q.max_attrs = 5;
            q.n_ops = q.n_ops.min(12);
        }
        if q.tracers_pct == 0 && (s >> 16) % 25 == 0 {
            q.tracers_pct = 100;
        }
        cases.push(Case { expect: vec![], name: format!("{prop}-hist{i}-seed{s}"), lines: HistGen::history(s, q) });
    }
    // long rotations (66 and 130 re-keyings of one policy in a row, nothing pruned): sizes no short history reaches
    if matches!(prop, "C04" | "C05" | "C16h" | "C13") {
        for (j, n) in [66usize, 130].into_iter().enumerate() {
            let s = master.next();
            let mut q = p.clone();
            q.max_dims = 2;
            q.max_attrs = 2;
            cases.push(Case { expect: vec![], name: format!("{prop}-deep{j}-seed{s}"), lines: HistGen::deep_rotation(s, q, n) });
        }
    }
    Plan {
        per_line: false,
        cases,
        exhaustive: false,
        rule: format!("{n} random operation histories ({} ops after a random base structure of <= {} dimensions x <= {} attributes - 20% of the histories: <= 2 dimensions x <= 6 attributes, 10%: <= 4 dimensions x <= 2 attributes, 2.5%: <= 3 x <= 5 (up to 216 rights), 4%: a master key with 3, 4 or 6 tracers; profile {:?}); a case is one history executed on the real API and on the Lean model with canonical outputs compared line by line; distinct = distinct canonical implementation traces (hash of ops and normalised outputs)", p.n_ops, p.max_dims, p.max_attrs, prop),
    }
}

use crate::run::Expect;

fn xb(b: &[u8]) -> String {
    format!("x{}", hex(b))
}

fn c12_prelude() -> Vec<String> {
    vec![
        "reset".into(),
        "setup M0 K0".into(),
        format!("add_dim M0 h {}", h("S")),
        format!("add_attr M0 {} {} c -", h("S"), h("L")),
        format!("add_attr M0 {} {} h {}", h("S"), h("T"), h("L")),
        format!("add_dim M0 a {}", h("D")),
        format!("add_attr M0 {} {} c -", h("D"), h("A")),
        format!("add_attr M0 {} {} c -", h("D"), h("B")),
        "update M0 K1".into(),
        format!("keygen M0 U0 t:{}", h("D::A && S::T")),
        format!("keygen M0 U1 t:{}", h("D::B")),
    ]
}

/// PKE and header layers: every plaintext / metadata length in a range, every combination of
/// absent / empty / present metadata and authentication data, truncation at every length,
/// authorised and unauthorised keys. Each check line carries what the *specification* demands.
pub fn plan_c12(tier: &str, seed: u64) -> Plan {
    let mut rng = SplitMix64::new(seed ^ 0xC12);
    let thorough = tier == "thorough";
    let mut cases = vec![];
    let mut data = |rng: &mut SplitMix64, n: usize| -> Vec<u8> { (0..n).map(|_| rng.next() as u8).collect() };
    // which encryption policies the authorised key U0 (D::A && S::T) opens
    let pols_ok = ["D::A && S::L", "D::A && S::T", "S::L", "*", "D::A"];
    let ex = |out: &str, oracle: &str, tags: &[&str]| Expect { out: out.into(), oracle: oracle.into(), tags: tags.iter().map(|s| s.to_string()).collect() };

    // --- PKE
    let mut lens: Vec<usize> = (0..=70).collect();
    lens.extend([4090, 4095, 4096, 4097, 8192]);
    if thorough {
        lens.extend(71..=300);
    }
    for &l in &lens {
        let mut c = Case::new(format!("c12-pke-len{l}"), c12_prelude());
        let ptx = data(&mut rng, l);
        let pol = *rng.pick(&pols_ok);
        c.lines.push(format!("pke_enc K1 X0 t:{} {}", h(pol), xb(&ptx)));
        c.expect.push((c.lines.len() - 1, ex(&format!("ok len={}", l + 28), "pke-roundtrip", &[])));
        c.lines.push("pke_dec U0 X0".into());
        c.expect.push((c.lines.len() - 1, ex(&format!("ok some {}", xb(&ptx)), "pke-roundtrip", &[])));
        c.lines.push("pke_dec U1 X0".into());
        // U1 = D::B: opens only policies that do not constrain D to A
        let u1_opens = pol == "S::L" || pol == "*";
        c.expect.push((c.lines.len() - 1, ex(if u1_opens { "ok some" } else { "ok none" }, "pke-unauthorized", &[])));
        if u1_opens {
            c.expect.pop();
        }
        // truncation at every length (small plaintexts) or at sampled lengths
        let total = l + 28;
        let cuts: Vec<usize> = if l <= 40 || thorough && l <= 70 { (0..total).collect() } else { (0..12).map(|_| rng.below(total)).chain([0, 11, 12, 13, total - 1]).collect() };
        for cut in cuts {
            c.lines.push(format!("pke_tamper X0 X1 trunc {cut}"));
            c.lines.push("pke_dec U0 X1".into());
            c.expect.push((c.lines.len() - 1, ex("err _", "pke-truncated", &["truncated"])));
        }
        for _ in 0..6 {
            let pos = rng.below(total);
            c.lines.push(format!("pke_tamper X0 X1 flip {pos}"));
            c.lines.push("pke_dec U0 X1".into());
            c.expect.push((c.lines.len() - 1, ex("err _", "pke-altered", &["altered"])));
        }
        // the ciphertext of one encapsulation under the encapsulation of another
        c.lines.push(format!("encaps K1 E0 t:{}", h(pol)));
        c.lines.push("pke_tamper X0 X1 swapenc E0".into());
        c.lines.push("pke_dec U0 X1".into());
        c.expect.push((c.lines.len() - 1, ex("err _", "pke-swapped-encapsulation", &["swapenc"])));
        cases.push(c);
    }

    // --- encrypted header
    let mut metas: Vec<Option<Vec<u8>>> = vec![None, Some(vec![])];
    for l in 1..=40 {
        metas.push(Some(data(&mut rng, l)));
    }
    let ads: Vec<Option<Vec<u8>>> = vec![None, Some(vec![]), Some(b"ad".to_vec()), Some(data(&mut rng, 33))];
    let ob = |o: &Option<Vec<u8>>| o.as_ref().map(|b| xb(b)).unwrap_or("-".into());
    let adb = |o: &Option<Vec<u8>>| o.clone().unwrap_or_default();
    for (mi, md) in metas.iter().enumerate() {
        // full AD matrix for absent / empty / a few lengths, a sample otherwise
        let full = mi < 4 || mi % 8 == 0 || thorough;
        for ad in &ads {
            if !full && !rng.chance(1, 3) {
                continue;
            }
            let mut c = Case::new(format!("c12-hdr-meta{mi}-ad{}", ob(ad)), c12_prelude());
            let pol = *rng.pick(&pols_ok);
            c.lines.push(format!("hdr_gen K1 H0 t:{} {} {}", h(pol), ob(md), ob(ad)));
            c.expect.push((c.lines.len() - 1, ex(&format!("ok meta={}", md.as_ref().map(|m| (m.len() + 28).to_string()).unwrap_or("-".into())), "hdr-generate", &[])));
            for ad2 in ads.iter().chain([Some(b"other".to_vec())].iter()) {
                c.lines.push(format!("hdr_dec U0 H0 {}", ob(ad2)));
                let same = adb(ad2) == adb(ad);
                let mut tags = vec![];
                if md.is_none() {
                    tags.push("metadata_absent");
                }
                if !same {
                    tags.push("ad_differs");
                }
                let want = if same { format!("ok some sec=1 meta={}", ob(md)) } else { "err _".to_string() };
                c.expect.push((c.lines.len() - 1, ex(&want, "hdr-authentication-data", &tags)));
                c.lines.push(format!("hdr_dec U1 H0 {}", ob(ad2)));
                if !(pol == "S::L" || pol == "*") {
                    c.expect.push((c.lines.len() - 1, ex("ok none", "hdr-unauthorized", &[])));
                }
            }
            if let Some(m) = md {
                let total = m.len() + 28;
                for cut in 0..total {
                    c.lines.push(format!("hdr_tamper H0 H1 trunc {cut}"));
                    c.lines.push(format!("hdr_dec U0 H1 {}", ob(ad)));
                    // truncating the metadata ciphertext to nothing turns it into "absent" on the wire only;
                    // in memory it is an empty ciphertext, which is too short
                    c.expect.push((c.lines.len() - 1, ex("err _", "hdr-truncated", &["truncated"])));
                }
                for _ in 0..4 {
                    let pos = rng.below(total);
                    c.lines.push(format!("hdr_tamper H0 H1 flip {pos}"));
                    c.lines.push(format!("hdr_dec U0 H1 {}", ob(ad)));
                    c.expect.push((c.lines.len() - 1, ex("err _", "hdr-altered", &["altered"])));
                }
            }
            // the *serialised* header cut short: every number of bytes dropped from the end up to a little more than the
            // whole metadata field (so that the cut where the encapsulation ends and the field begins is always among
            // them, whatever the flavour and number of targets), and every short prefix: a strict prefix is not a header
            if mi < 8 || mi % 8 == 0 {
                let field = 2 + md.as_ref().map(|m| if m.is_empty() { 0 } else { m.len() + 28 }).unwrap_or(0);
                for k in 1..=(field + 8) {
                    c.lines.push(format!("hdr_cut H0 H3 -{k}"));
                    c.lines.push(format!("hdr_dec U0 H3 {}", ob(ad)));
                    c.expect.push((c.lines.len() - 1, ex("err _", "hdr-truncated", &["truncated", "serialised"])));
                }
                for cut in 0..120 {
                    c.lines.push(format!("hdr_cut H0 H3 {cut}"));
                }
            }
            // serialisation round trip keeps the outcome
            c.lines.push("hdr_tamper H0 H2 roundtrip 0".into());
            c.lines.push(format!("hdr_dec U0 H2 {}", ob(ad)));
            c.expect.push((c.lines.len() - 1, ex(&format!("ok some sec=1 meta={}", ob(md)), "hdr-roundtrip", &[])));
            cases.push(c);
        }
    }
    // --- sizes: every metadata length up to 300 and the lengths around the width changes of the LEB128 length prefix of
    // the encrypted metadata (127 / 128, 16383 / 16384 bytes on the wire), 64 KiB, and beyond: generate, store / load, open
    let mut sizes: Vec<usize> = (41..=300).collect();
    for l in [127usize, 128, 16382, 16383, 16384, 65535, 65536, 70000] {
        sizes.push(l - 28);
    }
    if thorough {
        sizes.extend([2097151 - 28, 2097152 - 28, 3_000_000]);
    }
    for chunk in sizes.chunks(20) {
        let mut c = Case::new(format!("c12-hdr-sizes-{}", chunk[0]), c12_prelude());
        for (k, l) in chunk.iter().enumerate() {
            let md = Some(data(&mut rng, *l));
            let ad = ads[(l + k) % ads.len()].clone();
            c.lines.push(format!("hdr_gen K1 H0 t:{} {} {}", h("D::A"), ob(&md), ob(&ad)));
            c.expect.push((c.lines.len() - 1, ex(&format!("ok meta={}", l + 28), "hdr-generate", &[])));
            c.lines.push("hdr_tamper H0 H2 roundtrip 0".into());
            c.lines.push(format!("hdr_dec U0 H2 {}", ob(&ad)));
            c.expect.push((c.lines.len() - 1, ex(&format!("ok some sec=1 meta={}", ob(&md)), "hdr-roundtrip", &[])));
            c.lines.push("ser H0".into());
        }
        cases.push(c);
    }
    Plan {
        per_line: true,
        cases,
        exhaustive: false,
        rule: format!("PKE: plaintext lengths 0..70{} and around 4 KiB / 8 KiB, authorised and unauthorised keys, truncation at every length (short plaintexts) or sampled lengths incl. the nonce boundary, bit flips, ciphertext spliced under another encapsulation; header: metadata absent / empty / 1..40 bytes x authentication data absent / empty / short / 33 bytes, decrypted with every authentication-data variant plus a different one, truncation of the metadata ciphertext at every length, truncation of the serialised header at every length (given to the wire model as well), bit flips, serialisation round trip; every metadata length 41..300 and the lengths that put the encrypted metadata at 127 / 128 / 16382..16384 / 65535 / 65536 / 70000 bytes (2 MiB and 3 MB in thorough): generated, stored / loaded, opened, and given to the wire model. Every check line is compared with the Lean model AND with what the specification demands; distinct = distinct canonical traces", if thorough { "..300" } else { "" }),
    }
}

/// C07: every byte x {bit 0, bit 7} of serialised encapsulations (classic 1- and 3-target,
/// hybridised 1- and 2-target), every truncation (sampled in quick), every structural operator;
/// specification: decapsulation never returns a secret.
pub fn plan_c07(tier: &str, seed: u64) -> Plan {
    use crate::wire::sz;
    let thorough = tier == "thorough";
    let mut rng = SplitMix64::new(seed ^ 0xC07);
    let ex = |tags: &[&str]| Expect { out: "ok 0 || err *".into(), oracle: "tampered-encapsulation-opens".into(), tags: tags.iter().map(|s| s.to_string()).collect() };
    // (name, policy, #targets, hybrid)
    // hybrid3: the authorised key opens every component, so an exchange between two of them leaves a third intact
    let shapes: [(&str, &str, usize, bool); 5] = [
        ("classic1", "D::A && S::L", 1, false),
        ("classic3", "D::A && S::L || D::A && S::T || D::A", 3, false),
        ("hybrid1", "D::A && S::T", 1, true),
        ("hybrid2", "D::A && S::T || S::T && D::B", 2, true),
        ("hybrid3", "D::A && S::T || S::T && D::B || S::T", 3, true),
    ];
    let mut cases = vec![];
    for (name, pol, n, hyb) in shapes {
        let total = 16 + 1 + 2 * sz::PK + 1 + 1 + n * (32 + if hyb { sz::ENC } else { 0 });
        // the mutant list
        let mut muts: Vec<String> = vec![];
        let step = 1;
        let mut b = 0;
        while b < total {
            for bit in (if thorough { vec![0usize, 1, 2, 3, 4, 5, 6, 7] } else { vec![0usize, 7] }) {
                muts.push(format!("flip {b} {bit}"));
            }
            b += if b < 120 { 1 } else { step };
        }
        if !thorough && step > 1 {
            for _ in 0..200 {
                muts.push(format!("flip {} {}", rng.below(total), rng.below(8)));
            }
        }
        // the three structural bytes (number of traps, flavour flag, number of components): every bit and a few
        // other values - a parser that repairs an over-announced count must not make the result open
        for pos in [16, 16 + 1 + 2 * sz::PK, 16 + 1 + 2 * sz::PK + 1] {
            for bit in 0..8 {
                muts.push(format!("flip {pos} {bit}"));
            }
            for v in [0usize, 1, 2, 3, 4, 5, 6, 7, 8, 16, 64, 100, 127] {
                muts.push(format!("setbyte {pos} {v}"));
            }
        }
        for cut in 0..total {
            if thorough || total < 400 || cut < 120 || cut % 23 == 0 || cut + 40 > total {
                muts.push(format!("trunc {cut}"));
            }
        }
        // several bytes at once: every pair of tag bytes with cancelling differences (xor, additive), random pairs anywhere
        for a in 0..16 {
            for b in (a + 1)..16 {
                muts.push(format!("xor2 {a} {b} 1"));
                muts.push(format!("xor2 {a} {b} 165"));
                muts.push(format!("addsub {a} {b} 1"));
            }
        }
        for _ in 0..(if thorough { 2000 } else { 150 }) {
            let a = rng.below(total);
            let b = (a + 1 + rng.below(total - 1)) % total;
            muts.push(format!("xor2 {a} {b} {}", 1 + rng.below(255)));
        }
        // whole tags and whole masked seeds replaced by random values: a tag comparison that looks at k bits only
        // lets one in 2^k through (with the honest seed still recoverable, the result opens - to the same or to another secret)
        for k in 0..(if thorough { 20000 } else { 500 }) {
            muts.push(format!("rand_tag {k}"));
        }
        for i in 0..n {
            for k in 0..(if thorough { 8000 } else { 250 }) {
                muts.push(format!("rand_f {i} {}", k * 7 + i));
            }
        }
        muts.push("swap_trap 0 1".into());
        muts.push("drop_trap 0".into());
        muts.push("drop_trap 1".into());
        muts.push("dup_trap 0".into());
        muts.push("dup_trap 1".into());
        for i in 0..n {
            muts.push(format!("drop_f {i}"));
            muts.push(format!("dup_f {i}"));
            muts.push(format!("splice_f E2 {i}"));
            for j in (i + 1)..n {
                muts.push(format!("swap_f {i} {j}"));
                muts.push(format!("swap_ff {i} {j}"));
                if hyb {
                    muts.push(format!("swap_e {i} {j}"));
                }
            }
        }
        muts.push("splice_c E2".into());
        muts.push("splice_tag E2".into());
        muts.push("splice_encs E2".into());
        if hyb {
            muts.push("reflavour".into());
        }
        for k in 0..3 {
            muts.push(format!("noncanon {k}"));
        }
        // U0 authorised for every clause, U1 authorised for none of the first shapes' clauses
        let mut prelude = c12_prelude();
        prelude.truncate(9);
        prelude.push(format!("keygen M0 U0 t:{}", h("D::A && S::T || D::B && S::T")));
        prelude.push(format!("keygen M0 U1 t:{}", h("D::B && S::L")));
        prelude.push(format!("encaps K1 E0 t:{}", h(pol)));
        prelude.push("decaps U0 E0".into());
        // a second honest encapsulation of the same shape to splice from
        prelude.push(format!("encaps K1 E2 t:{}", h(pol)));
        let mut k = 0;
        for chunk in muts.chunks(50) {
            let mut c = Case::new(format!("c07-{name}-chunk{k}"), prelude.clone());
            c.expect.push((prelude.len() - 2, Expect { out: "ok 1".into(), oracle: "honest-encapsulation-opens".into(), tags: vec![] }));
            for (mi, m) in chunk.iter().enumerate() {
                c.lines.push(format!("tamper_enc E0 E1 {m}"));
                c.lines.push("decaps U0 E1".into());
                if m.starts_with("noncanon") {
                    c.expect.push((c.lines.len() - 1, ex(&["noncanon", "authorized-key"])));
                } else {
                    c.expect.push((c.lines.len() - 1, ex(&[m.split(' ').next().unwrap()])));
                }
                if !(m.starts_with("flip") || m.starts_with("xor2") || m.starts_with("addsub") || m.starts_with("rand_")) || mi % 8 == 0 {
                    c.lines.push("decaps U1 E1".into());
                    c.expect.push((c.lines.len() - 1, ex(&[m.split(' ').next().unwrap(), "unauthorized-key"])));
                }
            }
            cases.push(c);
            k += 1;
        }
    }
    Plan {
        per_line: true,
        cases,
        exhaustive: thorough,
        rule: "serialised encapsulations of five shapes (classic 1 / 3 targets incl. mixed flavours, hybridised 1 / 2 / 3 targets): every byte position (all in thorough; the first 120 and every 7th plus 200 random ones in quick for the long hybridised forms) x {bit 0, bit 7}, truncations, every pair of tag bytes changed with cancelling differences (same xor mask, +1 / -1), random pairs of bytes anywhere, whole tags and whole masked seeds replaced by random values (500 / 250 per component in quick, 20 000 / 8 000 in thorough: a comparison that looks at k bits of the tag lets one in 2^k through), and every structural operator (swap / drop / duplicate traps, swap / drop / duplicate components, swap only E or only F, splice a component / the traps / the tag / all components of a second honest encapsulation, flavour flip with re-chunking, a LEB128 field re-encoded with a redundant continuation byte); each mutant is deserialised and decapsulated by the real code with an authorised and an unauthorised key; the specification demands no secret ever; distinct = distinct (mutant, outcome) lines".into(),
    }
}

/// C08: structural tampering of serialised issued user keys, splices of two issued keys, keys of
/// another authority; the real `refresh_usk` must reject everything but the issued key itself.
pub fn plan_c08(tier: &str, seed: u64) -> Plan {
    let thorough = tier == "thorough";
    let mut rng = SplitMix64::new(seed ^ 0xC08);
    let n_cases = if thorough { 400 } else { 20 };
    let mut cases = vec![];
    let reject = |op: &str| Expect { out: "ok acc=0 unch=1* || bad-op".into(), oracle: "refresh-accepts-nonissued".into(), tags: vec![op.to_string()] };
    for ci in 0..n_cases {
        let mut lines = c12_prelude();
        lines.truncate(9);
        // keys with several rights; single / several revisions; classic / hybridised
        let pols = ["*", "D::A && S::T", "D::B", "S::T", "D::A || D::B && S::L"];
        let nk = 3;
        for u in 0..nk {
            lines.push(format!("keygen M0 U{u} t:{}", h(*rng.pick(&pols))));
        }
        let mut next_u = nk;
        let mut next_k = 2;
        for _ in 0..rng.below(4) {
            lines.push(format!("rekey M0 K{next_k} t:{}", h(*rng.pick(&["*", "D::A", "S::T", "D::B && S::L"]))));
            next_k += 1;
            let src = rng.below(next_u);
            lines.push(format!("refresh M0 U{src} U{next_u} 1"));
            next_u += 1;
        }
        // half of the cases: the access structure has been edited and the master key not updated yet when the forged
        // keys are presented (a rejected refresh must leave that master key alone as well)
        if rng.below(2) == 0 {
            match rng.below(3) {
                0 => lines.push(format!("add_attr M0 {} {} c -", h("D"), h("Z"))),
                1 => lines.push(format!("del_attr M0 {} {}", h("D"), h("B"))),
                _ => { lines.push(format!("add_dim M0 a {}", h("N"))); lines.push(format!("add_attr M0 {} {} h -", h("N"), h("X"))); }
            }
        }
        let mut c = Case::new(format!("c08-{ci}"), lines);
        for u in 0..next_u {
            c.lines.push(format!("c08 U{u} none"));
            c.expect.push((c.lines.len() - 1, Expect { out: "ok acc=1* || err *".into(), oracle: "refresh-rejects-issued".into(), tags: vec![] }));
            let a = rng.below(6);
            let b = rng.below(6);
            let v = rng.below(3);
            let ops: Vec<String> = vec![
                format!("swap_chains {a} {b}"), format!("swap_chains 0 1"), format!("drop_chain {a}"), format!("drop_chain 0"),
                format!("dup_chain {a}"), format!("dup_chain 0"), format!("rename_right {a} 00"), format!("rename_right 0 7f"),
                format!("rename_right {a} "), format!("move_secret {a} {b}"), format!("move_secret 0 1"), format!("move_secret 1 0"),
                format!("split_chain {a}"), format!("split_chain 0"), format!("split_chain 1"), format!("split_chain 2"),
                format!("join_chains {a}"), format!("join_chains 0"),
                format!("split_chain_rev {a}"), format!("split_chain_rev 0"), format!("split_chain_rev 1"), format!("split_chain_mid {a}"),
                format!("split_chain_far {a}"), format!("split_chain_far 0"), format!("split_chain_app {a}"), format!("dup_secret {a}"),
                format!("swap_secrets {a}"), format!("swap_secrets 0"), format!("drop_secret {a}"), format!("drop_secret 0"),
                format!("shift_bytes {a} {}", 1 + rng.below(31)), format!("shift_bytes 0 1"),
                format!("merge_into_name {a}"), format!("merge_into_name 0"), format!("merge_into_name 1"), "merge_broadcast".into(),
                format!("reflavour {a}"), format!("reflavour 0"), format!("reflavour 1"), format!("reflavour 2"),
                "strip_sig".into(), format!("flip_sig {}", rng.below(32)), format!("flip_id {}", rng.below(31)), "swap_id".into(),
                format!("splice_chain U{v} {a}"), format!("splice_chain U{v} 0"), format!("splice_sig U{v}"), format!("splice_id U{v}"),
                "foreign".into(), "sibling".into(), "marker_into_name".into(), "secret_into_id".into(),
            ];
            for op in ops {
                c.lines.push(format!("c08 U{u} {op}"));
                let name = op.split(' ').next().unwrap().to_string();
                c.expect.push((c.lines.len() - 1, reject(&name)));
            }
        }
        cases.push(c);
    }
    Plan {
        per_line: true,
        cases,
        exhaustive: false,
        rule: format!("{n_cases} random small histories (keys for 5 policies incl. '*', 0..3 rekeys each followed by a refresh with keep: single and multiple rights, 1..4 revisions, classic and hybridised secrets); on every key version 52 tampering operators on the serialised form (reorder / drop / duplicate / rename rights, move / swap / drop secrets, shift bytes between a right's name and its secret, split a chain into two entries of the same name — in order, reversed, in the middle, apart —, duplicate a secret, merge a chain into a name, merge the broadcast chain into its neighbour, move the last marker of the identifier into the first right's name or the first secret of the empty-named right into the identifier, flavour change with re-chunking, strip / flip / splice signature, flip / swap / splice id, splice a chain of another issued key, key of another authority, key issued by a replica of this master key) plus the untouched control; in half of the histories the access structure was edited and the master key not yet updated when the keys are presented; the real refresh_usk (both flags, on copies) is compared with the Lean byte-level MAC model and with the specification (only the issued key is accepted; nothing modified on rejection)"),
    }
}
