//! Per-property campaigns: which cases are generated for which property and tier.

use crate::gen::{HistGen, Profile};
use crate::run::Case;
use crate::util::{hex, SplitMix64};

pub struct Plan {
    pub cases: Vec<Case>,
    pub exhaustive: bool,
    pub rule: String,
}

fn h(s: &str) -> String {
    hex(s.as_bytes())
}

/// all strings over `alpha` of length <= n
fn all_strings(alpha: &[char], n: usize) -> Vec<String> {
    let mut out = vec![String::new()];
    let mut frontier = vec![String::new()];
    for _ in 0..n {
        let mut next = vec![];
        for s in &frontier {
            for c in alpha {
                let mut t = s.clone();
                t.push(*c);
                next.push(t);
            }
        }
        out.extend(next.iter().cloned());
        frontier = next;
    }
    out
}

/// random boolean formula printed with random spacing and redundant parentheses
fn random_formula(rng: &mut SplitMix64, depth: usize, atoms: &[&str]) -> String {
    let sp = |rng: &mut SplitMix64| -> &'static str { *rng.pick(&["", " ", "  ", "\u{a0}", " \t"]) };
    if depth == 0 || rng.chance(1, 3) {
        let a = *rng.pick(atoms);
        let s = format!("{}{}{}", sp(rng), a, sp(rng));
        return if rng.chance(1, 5) { format!("({s})") } else { s };
    }
    let l = random_formula(rng, depth - 1, atoms);
    let r = random_formula(rng, depth - 1, atoms);
    let s = match rng.below(3) {
        0 => format!("{l}&&{r}"),
        1 => format!("{l}||{r}"),
        _ => format!("({l}){}({r})", sp(rng)), // juxtaposition = AND
    };
    if rng.chance(1, 3) {
        format!("{}({s}){}", sp(rng), sp(rng))
    } else {
        s
    }
}

pub fn plan_c15(tier: &str, seed: u64) -> Plan {
    let alpha = ['A', 'é', ':', '&', '|', '(', ')', ' ', '*', '\u{a0}'];
    let n = if tier == "thorough" { 6 } else { 4 };
    let mut lines = vec!["reset".to_string()];
    for s in all_strings(&alpha, n) {
        lines.push(format!("parse x{}", h(&s)));
    }
    // documented test strings and targeted non-ASCII shapes
    for s in [
        "(D1::A && (D2::A) || D2::B)", "D1::A && D2::A || D2::B", "D1::A && (D2::A || D2::B)", "D1::A (D2::A || D2::B)",
        "*", "", "D1", "D1::A (&& D2::A || D2::B)", "|| D2::B", "é::x", "(D::é)", "D::A |é", "D::A &é",
        "D::A && (D::B || Dé::C)", "a::b::c", " :: ", "::", "A::", "::B", "A :: B", "(((A::B)))", "A::B)", "(A::B",
        "A::B && *", "* && A::B", "* || A::B", "A::B || *", "(*)", "A::B * C::D", "A::B&&C::D", "A::B||C::D", "A::B &&& C::D",
        "A::B | | C::D", "\u{3000}A::B\u{2003}", "A::B\u{85}&&\u{1680}C::D",
    ] {
        lines.push(format!("parse x{}", h(s)));
    }
    let mut rng = SplitMix64::new(seed ^ 0xC15);
    let atoms = ["A::a", "B::b", "C::c", "Dé::é", "E :: e", "*"];
    let nf = if tier == "thorough" { 20000 } else { 2000 };
    for _ in 0..nf {
        let f = random_formula(&mut rng, 4, &atoms);
        lines.push(format!("parse x{}", h(&f)));
    }
    Plan {
        cases: vec![Case { name: format!("c15-exhaustive-len{n}+formulas"), lines }],
        exhaustive: true,
        rule: format!("every string over {{A,é,:,&,|,(,),space,*,U+00A0}} of length <= {n} (exhaustive), the documented examples and targeted non-ASCII shapes, and {nf} random formulas (<=16 atoms, random spacing, redundant parentheses, juxtaposition); a case is one string; parse result (AST and DNF, or error) of the implementation is compared with the Lean model; distinct = distinct (input, outcome) pairs"),
    }
}

/// enumerate small structures; for each, every policy made of <= 2 clauses picking at most one
/// attribute per dimension; compare the right sets, then the real decaps verdict with the
/// name-level cover relation.
pub fn plan_c01(tier: &str, seed: u64, kem_pairs: usize) -> Plan {
    let mut rng = SplitMix64::new(seed ^ 0xC01);
    let max_dims = if tier == "thorough" { 3 } else { 2 };
    let max_attrs = 3;
    let dim_names = ["D", "S", "T"];
    let attr_names = ["A", "B", "C"];
    let mut cases = vec![];
    // shapes: for each dim: (ordered, n_attrs)
    let mut shapes: Vec<Vec<(bool, usize)>> = vec![vec![]];
    for _ in 0..max_dims {
        let mut next = vec![];
        for s in &shapes {
            for ordered in [false, true] {
                for n in 1..=max_attrs {
                    let mut t = s.clone();
                    t.push((ordered, n));
                    next.push(t);
                }
            }
        }
        shapes.extend(next.iter().cloned());
        shapes.retain(|s| s.len() <= max_dims);
        // keep all lengths
        let mut uniq = vec![];
        for s in shapes.drain(..) {
            if !uniq.contains(&s) {
                uniq.push(s);
            }
        }
        shapes = uniq;
    }
    for (si, shape) in shapes.iter().enumerate() {
        let mut lines = vec!["reset".to_string(), "setup M0 K0".to_string()];
        let mut attrs: Vec<Vec<String>> = vec![];
        for (di, (ordered, n)) in shape.iter().enumerate() {
            lines.push(format!("add_dim M0 {} {}", if *ordered { "h" } else { "a" }, h(dim_names[di])));
            let mut names: Vec<String> = vec![];
            for ai in 0..*n {
                let hint = if rng.chance(1, 3) { "h" } else { "c" };
                // hierarchy orders: insert after a random existing attribute or at the bottom
                let after = if *ordered && !names.is_empty() && rng.chance(2, 3) { Some(rng.pick(&names).clone()) } else { None };
                lines.push(format!(
                    "add_attr M0 {} {} {} {}",
                    h(dim_names[di]),
                    h(attr_names[ai]),
                    hint,
                    after.map(|a| h(&a)).unwrap_or("-".into())
                ));
                names.push(attr_names[ai].to_string());
            }
            attrs.push(names);
        }
        lines.push("update M0 K1".to_string());
        // all clauses: at most one attribute per dimension (non-empty)
        let mut clauses: Vec<Vec<String>> = vec![vec![]];
        for (di, names) in attrs.iter().enumerate() {
            let mut next = vec![];
            for c in &clauses {
                next.push(c.clone());
                for a in names {
                    let mut t = c.clone();
                    t.push(format!("{}::{}", dim_names[di], a));
                    next.push(t);
                }
            }
            clauses = next;
        }
        clauses.retain(|c| !c.is_empty());
        let mut pols: Vec<String> = vec!["*".to_string()];
        for c in &clauses {
            pols.push(c.join(" && "));
        }
        let two: Vec<String> = {
            let mut v = vec![];
            for i in 0..clauses.len() {
                for j in (i + 1)..clauses.len() {
                    v.push(format!("{} || {}", clauses[i].join(" && "), clauses[j].join(" && ")));
                }
            }
            v
        };
        // all single clauses, and a sample (all when small) of two-clause policies
        let cap = if tier == "thorough" { 400 } else { 120 };
        if two.len() <= cap {
            pols.extend(two.iter().cloned());
        } else {
            for _ in 0..cap {
                pols.push(rng.pick(&two).clone());
            }
        }
        for p in &pols {
            lines.push(format!("usk_rights M0 t:{}", h(p)));
            lines.push(format!("enc_rights M0 t:{}", h(p)));
        }
        // KEM layer on this structure: sampled (user, encryption) pairs
        let per = (kem_pairs / shapes.len()).max(2);
        for _ in 0..per {
            let u = rng.pick(&pols).clone();
            let e = rng.pick(&pols).clone();
            lines.push(format!("covers M0 K1 t:{} t:{}", h(&u), h(&e)));
        }
        cases.push(Case { name: format!("c01-shape{si}"), lines });
    }
    Plan {
        cases,
        exhaustive: true,
        rule: format!("every structure shape with <= {max_dims} dimensions (anarchy or hierarchy) of 1..3 attributes (random hints and hierarchy insertion orders); on each, every policy with one clause (at most one attribute per dimension) and '*', and all (or a sample of) two-clause policies: rights of user keys and of encapsulations compared as sets between implementation and model; plus sampled (user policy, encryption policy) pairs where the real keygen/encaps/decaps verdict is compared with the name-level cover relation of the Lean spec; distinct = distinct canonical traces per structure"),
    }
}

pub fn profile_for(prop: &str, tier: &str) -> Profile {
    let mut p = Profile::base();
    if tier == "thorough" {
        p.n_ops = 40;
    }
    match prop {
        "C03" => {
            p.w_edit = 8;
            p.w_update = 5;
            p.w_rekey = 1;
            p.w_prune = 1;
            p.w_recaps = 0;
            p.matrix_often = true;
        }
        "C04" => {
            p.w_edit = 1;
            p.w_rekey = 6;
            p.w_refresh = 6;
            p.w_prune = 1;
            p.w_recaps = 0;
            p.matrix_often = true;
            p.malformed_pct = 5;
        }
        "C05" => {
            p.w_edit = 3;
            p.w_edits = [1, 2, 2, 5, 1, 1];
            p.w_rekey = 5;
            p.w_prune = 5;
            p.w_refresh = 6;
            p.w_recaps = 0;
            p.matrix_often = true;
            p.malformed_pct = 5;
        }
        "C06" => {
            p.w_edits = [1, 1, 2, 1, 1, 8];
            p.w_edit = 5;
            p.w_update = 4;
            p.w_mpk = 2;
            p.w_roundtrip = 3;
            p.w_recaps = 0;
        }
        "C09" | "C10" => {
            p.malformed_pct = 35;
            p.w_rollback = 2;
            p.w_edit = 6;
        }
        "C11" => {
            p.hybrid_pct = 50;
            p.w_roundtrip = 3;
        }
        "C13" => {
            p.w_roundtrip = 8;
            p.matrix_often = true;
        }
        "C17" => {
            p.w_keygen = 6;
            p.w_refresh = 6;
            p.w_roundtrip = 3;
            p.w_rollback = 2;
        }
        "C18" => {
            p.w_recaps = 8;
            p.w_encaps = 6;
            p.w_edits = [1, 1, 2, 2, 1, 4];
            p.matrix_often = true;
        }
        _ => {}
    }
    p
}

pub fn plan_history(prop: &str, tier: &str, seed: u64, n: usize) -> Plan {
    let p = profile_for(prop, tier);
    let mut master = SplitMix64::new(seed ^ crate::util::fnv64(prop.as_bytes()));
    let mut cases = vec![];
    for i in 0..n {
        let s = master.next();
        cases.push(Case { name: format!("{prop}-hist{i}-seed{s}"), lines: HistGen::history(s, p.clone()) });
    }
    Plan {
        cases,
        exhaustive: false,
        rule: format!("{n} random operation histories ({} ops after a random base structure of <= {} dimensions x <= {} attributes; profile {:?}); a case is one history executed on the real API and on the Lean model with canonical outputs compared line by line; distinct = distinct canonical implementation traces (hash of ops and normalised outputs)", p.n_ops, p.max_dims, p.max_attrs, prop),
    }
}
