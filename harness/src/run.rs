//! Differential runner: executes cases on the implementation (in-process, parallel) and on the
//! Lean driver, compares canonical lines, shrinks disagreements.

use std::collections::BTreeMap;
use std::io::Write;
use std::process::{Command, Stdio};
use std::sync::{Arc, Mutex};

use crate::exec::Real;
use crate::util::fnv64;

/// what the *specification* (not the model) says a line must output, with the tags used to match
/// known findings
#[derive(Clone, Debug)]
pub struct Expect {
    pub out: String,
    pub oracle: String,
    pub tags: Vec<String>,
}

#[derive(Clone, Debug, Default)]
pub struct Case {
    pub name: String,
    pub lines: Vec<String>,
    /// sparse: (line index, expectation)
    pub expect: Vec<(usize, Expect)>,
}

impl Case {
    pub fn new(name: String, lines: Vec<String>) -> Self {
        Self { name, lines, expect: vec![] }
    }
}

#[derive(Clone, Debug)]
pub struct Mismatch {
    pub case: String,
    pub line_no: usize,
    pub op: String,
    pub imp: String,
    pub model: String,
    /// "panic" | "status" (ok/err differs) | "behaviour" (decaps outcome) | "state" (dump differs)
    pub kind: String,
    pub lines: Vec<String>,
    pub shrunk: bool,
}

pub fn scratch_dir() -> std::path::PathBuf {
    let d = std::path::PathBuf::from(std::env::var("VERIF_SCRATCH").unwrap_or("/verif/.build/tmp".into()));
    std::fs::create_dir_all(&d).ok();
    d
}

pub fn run_model(driver: &str, lines: &[String]) -> Vec<String> {
    let mut child = Command::new(driver)
        .stdin(Stdio::piped())
        .stdout(Stdio::piped())
        .spawn()
        .expect("cannot start the Lean driver");
    let mut stdin = child.stdin.take().unwrap();
    let data = lines.join("\n") + "\n";
    let w = std::thread::spawn(move || {
        stdin.write_all(data.as_bytes()).ok();
    });
    let out = child.wait_with_output().expect("driver failed");
    w.join().ok();
    String::from_utf8_lossy(&out.stdout).lines().map(|s| s.to_string()).collect()
}

pub fn run_impl(lines: &[String]) -> Vec<String> {
    run_impl2(lines).0
}

/// outputs of the implementation, and the lines to give the model (some abstract lines only
/// become concrete once executed)
/// what every thread that drives the implementation is executing right now (for the termination watchdog)
pub static PROGRESS: Mutex<Vec<(std::thread::ThreadId, Arc<Vec<String>>, usize, std::time::Instant)>> = Mutex::new(Vec::new());

fn progress(lines: &Arc<Vec<String>>, i: usize) {
    let me = std::thread::current().id();
    let mut g = PROGRESS.lock().unwrap();
    match g.iter_mut().find(|e| e.0 == me) {
        Some(e) => *e = (me, lines.clone(), i, std::time::Instant::now()),
        None => g.push((me, lines.clone(), i, std::time::Instant::now())),
    }
}

fn progress_done() {
    let me = std::thread::current().id();
    PROGRESS.lock().unwrap().retain(|e| e.0 != me);
}

/// Termination watchdog: if one call into the library has not returned after `limit`, the campaign cannot finish.
/// The result file is written with that history as a failure of the implementation (no panic, no error: a hang),
/// and the process exits.
pub fn spawn_watchdog(prop: String, tier: String, seed: u64, out: String, limit: std::time::Duration) {
    std::thread::spawn(move || loop {
        std::thread::sleep(std::time::Duration::from_millis(500));
        let stuck = {
            let g = PROGRESS.lock().unwrap();
            // what is in flight, for the case where the library takes the whole process down (abort, stack overflow)
            let inflight: Vec<Vec<String>> = g.iter().map(|e| e.1[..=e.2.min(e.1.len().saturating_sub(1))].to_vec()).filter(|l| l.len() < 400).collect();
            let _ = std::fs::write(format!("{out}.progress"), serde_json::to_string(&inflight).unwrap_or_default());
            g.iter().find(|e| e.3.elapsed() > limit).map(|e| (e.1.clone(), e.2))
        };
        if let Some((lines, i)) = stuck {
            let prefix: Vec<String> = lines[..=i.min(lines.len().saturating_sub(1))].to_vec();
            let o = Outcome {
                stats: Stats::default(),
                mismatches: vec![],
                samples: vec![],
                oracle_failures: vec![serde_json::json!({
                    "kind": "impl-oracle", "oracle": "termination", "tags": ["hang"],
                    "what": format!("`{}` did not return within {} s: the call does not terminate (or blocks forever)", prefix.last().cloned().unwrap_or_default().chars().take(80).collect::<String>(), limit.as_secs()),
                    "lines": prefix, "case": "watchdog"})],
                oracle_checked: 1,
            };
            let j = outcome_json(&prop, &tier, seed, &o, serde_json::json!({"rule": "campaign interrupted by the termination watchdog", "exhaustive": false, "per_line": false, "wall_s": 0.0}));
            let _ = std::fs::write(&out, serde_json::to_string_pretty(&j).unwrap());
            eprintln!("{prop} {tier} cfg={} interrupted: a call into the library did not return within {} s", crate::util::CFG, limit.as_secs());
            std::process::exit(0);
        }
    });
}

pub fn run_impl2(lines: &[String]) -> (Vec<String>, Vec<String>) {
    let mut real = Real::new();
    let mut outs = vec![];
    let mut mlines = vec![];
    let shared = Arc::new(lines.to_vec());
    for (i, l) in lines.iter().enumerate() {
        progress(&shared, i);
        real.model_line = None;
        outs.push(real.step(l));
        mlines.push(real.model_line.take().unwrap_or_else(|| l.clone()));
    }
    progress_done();
    (outs, mlines)
}

/// both sides on one case
pub fn run_both(driver: &str, lines: &[String]) -> (Vec<String>, Vec<String>) {
    let (i, ml) = run_impl2(lines);
    let m = run_model(driver, &ml);
    (i, m)
}

/// error kinds are soft: only `err` is compared
pub fn normalize(s: &str) -> String {
    if let Some(rest) = s.strip_prefix("err ") {
        match rest.find(' ') {
            Some(i) => format!("err _{}", &rest[i..]),
            None => "err _".to_string(),
        }
    } else {
        s.to_string()
    }
}

pub fn err_kind(s: &str) -> Option<&str> {
    s.strip_prefix("err ").map(|r| r.split(' ').next().unwrap_or(""))
}

fn classify(op: &str, imp: &str, model: &str) -> String {
    if imp.starts_with("panic") {
        return "panic".into();
    }
    let st = |s: &str| s.split(' ').next().unwrap_or("").to_string();
    if st(imp) != st(model) {
        return "status".into();
    }
    // query operations: their output *is* an outcome the properties talk about
    if matches!(op, "matrix" | "decaps" | "covers" | "c08" | "pke_dec" | "hdr_dec" | "parse" | "trace_check") {
        return "behaviour".into();
    }
    // serialisation of an object: the implementation itself says that the object read back differs from the original, or
    // that the announced length is not the number of bytes written - outcomes C13 talks about
    if matches!(op, "ser" | "ser_clr") && (imp.contains("rt=0") || imp.contains("!=")) {
        return "behaviour".into();
    }
    // the flavour of an encapsulation made for the same number of targets: the model's flavour is, by
    // `C11.encaps_hybrid_iff_all`, the conjunction of the flavours of the targeted rights, so a different
    // flavour on the implementation is an outcome C11 talks about, not a mere difference of state
    if matches!(op, "encaps" | "recaps") {
        let f = |s: &str| -> Option<(String, String)> {
            let r = s.strip_prefix("ok enc ")?;
            let (fl, rest) = r.split_once(' ')?;
            Some((fl.to_string(), rest.to_string()))
        };
        if let (Some((fa, ra)), Some((fb, rb))) = (f(imp), f(model)) {
            if fa != fb && ra == rb {
                return "behaviour".into();
            }
        }
    }
    "state".into()
}

pub fn first_mismatch(lines: &[String], imp: &[String], model: &[String]) -> Option<(usize, String)> {
    for i in 0..lines.len() {
        let a = imp.get(i).map(|s| s.as_str()).unwrap_or("<missing>");
        let b = model.get(i).map(|s| s.as_str()).unwrap_or("<missing>");
        if normalize(a) != normalize(b) {
            let op = lines[i].split(' ').next().unwrap_or("").to_string();
            return Some((i, classify(&op, a, b)));
        }
    }
    None
}

/// the first disagreement on an *outcome* (ok/err status, decaps result, panic), if any; such a
/// disagreement is a concrete input on which the implementation and the proved model differ in
/// what the properties talk about, whereas a state-only difference (a dump) is not yet one
/// does `got` satisfy the expectation text (alternatives separated by `||`, trailing `*` = prefix)?
pub fn satisfies(expect: &str, got: &str) -> bool {
    expect.split("||").any(|alt| {
        let alt = normalize(alt.trim());
        match alt.strip_suffix('*') {
            Some(pre) => normalize(got).starts_with(pre),
            None => normalize(got) == alt,
        }
    })
}

/// Where a line carries a specification expectation that the implementation meets and the model does not (the model
/// is faithful to a recorded defect of the pinned tree, e.g. D9 / D12, and the implementation has since been repaired),
/// the specification wins: the line is not a disagreement. Returns the model outputs with those lines aligned, and
/// how many were aligned.
pub fn spec_over_model(lines: &[String], imp: &[String], model: &[String], exp: &std::collections::HashMap<String, String>) -> (Vec<String>, usize) {
    let mut out = model.to_vec();
    let mut n = 0;
    for (i, l) in lines.iter().enumerate() {
        if let (Some(e), Some(a), Some(b)) = (exp.get(l), imp.get(i), model.get(i)) {
            if normalize(a) != normalize(b) && satisfies(e, a) && !satisfies(e, b) {
                out[i] = a.clone();
                n += 1;
            }
        }
    }
    (out, n)
}

pub fn first_behaviour_mismatch(lines: &[String], imp: &[String], model: &[String]) -> Option<(usize, String)> {
    for i in 0..lines.len() {
        let a = imp.get(i).map(|s| s.as_str()).unwrap_or("<missing>");
        let b = model.get(i).map(|s| s.as_str()).unwrap_or("<missing>");
        if normalize(a) != normalize(b) {
            let op = lines[i].split(' ').next().unwrap_or("").to_string();
            let k = classify(&op, a, b);
            if k != "state" {
                return Some((i, k));
            }
        }
    }
    None
}

/// delta debugging on the op list (the first two lines — reset, setup — are kept)
pub fn shrink(driver: &str, lines: &[String], budget: usize, behaviour: bool, exp: &std::collections::HashMap<String, String>) -> Vec<String> {
    let keep = 2.min(lines.len());
    let mut cur: Vec<String> = lines.to_vec();
    let mut tries = 0;
    let pick = |ls: &[String], i: &[String], m: &[String]| -> Option<(usize, String)> {
        let (m, _) = spec_over_model(ls, i, m, exp);
        if behaviour { first_behaviour_mismatch(ls, i, &m) } else { first_mismatch(ls, i, &m) }
    };
    let fails = |ls: &[String]| -> bool {
        let (i, m) = run_both(driver, ls);
        pick(ls, &i, &m).is_some()
    };
    // first truncate after the mismatch of interest
    {
        let (i, m) = run_both(driver, &cur);
        if let Some((k, _)) = pick(&cur, &i, &m) {
            cur.truncate(k + 1);
        }
    }
    let mut chunk = (cur.len() - keep) / 2;
    while chunk >= 1 && tries < budget {
        let mut i = keep;
        let mut progressed = false;
        while i < cur.len() && tries < budget {
            let end = (i + chunk).min(cur.len());
            if end == cur.len() && i == keep {
                break;
            }
            let mut cand = cur[..i].to_vec();
            cand.extend_from_slice(&cur[end..]);
            tries += 1;
            if cand.len() > keep && fails(&cand) {
                cur = cand;
                progressed = true;
            } else {
                i += chunk;
            }
        }
        if !progressed {
            chunk /= 2;
        }
    }
    cur
}

/// `R{right:[e,e];right:[..]}` -> right -> tokens (flags and flavours stripped: `1c#6` -> `#6`)
fn parse_chains(dump: &str) -> std::collections::BTreeMap<String, Vec<String>> {
    let mut out = std::collections::BTreeMap::new();
    let Some(i) = dump.find(" R{") else { return out };
    let body = &dump[i + 3..];
    let Some(j) = body.find('}') else { return out };
    for ent in body[..j].split(';') {
        let Some((r, c)) = ent.split_once(":[") else { continue };
        let toks: Vec<String> = c.trim_end_matches(']').split(',').filter(|s| !s.is_empty())
            .map(|e| e[e.find('#').unwrap_or(0)..].to_string()).collect();
        out.insert(r.to_string(), toks);
    }
    out
}

/// Specification oracles evaluated directly on the implementation's canonical dumps:
///  * after a successful refresh every secret of the user key is a secret the master key still
///    holds for that right (C05) and each chain starts with the master key's newest secret (C04);
///  * after a failing update / rekey / keygen / refresh the master key (and the user key passed)
///    are exactly what they were (C10).
pub fn history_oracles(case: &Case, imp: &[String]) -> Vec<serde_json::Value> {
    // the access structure inside the master key is edited directly by the structure operations:
    // it is not part of what a failing key operation may not touch here
    fn strip_structure(d: &str) -> String {
        match (d.find(" S{"), d.find("} R{")) {
            (Some(a), Some(b)) if a < b => format!("{}{}", &d[..a], &d[b + 1..]),
            _ => d.to_string(),
        }
    }
    let mut fails = vec![];
    let mut last_msk: std::collections::HashMap<String, String> = Default::default();
    let mut last_usk: std::collections::HashMap<String, String> = Default::default();
    // public values per right as last published from the master key, and the values that were published once and have
    // since been replaced or withdrawn: none of those may ever be published again (C16: every rekey publishes a value never
    // published before; C06: a withdrawn right stays withdrawn)
    let mut last_pub: std::collections::BTreeMap<String, String> = Default::default();
    let mut retired: std::collections::HashSet<String> = Default::default();
    let mut pub_valid = true;
    fn parse_mpk(d: &str) -> Option<std::collections::BTreeMap<String, String>> {
        let i = d.find(" R{")?;
        let body = &d[i + 3..];
        let j = body.find('}')?;
        let mut out = std::collections::BTreeMap::new();
        for ent in body[..j].split(';') {
            if let Some((r, v)) = ent.split_once(':') {
                out.insert(r.to_string(), v[v.find('#').unwrap_or(0)..].to_string());
            }
        }
        Some(out)
    }
    for (i, (l, o)) in case.lines.iter().zip(imp.iter()).enumerate() {
        let t: Vec<&str> = l.split(' ').collect();
        let op = t[0];
        if op == "reset" {
            last_msk.clear();
            last_usk.clear();
            last_pub.clear();
            retired.clear();
            pub_valid = true;
            continue;
        }
        if op == "copy" && t.len() == 3 {
            if let Some(v) = last_msk.get(t[1]).cloned() { last_msk.insert(t[2].to_string(), v); }
            if let Some(v) = last_usk.get(t[1]).cloned() { last_usk.insert(t[2].to_string(), v); }
            continue;
        }
        let mut fail = |oracle: &str, what: String| {
            fails.push(serde_json::json!({"kind": "impl-oracle", "oracle": oracle, "tags": [op], "what": what,
                "lines": case.lines[..=i].to_vec(), "impl": o, "line_no": i, "case": case.name}));
        };
        let is_err = o.starts_with("err ");
        let is_ok = o.starts_with("ok ");
        // the part of the output after the status (and the error kind)
        let payload = if is_err { o.splitn(3, ' ').nth(2).unwrap_or("") } else if is_ok { &o[3..] } else { "" };
        let (first, second) = match payload.split_once(" | ") { Some((a, b)) => (a, b), None => (payload, "") };
        // a master key put back to an earlier state legitimately publishes earlier values again
        if matches!(op, "rollback" | "copy") {
            pub_valid = false;
        }
        if pub_valid && is_ok && t.len() > 1 && t[1] == "M0" {
            let mpk_part = if matches!(op, "setup" | "update" | "rekey" | "prune") && second.starts_with("mpk ") { Some(second) } else if op == "mpk" && first.starts_with("mpk ") { Some(first) } else { None };
            if let Some(cur) = mpk_part.and_then(parse_mpk) {
                for (r, v) in &cur {
                    if retired.contains(v) {
                        fail("republished-public-value", format!("{op} publishes for right {r} the value {v}, which had been published before and replaced or withdrawn since"));
                    }
                }
                for (r, v) in &last_pub {
                    if cur.get(r) != Some(v) {
                        retired.insert(v.clone());
                    }
                }
                last_pub = cur;
            }
        }
        match op {
            "setup" | "update" | "rekey" | "prune" | "keygen" | "refresh" | "dump" if first.starts_with("msk ") => {
                let m = t[1].to_string();
                if is_err {
                    if let Some(prev) = last_msk.get(&m) {
                        if strip_structure(prev) != strip_structure(first) {
                            fail("failed-call-modified-key", format!("{op} failed but the master key changed"));
                        }
                    }
                }
                // identifiers are only ever added through the API (the tracing level cannot change)
                let users = |d: &str| -> Option<u64> { d.split(' ').find_map(|w| w.strip_prefix("users=")).and_then(|n| n.parse().ok()) };
                if let (Some(a), Some(b)) = (last_msk.get(&m).and_then(|p| users(p)), users(first)) {
                    if b < a {
                        fail("registration-lost", format!("{op} made the master key forget {} registered identifier(s)", a - b));
                    }
                }
                last_msk.insert(m, first.to_string());
                if op == "keygen" && is_ok && second.starts_with("usk ") {
                    last_usk.insert(t[2].to_string(), second.to_string());
                }
                if op == "refresh" && second.starts_with("usk ") {
                    if is_err {
                        if let Some(prev) = last_usk.get(t[2]) {
                            if prev != second {
                                fail("failed-call-modified-key", "refresh failed but the user key changed".to_string());
                            }
                        }
                    } else if is_ok {
                        let mc = parse_chains(first);
                        let uc = parse_chains(second);
                        for (r, chain) in &uc {
                            match mc.get(r) {
                                None => fail("refreshed-key-holds-removed-secret", format!("refreshed key keeps right {r} which the master key no longer holds")),
                                Some(m) => {
                                    if let Some(x) = chain.iter().find(|x| !m.contains(x)) {
                                        fail("refreshed-key-holds-removed-secret", format!("refreshed key holds secret {x} of right {r} which the master key no longer holds"));
                                    }
                                    if chain.first() != m.first() {
                                        fail("refreshed-key-misses-newest-secret", format!("refreshed key's chain of right {r} does not start with the master key's newest secret"));
                                    }
                                }
                            }
                        }
                    }
                    last_usk.insert(t[3].to_string(), second.to_string());
                }
            }
            _ => {}
        }
    }
    fails
}

#[derive(Default)]
pub struct Stats {
    pub cases: usize,
    pub lines: usize,
    pub op_hist: BTreeMap<String, usize>,
    pub status_hist: BTreeMap<String, usize>,
    pub err_kind_hist: BTreeMap<String, usize>,
    pub soft_kind_mismatch: usize,
    /// lines where the implementation meets the specification expectation and the model (faithful to a recorded defect) does not
    pub spec_over_model: usize,
    pub distinct: std::collections::HashSet<u64>,
    pub distinct_lines: std::collections::HashSet<u64>,
    pub matrix_cells: usize,
    pub matrix_open: usize,
}

pub struct Outcome {
    pub stats: Stats,
    pub mismatches: Vec<Mismatch>,
    pub samples: Vec<serde_json::Value>,
    /// implementation output differs from what the specification demands
    pub oracle_failures: Vec<serde_json::Value>,
    pub oracle_checked: usize,
}

/// run all cases on both sides with `workers` threads on the implementation side
pub fn run_cases(driver: &str, cases: Vec<Case>, workers: usize, max_shrink: usize) -> Outcome {
    let n = cases.len();
    let cases = Arc::new(cases);
    let results: Arc<Mutex<Vec<Option<(Vec<String>, Vec<String>)>>>> = Arc::new(Mutex::new(vec![None; n]));
    let next = Arc::new(Mutex::new(0usize));
    let mut hs = vec![];
    for _ in 0..workers.max(1) {
        let cases = cases.clone();
        let results = results.clone();
        let next = next.clone();
        hs.push(std::thread::spawn(move || loop {
            let i = {
                let mut g = next.lock().unwrap();
                let i = *g;
                *g += 1;
                i
            };
            if i >= cases.len() {
                break;
            }
            let out = run_impl2(&cases[i].lines);
            results.lock().unwrap()[i] = Some(out);
        }));
    }
    for h in hs {
        h.join().expect("worker panicked");
    }
    let results = Arc::try_unwrap(results).unwrap().into_inner().unwrap();
    // model side, one driver process for everything (after the implementation: some lines are
    // made concrete by executing them)
    let all: Vec<String> = results.iter().flat_map(|r| r.as_ref().unwrap().1.iter().cloned()).collect();
    let model_all = run_model(driver, &all);

    let mut stats = Stats::default();
    let mut mismatches = vec![];
    let mut samples = vec![];
    let mut oracle_failures = vec![];
    let mut oracle_checked = 0usize;
    let mut off = 0;
    for (ci, c) in cases.iter().enumerate() {
        let imp = &results[ci].as_ref().unwrap().0;
        let model: Vec<String> = model_all.get(off..(off + c.lines.len()).min(model_all.len())).map(|s| s.to_vec()).unwrap_or_default();
        off += c.lines.len();
        stats.cases += 1;
        stats.lines += c.lines.len();
        // distinctness: hash of the canonical implementation trace (ops + normalised outputs)
        let mut trace = String::new();
        for (l, o) in c.lines.iter().zip(imp.iter()) {
            let op = l.split(' ').next().unwrap_or("");
            *stats.op_hist.entry(op.to_string()).or_default() += 1;
            let st = o.split(' ').next().unwrap_or("");
            *stats.status_hist.entry(format!("{op}:{st}")).or_default() += 1;
            if let Some(k) = err_kind(o) {
                *stats.err_kind_hist.entry(format!("{op}:{k}")).or_default() += 1;
            }
            if op == "matrix" {
                stats.matrix_cells += o.matches('=').count();
                stats.matrix_open += o.matches("=1").count();
            }
            stats.distinct_lines.insert(fnv64(format!("{l}\n{}", normalize(o)).as_bytes()));
            trace.push_str(l);
            trace.push('\n');
            trace.push_str(&normalize(o));
            trace.push('\n');
        }
        for (a, b) in imp.iter().zip(model.iter()) {
            if let (Some(x), Some(y)) = (err_kind(a), err_kind(b)) {
                if x != y {
                    stats.soft_kind_mismatch += 1;
                }
            }
        }
        stats.distinct.insert(fnv64(trace.as_bytes()));
        if samples.len() < 2 {
            samples.push(serde_json::json!({
                "case": c.name,
                "ops": c.lines.iter().take(40).collect::<Vec<_>>(),
                "impl_last": imp.last(),
            }));
        }
        if c.lines.first().map(|s| s == "reset").unwrap_or(false) && oracle_failures.len() < 50 {
            let hf = history_oracles(c, imp);
            oracle_checked += c.lines.len();
            oracle_failures.extend(hf.into_iter().take(3));
        }
        for (k, ex) in &c.expect {
            oracle_checked += 1;
            let got = imp.get(*k).cloned().unwrap_or_default();
            // alternatives are separated by `||`; a trailing `*` makes an alternative a prefix
            let ok = satisfies(&ex.out, &got);
            if !ok && oracle_failures.len() < 50 {
                let mut tags = ex.tags.clone();
                for tok in got.split(' ') {
                    if let Some(k) = tok.strip_suffix("=1") {
                        tags.push(k.to_string());
                    }
                }
                tags.push(if got.starts_with("ok") { "accepted".into() } else if got.starts_with("panic") { "panic".into() } else { "rejected".into() });
                oracle_failures.push(serde_json::json!({
                    "kind": "impl-oracle", "oracle": ex.oracle, "tags": tags,
                    "what": format!("{}: implementation `{}` but the specification demands `{}`", c.lines[*k].split(' ').next().unwrap_or(""), got.chars().take(120).collect::<String>(), ex.out.chars().take(120).collect::<String>()),
                    "lines": c.lines[..=*k].to_vec(), "impl": got, "spec": ex.out, "line_no": k, "case": c.name,
                }));
            }
        }
        let exp: std::collections::HashMap<String, String> = c.expect.iter().filter_map(|(k, e)| c.lines.get(*k).map(|l| (l.clone(), e.out.clone()))).collect();
        let (model, aligned) = spec_over_model(&c.lines, imp, &model, &exp);
        stats.spec_over_model += aligned;
        let beh = first_behaviour_mismatch(&c.lines, imp, &model);
        if let Some((k, kind)) = beh.clone().or_else(|| first_mismatch(&c.lines, imp, &model)) {
            let mut mm = Mismatch {
                case: c.name.clone(),
                line_no: k,
                op: c.lines[k].split(' ').next().unwrap_or("").to_string(),
                imp: imp.get(k).cloned().unwrap_or_default(),
                model: model.get(k).cloned().unwrap_or("<missing>".into()),
                kind,
                lines: c.lines[..=k].to_vec(),
                shrunk: false,
            };
            if mismatches.len() < max_shrink && c.lines.first().map(|s| s == "reset").unwrap_or(false) {
                let small = shrink(driver, &c.lines, 120, beh.is_some(), &exp);
                let (i, m) = run_both(driver, &small);
                let (m, _) = spec_over_model(&small, &i, &m, &exp);
                let again = if beh.is_some() { first_behaviour_mismatch(&small, &i, &m) } else { first_mismatch(&small, &i, &m) };
                if let Some((k2, kind2)) = again {
                    mm.lines = small.clone();
                    mm.line_no = k2;
                    mm.op = small[k2].split(' ').next().unwrap_or("").to_string();
                    mm.imp = i[k2].clone();
                    mm.model = m.get(k2).cloned().unwrap_or("<missing>".into());
                    mm.kind = kind2;
                    mm.shrunk = true;
                }
            }
            mismatches.push(mm);
        }
    }
    Outcome { stats, mismatches, samples, oracle_failures, oracle_checked }
}

pub fn outcome_json(prop: &str, tier: &str, seed: u64, o: &Outcome, mut extra: serde_json::Value) -> serde_json::Value {
    extra["oracle_failures"] = serde_json::json!(o.oracle_failures);
    extra["oracle_checked"] = serde_json::json!(o.oracle_checked);
    serde_json::json!({
        "property": prop,
        "tier": tier,
        "seed": seed,
        "config": crate::util::CFG,
        "cases": o.stats.cases,
        "lines": o.stats.lines,
        "distinct_traces": o.stats.distinct.len(),
        "distinct_lines": o.stats.distinct_lines.len(),
        "op_hist": o.stats.op_hist,
        "status_hist": o.stats.status_hist,
        "err_kind_hist": o.stats.err_kind_hist,
        "soft_kind_mismatch": o.stats.soft_kind_mismatch,
        "spec_over_model": o.stats.spec_over_model,
        "matrix_cells": o.stats.matrix_cells,
        "matrix_open": o.stats.matrix_open,
        "samples": o.samples,
        "mismatches": o.mismatches.iter().map(|m| serde_json::json!({
            "case": m.case, "line_no": m.line_no, "op": m.op, "impl": m.imp, "model": m.model,
            "kind": m.kind, "lines": m.lines, "shrunk": m.shrunk,
        })).collect::<Vec<_>>(),
        "extra": extra,
    })
}
