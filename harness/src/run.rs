//! Differential runner: executes cases on the implementation (in-process, parallel) and on the
//! Lean driver, compares canonical lines, shrinks disagreements.

use std::collections::BTreeMap;
use std::io::Write;
use std::process::{Command, Stdio};
use std::sync::{Arc, Mutex};

use crate::exec::Real;
use crate::util::fnv64;

/// what the *specification* (not the model) says a line must output, with the tags used to match
/// known findings
#[derive(Clone, Debug)]
pub struct Expect {
    pub out: String,
    pub oracle: String,
    pub tags: Vec<String>,
}

#[derive(Clone, Debug, Default)]
pub struct Case {
    pub name: String,
    pub lines: Vec<String>,
    /// sparse: (line index, expectation)
    pub expect: Vec<(usize, Expect)>,
}

impl Case {
    pub fn new(name: String, lines: Vec<String>) -> Self {
        Self { name, lines, expect: vec![] }
    }
}

#[derive(Clone, Debug)]
pub struct Mismatch {
    pub case: String,
    pub line_no: usize,
    pub op: String,
    pub imp: String,
    pub model: String,
    /// "panic" | "status" (ok/err differs) | "behaviour" (decaps outcome) | "state" (dump differs)
    pub kind: String,
    pub lines: Vec<String>,
    pub shrunk: bool,
}

pub fn scratch_dir() -> std::path::PathBuf {
    let d = std::path::PathBuf::from(std::env::var("VERIF_SCRATCH").unwrap_or("/verif/.build/tmp".into()));
    std::fs::create_dir_all(&d).ok();
    d
}

pub fn run_model(driver: &str, lines: &[String]) -> Vec<String> {
    let mut child = Command::new(driver)
        .stdin(Stdio::piped())
        .stdout(Stdio::piped())
        .spawn()
        .expect("cannot start the Lean driver");
    let mut stdin = child.stdin.take().unwrap();
    let data = lines.join("\n") + "\n";
    let w = std::thread::spawn(move || {
        stdin.write_all(data.as_bytes()).ok();
    });
    let out = child.wait_with_output().expect("driver failed");
    w.join().ok();
    String::from_utf8_lossy(&out.stdout).lines().map(|s| s.to_string()).collect()
}

pub fn run_impl(lines: &[String]) -> Vec<String> {
    run_impl2(lines).0
}

/// outputs of the implementation, and the lines to give the model (some abstract lines only
/// become concrete once executed)
pub fn run_impl2(lines: &[String]) -> (Vec<String>, Vec<String>) {
    let mut real = Real::new();
    let mut outs = vec![];
    let mut mlines = vec![];
    for l in lines {
        real.model_line = None;
        outs.push(real.step(l));
        mlines.push(real.model_line.take().unwrap_or_else(|| l.clone()));
    }
    (outs, mlines)
}

/// both sides on one case
pub fn run_both(driver: &str, lines: &[String]) -> (Vec<String>, Vec<String>) {
    let (i, ml) = run_impl2(lines);
    let m = run_model(driver, &ml);
    (i, m)
}

/// error kinds are soft: only `err` is compared
pub fn normalize(s: &str) -> String {
    if let Some(rest) = s.strip_prefix("err ") {
        match rest.find(' ') {
            Some(i) => format!("err _{}", &rest[i..]),
            None => "err _".to_string(),
        }
    } else {
        s.to_string()
    }
}

pub fn err_kind(s: &str) -> Option<&str> {
    s.strip_prefix("err ").map(|r| r.split(' ').next().unwrap_or(""))
}

fn classify(op: &str, imp: &str, model: &str) -> String {
    if imp.starts_with("panic") {
        return "panic".into();
    }
    let st = |s: &str| s.split(' ').next().unwrap_or("").to_string();
    if st(imp) != st(model) {
        return "status".into();
    }
    if op == "matrix" || op == "decaps" {
        return "behaviour".into();
    }
    "state".into()
}

pub fn first_mismatch(lines: &[String], imp: &[String], model: &[String]) -> Option<(usize, String)> {
    for i in 0..lines.len() {
        let a = imp.get(i).map(|s| s.as_str()).unwrap_or("<missing>");
        let b = model.get(i).map(|s| s.as_str()).unwrap_or("<missing>");
        if normalize(a) != normalize(b) {
            let op = lines[i].split(' ').next().unwrap_or("").to_string();
            return Some((i, classify(&op, a, b)));
        }
    }
    None
}

/// delta debugging on the op list (the first two lines — reset, setup — are kept)
pub fn shrink(driver: &str, lines: &[String], budget: usize) -> Vec<String> {
    let keep = 2.min(lines.len());
    let mut cur: Vec<String> = lines.to_vec();
    let mut tries = 0;
    let fails = |ls: &[String]| -> bool {
        let (i, m) = run_both(driver, ls);
        first_mismatch(ls, &i, &m).is_some()
    };
    // first truncate after the first mismatch
    {
        let (i, m) = run_both(driver, &cur);
        if let Some((k, _)) = first_mismatch(&cur, &i, &m) {
            cur.truncate(k + 1);
        }
    }
    let mut chunk = (cur.len() - keep) / 2;
    while chunk >= 1 && tries < budget {
        let mut i = keep;
        let mut progressed = false;
        while i < cur.len() && tries < budget {
            let end = (i + chunk).min(cur.len());
            if end == cur.len() && i == keep {
                break;
            }
            let mut cand = cur[..i].to_vec();
            cand.extend_from_slice(&cur[end..]);
            tries += 1;
            if cand.len() > keep && fails(&cand) {
                cur = cand;
                progressed = true;
            } else {
                i += chunk;
            }
        }
        if !progressed {
            chunk /= 2;
        }
    }
    cur
}

#[derive(Default)]
pub struct Stats {
    pub cases: usize,
    pub lines: usize,
    pub op_hist: BTreeMap<String, usize>,
    pub status_hist: BTreeMap<String, usize>,
    pub err_kind_hist: BTreeMap<String, usize>,
    pub soft_kind_mismatch: usize,
    pub distinct: std::collections::HashSet<u64>,
    pub distinct_lines: std::collections::HashSet<u64>,
    pub matrix_cells: usize,
    pub matrix_open: usize,
}

pub struct Outcome {
    pub stats: Stats,
    pub mismatches: Vec<Mismatch>,
    pub samples: Vec<serde_json::Value>,
    /// implementation output differs from what the specification demands
    pub oracle_failures: Vec<serde_json::Value>,
    pub oracle_checked: usize,
}

/// run all cases on both sides with `workers` threads on the implementation side
pub fn run_cases(driver: &str, cases: Vec<Case>, workers: usize, max_shrink: usize) -> Outcome {
    let n = cases.len();
    let cases = Arc::new(cases);
    let results: Arc<Mutex<Vec<Option<(Vec<String>, Vec<String>)>>>> = Arc::new(Mutex::new(vec![None; n]));
    let next = Arc::new(Mutex::new(0usize));
    let mut hs = vec![];
    for _ in 0..workers.max(1) {
        let cases = cases.clone();
        let results = results.clone();
        let next = next.clone();
        hs.push(std::thread::spawn(move || loop {
            let i = {
                let mut g = next.lock().unwrap();
                let i = *g;
                *g += 1;
                i
            };
            if i >= cases.len() {
                break;
            }
            let out = run_impl2(&cases[i].lines);
            results.lock().unwrap()[i] = Some(out);
        }));
    }
    for h in hs {
        h.join().expect("worker panicked");
    }
    let results = Arc::try_unwrap(results).unwrap().into_inner().unwrap();
    // model side, one driver process for everything (after the implementation: some lines are
    // made concrete by executing them)
    let all: Vec<String> = results.iter().flat_map(|r| r.as_ref().unwrap().1.iter().cloned()).collect();
    let model_all = run_model(driver, &all);

    let mut stats = Stats::default();
    let mut mismatches = vec![];
    let mut samples = vec![];
    let mut oracle_failures = vec![];
    let mut oracle_checked = 0usize;
    let mut off = 0;
    for (ci, c) in cases.iter().enumerate() {
        let imp = &results[ci].as_ref().unwrap().0;
        let model: Vec<String> = model_all.get(off..(off + c.lines.len()).min(model_all.len())).map(|s| s.to_vec()).unwrap_or_default();
        off += c.lines.len();
        stats.cases += 1;
        stats.lines += c.lines.len();
        // distinctness: hash of the canonical implementation trace (ops + normalised outputs)
        let mut trace = String::new();
        for (l, o) in c.lines.iter().zip(imp.iter()) {
            let op = l.split(' ').next().unwrap_or("");
            *stats.op_hist.entry(op.to_string()).or_default() += 1;
            let st = o.split(' ').next().unwrap_or("");
            *stats.status_hist.entry(format!("{op}:{st}")).or_default() += 1;
            if let Some(k) = err_kind(o) {
                *stats.err_kind_hist.entry(format!("{op}:{k}")).or_default() += 1;
            }
            if op == "matrix" {
                stats.matrix_cells += o.matches('=').count();
                stats.matrix_open += o.matches("=1").count();
            }
            stats.distinct_lines.insert(fnv64(format!("{l}\n{}", normalize(o)).as_bytes()));
            trace.push_str(l);
            trace.push('\n');
            trace.push_str(&normalize(o));
            trace.push('\n');
        }
        for (a, b) in imp.iter().zip(model.iter()) {
            if let (Some(x), Some(y)) = (err_kind(a), err_kind(b)) {
                if x != y {
                    stats.soft_kind_mismatch += 1;
                }
            }
        }
        stats.distinct.insert(fnv64(trace.as_bytes()));
        if samples.len() < 2 {
            samples.push(serde_json::json!({
                "case": c.name,
                "ops": c.lines.iter().take(40).collect::<Vec<_>>(),
                "impl_last": imp.last(),
            }));
        }
        for (k, ex) in &c.expect {
            oracle_checked += 1;
            let got = imp.get(*k).cloned().unwrap_or_default();
            // alternatives are separated by `||`; a trailing `*` makes an alternative a prefix
            let ok = ex.out.split("||").any(|alt| {
                let alt = normalize(alt.trim());
                match alt.strip_suffix('*') {
                    Some(pre) => normalize(&got).starts_with(pre),
                    None => normalize(&got) == alt,
                }
            });
            if !ok && oracle_failures.len() < 50 {
                let mut tags = ex.tags.clone();
                for tok in got.split(' ') {
                    if let Some(k) = tok.strip_suffix("=1") {
                        tags.push(k.to_string());
                    }
                }
                tags.push(if got.starts_with("ok") { "accepted".into() } else if got.starts_with("panic") { "panic".into() } else { "rejected".into() });
                oracle_failures.push(serde_json::json!({
                    "kind": "impl-oracle", "oracle": ex.oracle, "tags": tags,
                    "what": format!("{}: implementation `{}` but the specification demands `{}`", c.lines[*k].split(' ').next().unwrap_or(""), got.chars().take(120).collect::<String>(), ex.out.chars().take(120).collect::<String>()),
                    "lines": c.lines[..=*k].to_vec(), "impl": got, "spec": ex.out, "line_no": k, "case": c.name,
                }));
            }
        }
        if let Some((k, kind)) = first_mismatch(&c.lines, imp, &model) {
            let mut mm = Mismatch {
                case: c.name.clone(),
                line_no: k,
                op: c.lines[k].split(' ').next().unwrap_or("").to_string(),
                imp: imp.get(k).cloned().unwrap_or_default(),
                model: model.get(k).cloned().unwrap_or("<missing>".into()),
                kind,
                lines: c.lines[..=k].to_vec(),
                shrunk: false,
            };
            if mismatches.len() < max_shrink && c.lines.first().map(|s| s == "reset").unwrap_or(false) {
                let small = shrink(driver, &c.lines, 120);
                let (i, m) = run_both(driver, &small);
                if let Some((k2, kind2)) = first_mismatch(&small, &i, &m) {
                    mm.lines = small.clone();
                    mm.line_no = k2;
                    mm.op = small[k2].split(' ').next().unwrap_or("").to_string();
                    mm.imp = i[k2].clone();
                    mm.model = m.get(k2).cloned().unwrap_or("<missing>".into());
                    mm.kind = kind2;
                    mm.shrunk = true;
                }
            }
            mismatches.push(mm);
        }
    }
    Outcome { stats, mismatches, samples, oracle_failures, oracle_checked }
}

pub fn outcome_json(prop: &str, tier: &str, seed: u64, o: &Outcome, mut extra: serde_json::Value) -> serde_json::Value {
    extra["oracle_failures"] = serde_json::json!(o.oracle_failures);
    extra["oracle_checked"] = serde_json::json!(o.oracle_checked);
    serde_json::json!({
        "property": prop,
        "tier": tier,
        "seed": seed,
        "config": crate::util::CFG,
        "cases": o.stats.cases,
        "lines": o.stats.lines,
        "distinct_traces": o.stats.distinct.len(),
        "distinct_lines": o.stats.distinct_lines.len(),
        "op_hist": o.stats.op_hist,
        "status_hist": o.stats.status_hist,
        "err_kind_hist": o.stats.err_kind_hist,
        "soft_kind_mismatch": o.stats.soft_kind_mismatch,
        "matrix_cells": o.stats.matrix_cells,
        "matrix_open": o.stats.matrix_open,
        "samples": o.samples,
        "mismatches": o.mismatches.iter().map(|m| serde_json::json!({
            "case": m.case, "line_no": m.line_no, "op": m.op, "impl": m.imp, "model": m.model,
            "kind": m.kind, "lines": m.lines, "shrunk": m.shrunk,
        })).collect::<Vec<_>>(),
        "extra": extra,
    })
}
