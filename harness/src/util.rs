//! Small helpers: hex, SplitMix64.

pub fn hex(b: &[u8]) -> String {
    const H: &[u8; 16] = b"0123456789abcdef";
    let mut s = String::with_capacity(b.len() * 2);
    for x in b {
        s.push(H[(x >> 4) as usize] as char);
        s.push(H[(x & 15) as usize] as char);
    }
    s
}

pub fn unhex(s: &str) -> Option<Vec<u8>> {
    let b = s.as_bytes();
    if b.len() % 2 != 0 {
        return None;
    }
    let v = |c: u8| -> Option<u8> {
        match c {
            b'0'..=b'9' => Some(c - b'0'),
            b'a'..=b'f' => Some(c - b'a' + 10),
            b'A'..=b'F' => Some(c - b'A' + 10),
            _ => None,
        }
    };
    let mut out = Vec::with_capacity(b.len() / 2);
    for i in (0..b.len()).step_by(2) {
        out.push(v(b[i])? * 16 + v(b[i + 1])?);
    }
    Some(out)
}

/// Deterministic generator: every random choice of the harness comes from here.
#[derive(Clone, Debug)]
pub struct SplitMix64(pub u64);

impl SplitMix64 {
    pub fn new(seed: u64) -> Self {
        Self(seed)
    }
    pub fn next(&mut self) -> u64 {
        self.0 = self.0.wrapping_add(0x9E3779B97F4A7C15);
        let mut z = self.0;
        z = (z ^ (z >> 30)).wrapping_mul(0xBF58476D1CE4E5B9);
        z = (z ^ (z >> 27)).wrapping_mul(0x94D049BB133111EB);
        z ^ (z >> 31)
    }
    pub fn below(&mut self, n: usize) -> usize {
        if n == 0 {
            0
        } else {
            (self.next() % n as u64) as usize
        }
    }
    pub fn chance(&mut self, num: u32, den: u32) -> bool {
        (self.next() % den as u64) < num as u64
    }
    pub fn pick<'a, T>(&mut self, xs: &'a [T]) -> &'a T {
        &xs[self.below(xs.len())]
    }
    pub fn fork(&mut self) -> Self {
        Self(self.next())
    }
}

pub fn fnv64(data: &[u8]) -> u64 {
    let mut h: u64 = 0xcbf29ce484222325;
    for b in data {
        h ^= *b as u64;
        h = h.wrapping_mul(0x100000001b3);
    }
    h
}

#[cfg(feature = "c25519")]
pub const CFG: &str = "c25519";
#[cfg(feature = "p256")]
pub const CFG: &str = "p256";
