//! Independent reader / writer of the serialised objects (fixed-size leaves + LEB128 counts).
//! Used to observe private fields through `serialize()`, and to build structurally tampered
//! inputs. Sizes depend on the cryptographic configuration.

#[cfg(feature = "c25519")]
pub mod sz {
    pub const SK: usize = 32;
    pub const PK: usize = 32;
    pub const EK: usize = 800;
    pub const DK: usize = 1632;
    pub const ENC: usize = 768;
}
#[cfg(feature = "p256")]
pub mod sz {
    pub const SK: usize = 32;
    pub const PK: usize = 33;
    pub const EK: usize = 1184;
    pub const DK: usize = 2400;
    pub const ENC: usize = 1088;
}
pub const TAG: usize = 16;
pub const SIGK: usize = 16;
pub const SIG: usize = 32;
pub const SS: usize = 32;

pub type Bytes = Vec<u8>;

pub struct Rd<'a> {
    pub b: &'a [u8],
}

impl<'a> Rd<'a> {
    pub fn new(b: &'a [u8]) -> Self {
        Self { b }
    }
    pub fn leb(&mut self) -> Result<u64, String> {
        let mut result: u64 = 0;
        let mut shift = 0;
        loop {
            if self.b.is_empty() {
                return Err("eof in leb".into());
            }
            let byte = self.b[0];
            self.b = &self.b[1..];
            if shift == 63 && byte != 0 && byte != 1 {
                return Err("leb overflow".into());
            }
            result |= ((byte & 0x7f) as u64) << shift;
            if byte & 0x80 == 0 {
                return Ok(result);
            }
            shift += 7;
        }
    }
    pub fn take(&mut self, n: usize) -> Result<Bytes, String> {
        if self.b.len() < n {
            return Err(format!("eof: need {n}, have {}", self.b.len()));
        }
        let (a, b) = self.b.split_at(n);
        self.b = b;
        Ok(a.to_vec())
    }
    pub fn vec(&mut self) -> Result<Bytes, String> {
        let n = self.leb()? as usize;
        self.take(n)
    }
}

pub fn leb(out: &mut Bytes, mut v: u64) {
    loop {
        let mut byte = (v & 0x7f) as u8;
        v >>= 7;
        if v != 0 {
            byte |= 0x80;
        }
        out.push(byte);
        if v == 0 {
            return;
        }
    }
}
pub fn wvec(out: &mut Bytes, b: &[u8]) {
    leb(out, b.len() as u64);
    out.extend_from_slice(b);
}

#[derive(Clone, Debug, PartialEq)]
pub struct WAttr {
    pub name: Bytes,
    pub id: u64,
    pub hint: u64,
    pub status: u64, // 1 = EncryptDecrypt
}
#[derive(Clone, Debug, PartialEq)]
pub struct WDim {
    pub name: Bytes,
    pub ordered: u64,
    pub attrs: Vec<WAttr>,
}
#[derive(Clone, Debug, PartialEq)]
pub struct WStruct {
    pub version: u64,
    pub next_id: Option<u64>,
    pub dims: Vec<WDim>,
}

impl WStruct {
    pub fn read(r: &mut Rd) -> Result<Self, String> {
        let version = r.leb()?;
        let next_id = if version == 1 { Some(r.leb()?) } else { None };
        let n = r.leb()?;
        let mut dims = vec![];
        for _ in 0..n {
            let name = r.vec()?;
            let ordered = r.leb()?;
            let na = r.leb()?;
            let mut attrs = vec![];
            for _ in 0..na {
                let name = r.vec()?;
                let id = r.leb()?;
                let hint = r.leb()?;
                let status = r.leb()?;
                attrs.push(WAttr { name, id, hint, status });
            }
            dims.push(WDim { name, ordered, attrs });
        }
        Ok(Self { version, next_id, dims })
    }
    pub fn write(&self, out: &mut Bytes) {
        leb(out, self.version);
        if let Some(n) = self.next_id {
            leb(out, n);
        }
        leb(out, self.dims.len() as u64);
        for d in &self.dims {
            wvec(out, &d.name);
            leb(out, d.ordered);
            leb(out, d.attrs.len() as u64);
            for a in &d.attrs {
                wvec(out, &a.name);
                leb(out, a.id);
                leb(out, a.hint);
                leb(out, a.status);
            }
        }
    }
}

/// `RightSecretKey` / `RightPublicKey`: flavour flag, first leaf (sk / H), second leaf (dk / ek)
#[derive(Clone, Debug, PartialEq)]
pub struct WKey {
    pub hyb: u64,
    pub a: Bytes,
    pub b: Bytes,
}

fn read_key(r: &mut Rd, la: usize, lb: usize) -> Result<WKey, String> {
    let hyb = r.leb()?;
    let a = r.take(la)?;
    let b = if hyb == 1 { r.take(lb)? } else { vec![] };
    if hyb > 1 {
        return Err("bad flavour".into());
    }
    Ok(WKey { hyb, a, b })
}
fn write_key(out: &mut Bytes, k: &WKey) {
    leb(out, k.hyb);
    out.extend_from_slice(&k.a);
    out.extend_from_slice(&k.b);
}

#[derive(Clone, Debug, PartialEq)]
pub struct WMsk {
    pub s: Bytes,
    pub tracers: Vec<(Bytes, Bytes)>,
    pub users: Vec<Vec<Bytes>>,
    pub secrets: Vec<(Bytes, Vec<(u64, WKey)>)>,
    pub signing_key: Option<Bytes>,
    pub structure: WStruct,
}

impl WMsk {
    pub fn read(b: &[u8]) -> Result<Self, String> {
        let mut r = Rd::new(b);
        let s = r.take(sz::SK)?;
        let nt = r.leb()?;
        let mut tracers = vec![];
        for _ in 0..nt {
            tracers.push((r.take(sz::SK)?, r.take(sz::PK)?));
        }
        let nu = r.leb()?;
        let mut users = vec![];
        for _ in 0..nu {
            let l = r.leb()?;
            let mut id = vec![];
            for _ in 0..l {
                id.push(r.take(sz::SK)?);
            }
            users.push(id);
        }
        let nc = r.leb()?;
        let mut secrets = vec![];
        for _ in 0..nc {
            let right = r.vec()?;
            let nk = r.leb()?;
            let mut chain = vec![];
            for _ in 0..nk {
                let flag = r.leb()?;
                chain.push((flag, read_key(&mut r, sz::SK, sz::DK)?));
            }
            secrets.push((right, chain));
        }
        let signing_key = if r.b.len() < SIGK { None } else { Some(r.take(SIGK)?) };
        let structure = WStruct::read(&mut r)?;
        if !r.b.is_empty() {
            return Err("trailing bytes".into());
        }
        Ok(Self { s, tracers, users, secrets, signing_key, structure })
    }
}

#[derive(Clone, Debug, PartialEq)]
pub struct WMpk {
    pub tpk: Vec<Bytes>,
    pub keys: Vec<(Bytes, WKey)>,
    pub structure: WStruct,
}

impl WMpk {
    pub fn read(b: &[u8]) -> Result<Self, String> {
        let mut r = Rd::new(b);
        let n = r.leb()?;
        let mut tpk = vec![];
        for _ in 0..n {
            tpk.push(r.take(sz::PK)?);
        }
        let nc = r.leb()?;
        let mut keys = vec![];
        for _ in 0..nc {
            let right = r.vec()?;
            keys.push((right, read_key(&mut r, sz::PK, sz::EK)?));
        }
        let structure = WStruct::read(&mut r)?;
        if !r.b.is_empty() {
            return Err("trailing bytes".into());
        }
        Ok(Self { tpk, keys, structure })
    }
    pub fn write(&self) -> Bytes {
        let mut out = vec![];
        leb(&mut out, self.tpk.len() as u64);
        for p in &self.tpk {
            out.extend_from_slice(p);
        }
        leb(&mut out, self.keys.len() as u64);
        for (r, k) in &self.keys {
            wvec(&mut out, r);
            write_key(&mut out, k);
        }
        self.structure.write(&mut out);
        out
    }
}

#[derive(Clone, Debug, PartialEq)]
pub struct WUsk {
    pub id: Vec<Bytes>,
    pub ps: Vec<Bytes>,
    pub secrets: Vec<(Bytes, Vec<WKey>)>,
    pub signature: Option<Bytes>,
}

impl WUsk {
    pub fn read(b: &[u8]) -> Result<Self, String> {
        let mut r = Rd::new(b);
        let l = r.leb()?;
        let mut id = vec![];
        for _ in 0..l {
            id.push(r.take(sz::SK)?);
        }
        let np = r.leb()?;
        let mut ps = vec![];
        for _ in 0..np {
            ps.push(r.take(sz::PK)?);
        }
        let nc = r.leb()?;
        let mut secrets = vec![];
        for _ in 0..nc {
            let right = r.vec()?;
            let nk = r.leb()?;
            let mut chain = vec![];
            for _ in 0..nk {
                chain.push(read_key(&mut r, sz::SK, sz::DK)?);
            }
            secrets.push((right, chain));
        }
        let signature = if r.b.len() < SIG { None } else { Some(r.take(SIG)?) };
        if !r.b.is_empty() {
            return Err("trailing bytes".into());
        }
        Ok(Self { id, ps, secrets, signature })
    }
    pub fn write(&self) -> Bytes {
        let mut out = vec![];
        leb(&mut out, self.id.len() as u64);
        for m in &self.id {
            out.extend_from_slice(m);
        }
        leb(&mut out, self.ps.len() as u64);
        for p in &self.ps {
            out.extend_from_slice(p);
        }
        leb(&mut out, self.secrets.len() as u64);
        for (r, chain) in &self.secrets {
            wvec(&mut out, r);
            leb(&mut out, chain.len() as u64);
            for k in chain {
                write_key(&mut out, k);
            }
        }
        if let Some(s) = &self.signature {
            out.extend_from_slice(s);
        }
        out
    }
}

#[derive(Clone, Debug, PartialEq)]
pub struct WEnc {
    pub tag: Bytes,
    pub c: Vec<Bytes>,
    pub hyb: u64,
    /// (E, F); E empty when classic
    pub encs: Vec<(Bytes, Bytes)>,
}

impl WEnc {
    pub fn read_from(r: &mut Rd) -> Result<Self, String> {
        let tag = r.take(TAG)?;
        let n = r.leb()?;
        let mut c = vec![];
        for _ in 0..n {
            c.push(r.take(sz::PK)?);
        }
        let hyb = r.leb()?;
        if hyb > 1 {
            return Err("bad flavour".into());
        }
        let l = r.leb()?;
        let mut encs = vec![];
        for _ in 0..l {
            let e = if hyb == 1 { r.take(sz::ENC)? } else { vec![] };
            let f = r.take(SS)?;
            encs.push((e, f));
        }
        Ok(Self { tag, c, hyb, encs })
    }
    pub fn read(b: &[u8]) -> Result<Self, String> {
        let mut r = Rd::new(b);
        let x = Self::read_from(&mut r)?;
        if !r.b.is_empty() {
            return Err("trailing bytes".into());
        }
        Ok(x)
    }
    pub fn write(&self) -> Bytes {
        let mut out = vec![];
        out.extend_from_slice(&self.tag);
        leb(&mut out, self.c.len() as u64);
        for p in &self.c {
            out.extend_from_slice(p);
        }
        leb(&mut out, self.hyb);
        leb(&mut out, self.encs.len() as u64);
        for (e, f) in &self.encs {
            out.extend_from_slice(e);
            out.extend_from_slice(f);
        }
        out
    }
}
