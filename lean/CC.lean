import CC.Model.Leb
import CC.Model.Policy
import CC.Lemmas.Look
