import CC.Model.Prims
import CC.Model.World
import CC.Spec.Cover
import CC.Model.Sym
import CC.Model.Mac
import CC.Model.Wire
import CC.Model.Shape
import CC.Model.WireLen
import CC.Model.Dict
/-! # Line-protocol driver for the model

One operation per input line, one canonical output line per input line. The Rust harness
executes the same lines on the real implementation and the outputs are compared. Glue only:
handle tables, hex, canonical printing. No theorem is about this file; it only *calls* the model
functions the theorems are about. The operations on a master key (edits, update, rekey, prune, key
generation, refresh) take their new state from `World.step` — the very transition function of the
reachable-world theorems — so what the correspondence check compares with the implementation is
that state machine. -/

namespace CC.Drv
open CC

def hexDigit (n : Nat) : Char :=
  if n < 10 then Char.ofNat (48 + n) else Char.ofNat (87 + n)

def hexOfBytes (bs : List UInt8) : String :=
  String.ofList (bs.flatMap (fun b => [hexDigit (b.toNat / 16), hexDigit (b.toNat % 16)]))

def hexVal (c : Char) : Option Nat :=
  if '0' ≤ c ∧ c ≤ '9' then some (c.toNat - '0'.toNat)
  else if 'a' ≤ c ∧ c ≤ 'f' then some (c.toNat - 'a'.toNat + 10) else none

def unhexL : List Char → Option (List UInt8)
  | [] => some []
  | a :: b :: rest => do
    let x ← hexVal a; let y ← hexVal b; let r ← unhexL rest
    pure (UInt8.ofNat (16 * x + y) :: r)
  | _ => none

def unhex (s : String) : Option (List UInt8) := unhexL s.toList

/-- hex of UTF-8 bytes → String -/
def strOfHex (s : String) : Option String := do
  let bs ← unhex s
  String.fromUTF8? (ByteArray.mk bs.toArray)

def hexOfStr (s : String) : String := hexOfBytes s.toUTF8.toList

def errName : Err → String
  | .dimNotFound => "DimensionNotFound" | .attrNotFound => "AttributeNotFound"
  | .existingDim => "ExistingDimension" | .notPermitted => "OperationNotPermitted"
  | .keyError => "KeyError" | .kem => "Kem" | .tracing => "Tracing"
  | .invalidBool => "InvalidBooleanExpression" | .invalidAttr => "InvalidAttribute"
  | .conversion => "ConversionFailed" | .crypto => "CryptoCoreError"

def sortStrs (l : List String) : List String := l.mergeSort (fun a b => decide (a ≤ b))

/-! ## canonical printing -/

def qaStr (a : QA) : String := hexOfStr a.dim ++ "." ++ hexOfStr a.name

partial def apStr : AP → String
  | .broadcast => "*"
  | .term a => qaStr a
  | .conj l r => "(" ++ apStr l ++ "&" ++ apStr r ++ ")"
  | .disj l r => "(" ++ apStr l ++ "|" ++ apStr r ++ ")"

def dnfStr (d : List (List QA)) : String :=
  String.intercalate "|" (d.map (fun c => String.intercalate "&" (c.map qaStr)))

def attrStr (p : String × Attr) : String :=
  hexOfStr p.1 ++ "." ++ toString p.2.id ++ "." ++ (if p.2.hyb then "h" else "c") ++ "." ++ (if p.2.ro then "d" else "e")

def dimStr (p : String × Dim) : String :=
  let as := p.2.attrs.map attrStr
  hexOfStr p.1 ++ ":" ++ (if p.2.ordered then "h" else "a") ++ "[" ++
    String.intercalate "," (if p.2.ordered then as else sortStrs as) ++ "]"

def structStr (s : Struct) : String :=
  "next=" ++ toString s.nextId ++ ";" ++ String.intercalate ";" (sortStrs (s.dims.map dimStr))

/-- renaming tables: token → index of first appearance, per namespace -/
structure Names where
  sk : List (Nat × Nat) := []
  pk : List (Nat × Nat) := []
  id : List (Nat × Nat) := []

def nameOf (tbl : List (Nat × Nat)) (t : Nat) : List (Nat × Nat) × Nat :=
  match tbl.lookup t with
  | some k => (tbl, k)
  | none => ((t, tbl.length) :: tbl, tbl.length)

/-- print a sorted list of entries, renaming tokens in the sorted order -/
def skEntry (nm : Names) (flag : Option Bool) (s : Sk) : Names × String :=
  let (t, k) := nameOf nm.sk s.tok
  ({ nm with sk := t }, (match flag with | some true => "1" | some false => "0" | none => "") ++
    (if s.hyb then "h" else "c") ++ "#" ++ toString k)

def chainStr (nm : Names) (chain : List (Option Bool × Sk)) : Names × String :=
  let (nm', strs) := chain.foldl (fun (acc : Names × List String) p =>
    let (nm1, s) := skEntry acc.1 p.1 p.2
    (nm1, acc.2 ++ [s])) (nm, [])
  (nm', "[" ++ String.intercalate "," strs ++ "]")

def sortByRight {β} (l : List (Right × β)) : List (Right × β) :=
  l.mergeSort (fun a b => decide (hexOfBytes a.1 ≤ hexOfBytes b.1))

def mskStr (nm : Names) (m : Msk) : Names × String :=
  let (nm', strs) := (sortByRight m.secrets).foldl (fun (acc : Names × List String) p =>
    let (nm1, s) := chainStr acc.1 (p.2.map (fun q => (some q.1, q.2)))
    (nm1, acc.2 ++ [hexOfBytes p.1 ++ ":" ++ s])) (nm, [])
  (nm', "msk users=" ++ toString m.users.length ++ " sign=" ++ (if m.signKey.isSome then "1" else "0") ++
    " tr=" ++ toString m.ntracers ++ " S{" ++ structStr m.structure_ ++ "} R{" ++ String.intercalate ";" strs ++ "}")

def mpkStr (nm : Names) (m : Mpk) : Names × String :=
  let (nm', strs) := (sortByRight m.keys).foldl (fun (acc : Names × List String) p =>
    let (t, k) := nameOf acc.1.pk p.2.tok
    ({ acc.1 with pk := t }, acc.2 ++ [hexOfBytes p.1 ++ ":" ++ (if p.2.hyb then "h" else "c") ++ "#P" ++ toString k])) (nm, [])
  (nm', "mpk tr=" ++ toString m.ntracers ++ " S{" ++ structStr m.structure_ ++ "} R{" ++ String.intercalate ";" strs ++ "}")

def uskStr (nm : Names) (u : Usk) : Names × String :=
  let (t, k) := nameOf nm.id (u.id.headD 0)
  let nm := { nm with id := t }
  let (nm', strs) := (sortByRight u.secrets).foldl (fun (acc : Names × List String) p =>
    let (nm1, s) := chainStr acc.1 (p.2.map (fun q => (none, q)))
    (nm1, acc.2 ++ [hexOfBytes p.1 ++ ":" ++ s])) (nm, [])
  (nm', "usk id=#I" ++ toString k ++ " nps=" ++ toString u.nps ++ " sig=" ++ (if u.sig.isSome then "1" else "0") ++
    " R{" ++ String.intercalate ";" strs ++ "}")

def encStr (e : XEnc) : String :=
  "enc " ++ (if e.hybrid then "h" else "c") ++ " traps=" ++ toString e.ntraps ++ " n=" ++ toString e.targets.length

/-! ## intended formulas (for `parse_eq`): prefix notation, tokens separated by `.`:
`&` conjunction, `|` disjunction, `a<i>` the i-th atom of a fixed table -/

inductive Form where
  | atom (i : Nat)
  | and (l r : Form)
  | or (l r : Form)

def formAtoms : List QA :=
  [⟨"A", "a"⟩, ⟨"B", "b"⟩, ⟨"C", "c"⟩, ⟨"Dé", "é"⟩, ⟨"E", "e"⟩, ⟨"F", "f g"⟩]

def parseForm : Nat → List String → Option (Form × List String)
  | 0, _ => none
  | _ + 1, [] => none
  | fuel + 1, t :: rest =>
    if t == "&" || t == "|" then
      match parseForm fuel rest with
      | none => none
      | some (l, r1) =>
        match parseForm fuel r1 with
        | none => none
        | some (r, r2) => some (if t == "&" then .and l r else .or l r, r2)
    else match t.toList with
      | 'a' :: ds => (String.ofList ds).toNat?.map (fun i => (.atom i, rest))
      | _ => none

def Form.eval (v : Nat → Bool) : Form → Bool
  | .atom i => v i
  | .and l r => l.eval v && r.eval v
  | .or l r => l.eval v || r.eval v

/-- is the parsed policy (and its DNF) equivalent to the intended formula under all assignments
of the atom table? -/
def equivalent (p : AP) (f : Form) : Bool :=
  (List.range (2 ^ formAtoms.length)).all (fun m =>
    let vi : Nat → Bool := fun i => (m / 2 ^ i) % 2 == 1
    let v : QA → Bool := fun a => match formAtoms.findIdx? (· == a) with | some i => vi i | none => false
    p.eval v == f.eval vi && evalDnf v p.toDnf == f.eval vi)

/-! ## state -/

structure St where
  rng : Nat := 0
  msks : Array (Option Msk) := #[]
  mpks : Array (Option Mpk) := #[]
  usks : Array (Option Usk) := #[]
  encs : Array (Option (XEnc × Nat)) := #[]
  pkes : Array (Option (XEnc × Sealed)) := #[]
  hdrs : Array (Option (Header × DKey)) := #[]
  nm : Names := {}
  /-- the data structures of `src/data_struct`, driven directly (hook `verif_hooks`) -/
  dict : DictRep Nat := DictRep.empty
  rmap : RevMap := []
  rvec : RevVec := []

def setSlot {α} (a : Array (Option α)) (i : Nat) (v : Option α) : Array (Option α) :=
  let a := if a.size ≤ i then a ++ Array.replicate (i + 1 - a.size) none else a
  a.set! i v

def getSlot {α} (a : Array (Option α)) (i : Nat) : Option α := (a[i]?).join

def handle (pfx : Char) (s : String) : Option Nat :=
  match s.toList with
  | c :: rest => if c = pfx then (String.ofList rest).toNat? else none
  | [] => none

/-- policies travel as hex of their text (`t:`), parsed on both sides -/
def policyOf (s : String) : Except Err AP :=
  match s.toList with
  | 't' :: ':' :: rest =>
    match strOfHex (String.ofList rest) with
    | none => .error .conversion
    | some txt => (parse txt).mapError PErr.toErr
  | _ => .error .conversion

def errLine (e : Err) : String := "err " ++ errName e

/-- byte arguments travel as `x<hex>` (so that the empty string is a token), `-` = absent -/
def optBytes (s : String) : Option (Option Bytes) :=
  if s == "-" then some none
  else match s.toList with
    | 'x' :: rest => (unhexL rest).map some
    | _ => none

def tamperOf (len : Nat) (op arg : String) : Option Tamper :=
  match op, arg.toNat? with
  | "trunc", some n => some (if n ≥ len then .intact else if n < NONCE_LENGTH then .short else .altered)
  | "flip", some n => some (if n < len then .altered else .intact)
  | _, _ => none

def _root_.CC.Tamper.join : Tamper → Tamper → Tamper
  | .intact, t => t
  | t, .intact => t
  | .short, _ => .short
  | _, .short => .short
  | _, _ => .altered

def rightsStr (rs : List Right) : String := String.intercalate "," (sortStrs (rs.map hexOfBytes))

def decapsStr (st : St) (u : Usk) (e : XEnc × Nat) : String :=
  match decaps u e.1 with
  | none => "0"
  | some s => if s = e.2 then "1" else "X"

def matrixStr (st : St) : String :=
  let rows := (List.range st.usks.size).filterMap (fun i =>
    match getSlot st.usks i with
    | none => none
    | some u =>
      let cells := (List.range st.encs.size).filterMap (fun j =>
        match getSlot st.encs j with
        | none => none
        | some e => some ("E" ++ toString j ++ "=" ++ decapsStr st u e))
      some ("U" ++ toString i ++ ":" ++ String.intercalate "," cells))
  "mx " ++ String.intercalate ";" rows

/-- run an edit on the structure of master key slot `i` -/
def editStruct (st : St) (ms : String) (e : Edit) : St × String :=
  match handle 'M' ms with
  | none => (st, "bad-op")
  | some i =>
    match getSlot st.msks i with
    | none => (st, "err NoSuchHandle")
    | some m =>
      -- the state after the operation is the one of the world machine
      let w' := World.step ⟨m, st.rng⟩ (.edit e)
      let st' := { st with msks := setSlot st.msks i (some w'.msk), rng := w'.rng }
      match m.structure_.apply e with
      | .error err => (st', errLine err)
      | .ok s' => (st', "ok " ++ structStr s')

def mpkOut (st : St) (k : Nat) (m : Msk) : St × String :=
  let mpk := m.mpk
  let (nm, s) := mpkStr st.nm mpk
  ({ st with mpks := setSlot st.mpks k (some mpk), nm := nm }, s)

/-! ## the data structures of `src/data_struct`, function by function

`Dict<String, u32>` against the representation model `DictRep` (the object of `CC.Props.DictRefine`),
`RevisionMap<String, u32>` against `RevMap`, `RevisionVec<String, u32>` against `RevVec` /
`revisions` — the very definitions the theorems of C03, C04, C05 and C14 are about. A `u32` stands
for a master secret `(flag, {tok, hyb})` as `flag + 2·hyb + 4·tok`, for a user secret as `hyb + 2·tok`. -/

def mOfNat (v : Nat) : Bool × Sk := (v % 2 == 1, ⟨v / 4, (v / 2) % 2 == 1⟩)
def natOfM (p : Bool × Sk) : Nat := (if p.1 then 1 else 0) + (if p.2.hyb then 2 else 0) + 4 * p.2.tok
def uOfNat (v : Nat) : Sk := ⟨v / 2, v % 2 == 1⟩
def natOfU (s : Sk) : Nat := (if s.hyb then 1 else 0) + 2 * s.tok
def keyR (k : String) : Right := k.toUTF8.toList
def rKey (r : Right) : String := (String.fromUTF8? (ByteArray.mk r.toArray)).getD "?"

def optNat : Option Nat → String
  | none => "ok -"
  | some v => "ok " ++ toString v

def dots (l : List Nat) : String := String.intercalate "." (l.map toString)

/-- `k=v,k=v` -/
def parsePairs (s : String) : Option (List (String × Nat)) :=
  if s == "-" then some [] else
  (s.splitOn ",").mapM (fun kv => match kv.splitOn "=" with
    | [k, v] => v.toNat?.map (fun n => (k, n))
    | _ => none)

/-- `k:v1.v2;k:;k:v3` -/
def parseChains (s : String) : Option (List (String × List Nat)) :=
  if s == "-" then some [] else
  (s.splitOn ";").mapM (fun kc => match kc.splitOn ":" with
    | [k, c] => (if c == "" then some [] else (c.splitOn ".").mapM (·.toNat?)).map (fun l => (k, l))
    | _ => none)

def dsStep (st : St) : List String → Option (St × String)
  | ["d_new"] => some ({ st with dict := DictRep.empty }, "ok")
  | ["d_insert", k, v] => v.toNat?.map (fun v =>
      match st.dict.insert k v with
      | none => (st, "panic")
      | some (d, _) => ({ st with dict := d }, "ok"))
  | ["d_remove", k] => some (
      match st.dict.remove k with
      | none => (st, "panic")
      | some (d, old) => ({ st with dict := d }, if old.isSome then "ok 1" else "ok 0"))
  | ["d_rename", a, b] => some (
      match st.dict.updateKey a b with
      | none => (st, "panic")
      | some (.error _) => (st, "err")
      | some (.ok d) => ({ st with dict := d }, "ok"))
  | ["d_get", k] => some (st, optNat (st.dict.get k))
  | ["d_has", k] => some (st, if st.dict.containsKey k then "ok 1" else "ok 0")
  | ["d_set", k, v] => v.toNat?.map (fun v =>
      let r := st.dict.modify k (fun _ => v)
      ({ st with dict := r.1 }, if r.2 then "ok 1" else "ok 0"))
  | ["d_len"] => some (st, "ok " ++ toString st.dict.len)
  | ["d_iter"] => some (st, "ok " ++ String.intercalate "," (st.dict.iter.map (fun p => p.1 ++ "=" ++ toString p.2)))
  | ["d_from", l] => (parsePairs l).map (fun l =>
      match DictRep.fromList l with
      | none => (st, "panic")
      | some d => ({ st with dict := d }, "ok"))
  | ["m_new"] => some ({ st with rmap := [] }, "ok")
  | ["m_insert", k, v] => v.toNat?.map (fun v => ({ st with rmap := st.rmap.insert (keyR k) (mOfNat v) }, "ok"))
  | ["m_latest", k] => some (st, optNat ((st.rmap.getLatest (keyR k)).map natOfM))
  | ["m_setlatest", k, v] => v.toNat?.map (fun v =>
      match st.rmap.getLatest (keyR k) with
      | none => (st, "ok 0")
      | some _ => ({ st with rmap := st.rmap.setLatest (keyR k) (mOfNat v) }, "ok 1"))
  | ["m_has", k] => some (st, if st.rmap.containsKey (keyR k) then "ok 1" else "ok 0")
  | ["m_get", k] => some (st, match st.rmap.get (keyR k) with
      | none => "ok -"
      | some c => "ok " ++ dots (c.map natOfM))
  | ["m_keep", k, n] => n.toNat?.map (fun n => ({ st with rmap := st.rmap.keep (keyR k) n }, "ok"))
  | ["m_retain", ks] =>
      let keep := if ks == "-" then [] else ks.splitOn ","
      some ({ st with rmap := st.rmap.retain (fun r => keep.contains (rKey r)) }, "ok")
  | ["m_len"] => some (st, "ok " ++ toString st.rmap.length)
  | ["m_count"] => some (st, "ok " ++ toString ((st.rmap.map (·.2.length)).sum))
  | ["m_dump"] => some (st, "ok " ++ String.intercalate ";" (sortStrs (st.rmap.map (fun p => rKey p.1 ++ ":" ++ dots (p.2.map natOfM)))))
  | ["v_from", l] => (parseChains l).map (fun l =>
      ({ st with rvec := l.map (fun p => (keyR p.1, p.2.map uOfNat)) }, "ok"))
  | ["v_revisions"] => some (st, "ok " ++ String.intercalate "|" ((revisions st.rvec).map (fun rev =>
      String.intercalate "," (rev.map (fun p => rKey p.1 ++ "=" ++ toString (natOfU p.2))))))
  | ["v_len"] => some (st, "ok " ++ toString st.rvec.length)
  | ["v_count"] => some (st, "ok " ++ toString (revTotal st.rvec))
  | ["v_keys"] => some (st, "ok " ++ String.intercalate "," (st.rvec.map (fun p => rKey p.1)))
  | _ => none

def step (st : St) (line : String) : St × String :=
  match dsStep st (line.trimAscii.toString.splitOn " ") with
  | some r => r
  | none =>
  match line.trimAscii.toString.splitOn " " with
  | ["reset"] => ({}, "ok")
  | ["noop"] => (st, "bad-op")
  | ["parse", h] =>
    -- the text is prefixed by `x` so that the empty string is a token too
    match strOfHex (String.ofList (h.toList.drop 1)) with
    | none => (st, "bad-hex")
    | some txt =>
      match parse txt with
      | .error e => (st, errLine e.toErr)
      | .ok p => (st, "ok " ++ apStr p ++ " dnf " ++ dnfStr p.toDnf)
  | ["parse_eq", h, f] =>
    match strOfHex (String.ofList (h.toList.drop 1)), parseForm 200 (f.splitOn ".") with
    | some txt, some (form, []) =>
      match parse txt with
      | .error e => (st, errLine e.toErr)
      | .ok p => (st, "ok eq=" ++ (if equivalent p form then "1" else "0"))
    | _, _ => (st, "bad-op")
  | ["setup", ms, ks] =>
    match handle 'M' ms, handle 'K' ks with
    | some i, some k =>
      let (m, n) := setup st.rng defaultTracers
      -- `Covercrypt::setup`: update with the rights of the empty structure; the resulting state is the
      -- initial world of the reachable-world theorems
      let w0 := World.init st.rng defaultTracers
      match updateMsk m m.structure_.omega n with
      | (.error e, _, n') => ({ st with rng := n' }, errLine e)
      | (.ok _, _, _) =>
        let m' := w0.msk
        let st := { st with rng := w0.rng, msks := setSlot st.msks i (some m') }
        let (st, s) := mpkOut st k m'
        let (nm, ms) := mskStr st.nm m'
        ({ st with nm := nm }, "ok " ++ ms ++ " | " ++ s)
    | _, _ => (st, "bad-op")
  | ["add_dim", ms, kind, d] =>
    match strOfHex d with
    | none => (st, "bad-hex")
    | some d => editStruct st ms (.addDim d (kind == "h"))
  | ["del_dim", ms, d] =>
    match strOfHex d with
    | none => (st, "bad-hex")
    | some d => editStruct st ms (.delDim d)
  | ["add_attr", ms, d, a, hint, after] =>
    match strOfHex d, strOfHex a, (if after == "-" then some none else (strOfHex after).map some) with
    | some d, some a, some af => editStruct st ms (.addAttr d a (hint == "h") af)
    | _, _, _ => (st, "bad-hex")
  | ["del_attr", ms, d, a] =>
    match strOfHex d, strOfHex a with
    | some d, some a => editStruct st ms (.delAttr d a)
    | _, _ => (st, "bad-hex")
  | ["rename_attr", ms, d, a, b] =>
    match strOfHex d, strOfHex a, strOfHex b with
    | some d, some a, some b => editStruct st ms (.rename d a b)
    | _, _, _ => (st, "bad-hex")
  | ["disable_attr", ms, d, a] =>
    match strOfHex d, strOfHex a with
    | some d, some a => editStruct st ms (.disable d a)
    | _, _ => (st, "bad-hex")
  | ["update", ms, ks] =>
    match handle 'M' ms, handle 'K' ks with
    | some i, some k =>
      match getSlot st.msks i with
      | none => (st, "err NoSuchHandle")
      | some m =>
        let (res, _, _) := updateMsk m m.structure_.omega st.rng
        let w' := World.step ⟨m, st.rng⟩ .update
        let m' := w'.msk
        let st := { st with rng := w'.rng, msks := setSlot st.msks i (some m') }
        let (nm, ms) := mskStr st.nm m'
        let st := { st with nm := nm }
        match res with
        | .error e => (st, errLine e ++ " " ++ ms)
        | .ok _ => let (st, s) := mpkOut st k m'; (st, "ok " ++ ms ++ " | " ++ s)
    | _, _ => (st, "bad-op")
  | ["rekey", ms, ks, p] =>
    match handle 'M' ms, handle 'K' ks with
    | some i, some k =>
      match getSlot st.msks i with
      | none => (st, "err NoSuchHandle")
      | some m =>
        match policyOf p with
        | .error e => let (nm, ms) := mskStr st.nm m; ({ st with nm := nm }, errLine e ++ " " ++ ms)
        | .ok ap =>
        match m.structure_.uskRights ap with
        | .error e => let (nm, ms) := mskStr st.nm m; ({ st with nm := nm }, errLine e ++ " " ++ ms)
        | .ok rights =>
          let (res, _, _) := rekey m rights st.rng
          let w' := World.step ⟨m, st.rng⟩ (.rekey ap)
          let m' := w'.msk
          let st := { st with rng := w'.rng, msks := setSlot st.msks i (some m') }
          let (nm, ms) := mskStr st.nm m'
          let st := { st with nm := nm }
          match res with
          | .error e => (st, errLine e ++ " " ++ ms)
          | .ok _ => let (st, s) := mpkOut st k m'; (st, "ok " ++ ms ++ " | " ++ s)
    | _, _ => (st, "bad-op")
  | ["prune", ms, ks, p] =>
    match handle 'M' ms, handle 'K' ks with
    | some i, some k =>
      match getSlot st.msks i with
      | none => (st, "err NoSuchHandle")
      | some m =>
        match policyOf p with
        | .error e => let (nm, ms) := mskStr st.nm m; ({ st with nm := nm }, errLine e ++ " " ++ ms)
        | .ok ap =>
        match m.structure_.uskRights ap with
        | .error e => let (nm, ms) := mskStr st.nm m; ({ st with nm := nm }, errLine e ++ " " ++ ms)
        | .ok _ =>
          let w' := World.step ⟨m, st.rng⟩ (.prune ap)
          let m' := w'.msk
          let st := { st with rng := w'.rng, msks := setSlot st.msks i (some m') }
          let (nm, ms) := mskStr st.nm m'
          let st := { st with nm := nm }
          let (st, s) := mpkOut st k m'; (st, "ok " ++ ms ++ " | " ++ s)
    | _, _ => (st, "bad-op")
  | ["keygen", ms, us, p] =>
    match handle 'M' ms, handle 'U' us with
    | some i, some j =>
      match getSlot st.msks i with
      | none => (st, "err NoSuchHandle")
      | some m =>
        match policyOf p with
        | .error e => let (nm, ms) := mskStr st.nm m; ({ st with nm := nm }, errLine e ++ " " ++ ms)
        | .ok ap =>
        match m.structure_.uskRights ap with
        | .error e => let (nm, ms) := mskStr st.nm m; ({ st with nm := nm }, errLine e ++ " " ++ ms)
        | .ok rights =>
          let (res, _, _) := uskKeygen m rights st.rng
          let w' := World.step ⟨m, st.rng⟩ (.keygen ap)
          let m' := w'.msk
          let st := { st with rng := w'.rng, msks := setSlot st.msks i (some m') }
          let (nm, ms) := mskStr st.nm m'
          let st := { st with nm := nm }
          match res with
          | .error e => (st, errLine e ++ " " ++ ms)
          | .ok u =>
            let (nm, s) := uskStr st.nm u
            ({ st with nm := nm, usks := setSlot st.usks j (some u) }, "ok " ++ ms ++ " | " ++ s)
    | _, _ => (st, "bad-op")
  | ["refresh", ms, us, ud, keep] =>
    match handle 'M' ms, handle 'U' us, handle 'U' ud with
    | some i, some j, some j' =>
      match getSlot st.msks i, getSlot st.usks j with
      | some m, some u =>
        let (res, _, u', _) := refresh m u (keep == "1") st.rng
        let w' := World.step ⟨m, st.rng⟩ (.refresh u (keep == "1"))
        let m' := w'.msk
        let st := { st with rng := w'.rng, msks := setSlot st.msks i (some m'), usks := setSlot st.usks j' (some u') }
        let (nm, ms) := mskStr st.nm m'
        let (nm, s) := uskStr nm u'
        let st := { st with nm := nm }
        match res with
        | .error e => (st, errLine e ++ " " ++ ms ++ " | " ++ s)
        | .ok _ => (st, "ok " ++ ms ++ " | " ++ s)
      | _, _ => (st, "err NoSuchHandle")
    | _, _, _ => (st, "bad-op")
  | ["encaps", ks, es, p] =>
    match handle 'K' ks, handle 'E' es with
    | some k, some j =>
      match getSlot st.mpks k with
      | none => (st, "err NoSuchHandle")
      | some mpk =>
        match (policyOf p).bind mpk.structure_.encRights with
        | .error e => (st, errLine e)
        | .ok rights =>
          match encaps mpk rights st.rng with
          | (.error e, n') => ({ st with rng := n' }, errLine e)
          | (.ok (s, x), n') =>
            ({ st with rng := n', encs := setSlot st.encs j (some (x, s)) }, "ok " ++ encStr x)
    | _, _ => (st, "bad-op")
  | ["decaps", us, es] =>
    match handle 'U' us, handle 'E' es with
    | some i, some j =>
      match getSlot st.usks i, getSlot st.encs j with
      | some u, some e => (st, "ok " ++ decapsStr st u e)
      | _, _ => (st, "err NoSuchHandle")
    | _, _ => (st, "bad-op")
  | ["recaps", ms, ks, es, ed] =>
    match handle 'M' ms, handle 'K' ks, handle 'E' es, handle 'E' ed with
    | some i, some k, some j, some j' =>
      match getSlot st.msks i, getSlot st.mpks k, getSlot st.encs j with
      | some m, some mpk, some e =>
        match recaps m mpk e.1 st.rng with
        | (.error err, n') => ({ st with rng := n' }, errLine err)
        | (.ok (s, x), n') =>
          ({ st with rng := n', encs := setSlot st.encs j' (some (x, s)) }, "ok " ++ encStr x)
      | _, _, _ => (st, "err NoSuchHandle")
    | _, _, _, _ => (st, "bad-op")
  | ["matrix"] => (st, matrixStr st)
  | ["mpk", ms, ks] =>
    match handle 'M' ms, handle 'K' ks with
    | some i, some k =>
      match getSlot st.msks i with
      | none => (st, "err NoSuchHandle")
      | some m => let (st, s) := mpkOut st k m; (st, "ok " ++ s)
    | _, _ => (st, "bad-op")
  | ["copy", a, b] =>
    match handle 'M' a, handle 'M' b with
    | some i, some j => ({ st with msks := setSlot st.msks j (getSlot st.msks i) }, "ok")
    | _, _ =>
      match handle 'U' a, handle 'U' b with
      | some i, some j => ({ st with usks := setSlot st.usks j (getSlot st.usks i) }, "ok")
      | _, _ => (st, "bad-op")
  | ["forge", a, b, kind] =>
    match handle 'U' a, handle 'U' b with
    | some i, some j =>
      match getSlot st.usks i with
      | none => ({ st with usks := setSlot st.usks j none }, "ok none")
      | some u =>
        let r : Option (Option Usk) :=
          match kind with
          | "sig" => some (u.sig.map (fun s => { u with sig := some { s with id := 0 :: s.id } }))
          | "strip" => some (u.sig.map (fun _ => { u with sig := none }))
          | "drop" =>
            some (if u.secrets.any (fun c => c.1.isEmpty) then
              some { u with secrets := u.secrets.filter (fun c => !c.1.isEmpty) } else none)
          | _ => none
        match r with
        | none => (st, "bad-op")
        | some (some u') => ({ st with usks := setSlot st.usks j (some u') }, "ok forged")
        | some none => ({ st with usks := setSlot st.usks j (some u) }, "ok unchanged")
    | _, _ => (st, "bad-op")
  | ["bump_ids", ms, n] =>
    match handle 'M' ms, n.toNat? with
    | some i, some k =>
      match getSlot st.msks i with
      | none => (st, "err NoSuchHandle")
      | some m =>
        let nx := max m.structure_.nextId k
        let m' := { m with structure_ := { m.structure_ with nextId := nx } }
        ({ st with msks := setSlot st.msks i (some m') }, "ok next=" ++ toString nx)
    | _, _ => (st, "bad-op")
  | ["set_tracers", ms, n] =>
    match handle 'M' ms, n.toNat? with
    | some i, some k =>
      match getSlot st.msks i with
      | none => (st, "err NoSuchHandle")
      | some m =>
        if k ≥ 128 ∨ k < m.ntracers then (st, "bad-op")
        else ({ st with msks := setSlot st.msks i (some { m with ntracers := k }) }, "ok tr=" ++ toString k)
    | _, _ => (st, "bad-op")
  | ["roundtrip", _] => (st, "ok")
  | ["usk_rights", ms, p] =>
    match handle 'M' ms with
    | none => (st, "bad-op")
    | some i =>
      match getSlot st.msks i with
      | none => (st, "err NoSuchHandle")
      | some m =>
        match (policyOf p).bind m.structure_.uskRights with
        | .error e => (st, errLine e)
        | .ok rs => (st, "ok " ++ rightsStr rs)
  | ["enc_rights", ms, p] =>
    match handle 'M' ms with
    | none => (st, "bad-op")
    | some i =>
      match getSlot st.msks i with
      | none => (st, "err NoSuchHandle")
      | some m =>
        match (policyOf p).bind m.structure_.encRights with
        | .error e => (st, errLine e)
        | .ok rs => (st, "ok " ++ rightsStr rs)
  | ["wire", ty, cfg, a, h] =>
    -- as below, and: has the object the real code serialised the shape of `toWire` of the model's own symbolic key?
    -- (leaf bytes forgotten, hash-map order canonical: `CC.Model.Shape`; ties `CC.Model.Embed` to the code)
    let c := if cfg == "p256" then Wire.cfgP256 else Wire.cfgC25519
    let hk : Option (Char × Nat) := match h.toList with
      | k :: rest => (String.ofList rest).toNat?.map (fun i => (k, i))
      | [] => none
    match optBytes a, hk with
    | some (some bs), some (kind, i) =>
      let res : Option (Nat × Wire.Bytes × Bool) :=
        match ty, kind with
        | "msk", 'M' => (Wire.deserialize (Wire.msk c) bs).map (fun v => (Wire.lenMsk c v, Wire.encMsk v,
            match getSlot st.msks i with
            | some m => decide (Shape.msk v = Shape.msk (if cfg == "p256" then m.toWire zeroLeavesP256 else m.toWire zeroLeavesC25519))
            | none => false))
        | "mpk", 'K' => (Wire.deserialize (Wire.mpk c) bs).map (fun v => (Wire.lenMpk c v, Wire.encMpk v,
            match getSlot st.mpks i with
            | some m => decide (Shape.mpk v = Shape.mpk (if cfg == "p256" then m.toWire zeroLeavesP256 else m.toWire zeroLeavesC25519))
            | none => false))
        | "usk", 'U' => (Wire.deserialize (Wire.usk c) bs).map (fun v => (Wire.lenUsk c v, Wire.encUsk v,
            match getSlot st.usks i with
            | some m => decide (Shape.usk v = Shape.usk (if cfg == "p256" then m.toWire zeroLeavesP256 else m.toWire zeroLeavesC25519))
            | none => false))
        | "enc", 'E' => (Wire.deserialize (Wire.xenc c) bs).map (fun v => (Wire.lenXenc c v, Wire.encXenc v,
            match getSlot st.encs i with
            | some (x, _) => decide (Shape.enc v = Shape.enc (if cfg == "p256" then x.toWire zeroLeavesP256 else x.toWire zeroLeavesC25519))
            | none => false))
        | "hdr", 'H' => (Wire.deserialize (Wire.header c) bs).map (fun v => (Wire.lenHeader c v, Wire.encHeader v,
            match getSlot st.hdrs i with
            | some (x, _) =>
              -- a header altered outside the library has no layout of its own in the model
              (match x.mdata with | some sl => sl.tamper != .intact | none => false) ||
              decide (Shape.header v = Shape.header (if cfg == "p256" then x.toWire zeroLeavesP256 else x.toWire zeroLeavesC25519))
            | none => false))
        | "struct", 'S' => (Wire.deserialize Wire.struct_ bs).map (fun v => (Wire.lenStruct v, Wire.encStruct v,
            match getSlot st.msks i with
            | some m => decide (Shape.struct_ v = Shape.struct_ m.structure_.toWire)
            | none => false))
        | _, _ => none
      match res with
      | none => (st, "err Deserialize")
      | some (n, re, sh) => (st, "ok len=" ++ toString n ++ " rt=" ++ (if re = bs then "1" else "0") ++ " shape=" ++ (if sh then "1" else "0"))
    | _, _ => (st, "bad-op")
  | ["wire", ty, cfg, a] =>
    -- decode the serialised object, re-encode it: accepted? announced length? byte-exact round trip?
    let c := if cfg == "p256" then Wire.cfgP256 else Wire.cfgC25519
    match optBytes a with
    | some (some bs) =>
      -- announced length = the model of `length()` (`CC.Model.WireLen`), not the length of the re-encoding
      let res : Option (Nat × Wire.Bytes) :=
        match ty with
        | "msk" => (Wire.deserialize (Wire.msk c) bs).map (fun v => (Wire.lenMsk c v, Wire.encMsk v))
        | "mpk" => (Wire.deserialize (Wire.mpk c) bs).map (fun v => (Wire.lenMpk c v, Wire.encMpk v))
        | "usk" => (Wire.deserialize (Wire.usk c) bs).map (fun v => (Wire.lenUsk c v, Wire.encUsk v))
        | "enc" => (Wire.deserialize (Wire.xenc c) bs).map (fun v => (Wire.lenXenc c v, Wire.encXenc v))
        | "hdr" => (Wire.deserialize (Wire.header c) bs).map (fun v => (Wire.lenHeader c v, Wire.encHeader v))
        | "clr" => (Wire.deserialize Wire.clear bs).map (fun v => (Wire.lenClear v, Wire.encClear v))
        | "struct" => (Wire.deserialize Wire.struct_ bs).map (fun v => (Wire.lenStruct v, Wire.encStruct v))
        | _ => none
      match res with
      | none => (st, "err Deserialize")
      | some (n, re) => (st, "ok len=" ++ toString n ++ " rt=" ++ (if re = bs then "1" else "0"))
    | _ => (st, "bad-op")
  | "trace" :: cfg :: sHex :: rest =>
    -- the tracing relation on the real scalars: sum of marker_i * tracer_i = s in the scalar field
    -- (`rest` = tracer scalars then markers, same number of each)
    let le := cfg != "p256"
    let order : Nat := if cfg == "p256" then 0xffffffff00000000ffffffffffffffffbce6faada7179e84f3b9cac2fc632551
      else 2 ^ 252 + 27742317777372353535851937790883648493
    let toNat (bs : List UInt8) : Nat :=
      (if le then bs.reverse else bs).foldl (fun acc b => acc * 256 + b.toNat) 0
    match unhex sHex, rest.mapM unhex with
    | some sb, some vals =>
      let k := vals.length / 2
      let ts := (vals.take k).map toNat
      let ms := (vals.drop k).map toNat
      let sum := (List.zipWith (· * ·) ts ms).foldl (· + ·) 0
      (st, if vals.length % 2 == 0 && sum % order == toNat sb % order then "ok 1" else "ok 0")
    | _, _ => (st, "bad-hex")
  | ["mac", cfg, a, b] =>
    -- would `refresh` accept the user key `b`, given that `a` was issued (bytes of both)?
    let c := if cfg == "p256" then Wire.cfgP256 else Wire.cfgC25519
    match optBytes a, optBytes b with
    | some (some a), some (some b) =>
      match Wire.deserialize (Wire.usk c) a with
      | none => (st, "bad-issued-key")
      | some k0 =>
        match Wire.deserialize (Wire.usk c) b with
        | none => (st, "ok acc=0 unch=1 same_stream=0")
        | some k =>
          let same := decide (Mac.input k = Mac.input k0)
          (st, "ok acc=" ++ (if Mac.acceptedLike k0 k then "1" else "0") ++ " unch=1 same_stream=" ++ (if same then "1" else "0"))
    | _, _ => (st, "bad-op")
  | "tamper_enc" :: es :: ed :: rest =>
    -- any modification of an encapsulation: by the binding theorem (`CC.Props.C07`) the result
    -- passes no tag check; it is represented as an encapsulation nothing opens
    match handle 'E' es, handle 'E' ed with
    | some i, some j =>
      match getSlot st.encs i with
      | none => (st, "err NoSuchHandle")
      | some (x, s) =>
        -- an operator that splices from another encapsulation needs that one to exist (matters only when a
        -- history is being shrunk: the line that created it may have been dropped)
        let donorMissing := match rest with
          | op :: d :: _ => op.startsWith "splice" && (match handle 'E' d with
              | some k => (getSlot st.encs k).isNone
              | none => true)
          | _ => false
        if donorMissing then (st, "bad-op")
        else if rest.head? == some "noncanon" then
          -- the same encapsulation written with a redundant LEB128 continuation byte: the decoder (the `leb128` crate,
          -- `CC.Model.Leb`) reads the same number, the object is the same (`CC.Props.C07.noncanonical_leb_accepted`, D15)
          ({ st with encs := setSlot st.encs j (some (x, s)) }, "ok")
        else ({ st with encs := setSlot st.encs j (some ({ x with targets := [] }, s)) }, "ok")
    | _, _ => (st, "bad-op")
  | ["pke_enc", ks, xs, p, ptx] =>
    match handle 'K' ks, handle 'X' xs, optBytes ptx with
    | some k, some j, some (some ptx) =>
      match getSlot st.mpks k with
      | none => (st, "err NoSuchHandle")
      | some mpk =>
        match (policyOf p).bind mpk.structure_.encRights with
        | .error e => (st, errLine e)
        | .ok rights =>
          match pkeEncrypt mpk rights ptx st.rng with
          | (.error e, n') => ({ st with rng := n' }, errLine e)
          | (.ok c, n') => ({ st with rng := n', pkes := setSlot st.pkes j (some c) }, "ok len=" ++ toString c.2.length)
    | _, _, _ => (st, "bad-op")
  | ["pke_dec", us, xs] =>
    match handle 'U' us, handle 'X' xs with
    | some i, some j =>
      match getSlot st.usks i, getSlot st.pkes j with
      | some u, some c =>
        match pkeDecrypt u c with
        | .error e => (st, errLine e)
        | .ok none => (st, "ok none")
        | .ok (some p) => (st, "ok some x" ++ hexOfBytes p)
      | _, _ => (st, "err NoSuchHandle")
    | _, _ => (st, "bad-op")
  | ["pke_tamper", xs, xd, op, arg] =>
    match handle 'X' xs, handle 'X' xd with
    | some i, some j =>
      match getSlot st.pkes i with
      | none => (st, "err NoSuchHandle")
      | some c =>
        if op == "swapenc" then
          match (handle 'E' arg).bind (getSlot st.encs) with
          | none => (st, "err NoSuchHandle")
          | some e => ({ st with pkes := setSlot st.pkes j (some (e.1, c.2)) }, "ok")
        else match tamperOf c.2.length op arg with
          | none => (st, "bad-op")
          | some t => ({ st with pkes := setSlot st.pkes j (some (c.1, { c.2 with tamper := c.2.tamper.join t })) }, "ok")
    | _, _ => (st, "bad-op")
  | ["hdr_gen", ks, hs, p, md, ad] =>
    match handle 'K' ks, handle 'H' hs, optBytes md, optBytes ad with
    | some k, some j, some md, some ad =>
      match getSlot st.mpks k with
      | none => (st, "err NoSuchHandle")
      | some mpk =>
        match (policyOf p).bind mpk.structure_.encRights with
        | .error e => (st, errLine e)
        | .ok rights =>
          match hdrGenerate mpk rights md ad st.rng with
          | (.error e, n') => ({ st with rng := n' }, errLine e)
          | (.ok (sec, h), n') =>
            ({ st with rng := n', hdrs := setSlot st.hdrs j (some (h, sec)) },
              "ok meta=" ++ (match h.mdata with | none => "-" | some c => toString c.length))
    | _, _, _, _ => (st, "bad-op")
  | ["hdr_dec", us, hs, ad] =>
    match handle 'U' us, handle 'H' hs, optBytes ad with
    | some i, some j, some ad =>
      match getSlot st.usks i, getSlot st.hdrs j with
      | some u, some (h, sec) =>
        match hdrDecrypt u h ad with
        | .error e => (st, errLine e)
        | .ok none => (st, "ok none")
        | .ok (some (s, m)) =>
          (st, "ok some sec=" ++ (if s = sec then "1" else "0") ++ " meta=" ++
            (match m with | none => "-" | some b => "x" ++ hexOfBytes b))
      | _, _ => (st, "err NoSuchHandle")
    | _, _, _ => (st, "bad-op")
  | ["hdr_tamper", hs, hd, op, arg] =>
    match handle 'H' hs, handle 'H' hd with
    | some i, some j =>
      match getSlot st.hdrs i with
      | none => (st, "err NoSuchHandle")
      | some (h, sec) =>
        if op == "roundtrip" then ({ st with hdrs := setSlot st.hdrs j (some (h, sec)) }, "ok")
        else if op == "swapenc" then
          match (handle 'E' arg).bind (getSlot st.encs) with
          | none => (st, "err NoSuchHandle")
          | some e => ({ st with hdrs := setSlot st.hdrs j (some ({ h with enc := e.1 }, sec)) }, "ok")
        else match h.mdata with
          | none => ({ st with hdrs := setSlot st.hdrs j (some (h, sec)) }, "ok")
          | some c =>
            match tamperOf c.length op arg with
            | none => (st, "bad-op")
            | some t =>
              ({ st with hdrs := setSlot st.hdrs j (some ({ h with mdata := some { c with tamper := c.tamper.join t } }, sec)) }, "ok")
    | _, _ => (st, "bad-op")
  | ["covers", ms, ks, pu, pe] =>
    -- the *specification* verdict: name-level cover relation on the key's structure
    match handle 'M' ms, handle 'K' ks with
    | some i, some k =>
      match getSlot st.msks i, getSlot st.mpks k with
      | some m, some mpk =>
        match policyOf pu, policyOf pe with
        | .ok u, .ok e =>
          if Spec.policyWf m.structure_ u && Spec.policyWf mpk.structure_ e then
            (st, if Spec.covers m.structure_ u e then "ok 1" else "ok 0")
          else (st, "err NotWellFormed")
        | _, _ => (st, "err Parse")
      | _, _ => (st, "err NoSuchHandle")
    | _, _ => (st, "bad-op")
  | ["dump", h] =>
    match handle 'M' h, handle 'K' h, handle 'U' h, handle 'E' h with
    | some i, _, _, _ =>
      match getSlot st.msks i with
      | none => (st, "err NoSuchHandle")
      | some m => let (nm, s) := mskStr st.nm m; ({ st with nm := nm }, "ok " ++ s)
    | _, some i, _, _ =>
      match getSlot st.mpks i with
      | none => (st, "err NoSuchHandle")
      | some m => let (nm, s) := mpkStr st.nm m; ({ st with nm := nm }, "ok " ++ s)
    | _, _, some i, _ =>
      match getSlot st.usks i with
      | none => (st, "err NoSuchHandle")
      | some m => let (nm, s) := uskStr st.nm m; ({ st with nm := nm }, "ok " ++ s)
    | _, _, _, some i =>
      match getSlot st.encs i with
      | none => (st, "err NoSuchHandle")
      | some m => (st, "ok " ++ encStr m.1)
    | _, _, _, _ => (st, "bad-op")
  | _ => (st, "bad-op")

end CC.Drv
