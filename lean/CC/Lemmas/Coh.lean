import CC.Lemmas.Lookup
/-! One step of the world, seen from the chain of one right; and the coherence invariants that
follow: the rights of the master key only mention identifiers already handed out, every chain has
strictly decreasing tokens, and the flavour of the newest secret of a right is the one its
attributes dictate (so `update_msk` never strips a post-quantum key). -/
namespace CC
open CC.Look

/-- how one operation can change the chain of a right (`old`, `new` = lookups before / after);
`n`, `n'` = the counter before / after; `om` = `omega` of the structure before -/
inductive ChainStep (om : List (Right × Bool × Bool)) (k : Right) (n n' : Rng) :
    Option (List (Bool × Sk)) → Option (List (Bool × Sk)) → Prop
  | same (o) : ChainStep om k n n' o o
  | gone (o) : ChainStep om k n n' o none
  | born (o) (t : Nat) (hyb ro : Bool) : o.bind List.head? = none → (k, hyb, ro) ∈ om → n ≤ t → t < n' →
      ChainStep om k n n' o (some [(true, ⟨t, hyb⟩)])
  | reflag (h0 : Bool × Sk) (tl : List (Bool × Sk)) (hyb ro : Bool) : (k, hyb, ro) ∈ om →
      ChainStep om k n n' (some (h0 :: tl)) (some ((!ro, if hyb = true then h0.2 else h0.2.dropHyb) :: tl))
  | grown (c news : List (Bool × Sk)) : (∀ v ∈ news, n ≤ v.2.tok ∧ v.2.tok < n') →
      (news.map (·.2.tok)).Pairwise (· > ·) →
      (∀ v ∈ news, ∀ h0, c.head? = some h0 → v.1 = h0.1 ∧ v.2.hyb = h0.2.hyb) →
      ChainStep om k n n' (some c) (some (news ++ c))
  | pruned (c : List (Bool × Sk)) : ChainStep om k n n' (some c) (some (c.take 1))

theorem step_chain (w : World) (op : Op) (k : Right) :
    ChainStep w.msk.structure_.omega k w.rng (w.step op).rng
      (w.msk.secrets.lookup k) ((w.step op).msk.secrets.lookup k) := by
  cases op with
  | edit e =>
    simp only [World.step]
    cases w.msk.structure_.apply e <;> exact .same _
  | update =>
    simp only [World.step]
    unfold updateMsk
    split
    · exact .same _
    · simp only
      rcases hu : updateLoop (w.msk.secrets.retain fun r => (w.msk.structure_.omega.lookup r).isSome) w.msk.structure_.omega w.rng with ⟨res, n'⟩
      cases res with
      | error e => exact .gone _
      | ok s =>
        simp only
        have hu' : (updateLoop (w.msk.secrets.retain fun r => (w.msk.structure_.omega.lookup r).isSome) w.msk.structure_.omega w.rng).1 = .ok s := by rw [hu]
        have hn' : (updateLoop (w.msk.secrets.retain fun r => (w.msk.structure_.omega.lookup r).isSome) w.msk.structure_.omega w.rng).2 = n' := by rw [hu]
        cases hl : w.msk.structure_.omega.lookup k with
        | none =>
          have hnot : k ∉ w.msk.structure_.omega.map (·.1) := lookup_eq_none_iff.1 hl
          rw [updateLoop_lookup_other _ _ _ _ hu' k hnot, RevMap.lookup_retain, hl]
          exact .gone _
        | some fl =>
          obtain ⟨hyb, ro⟩ := fl
          have hm := lookup_mem hl
          have hret : (w.msk.secrets.retain fun r => (w.msk.structure_.omega.lookup r).isSome).lookup k = w.msk.secrets.lookup k := by
            rw [RevMap.lookup_retain, hl]; rfl
          rcases updateLoop_lookup_mem _ _ _ _ (omega_keys_nodup _) hu' k hyb ro hm with ⟨h0, t, h1, h2⟩ | ⟨h1, t, h2, h3, h4⟩
          · rw [hret] at h1
            rw [h1, h2]
            exact .reflag h0 t hyb ro hm
          · rw [h4]
            unfold RevMap.getLatest at h1
            rw [hret] at h1
            rw [hn'] at h3
            exact .born _ t hyb ro h1 hm h2 h3
  | rekey p =>
    simp only [World.step]
    cases w.msk.structure_.uskRights p with
    | error _ => exact .same _
    | ok rights =>
      simp only
      unfold rekey
      split
      · exact .same _
      · simp only
        obtain ⟨news, e1, t1, p1, f1, _⟩ := rekeyLoop_lookup rights w.msk.secrets w.rng k
        rw [e1]
        cases hl : w.msk.secrets.lookup k with
        | none => exact .same _
        | some c =>
          simp only [Option.map_some]
          refine .grown c news t1 p1 ?_
          intro v hv h0 hh0
          exact f1 v hv h0 (by unfold RevMap.getLatest; rw [hl]; exact hh0)
  | prune p =>
    simp only [World.step]
    cases w.msk.structure_.uskRights p with
    | error _ => exact .same _
    | ok rights =>
      simp only
      rw [prune_lookup]
      by_cases hin : k ∈ rights
      · simp only [hin, if_true]
        cases w.msk.secrets.lookup k with
        | none => exact .same _
        | some c => simp only [Option.map_some, keepN_one_eq]; exact .pruned c
      · simp only [hin, if_false]; exact .same _
  | keygen p =>
    simp only [World.step]
    cases w.msk.structure_.uskRights p with
    | error _ => exact .same _
    | ok rights => simp only [uskKeygen_secrets]; exact .same _
  | refresh usk keep =>
    simp only [World.step, refresh_secrets]; exact .same _
  | draw j => exact .same _

end CC

namespace CC
open CC.Look

/-- some attribute of the structure carries the identifier `i` -/
def Struct.live (s : Struct) (i : Nat) : Prop := ∃ t ∈ s.all, t.2.2.id = i
/-- the attribute carrying `i` is hybridized -/
def Struct.hybId (s : Struct) (i : Nat) : Bool := s.all.any (fun t => t.2.2.id == i && t.2.2.hyb)

theorem Struct.hybId_of_mem {s : Struct} (hS : s.WF) {t : String × String × Attr} (ht : t ∈ s.all) :
    s.hybId t.2.2.id = t.2.2.hyb := by
  unfold Struct.hybId
  cases hh : t.2.2.hyb with
  | true =>
    rw [List.any_eq_true]
    exact ⟨t, ht, by simp [hh]⟩
  | false =>
    rw [List.any_eq_false]
    intro t' ht'
    simp only [Bool.and_eq_true, beq_iff_eq, not_and, Bool.not_eq_true]
    intro hid
    have := hS.ids t' ht' t ht hid
    rw [this]; exact hh

theorem any_perm {α} {l l' : List α} (h : l.Perm l') (f : α → Bool) : l.any f = l'.any f := by
  cases h1 : l.any f with
  | true =>
    obtain ⟨x, hx, hf⟩ := List.any_eq_true.1 h1
    exact (List.any_eq_true.2 ⟨x, h.mem_iff.1 hx, hf⟩).symm
  | false =>
    symm
    rw [List.any_eq_false] at h1 ⊢
    intro x hx
    exact h1 x (h.mem_iff.2 hx)

/-- every entry of `omega` names a point of live identifiers, all already handed out, and carries
the disjunction of their hints -/
theorem omega_spec {s : Struct} (hS : s.WF) (hb : s.IdsBelow) {r : Right} {h ro : Bool}
    (hm : (r, h, ro) ∈ s.omega) :
    ∃ ids, r = Right.fromPoint ids ∧ (∀ i ∈ ids, s.live i ∧ i < s.nextId) ∧ h = ids.any s.hybId := by
  obtain ⟨p, hp, rfl⟩ := mem_omega hm
  obtain ⟨as, hc, rfl, rfl, _⟩ := (mem_combine _ _ _ _).1 hp
  have hall : ∀ a ∈ as, ∃ dn n, (dn, n, a) ∈ s.all ∧ a.id < s.nextId := by
    intro a ha
    obtain ⟨d, hdm, n, hn⟩ := hc.mem ha
    obtain ⟨⟨dn, d'⟩, hdd, rfl⟩ := List.mem_map.1 hdm
    exact ⟨dn, n, mem_all hdd hn, hb _ hdd _ hn⟩
  refine ⟨as.map (·.id), rfl, ?_, ?_⟩
  · intro i hi
    obtain ⟨a, ha, rfl⟩ := List.mem_map.1 hi
    obtain ⟨dn, n, hmem, hlt⟩ := hall a ha
    exact ⟨⟨(dn, n, a), hmem, rfl⟩, hlt⟩
  · rw [List.any_map]
    have : ∀ (l : List Attr), (∀ a ∈ l, a ∈ as) → l.any (·.hyb) = l.any (s.hybId ∘ (·.id)) := by
      intro l
      induction l with
      | nil => intro _; rfl
      | cons a t ih =>
        intro hsub
        obtain ⟨dn, n, hmem, _⟩ := hall a (hsub a List.mem_cons_self)
        simp only [List.any_cons, Function.comp]
        rw [ih (fun x hx => hsub x (List.mem_cons_of_mem _ hx)), Struct.hybId_of_mem hS hmem]
    exact this as (fun a ha => ha)

end CC

namespace CC
open CC.Look

/-- after an edit, every attribute whose identifier was already handed out existed before the edit
with the same identifier and the same hint (edits never change the hint of an attribute, and a new
attribute receives a new identifier) -/
theorem Struct.apply_back {s s' : Struct} {e : Edit} (hS : s.WF) (h : s.apply e = .ok s')
    {t' : String × String × Attr} (ht' : t' ∈ s'.all) (hlt : t'.2.2.id < s.nextId) :
    ∃ t ∈ s.all, t.2.2.id = t'.2.2.id ∧ t.2.2.hyb = t'.2.2.hyb := by
  cases e with
  | addDim n o =>
    simp only [Struct.apply, Struct.addDimension] at h
    split at h
    · cases h
    · simp only [Except.ok.injEq] at h; subst h
      have : t' ∈ s.all := by
        simp only [Struct.all, List.flatMap_append, List.mem_append, List.flatMap_cons, List.map_nil,
          List.flatMap_nil, List.append_nil, List.not_mem_nil, or_false] at ht'
        exact ht'
      exact ⟨t', this, rfl, rfl⟩
  | delDim n =>
    simp only [Struct.apply, Struct.delDimension] at h
    split at h
    · simp only [Except.ok.injEq] at h; subst h
      obtain ⟨d, hd, hq⟩ := mem_all_iff.1 ht'
      exact ⟨t', mem_all_iff.2 ⟨d, mem_aerase hd, hq⟩, rfl, rfl⟩
    · cases h
  | addAttr dn n hy af =>
    simp only [Struct.apply, Struct.addAttribute] at h
    cases hdl : s.dims.lookup dn with
    | none => simp [hdl] at h
    | some d =>
      simp only [hdl] at h
      cases hf : d.addAttribute n hy af s.nextId with
      | error e => simp [hf] at h
      | ok d' =>
        simp only [hf, Except.ok.injEq] at h; subst h
        have hdS : (dn, d) ∈ s.dims := lookup_mem hdl
        obtain ⟨_, c2, _, _⟩ := Dim.addAttribute_spec hf (hS.names _ hdS)
        rcases mem_all_areplace ht' with ⟨o, _⟩ | ⟨e1, m1⟩
        · exact ⟨t', o, rfl, rfl⟩
        · rcases (c2 _).1 m1 with ho | hn
          · exact ⟨t', mem_all_iff.2 ⟨d, e1 ▸ hdS, ho⟩, rfl, rfl⟩
          · exfalso
            have : t'.2.2.id = s.nextId := by
              have := congrArg (fun q => q.2.id) hn; simpa using this
            rw [this] at hlt; exact Nat.lt_irrefl _ hlt
  | delAttr dn n =>
    simp only [Struct.apply, Struct.delAttribute] at h
    obtain ⟨d, d', hdl, hf, rfl⟩ := Struct.onDim_spec h
    have hdS : (dn, d) ∈ s.dims := lookup_mem hdl
    unfold Dim.removeAttribute at hf
    split at hf
    · simp only [Except.ok.injEq] at hf; subst hf
      rcases mem_all_areplace ht' with ⟨o, _⟩ | ⟨e1, m1⟩
      · exact ⟨t', o, rfl, rfl⟩
      · exact ⟨t', mem_all_iff.2 ⟨d, e1 ▸ hdS, mem_aerase m1⟩, rfl, rfl⟩
    · cases hf
  | rename dn o n =>
    simp only [Struct.apply, Struct.renameAttribute] at h
    obtain ⟨d, d', hdl, hf, rfl⟩ := Struct.onDim_spec h
    have hdS : (dn, d) ∈ s.dims := lookup_mem hdl
    have key : ∀ q ∈ d'.attrs, ∃ q0 ∈ d.attrs, q0.2 = q.2 := by
      intro q hq
      unfold Dim.renameAttribute at hf
      by_cases ho : d.ordered = true
      · simp only [ho, if_true] at hf
        cases hlo : d.attrs.lookup o with
        | none => simp [hlo] at hf
        | some a =>
          simp only [hlo] at hf
          split at hf
          · cases hf
          · simp only [Except.ok.injEq] at hf; subst hf
            obtain ⟨q0, hq0, rfl⟩ := List.mem_map.1 hq
            exact ⟨q0, hq0, by split <;> rfl⟩
      · simp only [ho, Bool.false_eq_true, if_false] at hf
        split at hf
        · cases hf
        · cases hlo : d.attrs.lookup o with
          | none => simp [hlo] at hf
          | some a =>
            simp only [hlo, Except.ok.injEq] at hf; subst hf
            rcases List.mem_append.1 hq with h1 | h1
            · exact ⟨q, mem_aerase h1, rfl⟩
            · simp at h1; subst h1; exact ⟨(o, a), lookup_mem hlo, rfl⟩
    rcases mem_all_areplace ht' with ⟨o', _⟩ | ⟨e1, m1⟩
    · exact ⟨t', o', rfl, rfl⟩
    · obtain ⟨q0, hq0, heq⟩ := key _ m1
      simp only at heq
      exact ⟨(dn, q0.1, q0.2), mem_all_iff.2 ⟨d, hdS, hq0⟩, by simp only; rw [heq], by simp only; rw [heq]⟩
  | disable dn n =>
    simp only [Struct.apply, Struct.disableAttribute] at h
    obtain ⟨d, d', hdl, hf, rfl⟩ := Struct.onDim_spec h
    have hdS : (dn, d) ∈ s.dims := lookup_mem hdl
    unfold Dim.disableAttribute at hf
    cases hl : d.attrs.lookup n with
    | none => simp [hl] at hf
    | some a =>
      simp only [hl, Except.ok.injEq] at hf; subst hf
      rcases mem_all_areplace ht' with ⟨o', _⟩ | ⟨e1, m1⟩
      · exact ⟨t', o', rfl, rfl⟩
      · rcases mem_areplace m1 with h1 | h1
        · exact ⟨t', mem_all_iff.2 ⟨d, e1 ▸ hdS, h1⟩, rfl, rfl⟩
        · have h2 : t'.2.2 = { a with ro := true } := by
            have := congrArg (fun q => q.2) h1; simpa using this
          refine ⟨(dn, n, a), mem_all hdS (lookup_mem hl), ?_, ?_⟩ <;> rw [h2]

/-- the hint attached to an identifier already handed out does not change along an edit, as long
as the identifier is still live -/
theorem Struct.hybId_stable {s s' : Struct} {e : Edit} (hS : s.WF) (hb : s.IdsBelow) (h : s.apply e = .ok s')
    {i : Nat} (hlt : i < s.nextId) (hl : s'.live i) : s.live i ∧ s'.hybId i = s.hybId i := by
  obtain ⟨t', ht', rfl⟩ := hl
  obtain ⟨t, ht, hid, hhy⟩ := Struct.apply_back hS h ht' hlt
  have hS' := Struct.apply_wf hS hb h
  refine ⟨⟨t, ht, hid⟩, ?_⟩
  rw [Struct.hybId_of_mem hS' ht', ← hid, Struct.hybId_of_mem hS ht, hhy]

end CC

namespace CC
open CC.Look

/-- coherence of the secrets with the structure -/
structure World.Coh (w : World) : Prop where
  /-- the rights of the master key only mention identifiers already handed out -/
  below : ∀ r c, w.msk.secrets.lookup r = some c →
    ∃ ids, r = Right.fromPoint ids ∧ ∀ i ∈ ids, i < w.msk.structure_.nextId
  /-- the newest secret of a right whose attributes are all live has the flavour they dictate -/
  hint : ∀ r c, w.msk.secrets.lookup r = some c → ∀ ids, r = Right.fromPoint ids →
    (∀ i ∈ ids, w.msk.structure_.live i) → ∀ v, c.head? = some v → v.2.hyb = ids.any w.msk.structure_.hybId
  /-- tokens strictly decrease along every chain (newest first) -/
  sorted : ∀ r c, w.msk.secrets.lookup r = some c → (c.map (·.2.tok)).Pairwise (· > ·)

theorem step_structure (w : World) (op : Op) (h : ∀ e, op ≠ .edit e) :
    (w.step op).msk.structure_ = w.msk.structure_ := by
  cases op with
  | edit e => exact absurd rfl (h e)
  | update => simp only [World.step, updateMsk_structure]
  | rekey p =>
    simp only [World.step]
    cases w.msk.structure_.uskRights p with
    | error _ => rfl
    | ok rights => simp only [rekey_structure]
  | prune p =>
    simp only [World.step]
    cases w.msk.structure_.uskRights p with
    | error _ => rfl
    | ok rights => rfl
  | keygen p =>
    simp only [World.step]
    cases w.msk.structure_.uskRights p with
    | error _ => rfl
    | ok rights => simp only [uskKeygen_structure]
  | refresh usk keep => simp only [World.step, refresh_structure]
  | draw k => rfl

theorem any_congr_mem {α} {l : List α} {f g : α → Bool} (h : ∀ x ∈ l, f x = g x) : l.any f = l.any g := by
  induction l with
  | nil => rfl
  | cons a t ih =>
    simp only [List.any_cons]
    rw [h a List.mem_cons_self, ih (fun x hx => h x (List.mem_cons_of_mem _ hx))]

theorem step_coh (w : World) (op : Op) (hc : w.Coh) (hinv : w.msk.Inv w.rng)
    (hS : w.msk.structure_.WF ∧ w.msk.structure_.IdsBelow) (hne : w.msk.secrets.NonEmpty) :
    (w.step op).Coh := by
  by_cases hed : ∃ e, op = .edit e
  · obtain ⟨e, rfl⟩ := hed
    simp only [World.step]
    cases ha : w.msk.structure_.apply e with
    | error _ => exact hc
    | ok s' =>
      have hmono := (Struct.apply_idsBelow ha hS.2).2
      refine ⟨?_, ?_, hc.sorted⟩
      · intro r c hl
        obtain ⟨ids, h1, h2⟩ := hc.below r c hl
        exact ⟨ids, h1, fun i hi => Nat.lt_of_lt_of_le (h2 i hi) hmono⟩
      · intro r c hl ids hr hlive v hv
        simp only at hlive ⊢
        obtain ⟨ids0, h1, h2⟩ := hc.below r c hl
        have hperm : ids.Perm ids0 := (Right.fromPoint_eq_iff _ _).1 (hr ▸ h1)
        have hlt : ∀ i ∈ ids, i < w.msk.structure_.nextId := fun i hi => h2 i (hperm.mem_iff.1 hi)
        have hst := fun i hi => Struct.hybId_stable hS.1 hS.2 ha (hlt i hi) (hlive i hi)
        rw [hc.hint r c hl ids hr (fun i hi => (hst i hi).1) v hv]
        exact any_congr_mem (fun i hi => (hst i hi).2.symm)
  · have hne' : ∀ e, op ≠ .edit e := fun e h => hed ⟨e, h⟩
    have hst := step_structure w op hne'
    have key : ∀ k c, (w.step op).msk.secrets.lookup k = some c →
        (∃ ids, k = Right.fromPoint ids ∧ ∀ i ∈ ids, i < w.msk.structure_.nextId) ∧
        (∀ ids, k = Right.fromPoint ids → (∀ i ∈ ids, w.msk.structure_.live i) → ∀ v, c.head? = some v →
          v.2.hyb = ids.any w.msk.structure_.hybId) ∧
        (c.map (·.2.tok)).Pairwise (· > ·) := by
      intro k c hl
      have hcs := step_chain w op k
      rw [hl] at hcs
      generalize ho : w.msk.secrets.lookup k = old at hcs
      cases hcs with
      | same => exact ⟨hc.below k c ho, hc.hint k c ho, hc.sorted k c ho⟩
      | born _ t hyb ro hnone hom h1 h2 =>
        obtain ⟨ids0, e0, l0, a0⟩ := omega_spec hS.1 hS.2 hom
        refine ⟨⟨ids0, e0, fun i hi => (l0 i hi).2⟩, ?_, by simp⟩
        intro ids hr _ v hv
        simp only [List.head?_cons, Option.some.injEq] at hv
        subst hv
        simp only
        rw [a0]
        exact any_perm ((Right.fromPoint_eq_iff _ _).1 (e0 ▸ hr)) _
      | reflag h0 tl hyb ro hom =>
        obtain ⟨ids0, e0, l0, a0⟩ := omega_spec hS.1 hS.2 hom
        have hold := hc.hint k (h0 :: tl) ho ids0 e0 (fun i hi => (l0 i hi).1) h0 rfl
        refine ⟨hc.below k _ ho, ?_, ?_⟩
        · intro ids hr _ v hv
          simp only [List.head?_cons, Option.some.injEq] at hv
          subst hv
          simp only
          have hp : ids0.any w.msk.structure_.hybId = ids.any w.msk.structure_.hybId :=
            any_perm ((Right.fromPoint_eq_iff _ _).1 (e0 ▸ hr)) _
          rw [← hp, ← a0]
          cases hyb with
          | true => simp only [if_true]; rw [hold, ← a0]
          | false => simp [Sk.dropHyb]
        · have := hc.sorted k _ ho
          have htok : (if hyb = true then h0.2 else h0.2.dropHyb).tok = h0.2.tok := by
            split <;> simp [Sk.dropHyb]
          simpa [List.map_cons, htok] using this
      | grown c0 news t1 p1 f1 =>
        have hc0 := hne k c0 (lookup_mem ho)
        refine ⟨hc.below k _ ho, ?_, ?_⟩
        · intro ids hr hlive v hv
          cases news with
          | nil => exact hc.hint k c0 ho ids hr hlive v (by simpa using hv)
          | cons a rest =>
            simp only [List.cons_append, List.head?_cons, Option.some.injEq] at hv
            subst hv
            cases c0 with
            | nil => exact absurd rfl hc0
            | cons h0 tl =>
              rw [(f1 a List.mem_cons_self h0 rfl).2]
              exact hc.hint k (h0 :: tl) ho ids hr hlive h0 rfl
        · rw [List.map_append, List.pairwise_append]
          refine ⟨p1, hc.sorted k c0 ho, ?_⟩
          intro a ha b hb
          obtain ⟨v, hv, rfl⟩ := List.mem_map.1 ha
          obtain ⟨u, hu, rfl⟩ := List.mem_map.1 hb
          exact Nat.lt_of_lt_of_le (hinv.below k c0 (lookup_mem ho) u hu) (t1 v hv).1
      | pruned c0 =>
        refine ⟨hc.below k _ ho, ?_, ?_⟩
        · intro ids hr hlive v hv
          cases c0 with
          | nil => simp at hv
          | cons h0 tl =>
            simp only [List.take_succ_cons, List.take_zero, List.head?_cons, Option.some.injEq] at hv
            exact hc.hint k (h0 :: tl) ho ids hr hlive v (by simpa using hv)
        · exact ((hc.sorted k c0 ho).sublist ((List.take_sublist 1 c0).map _))
    refine ⟨?_, ?_, ?_⟩
    · intro r c hl; rw [hst]; exact (key r c hl).1
    · intro r c hl; rw [hst]; exact (key r c hl).2.1
    · intro r c hl; exact (key r c hl).2.2

end CC

namespace CC
open CC.Look

/-- **every reachable world is coherent** -/
theorem reachable_coh (w : World) (h : Reachable w) : w.Coh := by
  obtain ⟨n, k, ops, rfl⟩ := h
  have hstep : ∀ (ops : List Op) (w0 : World), Reachable w0 → w0.Coh → (ops.foldl World.step w0).Coh := by
    intro ops
    induction ops with
    | nil => intro w0 _ h0; exact h0
    | cons op rest ih =>
      intro w0 hr h0
      have hr' : Reachable (w0.step op) := by
        obtain ⟨n0, k0, ops0, rfl⟩ := hr
        exact ⟨n0, k0, ops0 ++ [op], by simp [List.foldl_append]⟩
      exact ih _ hr' (step_coh w0 op h0 (reachable_inv w0 hr) (reachable_struct_wf w0 hr) (reachable_nonEmpty w0 hr))
  apply hstep ops _ ⟨n, k, [], rfl⟩
  -- the initial world: `setup` followed by `update_msk` on the empty structure
  have h0 : (⟨(setup n k).1, (setup n k).2⟩ : World).Coh := by
    refine ⟨?_, ?_, ?_⟩ <;> intro r c hl <;> simp [setup] at hl
  have hinv0 : (⟨(setup n k).1, (setup n k).2⟩ : World).msk.Inv (setup n k).2 := setup_inv n k
  have hne0 : (setup n k).1.secrets.NonEmpty := by intro r c hm; simp [setup] at hm
  have := step_coh ⟨(setup n k).1, (setup n k).2⟩ .update h0 hinv0 (by simp only [setup]; exact empty_wf) hne0
  exact this

end CC
