import CC.Model.Structure
/-! `combine`: the points are exactly the choices of at most one attribute per dimension. -/
namespace CC

/-- at most one attribute per dimension, in dimension order -/
inductive Choice : List Dim → List Attr → Prop
  | nil : Choice [] []
  | skip {d ds as} : Choice ds as → Choice (d :: ds) as
  | take {d ds as n a} : (n, a) ∈ d.attrs → Choice ds as → Choice (d :: ds) (a :: as)

theorem mem_combine (ds : List Dim) (p : List Nat) (h r : Bool) :
    (p, h, r) ∈ combine ds ↔
      ∃ as, Choice ds as ∧ p = as.map (·.id) ∧ h = as.any (·.hyb) ∧ r = as.any (·.ro) := by
  induction ds generalizing p h r with
  | nil =>
    simp only [combine, List.mem_singleton, Prod.mk.injEq]
    constructor
    · rintro ⟨rfl, rfl, rfl⟩; exact ⟨[], .nil, rfl, rfl, rfl⟩
    · rintro ⟨as, hc, rfl, rfl, rfl⟩; cases hc; simp
  | cons d ds ih =>
    simp only [combine, List.mem_append, List.mem_flatMap, List.mem_map]
    constructor
    · rintro (hm | ⟨⟨n, a⟩, had, ⟨ids, h', r'⟩, hm, heq⟩)
      · obtain ⟨as, hc, rfl, rfl, rfl⟩ := (ih _ _ _).1 hm
        exact ⟨as, .skip hc, rfl, rfl, rfl⟩
      · obtain ⟨as, hc, rfl, rfl, rfl⟩ := (ih _ _ _).1 hm
        simp only [Prod.mk.injEq] at heq
        obtain ⟨rfl, rfl, rfl⟩ := heq
        refine ⟨a :: as, .take had hc, rfl, ?_, ?_⟩ <;> simp [Bool.or_comm]
    · rintro ⟨as, hc, rfl, rfl, rfl⟩
      cases hc with
      | skip hc => exact Or.inl ((ih _ _ _).2 ⟨_, hc, rfl, rfl, rfl⟩)
      | take had hc =>
        rename_i as' n a
        refine Or.inr ⟨(n, a), had, (as'.map (·.id), as'.any (·.hyb), as'.any (·.ro)), (ih _ _ _).2 ⟨_, hc, rfl, rfl, rfl⟩, ?_⟩
        simp [Bool.or_comm]

theorem mem_combine_ids (ds : List Dim) (p : List Nat) :
    p ∈ (combine ds).map (·.1) ↔ ∃ as, Choice ds as ∧ p = as.map (·.id) := by
  simp only [List.mem_map]
  constructor
  · rintro ⟨⟨p', h, r⟩, hm, rfl⟩
    obtain ⟨as, hc, hp, _, _⟩ := (mem_combine ds p' h r).1 hm
    exact ⟨as, hc, hp⟩
  · rintro ⟨as, hc, rfl⟩
    exact ⟨(_, _, _), (mem_combine ds _ _ _).2 ⟨as, hc, rfl, rfl, rfl⟩, rfl⟩

theorem Choice.append {d1 d2 : List Dim} {a1 a2 : List Attr}
    (h1 : Choice d1 a1) (h2 : Choice d2 a2) : Choice (d1 ++ d2) (a1 ++ a2) := by
  induction h1 with
  | nil => simpa using h2
  | skip _ ih => exact .skip ih
  | take hm _ ih => exact .take hm ih

theorem Choice.split {d1 d2 : List Dim} {as : List Attr} (h : Choice (d1 ++ d2) as) :
    ∃ a1 a2, as = a1 ++ a2 ∧ Choice d1 a1 ∧ Choice d2 a2 := by
  induction d1 generalizing as with
  | nil => exact ⟨[], as, rfl, .nil, by simpa using h⟩
  | cons d ds ih =>
    cases h with
    | skip h =>
      obtain ⟨a1, a2, rfl, h1, h2⟩ := ih h
      exact ⟨a1, a2, rfl, .skip h1, h2⟩
    | take hm h =>
      obtain ⟨a1, a2, rfl, h1, h2⟩ := ih h
      exact ⟨_ :: a1, a2, rfl, .take hm h1, h2⟩

/-- every chosen attribute comes from one of the dimensions -/
theorem Choice.mem {ds : List Dim} {as : List Attr} (h : Choice ds as) {a : Attr} (ha : a ∈ as) :
    ∃ d ∈ ds, ∃ n, (n, a) ∈ d.attrs := by
  induction h with
  | nil => cases ha
  | skip _ ih =>
    obtain ⟨d, hd, n, hn⟩ := ih ha
    exact ⟨d, List.mem_cons_of_mem _ hd, n, hn⟩
  | take hm _ ih =>
    rcases List.mem_cons.1 ha with rfl | ha
    · exact ⟨_, List.mem_cons_self, _, hm⟩
    · obtain ⟨d, hd, n, hn⟩ := ih ha
      exact ⟨d, List.mem_cons_of_mem _ hd, n, hn⟩

end CC
