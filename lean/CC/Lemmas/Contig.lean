import CC.Lemmas.Coh
import CC.Lemmas.Refresh
/-! Contiguity of user chains inside master chains: the invariant behind "a key refreshed with
`keep old secrets` still opens what it could open before". -/
namespace CC
open CC.Look

/-- the user chain `u` sits inside the master chain `m`: the part of `u` the master key still
holds (`b`) is a contiguous segment of `m`, and it is the front of `u`; what follows in `u` (`d`)
is unknown to the master key (pruned since) -/
def Compat (m u : List Sk) : Prop :=
  ∃ a b e d, m = a ++ b ++ e ∧ u = b ++ d ∧ ∀ x ∈ d, x ∉ m

theorem Compat.of_prefix {m u : List Sk} (h : u <+: m) : Compat m u := by
  obtain ⟨e, rfl⟩ := h
  exact ⟨[], u, e, [], by simp, by simp, by simp⟩

theorem Compat.of_disjoint {m u : List Sk} (h : ∀ x ∈ u, x ∉ m) : Compat m u :=
  ⟨m, [], [], u, by simp, by simp, h⟩

theorem Compat.cons_fresh {m u : List Sk} (h : Compat m u) {x : Sk} (hx : x ∉ u) : Compat (x :: m) u := by
  obtain ⟨a, b, e, d, rfl, rfl, hd⟩ := h
  refine ⟨x :: a, b, e, d, by simp, rfl, ?_⟩
  intro y hy
  simp only [List.mem_cons, not_or]
  exact ⟨fun hyx => hx (hyx ▸ List.mem_append_right _ hy), hd y hy⟩

theorem Compat.append_fresh {m u : List Sk} (h : Compat m u) : ∀ (news : List Sk), (∀ x ∈ news, x ∉ u) →
    Compat (news ++ m) u
  | [], _ => by simpa using h
  | x :: rest, hx => by
    have := Compat.append_fresh h rest (fun y hy => hx y (List.mem_cons_of_mem _ hy))
    exact this.cons_fresh (hx x List.mem_cons_self)

theorem Compat.take_one {m u : List Sk} (hnd : m.Nodup) (h : Compat m u) : Compat (m.take 1) u := by
  obtain ⟨a, b, e, d, rfl, rfl, hd⟩ := h
  cases a with
  | cons a0 at' =>
    -- the master key keeps `a0` only: nothing of `u` is left in it
    simp only [List.cons_append, List.take_succ_cons, List.take_zero]
    apply Compat.of_disjoint
    intro x hx
    simp only [List.mem_singleton]
    intro hxa
    subst hxa
    rcases List.mem_append.1 hx with hb | hdm
    · simp only [List.cons_append, List.nodup_cons, List.mem_append, not_or] at hnd
      exact hnd.1.1.2 hb
    · exact hd x hdm (by simp)
  | nil =>
    cases b with
    | nil =>
      simp only [List.nil_append]
      apply Compat.of_disjoint
      intro x hx hxm
      exact hd x (by simpa using hx) (by simpa using (List.take_subset 1 e hxm))
    | cons b0 bt =>
      simp only [List.nil_append, List.cons_append, List.take_succ_cons, List.take_zero]
      refine ⟨[], [b0], [], bt ++ d, by simp, by simp, ?_⟩
      intro x hx
      simp only [List.mem_singleton]
      intro hxb
      subst hxb
      rcases List.mem_append.1 hx with hb | hdm
      · simp only [List.nil_append, List.cons_append, List.nodup_cons, List.mem_append, not_or] at hnd
        exact hnd.1.1 hb
      · exact hd x hdm (by simp)

theorem commonPrefix_append_left (l d e : List Sk) : ∃ t, commonPrefix (l ++ d) (l ++ e) = l ++ t := by
  induction l with
  | nil => exact ⟨commonPrefix d e, rfl⟩
  | cons x xs ih =>
    obtain ⟨t, ht⟩ := ih
    exact ⟨t, by simp [commonPrefix, ht]⟩

/-- **a chain refreshed with `keep` loses nothing the master key still holds** -/
theorem refreshChain_keeps {m u : List Sk} (hnd : m.Nodup) (h : Compat m u) :
    ∀ s ∈ u, s ∈ m → ∃ c, refreshChain m u = some c ∧ s ∈ c := by
  obtain ⟨a, b, e, d, rfl, rfl, hd⟩ := h
  intro s hs hsm
  have hsb : s ∈ b := by
    rcases List.mem_append.1 hs with h1 | h1
    · exact h1
    · exact absurd hsm (hd s h1)
  cases b with
  | nil => cases hsb
  | cons b0 bt =>
    have hb0 : b0 ∉ a := by
      intro hin
      have : ¬ (a ++ (b0 :: bt) ++ e).Nodup := by
        intro hn
        rw [List.append_assoc, List.nodup_append] at hn
        exact hn.2.2 b0 hin b0 (by simp) rfl
      exact this hnd
    have hspan : spanUntil b0 (a ++ (b0 :: bt) ++ e) = (a, some (bt ++ e)) := by
      have := spanUntil_append b0 a (bt ++ e) hb0
      simpa [List.append_assoc] using this
    obtain ⟨t, ht⟩ := commonPrefix_append_left bt d e
    refine ⟨a ++ b0 :: (bt ++ t), ?_, ?_⟩
    · unfold refreshChain
      simp only [List.cons_append, hspan, ht]
    · simp only [List.mem_append, List.mem_cons]
      rcases List.mem_cons.1 hsb with h1 | h1
      · exact Or.inr (Or.inl h1)
      · exact Or.inr (Or.inr (Or.inl h1))

/-- the output of a chain refresh is a prefix of the master chain -/
theorem refreshChain_prefix (m u c : List Sk) (h : refreshChain m u = some c) : c <+: m := by
  unfold refreshChain at h
  cases u with
  | nil => simp at h
  | cons first rest =>
    simp only at h
    rcases spanUntil_spec first m with ⟨a, b, hsp, hm, _⟩ | ⟨hsp, _⟩
    · rw [hsp] at h
      simp only [Option.some.injEq] at h
      subst h
      rw [hm]
      have : ∀ (x y : List Sk), commonPrefix x y <+: y := by
        intro x
        induction x with
        | nil => intro y; simp [commonPrefix]
        | cons p ps ih =>
          intro y
          cases y with
          | nil => simp [commonPrefix]
          | cons q qs =>
            simp only [commonPrefix]
            split
            · rename_i hqp
              obtain ⟨t, ht⟩ := ih qs
              exact ⟨t, by rw [List.cons_append, ht]⟩
            · exact List.nil_prefix
      obtain ⟨t, ht⟩ := this rest b
      exact ⟨t, by rw [List.append_assoc, List.cons_append, ht]⟩
    · rw [hsp] at h
      simp only [Option.some.injEq] at h
      subst h
      exact List.prefix_refl _

end CC

namespace CC
open CC.Look

theorem step_rng_mono (w : World) (op : Op) (hinv : w.msk.Inv w.rng) : w.rng ≤ (w.step op).rng := by
  cases op with
  | edit e =>
    simp only [World.step]
    cases w.msk.structure_.apply e <;> exact Nat.le_refl _
  | update => exact (updateMsk_inv w.msk _ w.rng hinv).2
  | rekey p =>
    simp only [World.step]
    cases w.msk.structure_.uskRights p with
    | error _ => exact Nat.le_refl _
    | ok rights => exact (rekey_inv w.msk rights w.rng hinv).2
  | prune p =>
    simp only [World.step]
    cases w.msk.structure_.uskRights p <;> exact Nat.le_refl _
  | keygen p =>
    simp only [World.step]
    cases w.msk.structure_.uskRights p with
    | error _ => exact Nat.le_refl _
    | ok rights => exact (uskKeygen_inv w.msk rights w.rng hinv).2
  | refresh usk keep => exact (refresh_inv w.msk usk keep w.rng hinv).2
  | draw k => exact Nat.le_add_right _ _

/-- in a coherent world `update_msk` does not alter the newest secret of an existing right -/
theorem reflag_noop {w : World} (hc : w.Coh) (hS : w.msk.structure_.WF ∧ w.msk.structure_.IdsBelow)
    {k : Right} {h0 : Bool × Sk} {tl : List (Bool × Sk)} {hyb ro : Bool}
    (hl : w.msk.secrets.lookup k = some (h0 :: tl)) (hom : (k, hyb, ro) ∈ w.msk.structure_.omega) :
    (if hyb = true then h0.2 else h0.2.dropHyb) = h0.2 := by
  obtain ⟨ids0, e0, l0, a0⟩ := omega_spec hS.1 hS.2 hom
  have hold := hc.hint k (h0 :: tl) hl ids0 e0 (fun i hi => (l0 i hi).1) h0 rfl
  cases hyb with
  | true => rfl
  | false =>
    simp only [Bool.false_eq_true, if_false]
    have : h0.2.hyb = false := by rw [hold, ← a0]
    cases hsk : h0.2 with
    | mk tok hy =>
      rw [hsk] at this
      simp only at this
      subst this
      rfl

theorem sorted_nodup {c : List (Bool × Sk)} (h : (c.map (·.2.tok)).Pairwise (· > ·)) : (c.map (·.2)).Nodup := by
  rw [List.pairwise_map] at h
  unfold List.Nodup
  rw [List.pairwise_map]
  exact h.imp (fun {a b} hab heq => by rw [heq] at hab; exact Nat.lt_irrefl _ hab)

/-- **an operation never alters an existing secret of a right**: it removes the right, puts newer
secrets in front, keeps only the newest, or leaves the chain as it is (flags aside) -/
theorem step_secrets (w : World) (hr : Reachable w) (op : Op) (k : Right) (c : List (Bool × Sk))
    (hl : w.msk.secrets.lookup k = some c) :
    (w.step op).msk.secrets.lookup k = none ∨
    ∃ c', (w.step op).msk.secrets.lookup k = some c' ∧
      ((∃ news : List Sk, c'.map (·.2) = news ++ c.map (·.2) ∧ ∀ x ∈ news, w.rng ≤ x.tok) ∨
       c'.map (·.2) = (c.map (·.2)).take 1) := by
  have hcs := step_chain w op k
  rw [hl] at hcs
  have hc := reachable_coh w hr
  have hS := reachable_struct_wf w hr
  have hne := reachable_nonEmpty w hr
  generalize hn : (w.step op).msk.secrets.lookup k = new at hcs
  cases hcs with
  | same => exact Or.inr ⟨c, rfl, Or.inl ⟨[], by simp, by simp⟩⟩
  | gone => exact Or.inl rfl
  | born _ t hyb ro hnone =>
    exfalso
    have := hne k c (lookup_mem hl)
    cases c with
    | nil => exact this rfl
    | cons a b => simp at hnone
  | reflag h0 tl hyb ro hom =>
    refine Or.inr ⟨_, rfl, Or.inl ⟨[], ?_, by simp⟩⟩
    simp only [List.map_cons, List.nil_append]
    rw [reflag_noop hc hS hl hom]
  | grown c0 news t1 p1 f1 =>
    refine Or.inr ⟨_, rfl, Or.inl ⟨news.map (·.2), by simp, ?_⟩⟩
    intro x hx
    obtain ⟨v, hv, rfl⟩ := List.mem_map.1 hx
    exact (t1 v hv).1
  | pruned c0 =>
    exact Or.inr ⟨_, rfl, Or.inr (by simp [List.map_take])⟩

/-- every chain of the user key sits inside the master key's chain of the same right (when the
master key still has that right), and all its tokens were drawn already -/
def Tracks (w : World) (usk : Usk) : Prop :=
  ∀ r u, (r, u) ∈ usk.secrets → (∀ k ∈ u, k.tok < w.rng) ∧
    ∀ mc, w.msk.secrets.lookup r = some mc → Compat (mc.map (·.2)) u

/-- **the relation survives every operation** (on the master key; the user key is not touched) -/
theorem step_tracks (w : World) (hr : Reachable w) (op : Op) (usk : Usk) (h : Tracks w usk) :
    Tracks (w.step op) usk := by
  have hinv := reachable_inv w hr
  have hmono := step_rng_mono w op hinv
  have hc := reachable_coh w hr
  intro r u hm
  obtain ⟨hb, hcm⟩ := h r u hm
  refine ⟨fun k hk => Nat.lt_of_lt_of_le (hb k hk) hmono, ?_⟩
  intro mc' hl'
  cases hl : w.msk.secrets.lookup r with
  | none =>
    -- the right was not in the master key: it has just been (re)created with one fresh secret
    have hcs := step_chain w op r
    rw [hl, hl'] at hcs
    cases hcs with
    | born _ t hyb ro _ _ h1 _ =>
      apply Compat.of_disjoint
      intro x hx
      simp only [List.map_cons, List.map_nil, List.mem_singleton]
      intro hxe
      have := hb x hx
      rw [hxe] at this
      exact Nat.lt_irrefl _ (Nat.lt_of_lt_of_le this h1)
  | some mc =>
    have hcomp := hcm mc hl
    rcases step_secrets w hr op r mc hl with hnone | ⟨c', hc', hgrow | hprune⟩
    · rw [hnone] at hl'; cases hl'
    · rw [hc'] at hl'
      simp only [Option.some.injEq] at hl'; subst hl'
      obtain ⟨news, hn, hfresh⟩ := hgrow
      rw [hn]
      apply hcomp.append_fresh
      intro x hx hxu
      exact Nat.lt_irrefl _ (Nat.lt_of_lt_of_le (hb x hxu) (hfresh x hx))
    · rw [hc'] at hl'
      simp only [Option.some.injEq] at hl'; subst hl'
      rw [hprune]
      exact hcomp.take_one (sorted_nodup (hc.sorted r mc hl))

theorem steps_tracks (ops : List Op) : ∀ (w : World), Reachable w → ∀ usk, Tracks w usk →
    Tracks (ops.foldl World.step w) usk := by
  induction ops with
  | nil => intro w _ usk h; exact h
  | cons op rest ih =>
    intro w hr usk h
    have hr' : Reachable (w.step op) := by
      obtain ⟨n0, k0, ops0, rfl⟩ := hr
      exact ⟨n0, k0, ops0 ++ [op], by simp [List.foldl_append]⟩
    exact ih _ hr' usk (step_tracks w hr op usk h)

end CC

namespace CC
open CC.Look

/-- shape of a successful refresh with `keep`: same authority and tracing shape; for keys of the
master key's tracing level the same identifier; the chains are the refreshed chains -/
theorem refresh_keep_shape (msk : Msk) (usk : Usk) (n : Rng) (h : (refresh msk usk true n).1 = .ok ())
    (hlen : usk.id.length = msk.ntracers) :
    (refresh msk usk true n).2.2.1.auth = usk.auth ∧ (refresh msk usk true n).2.2.1.nps = usk.nps ∧
    (refresh msk usk true n).2.2.1.id = usk.id ∧
    (refresh msk usk true n).2.2.1.secrets = refreshCoordinateKeys msk usk.secrets := by
  unfold refresh at h ⊢
  by_cases hv : verify msk usk = true
  · simp only [hv, Bool.not_true, Bool.false_eq_true, if_false] at h ⊢
    have hm := refreshId_msk_eq msk usk.id n hlen
    unfold refreshId at h hm ⊢
    by_cases hk : usk.id ∈ msk.users
    · simp only [hk, not_true_eq_false, if_false, hlen, ne_eq, if_true] at h hm ⊢
      simp
    · simp [hk] at h
  · simp [hv] at h

/-- **a key refreshed with `keep old secrets` still holds every secret it held that the master key
still holds** -/
theorem tracks_refresh_keeps (w : World) (hr : Reachable w) (usk : Usk) (ht : Tracks w usk)
    (hlen : usk.id.length = w.msk.ntracers) (hok : (refresh w.msk usk true w.rng).1 = .ok ()) :
    ∀ r u, (r, u) ∈ usk.secrets → ∀ mc, w.msk.secrets.lookup r = some mc →
      ∀ s ∈ u, s ∈ mc.map (·.2) → ∃ c', (r, c') ∈ (refresh w.msk usk true w.rng).2.2.1.secrets ∧ s ∈ c' := by
  intro r u hm mc hl s hs hsm
  have hc := reachable_coh w hr
  obtain ⟨c, hrc, hsc⟩ := refreshChain_keeps (sorted_nodup (hc.sorted r mc hl)) ((ht r u hm).2 mc hl) s hs hsm
  refine ⟨c, ?_, hsc⟩
  rw [(refresh_keep_shape w.msk usk w.rng hok hlen).2.2.2]
  unfold refreshCoordinateKeys
  simp only [List.mem_filterMap]
  exact ⟨(r, u), hm, by simp [RevMap.get, hl, hrc]⟩

/-- a key just generated tracks the master key -/
theorem keygen_tracks (w : World) (hr : Reachable w) (p : AP) (rights : List Right)
    (hrights : w.msk.structure_.uskRights p = .ok rights) (usk : Usk)
    (hk : (uskKeygen w.msk rights w.rng).1 = .ok usk) : Tracks (w.step (.keygen p)) usk := by
  have hinv := reachable_inv w hr
  have hstep : (w.step (.keygen p)).msk.secrets = w.msk.secrets := by
    simp only [World.step, hrights, uskKeygen_secrets]
  have hmono := step_rng_mono w (.keygen p) hinv
  -- the chains of the new key are the singletons of the newest secrets
  have hsec : ∀ r u, (r, u) ∈ usk.secrets → ∃ act sk, w.msk.secrets.getLatest r = some (act, sk) ∧ u = [sk] := by
    unfold uskKeygen at hk
    cases hl : latestRightSks w.msk rights with
    | error e => simp [hl] at hk
    | ok chains =>
      simp only [hl] at hk
      by_cases hnt : w.msk.ntracers = 0
      · simp [generateUserId, hnt] at hk
      · simp only [generateUserId, hnt, if_false, Except.ok.injEq] at hk
        subst hk
        intro r u hm
        exact ((latestRightSks_mem w.msk rights chains hl r u).1 hm).2
  intro r u hm
  obtain ⟨act, sk, hg, rfl⟩ := hsec r u hm
  unfold RevMap.getLatest at hg
  cases hl : w.msk.secrets.lookup r with
  | none => simp [hl] at hg
  | some mc =>
    cases mc with
    | nil => simp [hl] at hg
    | cons h0 tl =>
      simp only [hl, Option.bind_some, List.head?_cons, Option.some.injEq] at hg
      subst hg
      refine ⟨?_, ?_⟩
      · intro k hk
        simp only [List.mem_singleton] at hk; subst hk
        exact Nat.lt_of_lt_of_le (hinv.below r _ (lookup_mem hl) _ List.mem_cons_self) hmono
      · intro mc' hl'
        rw [hstep, hl] at hl'
        simp only [Option.some.injEq] at hl'; subst hl'
        exact Compat.of_prefix ⟨tl.map (·.2), by simp⟩

/-- a key just refreshed (with either flag) tracks the master key: every chain it holds is a prefix
of the master key's chain of that right -/
theorem refresh_tracks (w : World) (hr : Reachable w) (usk : Usk) (keep : Bool)
    (hok : (refresh w.msk usk keep w.rng).1 = .ok ()) :
    Tracks (w.step (.refresh usk keep)) (refresh w.msk usk keep w.rng).2.2.1 := by
  have hinv := reachable_inv w hr
  have hmono := step_rng_mono w (.refresh usk keep) hinv
  have hstep : (w.step (.refresh usk keep)).msk.secrets = w.msk.secrets := by
    simp only [World.step, refresh_secrets]
  have key : ∀ r c, (r, c) ∈ (refresh w.msk usk keep w.rng).2.2.1.secrets →
      ∃ mc, w.msk.secrets.lookup r = some mc ∧ c <+: mc.map (·.2) := by
    unfold refresh at hok ⊢
    by_cases hv : verify w.msk usk = true
    · simp only [hv, Bool.not_true, Bool.false_eq_true, if_false] at hok ⊢
      have hs := refreshId_secrets w.msk usk.id w.rng
      rcases hid : refreshId w.msk usk.id w.rng with ⟨res, msk', n'⟩
      rw [hid] at hs hok
      simp only at hs
      have hsec : msk'.secrets = w.msk.secrets := hs.1
      cases res with
      | error e => simp at hok
      | ok nid =>
        simp only at hok ⊢
        cases keep with
        | true =>
          simp only [if_true]
          intro r c hm
          unfold refreshCoordinateKeys at hm
          simp only [List.mem_filterMap] at hm
          obtain ⟨⟨r', u⟩, hu, hmm⟩ := hm
          simp only at hmm
          unfold RevMap.get at hmm
          rw [hsec] at hmm
          cases hg : w.msk.secrets.lookup r' with
          | none => simp [hg] at hmm
          | some mchain =>
            simp only [hg, Option.map_eq_some_iff] at hmm
            obtain ⟨c', hc', heq⟩ := hmm
            simp only [Prod.mk.injEq] at heq
            obtain ⟨rfl, rfl⟩ := heq
            exact ⟨mchain, hg, refreshChain_prefix _ _ _ hc'⟩
        | false =>
          simp only [Bool.false_eq_true, if_false] at hok ⊢
          cases hl : latestRightSks msk' ((usk.secrets.map (·.1)).filter (fun r => msk'.secrets.containsKey r)) with
          | error e => simp [hl] at hok
          | ok nr =>
            simp only
            intro r c hm
            obtain ⟨_, act, sk, hlat, hceq⟩ := (latestRightSks_mem msk' _ nr hl r c).1 hm
            subst hceq
            rw [hsec] at hlat
            unfold RevMap.getLatest at hlat
            cases hg : w.msk.secrets.lookup r with
            | none => simp [hg] at hlat
            | some mchain =>
              cases mchain with
              | nil => simp [hg] at hlat
              | cons h0 tl =>
                simp only [hg, Option.bind_some, List.head?_cons, Option.some.injEq] at hlat
                subst hlat
                exact ⟨_, rfl, ⟨tl.map (·.2), by simp⟩⟩
    · simp [hv] at hok
  intro r c hm
  obtain ⟨mc, hl, hpre⟩ := key r c hm
  refine ⟨?_, ?_⟩
  · intro k hk
    obtain ⟨v, hv, rfl⟩ := List.mem_map.1 (hpre.subset hk)
    exact Nat.lt_of_lt_of_le (hinv.below r mc (lookup_mem hl) v hv) hmono
  · intro mc' hl'
    rw [hstep, hl] at hl'
    simp only [Option.some.injEq] at hl'; subst hl'
    exact Compat.of_prefix hpre

end CC

namespace CC
open CC.Look

/-- `update_msk` (after any structure edits) leaves the secrets of every right that survives exactly
as they were — it only recomputes the activation flag of the newest one -/
theorem update_keeps_secrets (w : World) (hr : Reachable w) (k : Right) (c : List (Bool × Sk))
    (hl : w.msk.secrets.lookup k = some c) :
    (w.step .update).msk.secrets.lookup k = none ∨
    ∃ c', (w.step .update).msk.secrets.lookup k = some c' ∧ c'.map (·.2) = c.map (·.2) := by
  have hc := reachable_coh w hr
  have hS := reachable_struct_wf w hr
  have hne := reachable_nonEmpty w hr
  simp only [World.step]
  unfold updateMsk
  split
  · exact Or.inr ⟨c, hl, rfl⟩
  · simp only
    rcases hu : updateLoop (w.msk.secrets.retain fun r => (w.msk.structure_.omega.lookup r).isSome) w.msk.structure_.omega w.rng with ⟨res, n'⟩
    cases res with
    | error e => exact Or.inl rfl
    | ok s =>
      simp only
      have hu' : (updateLoop (w.msk.secrets.retain fun r => (w.msk.structure_.omega.lookup r).isSome) w.msk.structure_.omega w.rng).1 = .ok s := by rw [hu]
      cases hlo : w.msk.structure_.omega.lookup k with
      | none =>
        have hnot : k ∉ w.msk.structure_.omega.map (·.1) := lookup_eq_none_iff.1 hlo
        rw [updateLoop_lookup_other _ _ _ _ hu' k hnot, RevMap.lookup_retain, hlo]
        exact Or.inl rfl
      | some fl =>
        obtain ⟨hyb, ro⟩ := fl
        have hm := lookup_mem hlo
        have hret : (w.msk.secrets.retain fun r => (w.msk.structure_.omega.lookup r).isSome).lookup k = w.msk.secrets.lookup k := by
          rw [RevMap.lookup_retain, hlo]; rfl
        rcases updateLoop_lookup_mem _ _ _ _ (omega_keys_nodup _) hu' k hyb ro hm with ⟨h0, t, h1, h2⟩ | ⟨h1, t, _, _, _⟩
        · rw [hret, hl] at h1
          simp only [Option.some.injEq] at h1
          subst h1
          refine Or.inr ⟨_, h2, ?_⟩
          simp only [List.map_cons]
          rw [reflag_noop hc hS hl hm]
        · exfalso
          unfold RevMap.getLatest at h1
          rw [hret, hl] at h1
          have := hne k c (lookup_mem hl)
          cases c with
          | nil => exact this rfl
          | cons a b => simp at h1

end CC

namespace CC
open CC.Look

/-- after a successful `update_msk` the master key holds no right outside `omega` -/
theorem update_ok_keys (w : World) (k : Right) (hok : (updateMsk w.msk w.msk.structure_.omega w.rng).1 = .ok ())
    (hk : w.msk.structure_.omega.lookup k = none) : (w.step .update).msk.secrets.lookup k = none := by
  simp only [World.step]
  unfold updateMsk at hok ⊢
  split
  · rename_i hc; simp [hc] at hok
  · simp only
    rcases hu : updateLoop (w.msk.secrets.retain fun r => (w.msk.structure_.omega.lookup r).isSome) w.msk.structure_.omega w.rng with ⟨res, n'⟩
    cases res with
    | error e => rfl
    | ok s =>
      simp only
      have hu' : (updateLoop (w.msk.secrets.retain fun r => (w.msk.structure_.omega.lookup r).isSome) w.msk.structure_.omega w.rng).1 = .ok s := by rw [hu]
      have hnot : k ∉ w.msk.structure_.omega.map (·.1) := lookup_eq_none_iff.1 hk
      rw [updateLoop_lookup_other _ _ _ _ hu' k hnot, RevMap.lookup_retain, hk]
      rfl

/-- **a deleted attribute leaves the master key**: once no attribute carries the identifier `i`
any more, a successful `update_msk` leaves no right that involves `i` -/
theorem update_removes_dead (w : World) (hr : Reachable w) (i : Nat) (hdead : ¬ w.msk.structure_.live i)
    (hok : (updateMsk w.msk w.msk.structure_.omega w.rng).1 = .ok ()) (ids : List Nat) (hi : i ∈ ids) :
    (w.step .update).msk.secrets.lookup (Right.fromPoint ids) = none := by
  apply update_ok_keys w _ hok
  cases hl : w.msk.structure_.omega.lookup (Right.fromPoint ids) with
  | none => rfl
  | some fl =>
    exfalso
    obtain ⟨hyb, ro⟩ := fl
    have hS := reachable_struct_wf w hr
    obtain ⟨ids0, e0, l0, _⟩ := omega_spec hS.1 hS.2 (lookup_mem hl)
    have hperm := (Right.fromPoint_eq_iff _ _).1 e0
    exact hdead (l0 i (hperm.mem_iff.1 hi)).1

end CC
