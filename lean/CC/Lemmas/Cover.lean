import CC.Model.Structure
import CC.Spec.Cover
import CC.Lemmas.Look
import CC.Lemmas.Comb
import CC.Lemmas.Leb
/-! The combinatorial core of C01 / C02: the rights in the complementary space of a user policy
that are also rights of an encryption policy exist exactly when the name-level cover relation
holds. -/
namespace CC
open CC.Look

/-- all attributes of a structure with their dimension and name -/
def Struct.all (S : Struct) : List (String × String × Attr) :=
  S.dims.flatMap fun p => p.2.attrs.map fun q => (p.1, q.1, q.2)

theorem mem_all {S : Struct} {dn : String} {d : Dim} {n : String} {a : Attr}
    (hd : (dn, d) ∈ S.dims) (ha : (n, a) ∈ d.attrs) : (dn, n, a) ∈ S.all := by
  simp only [Struct.all, List.mem_flatMap, List.mem_map]
  exact ⟨(dn, d), hd, (n, a), ha, rfl⟩

/-- well-formed structure: dimension names unique, attribute names unique per dimension,
identifiers unique over the whole structure -/
structure Struct.WF (S : Struct) : Prop where
  dims : (S.dims.map (·.1)).Nodup
  names : ∀ p ∈ S.dims, (p.2.attrs.map (·.1)).Nodup
  ids : ∀ t1 ∈ S.all, ∀ t2 ∈ S.all, t1.2.2.id = t2.2.2.id → t1 = t2

/-- a clause as (dimension, name) pairs names each dimension at most once -/
def ClauseNodup (cl : List QA) : Prop := (cl.map (·.dim)).Nodup

theorem restrict_sub {d r : Dim} {y : String} (h : d.restrict y = some r) :
    ∀ q, q ∈ r.attrs → q ∈ d.attrs := by
  unfold Dim.restrict at h
  split at h
  · simp at h
  · rename_i a ha
    have hya : (y, a) ∈ d.attrs := lookup_mem ha
    split at h <;> (simp only [Option.some.injEq] at h; subst h; intro q hq; simp at hq)
    · rcases hq with hq | rfl
      · exact (List.takeWhile_sublist _).subset hq
      · exact hya
    · subst hq; exact hya

theorem restrict_isSome {d : Dim} {y : String} {a : Attr} (h : d.attrs.lookup y = some a) :
    ∃ r, d.restrict y = some r := by
  unfold Dim.restrict; rw [h]; simp only; split <;> exact ⟨_, rfl⟩

/-- `semanticSpace` on a clause naming each dimension once: one restricted dimension per clause
entry, in clause order -/
theorem semanticSpace_spec {S : Struct} : ∀ {cl : List QA} {sem}, ClauseNodup cl →
    S.semanticSpace cl = .ok sem →
    sem.map (·.1) = cl.map (·.dim) ∧
    (∀ dn r, (dn, r) ∈ sem → ∃ q d, q ∈ cl ∧ q.dim = dn ∧ S.dims.lookup dn = some d ∧ d.restrict q.name = some r) ∧
    (∀ q, q ∈ cl → ∃ d r, S.dims.lookup q.dim = some d ∧ d.restrict q.name = some r ∧ (q.dim, r) ∈ sem)
  | [], sem, _, h => by
    simp [Struct.semanticSpace] at h; subst h; simp
  | q :: rest, sem, hnd, h => by
    simp only [ClauseNodup, List.map_cons, List.nodup_cons] at hnd
    simp only [Struct.semanticSpace] at h
    cases hd : S.dims.lookup q.dim with
    | none => simp [hd] at h
    | some d =>
    simp only [hd] at h
    cases hr : d.restrict q.name with
    | none => simp [hr] at h
    | some r =>
    simp only [hr] at h
    cases htl : S.semanticSpace rest with
    | error e => simp [htl] at h
    | ok tl =>
    simp only [htl] at h
    obtain ⟨h1, h2, h3⟩ := semanticSpace_spec (cl := rest) hnd.2 htl
    have hnotin : (tl.lookup q.dim).isSome = false := by
      cases hl : tl.lookup q.dim with
      | none => rfl
      | some x =>
        exfalso
        have : q.dim ∈ tl.map (·.1) := List.mem_map.2 ⟨(q.dim, x), lookup_mem hl, rfl⟩
        rw [h1] at this
        exact hnd.1 this
    simp only [hnotin, Bool.false_eq_true, if_false, Except.ok.injEq] at h
    subst h
    refine ⟨by simp [h1], ?_, ?_⟩
    · intro dn' r' hm
      rcases List.mem_cons.1 hm with hm | hm
      · cases hm; exact ⟨q, d, List.mem_cons_self, rfl, hd, hr⟩
      · obtain ⟨q', d', hq', hdim, hd', hr'⟩ := h2 _ _ hm
        exact ⟨q', d', List.mem_cons_of_mem _ hq', hdim, hd', hr'⟩
    · intro q' hm
      rcases List.mem_cons.1 hm with hm | hm
      · subst hm; exact ⟨d, r, hd, hr, List.mem_cons_self⟩
      · obtain ⟨d', r', hd', hr', hmem⟩ := h3 _ hm
        exact ⟨d', r', hd', hr', List.mem_cons_of_mem _ hmem⟩

/-! ### positions -/

theorem findIdx_lt_iff {l : List (String × Attr)} {x : String} :
    l.findIdx (fun p => p.1 == x) < l.length ↔ ∃ a, (x, a) ∈ l := by
  rw [List.findIdx_lt_length]
  constructor
  · rintro ⟨⟨k, a⟩, hm, hk⟩
    simp only [beq_iff_eq] at hk; subst hk; exact ⟨a, hm⟩
  · rintro ⟨a, hm⟩; exact ⟨(x, a), hm, by simp⟩

theorem pos_isSome_iff {d : Dim} {x : String} : (Spec.pos d x).isSome = true ↔ ∃ a, (x, a) ∈ d.attrs := by
  unfold Spec.pos
  simp only
  split
  · rename_i h; simp only [Option.isSome_some, true_iff]; exact findIdx_lt_iff.1 h
  · rename_i h; simp only [Option.isSome_none, Bool.false_eq_true, false_iff]; exact fun hx => h (findIdx_lt_iff.2 hx)

theorem pos_eq_some {d : Dim} {x : String} {i : Nat} (h : Spec.pos d x = some i) :
    i = d.attrs.findIdx (fun p => p.1 == x) ∧ i < d.attrs.length := by
  unfold Spec.pos at h
  simp only at h
  split at h
  · rename_i hlt; simp only [Option.some.injEq] at h; subst h; exact ⟨rfl, hlt⟩
  · cases h

/-- in a list with unique names, `(x, a)` is in the prefix strictly before `y` iff it is in the
list at a smaller position than `y` -/
theorem mem_takeWhile_iff : ∀ (l : List (String × Attr)), (l.map (·.1)).Nodup → ∀ (x y : String) (a : Attr),
    ((x, a) ∈ l.takeWhile (fun p => p.1 != y) ↔
      (x, a) ∈ l ∧ l.findIdx (fun p => p.1 == x) < l.findIdx (fun p => p.1 == y))
  | [], _, _, _, _ => by simp
  | (k, v) :: l, hnd, x, y, a => by
    simp only [List.map_cons, List.nodup_cons] at hnd
    have ih := mem_takeWhile_iff l hnd.2 x y a
    by_cases hky : k = y
    · subst hky
      simp [List.takeWhile, List.findIdx_cons]
    · have hky' : (k != y) = true := by simpa using hky
      have hky'' : (k == y) = false := by simpa using hky
      simp only [List.takeWhile, hky', List.findIdx_cons, hky'', cond_false]
      by_cases hkx : k = x
      · subst hkx
        have hnotin : ∀ b, (k, b) ∉ l := fun b hb => hnd.1 (List.mem_map.2 ⟨(k, b), hb, rfl⟩)
        simp only [List.mem_cons, Prod.mk.injEq, true_and, beq_self_eq_true, cond_true]
        constructor
        · rintro (h | h)
          · exact ⟨Or.inl h, Nat.succ_pos _⟩
          · exact absurd ((List.takeWhile_sublist _).subset h) (hnotin a)
        · rintro ⟨h | h, _⟩
          · exact Or.inl h
          · exact absurd h (hnotin a)
      · have hkx' : (k == x) = false := by simpa using hkx
        simp only [List.mem_cons, Prod.mk.injEq, hkx', cond_false]
        constructor
        · rintro (⟨h, _⟩ | h)
          · exact absurd h.symm hkx
          · obtain ⟨h1, h2⟩ := ih.1 h
            exact ⟨Or.inr h1, by omega⟩
        · rintro ⟨⟨h, _⟩ | h, hlt⟩
          · exact absurd h.symm hkx
          · exact Or.inr (ih.2 ⟨h, by omega⟩)

/-- the bridge between `Dimension::restrict` and the order of the specification: `x` survives the
restriction of the dimension at `y` iff `x ≤ y` -/
theorem restrict_mem_iff_leq {d : Dim} (hnd : (d.attrs.map (·.1)).Nodup) {x y : String}
    (hy : ∃ b, (y, b) ∈ d.attrs) :
    (∃ r a, d.restrict y = some r ∧ (x, a) ∈ r.attrs) ↔ Spec.leq d x y = true := by
  obtain ⟨b, hb⟩ := hy
  have hlb : d.attrs.lookup y = some b := mem_lookup_of_nodup hnd hb
  have hposy : ∃ j, Spec.pos d y = some j := by
    have := (pos_isSome_iff (d := d) (x := y)).2 ⟨b, hb⟩
    cases h : Spec.pos d y with
    | none => simp [h] at this
    | some j => exact ⟨j, rfl⟩
  obtain ⟨j, hj⟩ := hposy
  obtain ⟨hjeq, _⟩ := pos_eq_some hj
  unfold Spec.leq
  rw [hj]
  constructor
  · rintro ⟨r, a, hr, hm⟩
    unfold Dim.restrict at hr
    rw [hlb] at hr
    simp only at hr
    have hxa : ∃ a', (x, a') ∈ d.attrs := by
      split at hr <;> (simp only [Option.some.injEq] at hr; subst hr; simp at hm)
      · rcases hm with hm | ⟨hx, _⟩
        · exact ⟨a, (List.takeWhile_sublist _).subset hm⟩
        · exact ⟨b, hx ▸ hb⟩
      · exact ⟨b, hm.1 ▸ hb⟩
    have hposx := (pos_isSome_iff (d := d) (x := x)).2 hxa
    cases hpx : Spec.pos d x with
    | none => simp [hpx] at hposx
    | some i =>
      obtain ⟨hieq, _⟩ := pos_eq_some hpx
      simp only
      split at hr
      · rename_i ho
        simp only [Option.some.injEq] at hr; subst hr
        simp only [ho, if_true, decide_eq_true_eq]
        simp only [List.mem_append, List.mem_singleton, Prod.mk.injEq] at hm
        rcases hm with hm | ⟨rfl, _⟩
        · have := ((mem_takeWhile_iff d.attrs hnd x y a).1 hm).2
          omega
        · omega
      · rename_i ho
        simp only [Option.some.injEq] at hr; subst hr
        simp only [List.mem_singleton, Prod.mk.injEq] at hm
        simp [ho, hm.1]
  · intro h
    cases hpx : Spec.pos d x with
    | none => simp [hpx] at h
    | some i =>
      obtain ⟨hieq, hilt⟩ := pos_eq_some hpx
      simp only [hpx] at h
      obtain ⟨a, ha⟩ := findIdx_lt_iff.1 (hieq ▸ hilt)
      unfold Dim.restrict
      rw [hlb]
      simp only
      by_cases ho : d.ordered = true
      · simp only [ho, if_true, decide_eq_true_eq] at h ⊢
        by_cases hxy : x = y
        · subst hxy
          exact ⟨_, b, rfl, by simp⟩
        · have hne : i ≠ j := by
            intro hij
            -- same position, same name
            have h1 := List.findIdx_getElem (xs := d.attrs) (p := fun p => p.1 == x) (w := hieq ▸ hilt)
            have hjlt : d.attrs.findIdx (fun p => p.1 == y) < d.attrs.length := findIdx_lt_iff.2 ⟨b, hb⟩
            have h2 := List.findIdx_getElem (xs := d.attrs) (p := fun p => p.1 == y) (w := hjlt)
            have : d.attrs.findIdx (fun p => p.1 == x) = d.attrs.findIdx (fun p => p.1 == y) := by rw [← hieq, ← hjeq, hij]
            simp only [beq_iff_eq] at h1 h2
            have h3 : d.attrs[d.attrs.findIdx (fun p => p.1 == x)] = d.attrs[d.attrs.findIdx (fun p => p.1 == y)] := by
              congr 1
            rw [h3] at h1
            exact hxy (h1.symm.trans h2)
          refine ⟨_, a, rfl, ?_⟩
          simp only [List.mem_append, List.mem_singleton]
          left
          exact (mem_takeWhile_iff d.attrs hnd x y a).2 ⟨ha, by omega⟩
      · simp only [ho, Bool.false_eq_true, if_false, beq_iff_eq] at h ⊢
        subst h
        exact ⟨_, b, rfl, by simp⟩

/-- `semanticSpace` succeeds on a known clause -/
theorem semanticSpace_ok {S : Struct} : ∀ {cl : List QA}, Spec.clauseKnown S cl = true →
    ∃ sem, S.semanticSpace cl = .ok sem
  | [], _ => ⟨[], rfl⟩
  | q :: rest, h => by
    simp only [Spec.clauseKnown, List.all_cons, Bool.and_eq_true] at h
    obtain ⟨hq, hrest⟩ := h
    obtain ⟨tl, htl⟩ := semanticSpace_ok (S := S) (cl := rest) (by simpa [Spec.clauseKnown] using hrest)
    cases hd : S.dims.lookup q.dim with
    | none => simp [hd] at hq
    | some d =>
      simp only [hd] at hq
      have : ∃ a, d.attrs.lookup q.name = some a := by
        obtain ⟨a, ha⟩ := pos_isSome_iff.1 hq
        exact mem_lookup_isSome ha
      obtain ⟨a, ha⟩ := this
      obtain ⟨r, hr⟩ := restrict_isSome ha
      simp only [Struct.semanticSpace, hd, hr, htl]
      exact ⟨_, rfl⟩

end CC

namespace CC
open CC.Look

/-! ### mapMExcept -/

theorem mapMExcept_ok {α β : Type} (f : α → Except Err β) : ∀ (l : List α), (∀ x ∈ l, ∃ y, f x = .ok y) →
    ∃ bs, mapMExcept f l = .ok bs ∧ bs.length = l.length ∧ (∀ b, b ∈ bs ↔ ∃ x ∈ l, f x = .ok b)
  | [], _ => ⟨[], rfl, rfl, by simp⟩
  | a :: as, h => by
    obtain ⟨y, hy⟩ := h a List.mem_cons_self
    obtain ⟨bs, hbs, hlen, hmem⟩ := mapMExcept_ok f as (fun x hx => h x (List.mem_cons_of_mem _ hx))
    refine ⟨y :: bs, by simp [mapMExcept, hy, hbs], by simp [hlen], ?_⟩
    intro b
    simp only [List.mem_cons, hmem]
    constructor
    · rintro (rfl | ⟨x, hx, hfx⟩)
      · exact ⟨a, Or.inl rfl, hy⟩
      · exact ⟨x, Or.inr hx, hfx⟩
    · rintro ⟨x, rfl | hx, hfx⟩
      · left; rw [hy] at hfx; cases hfx; rfl
      · exact Or.inr ⟨x, hx, hfx⟩

theorem mapMExcept_mem {α β : Type} (f : α → Except Err β) : ∀ (l : List α) (bs : List β),
    mapMExcept f l = .ok bs → (∀ b, b ∈ bs ↔ ∃ x ∈ l, f x = .ok b)
  | [], bs, h => by simp [mapMExcept] at h; subst h; simp
  | a :: as, bs, h => by
    simp only [mapMExcept] at h
    cases hy : f a with
    | error e => simp [hy] at h
    | ok y =>
      simp only [hy] at h
      cases hr : mapMExcept f as with
      | error e => simp [hr] at h
      | ok tl =>
        simp only [hr, Except.ok.injEq] at h; subst h
        have ih := mapMExcept_mem f as tl hr
        intro b
        simp only [List.mem_cons, ih]
        constructor
        · rintro (rfl | ⟨x, hx, hfx⟩)
          · exact ⟨a, Or.inl rfl, hy⟩
          · exact ⟨x, Or.inr hx, hfx⟩
        · rintro ⟨x, rfl | hx, hfx⟩
          · left; rw [hy] at hfx; cases hfx; rfl
          · exact Or.inr ⟨x, hx, hfx⟩

/-! ### the complementary points of a clause -/

theorem mem_complementaryPoints {S : Struct} {cl : List QA} {sem : List (String × Dim)}
    (hsem : S.semanticSpace cl = .ok sem) (p : List Nat) :
    (∃ pts, S.complementaryPoints cl = .ok pts ∧ p ∈ pts) ↔ ∃ a1 a2,
      Choice ((S.dims.filter (fun q => (sem.lookup q.1).isNone)).map (·.2)) a1 ∧
      Choice (sem.map (·.2)) a2 ∧ p = a1.map (·.id) ++ a2.map (·.id) := by
  simp only [Struct.complementaryPoints, hsem, Except.ok.injEq, exists_eq_left', List.mem_flatMap, List.mem_map]
  constructor
  · rintro ⟨⟨pre, h, r⟩, hpre, suf, ⟨⟨suf', h', r'⟩, hsuf, rfl⟩, rfl⟩
    obtain ⟨a1, hc1, rfl, _, _⟩ := (mem_combine _ _ _ _).1 hpre
    obtain ⟨a2, hc2, rfl, _, _⟩ := (mem_combine _ _ _ _).1 hsuf
    exact ⟨a1, a2, hc1, hc2, rfl⟩
  · rintro ⟨a1, a2, h1, h2, rfl⟩
    exact ⟨(_, _, _), (mem_combine _ _ _ _).2 ⟨a1, h1, rfl, rfl, rfl⟩, _,
      ⟨(_, _, _), (mem_combine _ _ _ _).2 ⟨a2, h2, rfl, rfl, rfl⟩, rfl⟩, rfl⟩

/-- attributes named by an encryption clause -/
theorem encAttrs_spec {S : Struct} {ε : List QA} {eas : List Attr} (h : mapMExcept S.getAttribute ε = .ok eas) :
    (∀ q ∈ ε, ∃ d a, S.dims.lookup q.dim = some d ∧ d.attrs.lookup q.name = some a ∧ a ∈ eas) ∧
    (∀ a ∈ eas, ∃ q ∈ ε, ∃ d, S.dims.lookup q.dim = some d ∧ d.attrs.lookup q.name = some a) := by
  have hm := mapMExcept_mem S.getAttribute ε eas h
  have key : ∀ q a, S.getAttribute q = .ok a ↔ ∃ d, S.dims.lookup q.dim = some d ∧ d.attrs.lookup q.name = some a := by
    intro q a
    unfold Struct.getAttribute
    cases hd : S.dims.lookup q.dim with
    | none => simp
    | some d =>
      cases hl : d.attrs.lookup q.name with
      | none => simp [hl]
      | some x => simp [hl]
  constructor
  · intro q hq
    -- the clause entry resolves, since the whole mapM succeeded
    have : ∃ a, S.getAttribute q = .ok a := by
      clear hm
      induction ε generalizing eas with
      | nil => cases hq
      | cons x xs ih =>
        simp only [mapMExcept] at h
        cases hx : S.getAttribute x with
        | error e => simp [hx] at h
        | ok y =>
          simp only [hx] at h
          cases hr : mapMExcept S.getAttribute xs with
          | error e => simp [hr] at h
          | ok tl =>
            rcases List.mem_cons.1 hq with rfl | hq'
            · exact ⟨y, hx⟩
            · exact ih hr hq'
    obtain ⟨a, ha⟩ := this
    obtain ⟨d, hd, hl⟩ := (key q a).1 ha
    exact ⟨d, a, hd, hl, (hm a).2 ⟨q, hq, ha⟩⟩
  · intro a ha
    obtain ⟨q, hq, hqa⟩ := (hm a).1 ha
    obtain ⟨d, hd, hl⟩ := (key q a).1 hqa
    exact ⟨q, hq, d, hd, hl⟩

/-- the restriction-level cover relation between a user clause and an encryption clause -/
def Covers' (S : Struct) (cl ε : List QA) : Prop :=
  ∀ qx ∈ ε, ∀ qy ∈ cl, qy.dim = qx.dim →
    ∃ d r a, S.dims.lookup qx.dim = some d ∧ d.restrict qy.name = some r ∧ (qx.name, a) ∈ r.attrs

theorem clause_unique : ∀ {cl : List QA} {q q' : QA}, ClauseNodup cl → q ∈ cl → q' ∈ cl → q.dim = q'.dim → q = q'
  | [], _, _, _, hq, _, _ => by cases hq
  | x :: cl, q, q', hnd, hq, hq', hd => by
    simp only [ClauseNodup, List.map_cons, List.nodup_cons] at hnd
    rcases List.mem_cons.1 hq with h | h <;> rcases List.mem_cons.1 hq' with h' | h'
    · rw [h, h']
    · subst h; exact absurd (List.mem_map.2 ⟨q', h', hd.symm⟩) hnd.1
    · subst h'; exact absurd (List.mem_map.2 ⟨q, h, hd⟩) hnd.1
    · exact clause_unique hnd.2 h h' hd

/-- **Security half** (C02): a point of the complementary space of a user clause that is a
permutation of the point of an encryption clause forces the cover relation. -/
theorem cover_sound {S : Struct} (hS : S.WF) {cl ε : List QA} (hcl : ClauseNodup cl)
    {sem} (hsem : S.semanticSpace cl = .ok sem) {eas} (heas : mapMExcept S.getAttribute ε = .ok eas)
    {a1 a2 : List Attr}
    (h1 : Choice ((S.dims.filter (fun q => (sem.lookup q.1).isNone)).map (·.2)) a1)
    (h2 : Choice (sem.map (·.2)) a2)
    (hperm : (a1.map (·.id) ++ a2.map (·.id)).Perm (eas.map (·.id))) : Covers' S cl ε := by
  obtain ⟨hnames, hsem2, hsem3⟩ := semanticSpace_spec hcl hsem
  obtain ⟨he1, _⟩ := encAttrs_spec heas
  intro qx hx qy hy hdim
  obtain ⟨d, ax, hd, hax, haxm⟩ := he1 qx hx
  have hdS : (qx.dim, d) ∈ S.dims := lookup_mem hd
  have hxd : (qx.name, ax) ∈ d.attrs := lookup_mem hax
  have htx : (qx.dim, qx.name, ax) ∈ S.all := mem_all hdS hxd
  obtain ⟨d', r, hd', hr, hrsem⟩ := hsem3 qy hy
  rw [hdim, hd] at hd'; cases hd'
  refine ⟨d, r, ax, hd, hr, ?_⟩
  have hid : ax.id ∈ a1.map (·.id) ++ a2.map (·.id) :=
    hperm.mem_iff.2 (List.mem_map.2 ⟨ax, haxm, rfl⟩)
  rcases List.mem_append.1 hid with hid | hid
  · exfalso
    obtain ⟨a, ha, haid⟩ := List.mem_map.1 hid
    obtain ⟨dd, hdd, n, hn⟩ := h1.mem ha
    obtain ⟨⟨dn', dd'⟩, hmem, rfl⟩ := List.mem_map.1 hdd
    simp only [List.mem_filter] at hmem
    have ht : (dn', n, a) ∈ S.all := mem_all hmem.1 hn
    have := hS.ids _ ht _ htx haid
    simp only [Prod.mk.injEq] at this
    have hdn : dn' = qx.dim := this.1
    have hin : dn' ∈ sem.map (·.1) := by
      rw [hnames, hdn]; exact List.mem_map.2 ⟨qy, hy, hdim⟩
    obtain ⟨v, hv⟩ := lookup_isSome_of_mem_keys hin
    have h2 := hmem.2
    simp only [hv, Option.isNone_some] at h2
    cases h2
  · obtain ⟨a, ha, haid⟩ := List.mem_map.1 hid
    obtain ⟨rr, hrr, n, hn⟩ := h2.mem ha
    obtain ⟨⟨dn', rr'⟩, hmem, rfl⟩ := List.mem_map.1 hrr
    obtain ⟨q', d'', hq', hdimq', hd'', hr''⟩ := hsem2 _ _ hmem
    have hd''S : (dn', d'') ∈ S.dims := lookup_mem hd''
    have ht : (dn', n, a) ∈ S.all := mem_all hd''S (restrict_sub hr'' _ hn)
    have := hS.ids _ ht _ htx haid
    simp only [Prod.mk.injEq] at this
    obtain ⟨rfl, rfl, rfl⟩ := this
    have hqq : q' = qy := clause_unique hcl hq' hy (by rw [hdimq', hdim])
    subst hqq
    rw [hd] at hd''; cases hd''
    rw [hr] at hr''; cases hr''
    exact hn

/-- choose, in every listed dimension, the attribute the encryption clause names there (if any) -/
def pick (ε : List QA) (L : List (String × Dim)) : List Attr :=
  L.filterMap fun p =>
    match ε.find? (fun q => q.dim == p.1) with
    | none => none
    | some q => p.2.attrs.lookup q.name

theorem find_dim {ε : List QA} (hε : ClauseNodup ε) {q : QA} (hq : q ∈ ε) :
    ε.find? (fun x => x.dim == q.dim) = some q := by
  induction ε with
  | nil => cases hq
  | cons x xs ih =>
    simp only [ClauseNodup, List.map_cons, List.nodup_cons] at hε
    simp only [List.find?_cons]
    rcases List.mem_cons.1 hq with rfl | hq'
    · simp
    · have hne : (x.dim == q.dim) = false := by
        have : x.dim ≠ q.dim := fun h => hε.1 (List.mem_map.2 ⟨q, hq', h.symm⟩)
        simpa using this
      simp only [hne]
      exact ih hε.2 hq'

theorem mem_pick {ε : List QA} {L : List (String × Dim)} {a : Attr} :
    a ∈ pick ε L ↔ ∃ p ∈ L, ∃ q, ε.find? (fun x => x.dim == p.1) = some q ∧ p.2.attrs.lookup q.name = some a := by
  simp only [pick, List.mem_filterMap]
  constructor
  · rintro ⟨p, hp, h⟩
    cases hx : ε.find? (fun x => x.dim == p.1) with
    | none => simp [hx] at h
    | some q => simp only [hx] at h; exact ⟨p, hp, q, hx, h⟩
  · rintro ⟨p, hp, q, hx, h⟩
    exact ⟨p, hp, by simp [hx, h]⟩

theorem pick_choice {ε : List QA} : ∀ {L : List (String × Dim)},
    (∀ p ∈ L, ∀ q, ε.find? (fun x => x.dim == p.1) = some q → ∃ a, p.2.attrs.lookup q.name = some a) →
    Choice (L.map (·.2)) (pick ε L)
  | [], _ => .nil
  | p :: L, h => by
    have ih := pick_choice (L := L) (fun q hq => h q (List.mem_cons_of_mem _ hq))
    simp only [pick, List.filterMap_cons, List.map_cons]
    cases hx : ε.find? (fun x => x.dim == p.1) with
    | none => exact .skip ih
    | some q =>
      obtain ⟨a, ha⟩ := h p List.mem_cons_self q hx
      simp only [ha]
      exact .take (lookup_mem ha) ih

/-- **Correctness half** (C01): a covered encryption clause has a point in the complementary space
of the user clause with exactly its identifiers. -/
theorem cover_complete {S : Struct} (hS : S.WF) {cl ε : List QA} (hcl : ClauseNodup cl) (hε : ClauseNodup ε)
    {sem} (hsem : S.semanticSpace cl = .ok sem) {eas} (heas : mapMExcept S.getAttribute ε = .ok eas)
    (hcov : Covers' S cl ε) :
    ∃ a1 a2, Choice ((S.dims.filter (fun q => (sem.lookup q.1).isNone)).map (·.2)) a1 ∧
      Choice (sem.map (·.2)) a2 ∧ ∀ i, i ∈ a1.map (·.id) ++ a2.map (·.id) ↔ i ∈ eas.map (·.id) := by
  obtain ⟨hnames, hsem2, hsem3⟩ := semanticSpace_spec hcl hsem
  obtain ⟨he1, he2⟩ := encAttrs_spec heas
  have hfind : ∀ dn q, ε.find? (fun x => x.dim == dn) = some q → q ∈ ε ∧ q.dim = dn := by
    intro dn q h
    exact ⟨List.mem_of_find?_eq_some h, by simpa using List.find?_some h⟩
  have hres : ∀ dn q, ε.find? (fun x => x.dim == dn) = some q →
      ∃ d a, S.dims.lookup dn = some d ∧ d.attrs.lookup q.name = some a ∧ a ∈ eas := by
    intro dn q h
    obtain ⟨hq, rfl⟩ := hfind dn q h
    exact he1 q hq
  refine ⟨pick ε (S.dims.filter (fun q => (sem.lookup q.1).isNone)), pick ε sem, pick_choice ?_, pick_choice ?_, ?_⟩
  · intro p hp q hx
    simp only [List.mem_filter] at hp
    obtain ⟨d, a, hd, ha, _⟩ := hres _ _ hx
    have : p.2 = d := by
      have := mem_lookup_of_nodup hS.dims (show (p.1, p.2) ∈ S.dims from hp.1)
      rw [hd] at this; cases this; rfl
    exact ⟨a, this ▸ ha⟩
  · intro p hp q hx
    obtain ⟨hqε, hqdim⟩ := hfind _ _ hx
    obtain ⟨qy, d, hy, hdimy, hd, hr⟩ := hsem2 p.1 p.2 hp
    obtain ⟨d', r', a, hd', hr', ha⟩ := hcov q hqε qy hy (by rw [hdimy, hqdim])
    rw [hqdim, hd] at hd'; cases hd'
    rw [hr] at hr'; cases hr'
    exact mem_lookup_isSome ha
  · intro i
    simp only [List.mem_append, List.mem_map, mem_pick]
    constructor
    · rintro (⟨a, ⟨p, hp, q, hx, ha⟩, rfl⟩ | ⟨a, ⟨p, hp, q, hx, ha⟩, rfl⟩)
      · simp only [List.mem_filter] at hp
        obtain ⟨d, a', hd, ha', hm⟩ := hres _ _ hx
        have : p.2 = d := by
          have := mem_lookup_of_nodup hS.dims (show (p.1, p.2) ∈ S.dims from hp.1)
          rw [hd] at this; cases this; rfl
        rw [this, ha'] at ha; cases ha
        exact ⟨a, hm, rfl⟩
      · obtain ⟨qy, d, hy, hdimy, hd, hr⟩ := hsem2 p.1 p.2 hp
        obtain ⟨d', a', hd', ha', hm⟩ := hres _ _ hx
        rw [hd] at hd'; cases hd'
        have h1 : (q.name, a) ∈ d.attrs := restrict_sub hr _ (lookup_mem ha)
        have h2 := mem_lookup_of_nodup (hS.names (p.1, d) (lookup_mem hd)) h1
        rw [ha'] at h2; cases h2
        exact ⟨a, hm, rfl⟩
    · rintro ⟨a, hm, rfl⟩
      obtain ⟨q, hq, d, hd, ha⟩ := he2 a hm
      have hxl : ε.find? (fun x => x.dim == q.dim) = some q := find_dim hε hq
      by_cases hin : q.dim ∈ sem.map (·.1)
      · right
        obtain ⟨⟨dn', r⟩, hr, hdn⟩ := List.mem_map.1 hin
        simp only at hdn
        subst hdn
        obtain ⟨qy, d', hy, hdimy, hd', hrr⟩ := hsem2 _ _ hr
        rw [hd] at hd'; cases hd'
        obtain ⟨d'', r', a', hd'', hr', ha'⟩ := hcov q hq qy hy hdimy
        rw [hd] at hd''; cases hd''
        rw [hrr] at hr'; cases hr'
        have h2 := mem_lookup_of_nodup (hS.names (q.dim, d) (lookup_mem hd)) (restrict_sub hrr _ ha')
        rw [ha] at h2; cases h2
        refine ⟨a, ⟨(q.dim, r), hr, q, hxl, ?_⟩, rfl⟩
        obtain ⟨a'', ha''⟩ := mem_lookup_isSome ha'
        have h3 := mem_lookup_of_nodup (hS.names (q.dim, d) (lookup_mem hd))
          (restrict_sub hrr _ (lookup_mem ha''))
        rw [ha] at h3; cases h3
        exact ha''
      · left
        refine ⟨a, ⟨(q.dim, d), ?_, q, hxl, ha⟩, rfl⟩
        simp only [List.mem_filter]
        refine ⟨lookup_mem hd, ?_⟩
        cases hl : sem.lookup q.dim with
        | none => rfl
        | some v => exact absurd (List.mem_map.2 ⟨(q.dim, v), lookup_mem hl, rfl⟩) hin

end CC

namespace CC
open CC.Look

/-! ### bridge to the specification, identifiers without repetition, the final statements -/

theorem known_attr {S : Struct} {cl : List QA} (hk : Spec.clauseKnown S cl = true) {q : QA} (hq : q ∈ cl) :
    ∃ d b, S.dims.lookup q.dim = some d ∧ (q.name, b) ∈ d.attrs := by
  unfold Spec.clauseKnown at hk
  have := List.all_eq_true.1 hk q hq
  cases hd : S.dims.lookup q.dim with
  | none => simp [hd] at this
  | some d =>
    simp only [hd] at this
    obtain ⟨b, hb⟩ := pos_isSome_iff.1 this
    exact ⟨d, b, rfl, hb⟩

theorem coversClause_iff {S : Struct} (hS : S.WF) {cl ε : List QA} (hk : Spec.clauseKnown S cl = true) :
    Spec.coversClause S cl ε = true ↔ Covers' S cl ε := by
  unfold Spec.coversClause Covers'
  simp only [List.all_eq_true]
  constructor
  · intro h qx hx qy hy hdim
    have h1 := h qx hx qy hy
    have hne : (qy.dim != qx.dim) = false := by simp [hdim]
    simp only [hne, Bool.false_or] at h1
    cases hd : S.dims.lookup qx.dim with
    | none => simp [hd] at h1
    | some d =>
      simp only [hd] at h1
      obtain ⟨d', b, hd', hb⟩ := known_attr hk hy
      rw [hdim, hd] at hd'; cases hd'
      have hnd := hS.names (qx.dim, d) (lookup_mem hd)
      obtain ⟨r, a, hr, ha⟩ := (restrict_mem_iff_leq hnd ⟨b, hb⟩).2 h1
      exact ⟨d, r, a, rfl, hr, ha⟩
  · intro h qx hx qy hy
    by_cases hdim : qy.dim = qx.dim
    · obtain ⟨d, r, a, hd, hr, ha⟩ := h qx hx qy hy hdim
      have hne : (qy.dim != qx.dim) = false := by simp [hdim]
      simp only [hne, Bool.false_or, hd]
      obtain ⟨d', b, hd', hb⟩ := known_attr hk hy
      rw [hdim, hd] at hd'; cases hd'
      have hnd := hS.names (qx.dim, d) (lookup_mem hd)
      exact (restrict_mem_iff_leq hnd ⟨b, hb⟩).1 ⟨r, a, hr, ha⟩
    · have : (qy.dim != qx.dim) = true := by simpa using hdim
      simp [this]

/-- a choice of at most one attribute per dimension, over dimensions with distinct names that are
parts of a well-formed structure, has no repeated identifier -/
theorem choice_ids_nodup {S : Struct} (hS : S.WF) : ∀ {L : List (String × Dim)} {as : List Attr},
    (L.map (·.1)).Nodup → (∀ p ∈ L, ∀ q ∈ p.2.attrs, (p.1, q.1, q.2) ∈ S.all) →
    Choice (L.map (·.2)) as → (as.map (·.id)).Nodup
  | [], as, _, _, h => by cases h; simp
  | p :: L, as, hL, hsub, h => by
    simp only [List.map_cons, List.nodup_cons] at hL
    have ih := fun as' (h' : Choice (L.map (·.2)) as') =>
      choice_ids_nodup hS hL.2 (fun p' hp' => hsub p' (List.mem_cons_of_mem _ hp')) h'
    simp only [List.map_cons] at h
    cases h with
    | skip h' => exact ih _ h'
    | take hm h' =>
      rename_i as' n a
      simp only [List.map_cons, List.nodup_cons]
      refine ⟨?_, ih _ h'⟩
      intro hin
      obtain ⟨a', ha', hid⟩ := List.mem_map.1 hin
      obtain ⟨d, hd, n', hn'⟩ := h'.mem ha'
      obtain ⟨p', hp', rfl⟩ := List.mem_map.1 hd
      have t1 := hsub p List.mem_cons_self (n, a) hm
      have t2 := hsub p' (List.mem_cons_of_mem _ hp') (n', a') hn'
      have := hS.ids _ t2 _ t1 hid
      simp only [Prod.mk.injEq] at this
      exact hL.1 (List.mem_map.2 ⟨p', hp', this.1⟩)

theorem getAttribute_ok_iff {S : Struct} {q : QA} {a : Attr} :
    S.getAttribute q = .ok a ↔ ∃ d, S.dims.lookup q.dim = some d ∧ d.attrs.lookup q.name = some a := by
  unfold Struct.getAttribute
  cases hd : S.dims.lookup q.dim with
  | none => simp
  | some d =>
    cases hl : d.attrs.lookup q.name with
    | none => simp [hl]
    | some x => simp [hl]

/-- the identifiers of the attributes of an encryption clause naming each dimension once are
pairwise distinct -/
theorem encAttrs_ids_nodup {S : Struct} (hS : S.WF) : ∀ {ε : List QA} {eas : List Attr}, ClauseNodup ε →
    mapMExcept S.getAttribute ε = .ok eas → (eas.map (·.id)).Nodup
  | [], eas, _, h => by simp [mapMExcept] at h; subst h; simp
  | q :: rest, eas, hnd, h => by
    simp only [ClauseNodup, List.map_cons, List.nodup_cons] at hnd
    simp only [mapMExcept] at h
    cases hq : S.getAttribute q with
    | error e => simp [hq] at h
    | ok a =>
      simp only [hq] at h
      cases hr : mapMExcept S.getAttribute rest with
      | error e => simp [hr] at h
      | ok tl =>
        simp only [hr, Except.ok.injEq] at h; subst h
        simp only [List.map_cons, List.nodup_cons]
        refine ⟨?_, encAttrs_ids_nodup hS hnd.2 hr⟩
        intro hin
        obtain ⟨a', ha', hid⟩ := List.mem_map.1 hin
        obtain ⟨q', hq', d', hd', hl'⟩ := (encAttrs_spec hr).2 a' ha'
        obtain ⟨d, hd, hl⟩ := getAttribute_ok_iff.1 hq
        have t1 : (q.dim, q.name, a) ∈ S.all := mem_all (lookup_mem hd) (lookup_mem hl)
        have t2 : (q'.dim, q'.name, a') ∈ S.all := mem_all (lookup_mem hd') (lookup_mem hl')
        have := hS.ids _ t2 _ t1 hid
        simp only [Prod.mk.injEq] at this
        exact hnd.1 (List.mem_map.2 ⟨q', hq', this.1⟩)

theorem encAttrs_ok {S : Struct} : ∀ {ε : List QA}, Spec.clauseKnown S ε = true →
    ∃ eas, mapMExcept S.getAttribute ε = .ok eas
  | [], _ => ⟨[], rfl⟩
  | q :: rest, h => by
    have hq := known_attr h (q := q) List.mem_cons_self
    obtain ⟨d, b, hd, hb⟩ := hq
    obtain ⟨a, ha⟩ := mem_lookup_isSome hb
    have hrest : Spec.clauseKnown S rest = true := by
      unfold Spec.clauseKnown at h ⊢
      simp only [List.all_cons, Bool.and_eq_true] at h
      exact h.2
    obtain ⟨tl, htl⟩ := encAttrs_ok (S := S) hrest
    exact ⟨a :: tl, by simp [mapMExcept, getAttribute_ok_iff.2 ⟨d, hd, ha⟩, htl]⟩

/-- **One user clause against one encryption clause**: a point of the complementary space of the
user clause gives the right of the encryption clause iff the name-level cover relation holds. -/
theorem clause_right_iff {S : Struct} (hS : S.WF) {cl ε : List QA}
    (hcl : ClauseNodup cl) (hε : ClauseNodup ε)
    (hkc : Spec.clauseKnown S cl = true) (hkε : Spec.clauseKnown S ε = true) :
    ∃ pts eas, S.complementaryPoints cl = .ok pts ∧ mapMExcept S.getAttribute ε = .ok eas ∧
      ((∃ p ∈ pts, Right.fromPoint p = Right.fromPoint (eas.map (·.id))) ↔ Spec.coversClause S cl ε = true) := by
  obtain ⟨sem, hsem⟩ := semanticSpace_ok hkc
  obtain ⟨eas, heas⟩ := encAttrs_ok hkε
  have hpts : ∃ pts, S.complementaryPoints cl = .ok pts := by
    simp only [Struct.complementaryPoints, hsem]; exact ⟨_, rfl⟩
  obtain ⟨pts, hpts⟩ := hpts
  refine ⟨pts, eas, hpts, heas, ?_⟩
  rw [coversClause_iff hS hkc]
  obtain ⟨hnames, hsem2, _⟩ := semanticSpace_spec hcl hsem
  constructor
  · rintro ⟨p, hp, heq⟩
    obtain ⟨a1, a2, h1, h2, rfl⟩ := (mem_complementaryPoints hsem p).1 ⟨pts, hpts, hp⟩
    exact cover_sound hS hcl hsem heas h1 h2 ((Right.fromPoint_eq_iff _ _).1 heq)
  · intro hcov
    obtain ⟨a1, a2, h1, h2, hmem⟩ := cover_complete hS hcl hε hsem heas hcov
    refine ⟨a1.map (·.id) ++ a2.map (·.id), ?_, ?_⟩
    · obtain ⟨pts', hp', hin⟩ := (mem_complementaryPoints hsem _).2 ⟨a1, a2, h1, h2, rfl⟩
      rw [hpts] at hp'; cases hp'; exact hin
    · apply (Right.fromPoint_eq_iff _ _).2
      -- both sides have no repetition and the same elements
      have hnd2 := encAttrs_ids_nodup hS hε heas
      have hnd1 : (a1.map (·.id) ++ a2.map (·.id)).Nodup := by
        rw [← List.map_append]
        have hch := Choice.append h1 h2
        rw [← List.map_append] at hch
        refine choice_ids_nodup hS ?_ ?_ hch
        · -- names of the untouched dimensions and of the restricted ones are all distinct
          rw [List.map_append, List.nodup_append]
          refine ⟨(List.Nodup.sublist ((List.filter_sublist).map _) hS.dims), by rw [hnames]; exact hcl, ?_⟩
          intro x hx y hy hxy
          subst hxy
          obtain ⟨p, hp, rfl⟩ := List.mem_map.1 hx
          simp only [List.mem_filter] at hp
          obtain ⟨v, hv⟩ := lookup_isSome_of_mem_keys hy
          simp [hv] at hp
        · intro p hp q hq
          rcases List.mem_append.1 hp with hp | hp
          · simp only [List.mem_filter] at hp
            exact mem_all (show (p.1, p.2) ∈ S.dims from hp.1) (show (q.1, q.2) ∈ p.2.attrs from hq)
          · obtain ⟨qy, d, _, _, hd, hr⟩ := hsem2 p.1 p.2 hp
            exact mem_all (lookup_mem hd) (restrict_sub hr _ (show (q.1, q.2) ∈ p.2.attrs from hq))
      exact (List.perm_ext_iff_of_nodup hnd1 hnd2).2 hmem

end CC

namespace CC
open CC.Look

theorem policyWf_clause {S : Struct} {p : AP} (h : Spec.policyWf S p = true) {c : List QA} (hc : c ∈ p.toDnf) :
    Spec.clauseKnown S c = true ∧ ClauseNodup c := by
  unfold Spec.policyWf at h
  have := List.all_eq_true.1 h c hc
  simp only [Bool.and_eq_true, decide_eq_true_eq] at this
  exact ⟨this.1, by simpa [Spec.clauseWf, ClauseNodup] using this.2⟩

/-- **Policies**: some right of the encapsulation is one of the rights of the user key iff the
name-level cover relation holds between the two policies. -/
theorem rights_meet_iff_covers {S : Struct} (hS : S.WF) {u e : AP}
    (hu : Spec.policyWf S u = true) (he : Spec.policyWf S e = true) :
    ∃ ru re, S.uskRights u = .ok ru ∧ S.encRights e = .ok re ∧
      ((∃ r, r ∈ re ∧ r ∈ ru) ↔ Spec.covers S u e = true) := by
  -- user side
  have hcp : ∀ c ∈ u.toDnf, ∃ pts, S.complementaryPoints c = .ok pts := by
    intro c hc
    obtain ⟨hk, _⟩ := policyWf_clause hu hc
    obtain ⟨sem, hsem⟩ := semanticSpace_ok hk
    simp only [Struct.complementaryPoints, hsem]; exact ⟨_, rfl⟩
  obtain ⟨ptss, hptss, _, hmemu⟩ := mapMExcept_ok S.complementaryPoints u.toDnf hcp
  -- encryption side
  let g : List QA → Except Err Right := fun cl =>
    (mapMExcept S.getAttribute cl).map (fun as => Right.fromPoint (as.map (·.id)))
  have hg : ∀ ε ∈ e.toDnf, ∃ r, g ε = .ok r := by
    intro ε hε
    obtain ⟨hk, _⟩ := policyWf_clause he hε
    obtain ⟨eas, heas⟩ := encAttrs_ok hk
    exact ⟨_, by simp only [g, heas]; rfl⟩
  obtain ⟨rs, hrs, _, hmeme⟩ := mapMExcept_ok g e.toDnf hg
  refine ⟨(ptss.flatten.map Right.fromPoint).eraseDups, rs.eraseDups, by simp only [Struct.uskRights, hptss], ?_, ?_⟩
  · have : S.encRights e = match mapMExcept g e.toDnf with
        | .error err => .error err
        | .ok rs => .ok rs.eraseDups := rfl
    rw [this, hrs]
  simp only [List.mem_eraseDups, List.mem_map, List.mem_flatten]
  unfold Spec.covers
  simp only [List.any_eq_true]
  constructor
  · rintro ⟨r, hre, p, ⟨pts, hpts, hp⟩, hpr⟩
    obtain ⟨c, hc, hcpts⟩ := (hmemu pts).1 hpts
    obtain ⟨ε, hε, hgε⟩ := (hmeme r).1 hre
    obtain ⟨hkc, hndc⟩ := policyWf_clause hu hc
    obtain ⟨hkε, hndε⟩ := policyWf_clause he hε
    obtain ⟨pts', eas, hpts', heas, hiff⟩ := clause_right_iff hS hndc hndε hkc hkε
    rw [hcpts] at hpts'; cases hpts'
    have : r = Right.fromPoint (eas.map (·.id)) := by
      simp only [g, heas] at hgε
      cases hgε; rfl
    exact ⟨c, hc, ε, hε, hiff.1 ⟨p, hp, by rw [hpr, this]⟩⟩
  · rintro ⟨c, hc, ε, hε, hcov⟩
    obtain ⟨hkc, hndc⟩ := policyWf_clause hu hc
    obtain ⟨hkε, hndε⟩ := policyWf_clause he hε
    obtain ⟨pts, eas, hpts, heas, hiff⟩ := clause_right_iff hS hndc hndε hkc hkε
    obtain ⟨p, hp, heq⟩ := hiff.2 hcov
    refine ⟨Right.fromPoint (eas.map (·.id)), (hmeme _).2 ⟨ε, hε, by simp only [g, heas]; rfl⟩, p,
      ⟨pts, (hmemu pts).2 ⟨c, hc, hpts⟩, hp⟩, heq⟩

end CC
