import CC.Lemmas.Rotation
/-! Disabled attributes over histories: an identifier that is disabled stays disabled (or gone)
through every edit; `update_msk` deactivates every right containing it; nothing re-activates it. -/
namespace CC
open CC.Look

/-- the identifier `i` has been handed out and every attribute still carrying it is read-only -/
def Struct.IdDisabled (s : Struct) (i : Nat) : Prop :=
  i < s.nextId ∧ ∀ t ∈ s.all, t.2.2.id = i → t.2.2.ro = true

theorem mem_all_iff {S : Struct} {t : String × String × Attr} :
    t ∈ S.all ↔ ∃ d, (t.1, d) ∈ S.dims ∧ (t.2.1, t.2.2) ∈ d.attrs := by
  simp only [Struct.all, List.mem_flatMap, List.mem_map]
  constructor
  · rintro ⟨p, hp, q, hq, rfl⟩; exact ⟨p.2, hp, hq⟩
  · rintro ⟨d, hd, hq⟩; exact ⟨(t.1, d), hd, (t.2.1, t.2.2), hq, rfl⟩

theorem mem_areplace' {β} {l : List (String × β)} {k : String} {v : β} {p : String × β}
    (h : p ∈ areplace l k v) : (p ∈ l ∧ p.1 ≠ k) ∨ p = (k, v) := by
  unfold areplace at h
  obtain ⟨q, hq, rfl⟩ := List.mem_map.1 h
  by_cases hk : (q.1 == k) = true
  · right; simp [hk]
  · left; simp only [hk, Bool.false_eq_true, if_false]; exact ⟨hq, by simpa using hk⟩

/-- **a disabled identifier stays disabled through every successful edit** (there is no enable
operation; a deleted attribute's identifier is never reissued) -/
theorem Struct.apply_idDisabled {s s' : Struct} {e : Edit} {i : Nat} (hS : s.WF) (hb : s.IdsBelow)
    (h : s.apply e = .ok s') (hd : s.IdDisabled i) : s'.IdDisabled i := by
  obtain ⟨hlt, hro⟩ := hd
  have hmono := (Struct.apply_idsBelow h hb).2
  refine ⟨Nat.lt_of_lt_of_le hlt hmono, ?_⟩
  cases e with
  | addDim n o =>
    simp only [Struct.apply, Struct.addDimension] at h
    split at h
    · cases h
    · simp only [Except.ok.injEq] at h; subst h
      intro t ht
      have : t ∈ s.all := by
        simp only [Struct.all, List.flatMap_append, List.mem_append, List.flatMap_cons, List.map_nil,
          List.flatMap_nil, List.append_nil, List.not_mem_nil, or_false] at ht
        exact ht
      exact hro t this
  | delDim n =>
    simp only [Struct.apply, Struct.delDimension] at h
    split at h
    · simp only [Except.ok.injEq] at h; subst h
      intro t ht
      obtain ⟨d, hd, hq⟩ := mem_all_iff.1 ht
      exact hro t (mem_all_iff.2 ⟨d, mem_aerase hd, hq⟩)
    · cases h
  | addAttr dn n hy af =>
    simp only [Struct.apply, Struct.addAttribute] at h
    cases hdl : s.dims.lookup dn with
    | none => simp [hdl] at h
    | some d =>
      simp only [hdl] at h
      cases hf : d.addAttribute n hy af s.nextId with
      | error e => simp [hf] at h
      | ok d' =>
        simp only [hf, Except.ok.injEq] at h; subst h
        have hdS : (dn, d) ∈ s.dims := lookup_mem hdl
        obtain ⟨_, c2, _, _⟩ := Dim.addAttribute_spec hf (hS.names _ hdS)
        intro t ht hid
        rcases mem_all_areplace ht with ⟨o, _⟩ | ⟨e1, m1⟩
        · exact hro t o hid
        · rcases (c2 _).1 m1 with ho | hn
          · exact hro t (mem_all_iff.2 ⟨d, e1 ▸ hdS, ho⟩) hid
          · exfalso
            have : t.2.2.id = s.nextId := by
              have := congrArg (fun q => q.2.id) hn; simpa using this
            rw [this] at hid; rw [hid] at hlt; exact Nat.lt_irrefl _ hlt
  | delAttr dn n =>
    simp only [Struct.apply, Struct.delAttribute] at h
    obtain ⟨d, d', hdl, hf, rfl⟩ := Struct.onDim_spec h
    have hdS : (dn, d) ∈ s.dims := lookup_mem hdl
    unfold Dim.removeAttribute at hf
    split at hf
    · simp only [Except.ok.injEq] at hf; subst hf
      intro t ht hid
      rcases mem_all_areplace ht with ⟨o, _⟩ | ⟨e1, m1⟩
      · exact hro t o hid
      · exact hro t (mem_all_iff.2 ⟨d, e1 ▸ hdS, mem_aerase m1⟩) hid
    · cases hf
  | rename dn o n =>
    simp only [Struct.apply, Struct.renameAttribute] at h
    obtain ⟨d, d', hdl, hf, rfl⟩ := Struct.onDim_spec h
    have hdS : (dn, d) ∈ s.dims := lookup_mem hdl
    -- every attribute of the renamed dimension is an attribute of the old one (under some name)
    have key : ∀ q ∈ d'.attrs, ∃ q0 ∈ d.attrs, q0.2 = q.2 := by
      intro q hq
      unfold Dim.renameAttribute at hf
      by_cases ho : d.ordered = true
      · simp only [ho, if_true] at hf
        cases hlo : d.attrs.lookup o with
        | none => simp [hlo] at hf
        | some a =>
          simp only [hlo] at hf
          split at hf
          · cases hf
          · simp only [Except.ok.injEq] at hf; subst hf
            obtain ⟨q0, hq0, rfl⟩ := List.mem_map.1 hq
            exact ⟨q0, hq0, by split <;> rfl⟩
      · simp only [ho, Bool.false_eq_true, if_false] at hf
        split at hf
        · cases hf
        · cases hlo : d.attrs.lookup o with
          | none => simp [hlo] at hf
          | some a =>
            simp only [hlo, Except.ok.injEq] at hf; subst hf
            rcases List.mem_append.1 hq with h1 | h1
            · exact ⟨q, mem_aerase h1, rfl⟩
            · simp at h1; subst h1; exact ⟨(o, a), lookup_mem hlo, rfl⟩
    intro t ht hid
    rcases mem_all_areplace ht with ⟨o', _⟩ | ⟨e1, m1⟩
    · exact hro t o' hid
    · obtain ⟨q0, hq0, heq⟩ := key _ m1
      simp only at heq
      have := hro (dn, q0.1, q0.2) (mem_all_iff.2 ⟨d, hdS, hq0⟩) (by simp only; rw [heq]; exact hid)
      simp only at this
      rw [heq] at this; exact this
  | disable dn n =>
    simp only [Struct.apply, Struct.disableAttribute] at h
    obtain ⟨d, d', hdl, hf, rfl⟩ := Struct.onDim_spec h
    have hdS : (dn, d) ∈ s.dims := lookup_mem hdl
    unfold Dim.disableAttribute at hf
    cases hl : d.attrs.lookup n with
    | none => simp [hl] at hf
    | some a =>
      simp only [hl, Except.ok.injEq] at hf; subst hf
      intro t ht hid
      rcases mem_all_areplace ht with ⟨o', _⟩ | ⟨e1, m1⟩
      · exact hro t o' hid
      · rcases mem_areplace m1 with h1 | h1
        · exact hro t (mem_all_iff.2 ⟨d, e1 ▸ hdS, h1⟩) hid
        · have : t.2.2 = { a with ro := true } := by
            have := congrArg (fun q => q.2) h1; simpa using this
          rw [this]

/-- disabling an attribute makes its identifier disabled -/
theorem Struct.disable_makes_disabled {s s' : Struct} {dn n : String} (hS : s.WF) (hb : s.IdsBelow)
    (h : s.disableAttribute dn n = .ok s') :
    ∃ d a, s.dims.lookup dn = some d ∧ d.attrs.lookup n = some a ∧ s'.IdDisabled a.id := by
  obtain ⟨d, d', hdl, hf, rfl⟩ := Struct.onDim_spec h
  have hdS : (dn, d) ∈ s.dims := lookup_mem hdl
  unfold Dim.disableAttribute at hf
  cases hl : d.attrs.lookup n with
  | none => simp [hl] at hf
  | some a =>
    simp only [hl, Except.ok.injEq] at hf; subst hf
    have hna : (n, a) ∈ d.attrs := lookup_mem hl
    refine ⟨d, a, hdl, hl, hb _ hdS _ hna, ?_⟩
    intro t ht hid
    rcases mem_all_areplace ht with ⟨o', hne⟩ | ⟨e1, m1⟩
    · -- another dimension cannot carry the same identifier
      exfalso
      have := hS.ids t o' (dn, n, a) (mem_all hdS hna) hid
      exact hne (by rw [this])
    · rcases mem_areplace' m1 with ⟨h1, hne⟩ | h1
      · -- another attribute of the dimension with the same id is the same attribute: same name
        exfalso
        have := hS.ids (dn, t.2.1, t.2.2) (mem_all_iff.2 ⟨d, hdS, h1⟩) (dn, n, a) (mem_all hdS hna) hid
        simp only [Prod.mk.injEq, true_and] at this
        exact hne this.1
      · have : t.2.2 = { a with ro := true } := by
          have := congrArg (fun q => q.2) h1; simpa using this
        rw [this]

end CC

namespace CC
open CC.Look

theorem mem_rinsert {β} {l : List (Right × β)} {k : Right} {v : β} {p : Right × β}
    (h : p ∈ rinsert l k v) : p ∈ l ∨ p = (k, v) := by
  unfold rinsert at h
  split at h
  · obtain ⟨q, hq, rfl⟩ := List.mem_map.1 h
    by_cases hk : (q.1 == k) = true
    · right; simp [hk]
    · left; simp [hk]; exact hq
  · rcases List.mem_append.1 h with h | h
    · exact Or.inl h
    · right; simpa using h

theorem mem_foldl_rinsert {β} (f : (List Nat × β) → Right × β) :
    ∀ (pts : List (List Nat × β)) (acc : List (Right × β)) (p : Right × β),
      p ∈ pts.foldl (fun acc q => rinsert acc (f q).1 (f q).2) acc → p ∈ acc ∨ ∃ q ∈ pts, p = f q := by
  intro pts
  induction pts with
  | nil => intro acc p h; exact Or.inl h
  | cons q rest ih =>
    intro acc p h
    rcases ih _ _ h with h1 | ⟨q', hq', rfl⟩
    · rcases mem_rinsert h1 with h2 | h2
      · exact Or.inl h2
      · exact Or.inr ⟨q, List.mem_cons_self, h2⟩
    · exact Or.inr ⟨q', List.mem_cons_of_mem _ hq', rfl⟩

/-- every entry of `omega` is a point of the structure, with that point's flags -/
theorem mem_omega {s : Struct} {r : Right} {h ro : Bool} (hm : (r, h, ro) ∈ s.omega) :
    ∃ p, (p, h, ro) ∈ combine (s.dims.map (·.2)) ∧ r = Right.fromPoint p := by
  unfold Struct.omega at hm
  have := mem_foldl_rinsert (β := Bool × Bool) (fun q => (Right.fromPoint q.1, q.2))
    (combine (s.dims.map (·.2))) [] (r, h, ro) hm
  rcases this with h0 | ⟨q, hq, heq⟩
  · cases h0
  · obtain ⟨p, h', ro'⟩ := q
    simp only [Prod.mk.injEq] at heq
    obtain ⟨rfl, rfl, rfl⟩ := heq
    exact ⟨p, hq, rfl⟩

/-- **a right of the structure that contains a disabled identifier is read-only in `omega`** -/
theorem omega_ro_of_disabled {s : Struct} {i : Nat} (hd : s.IdDisabled i) {r : Right} {h ro : Bool}
    (hm : (r, h, ro) ∈ s.omega) {ids : List Nat} (hr : r = Right.fromPoint ids) (hi : i ∈ ids) : ro = true := by
  obtain ⟨p, hp, rfl⟩ := mem_omega hm
  obtain ⟨as, hc, rfl, _, rfl⟩ := (mem_combine _ _ _ _).1 hp
  have hperm := (Right.fromPoint_eq_iff _ _).1 hr
  have : i ∈ as.map (·.id) := (hperm.mem_iff).2 hi
  obtain ⟨a, ha, rfl⟩ := List.mem_map.1 this
  obtain ⟨d, hdm, n, hn⟩ := hc.mem ha
  obtain ⟨⟨dn, d'⟩, hdd, rfl⟩ := List.mem_map.1 hdm
  have := hd.2 (dn, n, a) (mem_all hdd hn) rfl
  simp only [List.any_eq_true]
  exact ⟨a, ha, this⟩

end CC

namespace CC
open CC.Look

theorem keys_rinsert {β} (l : List (Right × β)) (k : Right) (v : β) (h : (l.map (·.1)).Nodup) :
    ((rinsert l k v).map (·.1)).Nodup := by
  unfold rinsert
  cases hl : l.lookup k with
  | some x =>
    simp only [Option.isSome_some, if_true]
    have : (l.map (fun p => if p.1 == k then (k, v) else p)).map (·.1) = l.map (·.1) := by
      rw [List.map_map]; apply List.map_congr_left; intro p _
      simp only [Function.comp]
      by_cases hk : (p.1 == k) = true
      · simp only [hk, if_true]; exact (eq_of_beq hk).symm
      · simp [hk]
    rw [this]; exact h
  | none =>
    simp only [Option.isSome_none, Bool.false_eq_true, if_false, List.map_append, List.map_cons, List.map_nil]
    rw [List.nodup_append]
    refine ⟨h, by simp, ?_⟩
    intro a ha b hb
    simp at hb; subst hb
    intro hab; subst hab
    rw [List.lookup_eq_none_iff] at hl
    obtain ⟨p, hp, rfl⟩ := List.mem_map.1 ha
    exact absurd (hl p hp) (by simp)

theorem omega_keys_nodup (s : Struct) : (s.omega.map (·.1)).Nodup := by
  unfold Struct.omega
  generalize combine (s.dims.map (·.2)) = pts
  have : ∀ (pts : List (List Nat × Bool × Bool)) (acc : List (Right × Bool × Bool)), (acc.map (·.1)).Nodup →
      ((pts.foldl (fun acc (x : List Nat × Bool × Bool) => rinsert acc (Right.fromPoint x.1) (x.2.1, x.2.2)) acc).map (·.1)).Nodup := by
    intro pts
    induction pts with
    | nil => intro acc h; exact h
    | cons q rest ih => intro acc h; exact ih _ (keys_rinsert _ _ _ h)
  exact this pts [] List.nodup_nil

/-- `update_msk`'s loop does not touch a right it is not asked about -/
theorem updateLoop_untouched : ∀ (rights : List (Right × Bool × Bool)) (secrets : RevMap) (n : Rng) (s : RevMap),
    (updateLoop secrets rights n).1 = .ok s → ∀ k, k ∉ rights.map (·.1) → s.getLatest k = secrets.getLatest k := by
  intro rights
  induction rights with
  | nil =>
    intro secrets n s h k _
    simp only [updateLoop, Except.ok.injEq] at h; rw [h]
  | cons p rest ih =>
    obtain ⟨r, hyb, ro⟩ := p
    intro secrets n s h k hk
    simp only [List.map_cons, List.mem_cons, not_or] at hk
    have hkr : (k == r) = false := by
      cases hb : k == r
      · rfl
      · exact absurd (eq_of_beq hb) hk.1
    unfold updateLoop at h
    cases hg : secrets.getLatest r with
    | some v =>
      simp only [hg] at h
      rw [ih _ _ _ h k hk.2, RevMap.getLatest_setLatest]; simp [hkr]
    | none =>
      simp only [hg] at h
      by_cases hro : ro = true
      · simp [hro] at h
      · simp only [hro, Bool.false_eq_true, if_false] at h
        rw [ih _ _ _ h k hk.2, RevMap.getLatest_insert]; simp [hkr]

/-- **after `update_msk`'s loop every right it was asked about carries the flag the structure
dictates**: activated iff not read-only -/
theorem updateLoop_flag : ∀ (rights : List (Right × Bool × Bool)) (secrets : RevMap) (n : Rng) (s : RevMap),
    (rights.map (·.1)).Nodup → (updateLoop secrets rights n).1 = .ok s →
    ∀ r hyb ro, (r, hyb, ro) ∈ rights → ∃ sk, s.getLatest r = some (!ro, sk) := by
  intro rights
  induction rights with
  | nil => intro _ _ _ _ _ r hyb ro hm; cases hm
  | cons p rest ih =>
    obtain ⟨r0, hyb0, ro0⟩ := p
    intro secrets n s hnd h r hyb ro hm
    simp only [List.map_cons, List.nodup_cons] at hnd
    unfold updateLoop at h
    cases hg : secrets.getLatest r0 with
    | some v =>
      simp only [hg] at h
      rcases List.mem_cons.1 hm with heq | hrest
      · simp only [Prod.mk.injEq] at heq
        obtain ⟨rfl, rfl, rfl⟩ := heq
        rw [updateLoop_untouched _ _ _ _ h r hnd.1, RevMap.getLatest_setLatest]
        simp [hg]
      · exact ih _ _ _ hnd.2 h r hyb ro hrest
    | none =>
      simp only [hg] at h
      by_cases hro : ro0 = true
      · simp [hro] at h
      · simp only [hro, Bool.false_eq_true, if_false] at h
        rcases List.mem_cons.1 hm with heq | hrest
        · simp only [Prod.mk.injEq] at heq
          obtain ⟨rfl, rfl, rfl⟩ := heq
          rw [updateLoop_untouched _ _ _ _ h r hnd.1, RevMap.getLatest_insert]
          have : ro = false := by cases ro <;> simp_all
          simp [this]
        · exact ih _ _ _ hnd.2 h r hyb ro hrest

end CC

namespace CC
open CC.Look

/-- no right containing the identifier `i` has an activated newest secret -/
def Msk.Quiet (msk : Msk) (i : Nat) : Prop :=
  ∀ ids, i ∈ ids → ∀ v, msk.secrets.getLatest (Right.fromPoint ids) = some v → v.1 = false

theorem uskKeygen_secrets (msk : Msk) (rights : List Right) (n : Rng) :
    (uskKeygen msk rights n).2.1.secrets = msk.secrets := by
  unfold uskKeygen
  cases latestRightSks msk rights with
  | error e => rfl
  | ok chains =>
    simp only
    by_cases hnt : msk.ntracers = 0
    · simp [generateUserId, hnt]
    · simp [generateUserId, hnt]

theorem refresh_secrets (msk : Msk) (usk : Usk) (keep : Bool) (n : Rng) :
    (refresh msk usk keep n).2.1.secrets = msk.secrets := by
  unfold refresh
  by_cases hv : verify msk usk = true
  · simp only [hv, Bool.not_true, Bool.false_eq_true, if_false]
    have hs := (refreshId_secrets msk usk.id n).1
    rcases hid : refreshId msk usk.id n with ⟨res, msk', n'⟩
    rw [hid] at hs
    cases res with
    | error e => exact hs
    | ok nid =>
      simp only
      generalize (if keep = true then Except.ok (refreshCoordinateKeys msk' usk.secrets)
          else latestRightSks msk' ((usk.secrets.map (·.1)).filter (fun r => msk'.secrets.containsKey r))) = nr
      cases nr <;> exact hs
  · simp only [hv, Bool.not_false, if_true]

/-- **`update_msk` deactivates every right containing a disabled identifier** (whatever the
master key held before) -/
theorem updateMsk_quiet (msk : Msk) (n : Rng) {i : Nat} (hd : msk.structure_.IdDisabled i)
    (hq : msk.Quiet i) : (updateMsk msk msk.structure_.omega n).2.1.Quiet i := by
  unfold updateMsk
  split
  · exact hq
  · simp only
    rcases hu : updateLoop (msk.secrets.retain fun r => (msk.structure_.omega.lookup r).isSome) msk.structure_.omega n with ⟨res, n'⟩
    cases res with
    | error e =>
      intro ids _ v hv
      simp [RevMap.getLatest] at hv
    | ok s =>
      simp only
      intro ids hi v hv
      have hu' : (updateLoop (msk.secrets.retain fun r => (msk.structure_.omega.lookup r).isSome) msk.structure_.omega n).1 = .ok s := by
        rw [hu]
      cases hl : msk.structure_.omega.lookup (Right.fromPoint ids) with
      | some fl =>
        obtain ⟨hyb, ro⟩ := fl
        have hm := lookup_mem hl
        have hro := omega_ro_of_disabled hd hm rfl hi
        obtain ⟨sk, hsk⟩ := updateLoop_flag _ _ _ _ (omega_keys_nodup _) hu' _ _ _ hm
        rw [hsk] at hv
        simp only [Option.some.injEq] at hv
        rw [← hv, hro]; rfl
      | none =>
        have hnot : Right.fromPoint ids ∉ msk.structure_.omega.map (·.1) := by
          intro hin
          obtain ⟨p, hp, hpe⟩ := List.mem_map.1 hin
          rw [List.lookup_eq_none_iff] at hl
          have := hl p hp
          simp [hpe] at this
        rw [updateLoop_untouched _ _ _ _ hu' _ hnot] at hv
        unfold RevMap.getLatest at hv
        rw [RevMap.lookup_retain, hl] at hv
        simp at hv

/-- the same, without assuming anything about the master key before: when the update succeeds,
or fails, the rights containing a disabled identifier are deactivated or absent -/
theorem updateMsk_makes_quiet (msk : Msk) (n : Rng) {i : Nat} (hd : msk.structure_.IdDisabled i)
    (h : (updateMsk msk msk.structure_.omega n).1 = .ok ()) : (updateMsk msk msk.structure_.omega n).2.1.Quiet i := by
  unfold updateMsk at h ⊢
  split
  · rename_i hc; simp [hc] at h
  · simp only
    rcases hu : updateLoop (msk.secrets.retain fun r => (msk.structure_.omega.lookup r).isSome) msk.structure_.omega n with ⟨res, n'⟩
    cases res with
    | error e =>
      intro ids _ v hv
      simp [RevMap.getLatest] at hv
    | ok s =>
      simp only
      intro ids hi v hv
      have hu' : (updateLoop (msk.secrets.retain fun r => (msk.structure_.omega.lookup r).isSome) msk.structure_.omega n).1 = .ok s := by
        rw [hu]
      cases hl : msk.structure_.omega.lookup (Right.fromPoint ids) with
      | some fl =>
        obtain ⟨hyb, ro⟩ := fl
        have hm := lookup_mem hl
        have hro := omega_ro_of_disabled hd hm rfl hi
        obtain ⟨sk, hsk⟩ := updateLoop_flag _ _ _ _ (omega_keys_nodup _) hu' _ _ _ hm
        rw [hsk] at hv
        simp only [Option.some.injEq] at hv
        rw [← hv, hro]; rfl
      | none =>
        have hnot : Right.fromPoint ids ∉ msk.structure_.omega.map (·.1) := by
          intro hin
          obtain ⟨p, hp, hpe⟩ := List.mem_map.1 hin
          rw [List.lookup_eq_none_iff] at hl
          have := hl p hp
          simp [hpe] at this
        rw [updateLoop_untouched _ _ _ _ hu' _ hnot] at hv
        unfold RevMap.getLatest at hv
        rw [RevMap.lookup_retain, hl] at hv
        simp at hv

/-- the pair carried through histories -/
def World.Off (w : World) (i : Nat) : Prop := w.msk.structure_.IdDisabled i ∧ w.msk.Quiet i

theorem step_off (w : World) (op : Op) {i : Nat} (hS : w.msk.structure_.WF ∧ w.msk.structure_.IdsBelow)
    (h : w.Off i) : (w.step op).Off i := by
  obtain ⟨hd, hq⟩ := h
  cases op with
  | edit e =>
    simp only [World.step]
    cases ha : w.msk.structure_.apply e with
    | ok s => exact ⟨Struct.apply_idDisabled hS.1 hS.2 ha hd, hq⟩
    | error _ => exact ⟨hd, hq⟩
  | update =>
    refine ⟨?_, updateMsk_quiet w.msk w.rng hd hq⟩
    simp only [World.step, updateMsk_structure]; exact hd
  | rekey p =>
    simp only [World.step]
    cases w.msk.structure_.uskRights p with
    | error _ => exact ⟨hd, hq⟩
    | ok rights =>
      refine ⟨by simp only [rekey_structure]; exact hd, ?_⟩
      intro ids hi v hv
      simp only at hv
      unfold rekey at hv
      split at hv
      · exact hq ids hi v hv
      · simp only at hv
        have := rekeyLoop_latest w.msk.secrets rights w.rng (Right.fromPoint ids)
        rw [hv] at this
        cases hg : w.msk.secrets.getLatest (Right.fromPoint ids) with
        | none => rw [hg] at this; simp at this
        | some v0 =>
          rw [hg] at this
          simp only [Option.map_some, Option.some.injEq, Prod.mk.injEq] at this
          rw [this.1]; exact hq ids hi v0 hg
  | prune p =>
    simp only [World.step]
    cases w.msk.structure_.uskRights p with
    | error _ => exact ⟨hd, hq⟩
    | ok rights =>
      refine ⟨hd, ?_⟩
      intro ids hi v hv
      simp only at hv
      rw [prune_latest] at hv
      exact hq ids hi v hv
  | keygen p =>
    simp only [World.step]
    cases w.msk.structure_.uskRights p with
    | error _ => exact ⟨hd, hq⟩
    | ok rights =>
      refine ⟨by simp only [uskKeygen_structure]; exact hd, ?_⟩
      intro ids hi v hv
      simp only [uskKeygen_secrets] at hv
      exact hq ids hi v hv
  | refresh usk keep =>
    refine ⟨by simp only [World.step, refresh_structure]; exact hd, ?_⟩
    intro ids hi v hv
    simp only [World.step, refresh_secrets] at hv
    exact hq ids hi v hv
  | draw k => exact ⟨hd, hq⟩

theorem steps_off (ops : List Op) : ∀ (w : World) {i : Nat}, (w.msk.structure_.WF ∧ w.msk.structure_.IdsBelow) →
    w.Off i → (ops.foldl World.step w).Off i := by
  induction ops with
  | nil => intro w i _ h; exact h
  | cons op rest ih => intro w i hS h; exact ih _ (step_struct w op hS) (step_off w op hS h)

end CC
