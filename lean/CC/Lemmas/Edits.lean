import CC.Model.Structure
import CC.Lemmas.Look
/-! Edits of the access structure: identifiers are permanent and never reissued. -/
namespace CC
open CC.Look

theorem mem_areplace {β} {l : List (String × β)} {k : String} {v : β} {p : String × β}
    (h : p ∈ areplace l k v) : p ∈ l ∨ p = (k, v) := by
  unfold areplace at h
  obtain ⟨q, hq, rfl⟩ := List.mem_map.1 h
  by_cases hk : (q.1 == k) = true
  · right; simp [hk]
  · left; simp [hk]; exact hq

theorem mem_aerase {β} {l : List (String × β)} {k : String} {p : String × β}
    (h : p ∈ aerase l k) : p ∈ l := (List.mem_filter.1 h).1

theorem mem_insertAbove {attrs : List (String × Attr)} {name after : String} {a : Attr} {q : String × Attr}
    (h : q ∈ Dim.insertAbove attrs name a after) : q ∈ attrs ∨ q = (name, a) := by
  unfold Dim.insertAbove at h
  simp only [List.mem_append, List.mem_singleton, List.mem_reverse] at h
  rcases h with (h | h) | h
  · exact Or.inl ((List.takeWhile_sublist _).subset h)
  · exact Or.inr h
  · exact Or.inl (List.mem_reverse.1 ((List.takeWhile_sublist _).subset h))

/-- every identifier in use is below the structure's counter -/
def Struct.IdsBelow (s : Struct) : Prop := ∀ p ∈ s.dims, ∀ q ∈ p.2.attrs, q.2.id < s.nextId

/-- the seven edit operations of the API -/
inductive Edit where
  | addDim (name : String) (ordered : Bool)
  | delDim (name : String)
  | addAttr (dim name : String) (hyb : Bool) (after : Option String)
  | delAttr (dim name : String)
  | rename (dim old new : String)
  | disable (dim name : String)
deriving Repr

def Struct.apply (s : Struct) : Edit → Except Err Struct
  | .addDim n o => s.addDimension n o
  | .delDim n => s.delDimension n
  | .addAttr d n h a => s.addAttribute d n h a
  | .delAttr d n => s.delAttribute d n
  | .rename d o n => s.renameAttribute d o n
  | .disable d n => s.disableAttribute d n

/-- run a list of edits; a failing edit changes nothing -/
def Struct.run (s : Struct) (es : List Edit) : Struct :=
  es.foldl (fun s e => match s.apply e with | .ok s' => s' | .error _ => s) s

theorem Struct.onDim_spec {s s' : Struct} {dim : String} {f : Dim → Except Err Dim}
    (h : s.onDim dim f = .ok s') : ∃ d d', s.dims.lookup dim = some d ∧ f d = .ok d' ∧
      s' = { s with dims := areplace s.dims dim d' } := by
  unfold Struct.onDim at h
  cases hd : s.dims.lookup dim with
  | none => simp [hd] at h
  | some d =>
    simp only [hd] at h
    cases hf : f d with
    | error e => simp [hf] at h
    | ok d' => simp only [hf, Except.ok.injEq] at h; exact ⟨d, d', rfl, hf, h.symm⟩

/-- one successful edit keeps all identifiers below the counter, never lowers the counter, and a
new attribute receives exactly the old value of the counter -/
theorem Struct.apply_idsBelow {s s' : Struct} {e : Edit} (h : s.apply e = .ok s') (hb : s.IdsBelow) :
    s'.IdsBelow ∧ s.nextId ≤ s'.nextId := by
  cases e with
  | addDim n o =>
    simp only [Struct.apply, Struct.addDimension] at h
    split at h
    · cases h
    · simp only [Except.ok.injEq] at h; subst h
      refine ⟨?_, Nat.le_refl _⟩
      intro p hp q hq
      rcases List.mem_append.1 hp with hp | hp
      · exact hb p hp q hq
      · simp at hp; subst hp; cases hq
  | delDim n =>
    simp only [Struct.apply, Struct.delDimension] at h
    split at h
    · simp only [Except.ok.injEq] at h; subst h
      exact ⟨fun p hp q hq => hb p (mem_aerase hp) q hq, Nat.le_refl _⟩
    · cases h
  | addAttr d n hy af =>
    simp only [Struct.apply, Struct.addAttribute] at h
    cases hd : s.dims.lookup d with
    | none => simp [hd] at h
    | some dm =>
      simp only [hd] at h
      cases hf : dm.addAttribute n hy af s.nextId with
      | error e => simp [hf] at h
      | ok d' =>
        simp only [hf, Except.ok.injEq] at h; subst h
        refine ⟨?_, Nat.le_succ _⟩
        have hdm : (d, dm) ∈ s.dims := lookup_mem hd
        have hd' : ∀ q ∈ d'.attrs, q ∈ dm.attrs ∨ q.2.id = s.nextId := by
          intro q hq
          unfold Dim.addAttribute at hf
          by_cases ho : dm.ordered = true
          · simp only [ho, if_true] at hf
            split at hf
            · cases hf
            · cases af with
              | none =>
                simp only [Except.ok.injEq] at hf; subst hf
                rcases mem_insertAbove hq with h1 | h1
                · exact Or.inl h1
                · right; rw [h1]
              | some a =>
                simp only at hf
                split at hf
                · cases hf
                · simp only [Except.ok.injEq] at hf; subst hf
                  rcases mem_insertAbove hq with h1 | h1
                  · exact Or.inl h1
                  · right; rw [h1]
          · simp only [ho, Bool.false_eq_true, if_false] at hf
            split at hf
            · cases hf
            · simp only [Except.ok.injEq] at hf; subst hf
              rcases List.mem_append.1 hq with h1 | h1
              · exact Or.inl h1
              · right; simp at h1; rw [h1]
        intro p hp q hq
        simp only at hp ⊢
        rcases mem_areplace hp with hp | hp
        · exact Nat.lt_succ_of_lt (hb p hp q hq)
        · subst hp
          rcases hd' q hq with h1 | h1
          · exact Nat.lt_succ_of_lt (hb _ hdm q h1)
          · rw [h1]; exact Nat.lt_succ_self _
  | delAttr d n =>
    simp only [Struct.apply, Struct.delAttribute] at h
    obtain ⟨dm, d', hd, hf, rfl⟩ := Struct.onDim_spec h
    refine ⟨?_, Nat.le_refl _⟩
    have hdm : (d, dm) ∈ s.dims := lookup_mem hd
    unfold Dim.removeAttribute at hf
    split at hf
    · simp only [Except.ok.injEq] at hf; subst hf
      intro p hp q hq
      rcases mem_areplace hp with hp | hp
      · exact hb p hp q hq
      · subst hp; exact hb _ hdm q (mem_aerase hq)
    · cases hf
  | rename d o n =>
    simp only [Struct.apply, Struct.renameAttribute] at h
    obtain ⟨dm, d', hd, hf, rfl⟩ := Struct.onDim_spec h
    refine ⟨?_, Nat.le_refl _⟩
    have hdm : (d, dm) ∈ s.dims := lookup_mem hd
    have hd' : ∀ q ∈ d'.attrs, ∃ q' ∈ dm.attrs, q'.2 = q.2 := by
      intro q hq
      unfold Dim.renameAttribute at hf
      by_cases ho : dm.ordered = true
      · simp only [ho, if_true] at hf
        cases hl : dm.attrs.lookup o with
        | none => simp [hl] at hf
        | some a =>
          simp only [hl] at hf
          split at hf
          · cases hf
          · simp only [Except.ok.injEq] at hf; subst hf
            obtain ⟨q', hq', rfl⟩ := List.mem_map.1 hq
            exact ⟨q', hq', by split <;> rfl⟩
      · simp only [ho, Bool.false_eq_true, if_false] at hf
        split at hf
        · cases hf
        · cases hl : dm.attrs.lookup o with
          | none => simp [hl] at hf
          | some a =>
            simp only [hl, Except.ok.injEq] at hf; subst hf
            rcases List.mem_append.1 hq with h1 | h1
            · exact ⟨q, mem_aerase h1, rfl⟩
            · simp at h1; subst h1; exact ⟨(o, a), lookup_mem hl, rfl⟩
    intro p hp q hq
    rcases mem_areplace hp with hp | hp
    · exact hb p hp q hq
    · subst hp
      obtain ⟨q', hq', heq⟩ := hd' q hq
      rw [← heq]; exact hb _ hdm q' hq'
  | disable d n =>
    simp only [Struct.apply, Struct.disableAttribute] at h
    obtain ⟨dm, d', hd, hf, rfl⟩ := Struct.onDim_spec h
    refine ⟨?_, Nat.le_refl _⟩
    have hdm : (d, dm) ∈ s.dims := lookup_mem hd
    unfold Dim.disableAttribute at hf
    cases hl : dm.attrs.lookup n with
    | none => simp [hl] at hf
    | some a =>
      simp only [hl, Except.ok.injEq] at hf; subst hf
      intro p hp q hq
      rcases mem_areplace hp with hp | hp
      · exact hb p hp q hq
      · subst hp
        rcases mem_areplace hq with h1 | h1
        · exact hb _ hdm q h1
        · subst h1; exact hb _ hdm (n, a) (lookup_mem hl)

theorem Struct.run_idsBelow (s : Struct) (es : List Edit) (hb : s.IdsBelow) :
    (s.run es).IdsBelow ∧ s.nextId ≤ (s.run es).nextId := by
  induction es generalizing s with
  | nil => exact ⟨hb, Nat.le_refl _⟩
  | cons e es ih =>
    simp only [Struct.run, List.foldl_cons]
    cases h : s.apply e with
    | error _ => exact ih s hb
    | ok s' =>
      obtain ⟨hb', hle⟩ := Struct.apply_idsBelow h hb
      obtain ⟨h1, h2⟩ := ih s' hb'
      exact ⟨h1, Nat.le_trans hle h2⟩

end CC
