import CC.Lemmas.Kem
/-! The invariant behind the end-to-end theorems: the rights of the master key are distinct map
keys, no token serves two rights, and every token was drawn before the current counter value.
It holds after `setup` and is preserved by `update_msk`, `rekey`, `prune`, key generation and
refresh — hence in every state reachable through the API. -/
namespace CC
open CC.Look

/-- all tokens of the master key are below the counter -/
def RevMap.Below (m : RevMap) (n : Nat) : Prop := ∀ r c, (r, c) ∈ m → ∀ s ∈ c, s.2.tok < n

/-- no token serves two rights -/
def RevMap.TokInj (m : RevMap) : Prop :=
  ∀ r1 c1 r2 c2 (s1 s2 : Bool × Sk), (r1, c1) ∈ m → (r2, c2) ∈ m → s1 ∈ c1 → s2 ∈ c2 → s1.2.tok = s2.2.tok → r1 = r2

structure RevMap.Inv (m : RevMap) (n : Nat) : Prop where
  keys : (m.map (·.1)).Nodup
  inj : m.TokInj
  below : m.Below n

theorem RevMap.Inv.nil (n : Nat) : RevMap.Inv ([] : RevMap) n := by
  refine ⟨List.nodup_nil, ?_, ?_⟩
  · intro r1 c1 r2 c2 s1 s2 h1; cases h1
  · intro r c h1; cases h1

theorem RevMap.Inv.mono {m : RevMap} {n n' : Nat} (h : m.Inv n) (hle : n ≤ n') : m.Inv n' :=
  ⟨h.keys, h.inj, fun r c hm s hs => Nat.lt_of_lt_of_le (h.below r c hm s hs) hle⟩

theorem keys_mapVal {β} (m : List (Right × β)) (r : Right) (f : β → β) :
    (m.map (fun p => if p.1 == r then (p.1, f p.2) else p)).map (·.1) = m.map (·.1) := by
  induction m with
  | nil => rfl
  | cons p ps ih =>
    simp only [List.map_cons, ih]
    congr 1
    split <;> rfl

theorem mem_mapVal {β} {m : List (Right × β)} {r : Right} {f : β → β} {k : Right} {c : β}
    (h : (k, c) ∈ m.map (fun p => if p.1 == r then (p.1, f p.2) else p)) :
    ∃ c0, (k, c0) ∈ m ∧ ((k = r ∧ c = f c0) ∨ (k ≠ r ∧ c = c0)) := by
  obtain ⟨⟨k', c'⟩, hm, heq⟩ := List.mem_map.1 h
  by_cases hk : (k' == r) = true
  · simp only [hk, if_true, Prod.mk.injEq] at heq
    obtain ⟨rfl, rfl⟩ := heq
    exact ⟨c', hm, Or.inl ⟨eq_of_beq hk, rfl⟩⟩
  · simp only [hk, Bool.false_eq_true, if_false, Prod.mk.injEq] at heq
    obtain ⟨rfl, rfl⟩ := heq
    exact ⟨c', hm, Or.inr ⟨fun h => hk (by simp [h]), rfl⟩⟩

/-- inserting a fresh token at the front of the chain of `r` (or starting its chain) -/
theorem RevMap.Inv.insert {m : RevMap} {n : Nat} (h : m.Inv n) (r : Right) (act hyb : Bool) :
    (m.insert r (act, ⟨n, hyb⟩)).Inv (n + 1) := by
  unfold RevMap.insert
  cases hl : m.lookup r with
  | none =>
    simp only [Option.isSome_none, Bool.false_eq_true, if_false]
    have hnotin : r ∉ m.map (·.1) := lookup_eq_none_iff.1 hl
    refine ⟨?_, ?_, ?_⟩
    · rw [List.map_append, List.nodup_append]
      refine ⟨h.keys, by simp, ?_⟩
      intro x hx y hy hxy
      simp at hy; subst hy; subst hxy
      exact hnotin hx
    · intro r1 c1 r2 c2 s1 s2 h1 h2 hs1 hs2 htok
      rcases List.mem_append.1 h1 with a1 | a1 <;> rcases List.mem_append.1 h2 with a2 | a2
      · exact h.inj r1 c1 r2 c2 s1 s2 a1 a2 hs1 hs2 htok
      · simp only [List.mem_singleton, Prod.mk.injEq] at a2
        have hlt := h.below r1 c1 a1 s1 hs1
        rw [a2.2] at hs2
        simp only [List.mem_singleton] at hs2
        rw [hs2] at htok
        simp only at htok
        rw [htok] at hlt
        exact absurd hlt (Nat.lt_irrefl _)
      · simp only [List.mem_singleton, Prod.mk.injEq] at a1
        have hlt := h.below r2 c2 a2 s2 hs2
        rw [a1.2] at hs1
        simp only [List.mem_singleton] at hs1
        rw [hs1] at htok
        simp only at htok
        rw [← htok] at hlt
        exact absurd hlt (Nat.lt_irrefl _)
      · simp only [List.mem_singleton, Prod.mk.injEq] at a1 a2; rw [a1.1, a2.1]
    · intro k c hm s hs
      rcases List.mem_append.1 hm with hm | hm
      · exact Nat.lt_succ_of_lt (h.below k c hm s hs)
      · simp at hm; obtain ⟨rfl, rfl⟩ := hm
        simp at hs; subst hs; exact Nat.lt_succ_self _
  | some c0 =>
    simp only [Option.isSome_some, if_true]
    refine ⟨by rw [keys_mapVal]; exact h.keys, ?_, ?_⟩
    · intro r1 c1 r2 c2 s1 s2 h1 h2 hs1 hs2 htok
      obtain ⟨d1, hd1, hc1⟩ := mem_mapVal h1
      obtain ⟨d2, hd2, hc2⟩ := mem_mapVal h2
      -- a member of the new chain is the fresh token or a member of the old chain
      have old1 : s1 ∈ d1 ∨ (r1 = r ∧ s1 = (act, ⟨n, hyb⟩)) := by
        rcases hc1 with ⟨hk, hcd⟩ | ⟨_, hcd⟩
        · rw [hcd] at hs1
          rcases List.mem_cons.1 hs1 with hsx | hs
          · exact Or.inr ⟨hk, hsx⟩
          · exact Or.inl hs
        · rw [hcd] at hs1; exact Or.inl hs1
      have old2 : s2 ∈ d2 ∨ (r2 = r ∧ s2 = (act, ⟨n, hyb⟩)) := by
        rcases hc2 with ⟨hk, hcd⟩ | ⟨_, hcd⟩
        · rw [hcd] at hs2
          rcases List.mem_cons.1 hs2 with hsx | hs
          · exact Or.inr ⟨hk, hsx⟩
          · exact Or.inl hs
        · rw [hcd] at hs2; exact Or.inl hs2
      rcases old1 with o1 | ⟨hr1, e1⟩ <;> rcases old2 with o2 | ⟨hr2, e2⟩
      · exact h.inj r1 d1 r2 d2 s1 s2 hd1 hd2 o1 o2 htok
      · have hlt := h.below r1 d1 hd1 s1 o1
        rw [e2] at htok
        simp only at htok
        rw [htok] at hlt
        exact absurd hlt (Nat.lt_irrefl _)
      · have hlt := h.below r2 d2 hd2 s2 o2
        rw [e1] at htok
        simp only at htok
        rw [← htok] at hlt
        exact absurd hlt (Nat.lt_irrefl _)
      · rw [hr1, hr2]
    · intro k c hm s hs
      obtain ⟨d, hd, hc⟩ := mem_mapVal hm
      rcases hc with ⟨_, hcd⟩ | ⟨_, hcd⟩
      · rw [hcd] at hs
        rcases List.mem_cons.1 hs with hsx | hs'
        · rw [hsx]; exact Nat.lt_succ_self _
        · exact Nat.lt_succ_of_lt (h.below k d hd s hs')
      · rw [hcd] at hs; exact Nat.lt_succ_of_lt (h.below k d hd s hs)

/-- replacing the newest secret by one with the same token (flag / flavour update) -/
theorem RevMap.Inv.setLatest {m : RevMap} {n : Nat} (h : m.Inv n) (r : Right) (act : Bool) (sk sk' : Sk) (a0 : Bool)
    (hl : m.getLatest r = some (a0, sk)) (htok : sk'.tok = sk.tok) : (m.setLatest r (act, sk')).Inv n := by
  unfold RevMap.setLatest
  -- every member of a new chain has the token of a member of the corresponding old chain
  have key : ∀ k c, (k, c) ∈ m.map (fun p => if p.1 == r then (p.1, RevMap.setHead (act, sk') p.2) else p) →
      ∃ d, (k, d) ∈ m ∧ ∀ s ∈ c, ∃ s0 ∈ d, s0.2.tok = s.2.tok := by
    intro k c hm
    obtain ⟨d, hd, hc⟩ := mem_mapVal (f := RevMap.setHead (act, sk')) hm
    refine ⟨d, hd, ?_⟩
    rcases hc with ⟨hk, hcd⟩ | ⟨_, hcd⟩
    · intro s hs
      rw [hcd] at hs
      cases d with
      | nil => simp [RevMap.setHead] at hs
      | cons x tl =>
        simp only [RevMap.setHead] at hs
        rcases List.mem_cons.1 hs with hsx | hs'
        · have hx : x = (a0, sk) := by
            have hlk := mem_lookup_of_nodup h.keys hd
            unfold RevMap.getLatest at hl
            rw [hk] at hlk
            rw [hlk] at hl
            simpa using hl
          refine ⟨x, List.mem_cons_self, ?_⟩
          rw [hx, hsx]; exact htok.symm
        · exact ⟨s, List.mem_cons_of_mem _ hs', rfl⟩
    · intro s hs; rw [hcd] at hs; exact ⟨s, hs, rfl⟩
  refine ⟨by rw [keys_mapVal (f := RevMap.setHead (act, sk'))]; exact h.keys, ?_, ?_⟩
  · intro r1 c1 r2 c2 s1 s2 h1 h2 hs1 hs2 ht
    obtain ⟨d1, hd1, hm1⟩ := key r1 c1 h1
    obtain ⟨d2, hd2, hm2⟩ := key r2 c2 h2
    obtain ⟨t1, ht1, e1⟩ := hm1 s1 hs1
    obtain ⟨t2, ht2, e2⟩ := hm2 s2 hs2
    exact h.inj r1 d1 r2 d2 t1 t2 hd1 hd2 ht1 ht2 (by rw [e1, e2, ht])
  · intro k c hm s hs
    obtain ⟨d, hd, hmm⟩ := key k c hm
    obtain ⟨t, ht, e⟩ := hmm s hs
    rw [← e]; exact h.below k d hd t ht

theorem RevMap.Inv.retain {m : RevMap} {n : Nat} (h : m.Inv n) (f : Right → Bool) : (m.retain f).Inv n := by
  unfold RevMap.retain
  have hsub : ∀ p, p ∈ m.filter (fun p => f p.1) → p ∈ m := fun p hp => (List.mem_filter.1 hp).1
  refine ⟨h.keys.sublist ((List.filter_sublist).map _), ?_, ?_⟩
  · intro r1 c1 r2 c2 s1 s2 h1 h2; exact h.inj r1 c1 r2 c2 s1 s2 (hsub _ h1) (hsub _ h2)
  · intro k c hm; exact h.below k c (hsub _ hm)

theorem RevMap.Inv.keep {m : RevMap} {n : Nat} (h : m.Inv n) (r : Right) (k : Nat) : (m.keep r k).Inv n := by
  unfold RevMap.keep
  have key : ∀ q c, (q, c) ∈ m.map (fun p => if p.1 == r then (p.1, RevMap.keepN k p.2) else p) →
      ∃ d, (q, d) ∈ m ∧ ∀ s ∈ c, s ∈ d := by
    intro q c hm
    obtain ⟨d, hd, hc⟩ := mem_mapVal (f := RevMap.keepN k) hm
    refine ⟨d, hd, ?_⟩
    rcases hc with ⟨_, hcd⟩ | ⟨_, hcd⟩
    · intro s hs
      rw [hcd] at hs
      unfold RevMap.keepN at hs
      split at hs
      · exact List.mem_of_mem_take hs
      · exact hs
    · intro s hs; rw [hcd] at hs; exact hs
  refine ⟨by rw [keys_mapVal (f := RevMap.keepN k)]; exact h.keys, ?_, ?_⟩
  · intro r1 c1 r2 c2 s1 s2 h1 h2 hs1 hs2 ht
    obtain ⟨d1, hd1, hm1⟩ := key r1 c1 h1
    obtain ⟨d2, hd2, hm2⟩ := key r2 c2 h2
    exact h.inj r1 d1 r2 d2 s1 s2 hd1 hd2 (hm1 s1 hs1) (hm2 s2 hs2) ht
  · intro q c hm s hs
    obtain ⟨d, hd, hmm⟩ := key q c hm
    exact h.below q d hd s (hmm s hs)

/-- the `update_msk` loop preserves the invariant and only moves the counter forward -/
theorem updateLoop_inv : ∀ (rights : List (Right × Bool × Bool)) (secrets : RevMap) (n : Rng) (s : RevMap),
    secrets.Inv n → (updateLoop secrets rights n).1 = .ok s → s.Inv (updateLoop secrets rights n).2 ∧ n ≤ (updateLoop secrets rights n).2
  | [], secrets, n, s, h, hs => by
    simp only [updateLoop, Except.ok.injEq] at hs ⊢; subst hs; exact ⟨h, Nat.le_refl _⟩
  | (r, hyb, ro) :: rest, secrets, n, s, h, hs => by
    unfold updateLoop at hs ⊢
    cases hl : secrets.getLatest r with
    | some v =>
      obtain ⟨a0, sk⟩ := v
      simp only [hl] at hs ⊢
      have h' := h.setLatest r (!ro) sk (if hyb = true then sk else sk.dropHyb) a0 hl (by split <;> rfl)
      exact updateLoop_inv rest _ n s h' hs
    | none =>
      simp only [hl] at hs ⊢
      cases ro with
      | true => simp at hs
      | false =>
        simp only [Bool.false_eq_true, if_false] at hs ⊢
        have h' := h.insert r true hyb
        obtain ⟨h1, h2⟩ := updateLoop_inv rest _ (n + 1) s h' hs
        exact ⟨h1, Nat.le_trans (Nat.le_succ n) h2⟩

theorem rekeyLoop_inv : ∀ (rights : List Right) (secrets : RevMap) (n : Rng),
    secrets.Inv n → (rekeyLoop secrets rights n).2.1.Inv (rekeyLoop secrets rights n).2.2 ∧ n ≤ (rekeyLoop secrets rights n).2.2
  | [], secrets, n, h => ⟨h, Nat.le_refl _⟩
  | r :: rest, secrets, n, h => by
    unfold rekeyLoop
    split
    · cases hl : secrets.getLatest r with
      | none => exact ⟨h, Nat.le_refl _⟩
      | some v =>
        obtain ⟨act, sk⟩ := v
        simp only
        obtain ⟨h1, h2⟩ := rekeyLoop_inv rest _ (n + 1) (h.insert r act sk.hyb)
        exact ⟨h1, Nat.le_trans (Nat.le_succ n) h2⟩
    · exact ⟨h, Nat.le_refl _⟩

/-- the invariant of the master key, with the counter -/
def Msk.Inv (msk : Msk) (n : Rng) : Prop := msk.secrets.Inv n

theorem Msk.Inv.distinct {msk : Msk} {n : Rng} (h : msk.Inv n) : msk.Distinct :=
  ⟨h.keys, h.inj⟩

theorem setup_inv (n : Rng) (k : Nat) : (setup n k).1.Inv (setup n k).2 := by
  unfold Msk.Inv setup
  exact RevMap.Inv.nil _

theorem updateMsk_inv (msk : Msk) (rights : List (Right × Bool × Bool)) (n : Rng) (h : msk.Inv n) :
    (updateMsk msk rights n).2.1.Inv (updateMsk msk rights n).2.2 ∧ n ≤ (updateMsk msk rights n).2.2 := by
  unfold updateMsk
  split
  · exact ⟨h, Nat.le_refl _⟩
  · have hret : (msk.secrets.retain (fun r => (rights.lookup r).isSome)).Inv n := RevMap.Inv.retain h _
    rcases hu : updateLoop (msk.secrets.retain fun r => (rights.lookup r).isSome) rights n with ⟨res, n'⟩
    cases res with
    | error e =>
      simp only [hu]
      refine ⟨RevMap.Inv.nil _, ?_⟩
      -- the counter only moves forward, whatever the outcome
      have : ∀ (rs : List (Right × Bool × Bool)) (sec : RevMap) (m : Rng), m ≤ (updateLoop sec rs m).2 := by
        intro rs
        induction rs with
        | nil => intro sec m; exact Nat.le_refl _
        | cons p ps ih =>
          intro sec m
          obtain ⟨r, hy, ro⟩ := p
          unfold updateLoop
          cases sec.getLatest r with
          | some v => exact ih _ m
          | none =>
            simp only
            split
            · exact Nat.le_refl _
            · exact Nat.le_trans (Nat.le_succ m) (ih _ (m + 1))
      have := this rights (msk.secrets.retain fun r => (rights.lookup r).isSome) n
      rw [hu] at this; exact this
    | ok s =>
      simp only [hu]
      have := updateLoop_inv rights _ n s hret (by rw [hu])
      rw [hu] at this
      exact this

theorem rekey_inv (msk : Msk) (rights : List Right) (n : Rng) (h : msk.Inv n) :
    (rekey msk rights n).2.1.Inv (rekey msk rights n).2.2 ∧ n ≤ (rekey msk rights n).2.2 := by
  unfold rekey
  split
  · exact ⟨h, Nat.le_refl _⟩
  · exact rekeyLoop_inv rights msk.secrets n h

theorem prune_inv (msk : Msk) (rights : List Right) (n : Rng) (h : msk.Inv n) : (prune msk rights).Inv n := by
  unfold prune Msk.Inv
  simp only
  have : ∀ (rs : List Right) (s : RevMap), s.Inv n → (rs.foldl (fun s r => s.keep r 1) s).Inv n := by
    intro rs
    induction rs with
    | nil => intro s hs; exact hs
    | cons r rest ih => intro s hs; exact ih _ (hs.keep r 1)
  exact this rights msk.secrets h

theorem uskKeygen_inv (msk : Msk) (rights : List Right) (n : Rng) (h : msk.Inv n) :
    (uskKeygen msk rights n).2.1.Inv (uskKeygen msk rights n).2.2 ∧ n ≤ (uskKeygen msk rights n).2.2 := by
  unfold uskKeygen
  cases latestRightSks msk rights with
  | error e => exact ⟨h, Nat.le_refl _⟩
  | ok chains =>
    simp only
    by_cases hnt : msk.ntracers = 0
    · simp only [generateUserId, hnt, if_true]
      exact ⟨h, Nat.le_refl _⟩
    · simp only [generateUserId, hnt, if_false]
      exact ⟨RevMap.Inv.mono h (Nat.le_add_right _ _), Nat.le_add_right _ _⟩

end CC
