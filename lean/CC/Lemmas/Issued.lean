import CC.Lemmas.Rotation
/-! Keys issued by the master key stay refreshable: the signing key and the tracing level never
change, registered identifiers of the current level are never removed, master chains are never
empty. -/
namespace CC
open CC.Look

/-- `usk` is a key this master key issued (by generation or refresh): its signature verifies, its
identifier is registered and has the master key's tracing level -/
def Issued (msk : Msk) (usk : Usk) : Prop :=
  verify msk usk = true ∧ usk.id ∈ msk.users ∧ usk.id.length = msk.ntracers

/-- the fields of the master key that `Issued` depends on -/
def SameAuthority (m m' : Msk) : Prop :=
  m'.signKey = m.signKey ∧ m'.ntracers = m.ntracers ∧ ∀ id ∈ m.users, id.length = m.ntracers → id ∈ m'.users

theorem SameAuthority.refl (m : Msk) : SameAuthority m m := ⟨rfl, rfl, fun _ h _ => h⟩

theorem SameAuthority.issued {m m' : Msk} (h : SameAuthority m m') {usk : Usk} (hi : Issued m usk) : Issued m' usk := by
  obtain ⟨hv, hid, hl⟩ := hi
  refine ⟨?_, h.2.2 _ hid hl, by rw [h.2.1]; exact hl⟩
  unfold verify sign at hv ⊢
  rw [h.1]; exact hv

theorem generateUserId_same (msk : Msk) (n : Rng) : SameAuthority msk (generateUserId msk n).2.1 := by
  unfold generateUserId
  by_cases hnt : msk.ntracers = 0
  · simp only [hnt, if_true]; exact SameAuthority.refl _
  · simp only [hnt, if_false]
    refine ⟨rfl, rfl, ?_⟩
    intro id hid _
    simp only
    split
    · exact hid
    · exact List.mem_append_left _ hid

theorem refreshId_same (msk : Msk) (id : UserId) (n : Rng) : SameAuthority msk (refreshId msk id n).2.1 := by
  unfold refreshId
  by_cases hk : id ∈ msk.users
  · by_cases hl : id.length = msk.ntracers
    · simp only [hk, not_true_eq_false, if_false, hl, ne_eq]; exact SameAuthority.refl _
    · simp only [hk, not_true_eq_false, if_false, hl, ne_eq, not_false_eq_true, if_true]
      have hg := generateUserId_same msk n
      rcases hgen : generateUserId msk n with ⟨res, m', n'⟩
      rw [hgen] at hg
      cases res with
      | error e => exact hg
      | ok nid =>
        simp only
        refine ⟨hg.1, hg.2.1, ?_⟩
        intro i hi hil
        simp only [List.mem_filter, decide_eq_true_eq]
        exact ⟨hg.2.2 i hi hil, fun heq => hl (heq ▸ hil)⟩
  · simp only [hk, if_true]; exact SameAuthority.refl _

theorem updateMsk_same (msk : Msk) (rights : List (Right × Bool × Bool)) (n : Rng) : SameAuthority msk (updateMsk msk rights n).2.1 := by
  unfold updateMsk
  split
  · exact SameAuthority.refl _
  · simp only
    rcases updateLoop (msk.secrets.retain fun r => (rights.lookup r).isSome) rights n with ⟨res, n'⟩
    cases res <;> exact ⟨rfl, rfl, fun _ h _ => h⟩

theorem rekey_same (msk : Msk) (rights : List Right) (n : Rng) : SameAuthority msk (rekey msk rights n).2.1 := by
  unfold rekey; split <;> exact ⟨rfl, rfl, fun _ h _ => h⟩

theorem uskKeygen_same (msk : Msk) (rights : List Right) (n : Rng) : SameAuthority msk (uskKeygen msk rights n).2.1 := by
  unfold uskKeygen
  cases latestRightSks msk rights with
  | error e => exact SameAuthority.refl _
  | ok chains =>
    simp only
    have hg := generateUserId_same msk n
    rcases hgen : generateUserId msk n with ⟨res, m', n'⟩
    rw [hgen] at hg
    cases res <;> exact hg

theorem refresh_same (msk : Msk) (usk : Usk) (keep : Bool) (n : Rng) : SameAuthority msk (refresh msk usk keep n).2.1 := by
  unfold refresh
  by_cases hv : verify msk usk = true
  · simp only [hv, Bool.not_true, Bool.false_eq_true, if_false]
    have hs := refreshId_same msk usk.id n
    rcases hid : refreshId msk usk.id n with ⟨res, msk', n'⟩
    rw [hid] at hs
    cases res with
    | error e => exact hs
    | ok nid =>
      simp only
      generalize (if keep = true then Except.ok (refreshCoordinateKeys msk' usk.secrets)
          else latestRightSks msk' ((usk.secrets.map (·.1)).filter (fun r => msk'.secrets.containsKey r))) = nr
      cases nr <;> exact hs
  · simp only [hv, Bool.not_false, if_true]; exact SameAuthority.refl _

theorem step_same (w : World) (op : Op) : SameAuthority w.msk (w.step op).msk := by
  cases op with
  | edit e =>
    simp only [World.step]
    cases w.msk.structure_.apply e <;> exact ⟨rfl, rfl, fun _ h _ => h⟩
  | update => exact updateMsk_same _ _ _
  | rekey p =>
    simp only [World.step]
    cases w.msk.structure_.uskRights p with
    | error _ => exact SameAuthority.refl _
    | ok rights => exact rekey_same _ _ _
  | prune p =>
    simp only [World.step]
    cases w.msk.structure_.uskRights p with
    | error _ => exact SameAuthority.refl _
    | ok rights => exact ⟨rfl, rfl, fun _ h _ => h⟩
  | keygen p =>
    simp only [World.step]
    cases w.msk.structure_.uskRights p with
    | error _ => exact SameAuthority.refl _
    | ok rights => exact uskKeygen_same _ _ _
  | refresh usk keep => exact refresh_same _ _ _ _
  | draw k => exact SameAuthority.refl _

theorem SameAuthority.trans {a b c : Msk} (h1 : SameAuthority a b) (h2 : SameAuthority b c) : SameAuthority a c :=
  ⟨h2.1.trans h1.1, h2.2.1.trans h1.2.1, fun id hid hl => h2.2.2 id (h1.2.2 id hid hl) (by rw [h1.2.1]; exact hl)⟩

/-- a key issued in some world is still an issued key after any further operations -/
theorem issued_stable (w : World) (ops : List Op) (usk : Usk) (h : Issued w.msk usk) :
    Issued (ops.foldl World.step w).msk usk := by
  induction ops generalizing w with
  | nil => exact h
  | cons op rest ih => exact ih (w.step op) ((step_same w op).issued h)

/-- key generation issues a key -/
theorem keygen_issues (msk : Msk) (rights : List Right) (n : Rng) (usk : Usk)
    (h : (uskKeygen msk rights n).1 = .ok usk) : Issued (uskKeygen msk rights n).2.1 usk := by
  unfold uskKeygen at h ⊢
  cases hl : latestRightSks msk rights with
  | error e => simp [hl] at h
  | ok chains =>
    simp only [hl] at h ⊢
    by_cases hnt : msk.ntracers = 0
    · simp [generateUserId, hnt] at h
    · simp only [generateUserId, hnt, if_false, Except.ok.injEq] at h ⊢
      subst h
      refine ⟨by simp [verify], ?_, by simp⟩
      simp only
      split
      · assumption
      · simp

/-- **An issued key is always refreshable**, with either flag, in every reachable world — whatever
was rekeyed, pruned or deleted since it was issued -/
theorem issued_refresh_ok (w : World) (hw : Reachable w) (usk : Usk) (hi : Issued w.msk usk) (keep : Bool) :
    (refresh w.msk usk keep w.rng).1 = .ok () := by
  obtain ⟨hv, hid, hl⟩ := hi
  unfold refresh
  simp only [hv, Bool.not_true, Bool.false_eq_true, if_false]
  have hrid : refreshId w.msk usk.id w.rng = (.ok usk.id, w.msk, w.rng) := by simp [refreshId, hid, hl]
  simp only [hrid]
  cases keep with
  | true => simp
  | false =>
    simp only [Bool.false_eq_true, if_false]
    -- every right still in the master key has a newest secret: chains are never empty
    have hne := reachable_nonEmpty w hw
    have : ∀ (rs : List Right), (∀ r ∈ rs, w.msk.secrets.containsKey r = true) → ∃ nr, latestRightSks w.msk rs = .ok nr := by
      intro rs
      induction rs with
      | nil => intro _; exact ⟨[], rfl⟩
      | cons r rest ih =>
        intro hall
        obtain ⟨tl, htl⟩ := ih (fun x hx => hall x (List.mem_cons_of_mem _ hx))
        have hc := hall r List.mem_cons_self
        unfold RevMap.containsKey at hc
        cases hlk : w.msk.secrets.lookup r with
        | none => simp [hlk] at hc
        | some c =>
          have hcne := hne r c (lookup_mem hlk)
          cases c with
          | nil => exact absurd rfl hcne
          | cons x xs =>
            obtain ⟨a, sk⟩ := x
            refine ⟨(r, [sk]) :: tl, ?_⟩
            simp [latestRightSks, RevMap.getLatest, hlk, htl]
    obtain ⟨nr, hnr⟩ := this ((usk.secrets.map (·.1)).filter (fun r => w.msk.secrets.containsKey r))
      (fun r hr => (List.mem_filter.1 hr).2)
    simp [hnr]

end CC

namespace CC
open CC.Look

theorem generateUserId_users (msk : Msk) (n : Rng) :
    ∀ id ∈ (generateUserId msk n).2.1.users, id ∈ msk.users ∨ (∀ m ∈ id, n ≤ m ∧ m < (generateUserId msk n).2.2) := by
  unfold generateUserId
  by_cases hnt : msk.ntracers = 0
  · simp only [hnt, if_true]; intro id hid; exact Or.inl hid
  · simp only [hnt, if_false]
    intro id hid
    split at hid
    · exact Or.inl hid
    · rcases List.mem_append.1 hid with h | h
      · exact Or.inl h
      · right
        simp only [List.mem_singleton] at h
        subst h
        intro m hm
        obtain ⟨k, hk, rfl⟩ := List.mem_map.1 hm
        have := List.mem_range.1 hk
        exact ⟨Nat.le_add_left _ _, by omega⟩

theorem generateUserId_mono (msk : Msk) (n : Rng) : n ≤ (generateUserId msk n).2.2 := by
  unfold generateUserId
  by_cases hnt : msk.ntracers = 0
  · simp [hnt]
  · simp only [hnt, if_false]; exact Nat.le_add_right _ _

/-- every identifier registered after an operation was registered before it, or is made of tokens
drawn by that operation -/
theorem step_users (w : World) (op : Op) :
    ∀ id ∈ (w.step op).msk.users, id ∈ w.msk.users ∨ (∀ m ∈ id, w.rng ≤ m ∧ m < (w.step op).rng) := by
  cases op with
  | edit e =>
    simp only [World.step]
    cases w.msk.structure_.apply e <;> exact fun id h => Or.inl h
  | update =>
    simp only [World.step]
    unfold updateMsk
    split
    · exact fun id h => Or.inl h
    · simp only
      rcases updateLoop (w.msk.secrets.retain fun r => (w.msk.structure_.omega.lookup r).isSome) w.msk.structure_.omega w.rng with ⟨res, n'⟩
      cases res <;> exact fun id h => Or.inl h
  | rekey p =>
    simp only [World.step]
    cases w.msk.structure_.uskRights p with
    | error _ => exact fun id h => Or.inl h
    | ok rights =>
      simp only
      unfold rekey
      split <;> exact fun id h => Or.inl h
  | prune p =>
    simp only [World.step]
    cases w.msk.structure_.uskRights p with
    | error _ => exact fun id h => Or.inl h
    | ok rights => exact fun id h => Or.inl h
  | keygen p =>
    simp only [World.step]
    cases w.msk.structure_.uskRights p with
    | error _ => exact fun id h => Or.inl h
    | ok rights =>
      simp only
      unfold uskKeygen
      cases latestRightSks w.msk rights with
      | error e => exact fun id h => Or.inl h
      | ok chains =>
        simp only
        have hg := generateUserId_users w.msk w.rng
        rcases hgen : generateUserId w.msk w.rng with ⟨res, m', n'⟩
        rw [hgen] at hg
        cases res <;> exact hg
  | refresh usk keep =>
    simp only [World.step]
    unfold refresh
    by_cases hv : verify w.msk usk = true
    · simp only [hv, Bool.not_true, Bool.false_eq_true, if_false]
      have key : ∀ id ∈ (refreshId w.msk usk.id w.rng).2.1.users,
          id ∈ w.msk.users ∨ (∀ m ∈ id, w.rng ≤ m ∧ m < (refreshId w.msk usk.id w.rng).2.2) := by
        unfold refreshId
        by_cases hk : usk.id ∈ w.msk.users
        · by_cases hl : usk.id.length = w.msk.ntracers
          · simp only [hk, not_true_eq_false, if_false, hl, ne_eq]
            exact fun id h => Or.inl h
          · simp only [hk, not_true_eq_false, if_false, hl, ne_eq, not_false_eq_true, if_true]
            have hg := generateUserId_users w.msk w.rng
            rcases hgen : generateUserId w.msk w.rng with ⟨res, m', n'⟩
            rw [hgen] at hg
            cases res with
            | error e => exact hg
            | ok nid =>
              simp only
              intro id hid
              exact hg id (List.mem_filter.1 hid).1
        · simp only [hk, if_true]
          exact fun id h => Or.inl h
      rcases hid : refreshId w.msk usk.id w.rng with ⟨res, msk', n'⟩
      rw [hid] at key
      cases res with
      | error e => exact key
      | ok nid =>
        simp only
        generalize (if keep = true then Except.ok (refreshCoordinateKeys msk' usk.secrets)
            else latestRightSks msk' ((usk.secrets.map (·.1)).filter (fun r => msk'.secrets.containsKey r))) = nr
        cases nr <;> exact key
    · simp only [hv, Bool.not_false, if_true]
      exact fun id h => Or.inl h
  | draw k => exact fun id h => Or.inl h

/-- every registered identifier is made of tokens drawn already -/
def World.UsersBelow (w : World) : Prop := ∀ id ∈ w.msk.users, ∀ m ∈ id, m < w.rng

end CC
