import CC.Lemmas.Rev
import CC.Lemmas.Prims
import CC.Lemmas.Cover
/-! From rights to decapsulation: a freshly generated key opens a fresh encapsulation iff they
share a right — given a master key whose secrets are pairwise distinct across rights. -/
namespace CC
open CC.Look

/-- the master key's rights are distinct keys of its map and no secret (token) serves two rights:
the state `update_msk` / `rekey` maintain, every secret being a fresh draw -/
structure Msk.Distinct (msk : Msk) : Prop where
  rights : (msk.secrets.map (·.1)).Nodup
  tokens : ∀ r1 c1 r2 c2 (s1 s2 : Bool × Sk), (r1, c1) ∈ msk.secrets → (r2, c2) ∈ msk.secrets →
    s1 ∈ c1 → s2 ∈ c2 → s1.2.tok = s2.2.tok → r1 = r2

theorem latestRightSks_mem (msk : Msk) : ∀ (rights : List Right) (chains : RevVec),
    latestRightSks msk rights = .ok chains →
    ∀ r c, (r, c) ∈ chains ↔ r ∈ rights ∧ ∃ act sk, msk.secrets.getLatest r = some (act, sk) ∧ c = [sk]
  | [], chains, h => by simp [latestRightSks] at h; subst h; simp
  | x :: xs, chains, h => by
    unfold latestRightSks at h
    cases hl : msk.secrets.getLatest x with
    | none => simp [hl] at h
    | some v =>
      obtain ⟨act, sk⟩ := v
      simp only [hl] at h
      cases hr : latestRightSks msk xs with
      | error e => simp [hr] at h
      | ok tl =>
        simp only [hr, Except.ok.injEq] at h; subst h
        have ih := latestRightSks_mem msk xs tl hr
        intro r c
        simp only [List.mem_cons, Prod.mk.injEq, ih]
        constructor
        · rintro (⟨rfl, rfl⟩ | ⟨hr', hx⟩)
          · exact ⟨Or.inl rfl, act, sk, hl, rfl⟩
          · exact ⟨Or.inr hr', hx⟩
        · rintro ⟨rfl | hr', a, s, hl', hc⟩
          · left; rw [hl] at hl'; cases hl'; exact ⟨rfl, hc⟩
          · exact Or.inr ⟨hr', a, s, hl', hc⟩

theorem getLatest_mem {m : RevMap} {r : Right} {v : Bool × Sk} (h : m.getLatest r = some v) :
    ∃ c, (r, c) ∈ m ∧ v ∈ c := by
  unfold RevMap.getLatest at h
  cases hl : m.lookup r with
  | none => simp [hl] at h
  | some c =>
    simp only [hl, Option.bind_some] at h
    exact ⟨c, lookup_mem hl, List.mem_of_mem_head? h⟩

theorem mpk_keys_sublist : ∀ (secrets : RevMap), ((secrets.filterMap mpkEntry).map (·.1)).Sublist (secrets.map (·.1))
  | [] => by simp
  | p :: ps => by
    simp only [List.filterMap_cons, List.map_cons]
    cases hp : mpkEntry p with
    | none => exact (mpk_keys_sublist ps).cons _
    | some v =>
      have : v.1 = p.1 := by
        unfold mpkEntry at hp
        cases hh : p.2.head? with
        | none => simp [hh] at hp
        | some w =>
          obtain ⟨a, s⟩ := w
          cases a with
          | false => simp [hh] at hp
          | true => simp only [hh, Option.some.injEq] at hp; rw [← hp]
      simp only [List.map_cons, this]
      exact (mpk_keys_sublist ps).cons₂ _

/-- the published key of a right is its newest secret, if activated -/
theorem mpk_keyOf (msk : Msk) (hd : (msk.secrets.map (·.1)).Nodup) (r : Right) (t : Sk) :
    msk.mpk.keyOf r = .ok t ↔ msk.secrets.getLatest r = some (true, t) := by
  unfold Mpk.keyOf
  constructor
  · intro h
    cases hl : msk.mpk.keys.lookup r with
    | none => simp [hl] at h
    | some k =>
      simp only [hl, Except.ok.injEq] at h; subst h
      have hm := lookup_mem hl
      unfold Msk.mpk at hm
      simp only [List.mem_filterMap] at hm
      obtain ⟨⟨r', chain⟩, hmem, hh⟩ := hm
      simp only [mpkEntry] at hh
      cases hc : chain.head? with
      | none => simp [hc] at hh
      | some v =>
        obtain ⟨act, sk⟩ := v
        cases act with
        | false => simp [hc] at hh
        | true =>
          simp only [hc, Option.some.injEq, Prod.mk.injEq] at hh
          obtain ⟨rfl, rfl⟩ := hh
          unfold RevMap.getLatest
          rw [mem_lookup_of_nodup hd hmem]
          simpa using hc
  · intro h
    obtain ⟨c, hmem, _⟩ := getLatest_mem h
    have hl : msk.secrets.lookup r = some c := mem_lookup_of_nodup hd hmem
    have hhead : c.head? = some (true, t) := by
      unfold RevMap.getLatest at h; rw [hl] at h; simpa using h
    have hin : (r, t) ∈ msk.mpk.keys := by
      unfold Msk.mpk
      simp only [List.mem_filterMap]
      exact ⟨(r, c), hmem, by simp [mpkEntry, hhead]⟩
    have hnd : (msk.mpk.keys.map (·.1)).Nodup := hd.sublist (mpk_keys_sublist msk.secrets)
    rw [mem_lookup_of_nodup hnd hin]

/-- **The KEM layer.** For a master key whose secrets are distinct across rights: the key generated
for the rights `ru` opens the encapsulation made under the master key's public key for the rights
`re` — returning exactly the encapsulated secret — iff `ru` and `re` share a right; otherwise it
gets nothing. Classic and hybridized rights alike. -/
theorem keygen_encaps_decaps (msk : Msk) (hd : msk.Distinct) (ru re : List Right) (n n' : Rng)
    (usk : Usk) (s : Nat) (x : XEnc)
    (hk : (uskKeygen msk ru n).1 = .ok usk) (he : (encaps msk.mpk re n').1 = .ok (s, x)) :
    (decaps usk x = some s ↔ ∃ r, r ∈ re ∧ r ∈ ru) ∧ (decaps usk x = none ↔ ¬ ∃ r, r ∈ re ∧ r ∈ ru) := by
  -- shape of the key
  have husk : ∃ chains, latestRightSks msk ru = .ok chains ∧ usk.secrets = chains ∧ usk.auth = msk.auth ∧
      usk.nps = msk.ntracers ∧ usk.id.length = msk.ntracers := by
    unfold uskKeygen at hk
    cases hl : latestRightSks msk ru with
    | error e => simp [hl] at hk
    | ok chains =>
      simp only [hl] at hk
      by_cases hnt : msk.ntracers = 0
      · simp [generateUserId, hnt] at hk
      · simp only [generateUserId, hnt, if_false, Except.ok.injEq] at hk
        subst hk
        exact ⟨chains, rfl, rfl, rfl, rfl, by simp⟩
  obtain ⟨chains, hchains, hsec, hauth, hnps, hidl⟩ := husk
  -- shape of the encapsulation
  have hx : ∃ ks, mapMExcept msk.mpk.keyOf re = .ok ks ∧ x.targets = ks ∧ x.hybrid = ks.all (·.hyb) ∧
      x.auth = msk.auth ∧ x.ntraps = msk.ntracers ∧ x.seed = s := by
    unfold encaps at he
    cases hs : msk.mpk.selectSubkeys re with
    | error e => simp [hs] at he
    | ok v =>
      obtain ⟨hyb, ks⟩ := v
      simp only [hs, Except.ok.injEq, Prod.mk.injEq] at he
      obtain ⟨rfl, rfl⟩ := he
      unfold Mpk.selectSubkeys at hs
      cases hm : mapMExcept msk.mpk.keyOf re with
      | error e => simp [hm] at hs
      | ok ks' =>
        simp only [hm, Except.ok.injEq, Prod.mk.injEq] at hs
        obtain ⟨rfl, rfl⟩ := hs
        exact ⟨ks', rfl, rfl, rfl, rfl, rfl, rfl⟩
  obtain ⟨ks, hks, htargets, hhyb, hxauth, hxnt, hseed⟩ := hx
  have hkmem := mapMExcept_mem msk.mpk.keyOf re ks hks
  have hcmem := latestRightSks_mem msk ru chains hchains
  have key : CanOpen usk x ↔ ∃ r, r ∈ re ∧ r ∈ ru := by
    unfold CanOpen
    rw [hauth, hnps, hidl, hxauth, hxnt, hsec, htargets]
    simp only [true_and]
    constructor
    · rintro ⟨r, c, sk, t, hm, hs, ht, ho⟩
      obtain ⟨hru, act, sk', hl, rfl⟩ := (hcmem r c).1 hm
      simp only [List.mem_singleton] at hs; subst hs
      obtain ⟨r', hre, hkey⟩ := (hkmem t).1 ht
      have hl' := (mpk_keyOf msk hd.rights r' t).1 hkey
      obtain ⟨c1, hm1, hin1⟩ := getLatest_mem hl
      obtain ⟨c2, hm2, hin2⟩ := getLatest_mem hl'
      simp only [opens, Bool.and_eq_true, beq_iff_eq] at ho
      have := hd.tokens r c1 r' c2 (act, sk) (true, t) hm1 hm2 hin1 hin2 ho.1
      subst this
      exact ⟨r, hre, hru⟩
    · rintro ⟨r, hre, hru⟩
      -- the key of `r` in the public key is the newest secret, which is what the user key holds
      obtain ⟨t, ht, hkey⟩ : ∃ t, t ∈ ks ∧ msk.mpk.keyOf r = .ok t := by
        -- every right of `re` resolved, since the whole `mapM` succeeded
        have : ∀ (l : List Right) (bs : List Sk), mapMExcept msk.mpk.keyOf l = .ok bs → ∀ r ∈ l, ∃ t, msk.mpk.keyOf r = .ok t := by
          intro l
          induction l with
          | nil => intro _ _ r hr; cases hr
          | cons y ys ih =>
            intro bs hbs r hr
            simp only [mapMExcept] at hbs
            cases hy : msk.mpk.keyOf y with
            | error e => simp [hy] at hbs
            | ok v =>
              simp only [hy] at hbs
              cases hr' : mapMExcept msk.mpk.keyOf ys with
              | error e => simp [hr'] at hbs
              | ok tl =>
                rcases List.mem_cons.1 hr with rfl | hr''
                · exact ⟨v, hy⟩
                · exact ih tl hr' r hr''
        obtain ⟨t, ht⟩ := this re ks hks r hre
        exact ⟨t, (hkmem t).2 ⟨r, hre, ht⟩, ht⟩
      have hl := (mpk_keyOf msk hd.rights r t).1 hkey
      refine ⟨r, [t], t, t, (hcmem r [t]).2 ⟨hru, true, t, hl, rfl⟩, by simp, ht, ?_⟩
      simp only [opens, beq_self_eq_true, Bool.true_and, Bool.and_self]
      cases hh : x.hybrid with
      | false => rfl
      | true =>
        rw [hhyb] at hh
        have := List.all_eq_true.1 hh t ht
        simp [this]
  constructor
  · rw [decaps_eq_some_iff, hseed, key]; simp
  · rw [decaps_eq_none_iff, key]

end CC
