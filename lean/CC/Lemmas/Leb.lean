import CC.Model.Structure
/-! LEB128 lemmas: round trip, length, prefix-freeness; `Right.fromPoint` is injective up to
permutation. -/
namespace CC.Leb

theorem dec_enc (n : Nat) (rest : List UInt8) : dec (enc n ++ rest) = some (n, rest) := by
  induction n using Nat.strongRecOn with
  | _ n ih =>
    unfold enc
    split
    · rename_i h
      simp [dec, UInt8.toNat_ofNat', Nat.mod_eq_of_lt (show n < 256 by omega), h]
    · rename_i h
      have hlt : n / 128 < n := by omega
      have := ih (n / 128) hlt
      simp only [List.cons_append, dec]
      have h1 : (UInt8.ofNat (n % 128 + 128)).toNat = n % 128 + 128 := by
        simp [UInt8.toNat_ofNat']; omega
      rw [h1, this]
      have h2 : ¬ (n % 128 + 128 < 128) := by omega
      simp only [h2, if_false]
      congr 2
      omega

theorem enc_length (n : Nat) : (enc n).length = len n := by
  induction n using Nat.strongRecOn with
  | _ n ih =>
    unfold enc len
    split
    · simp
    · rename_i h
      simp [ih (n / 128) (by omega)]; omega

theorem enc_ne_nil (n : Nat) : enc n ≠ [] := by
  unfold enc; split <;> simp

/-- concatenation of encodings is injective (prefix-free code). -/
theorem flatMap_enc_inj : ∀ (xs ys : List Nat), xs.flatMap enc = ys.flatMap enc → xs = ys
  | [], [] , _ => rfl
  | [], y :: ys, h => by
      simp [List.flatMap_cons] at h
      exact absurd h.1 (enc_ne_nil y)
  | x :: xs, [], h => by
      simp [List.flatMap_cons] at h
      exact absurd h.1 (enc_ne_nil x)
  | x :: xs, y :: ys, h => by
      simp only [List.flatMap_cons] at h
      have hx := dec_enc x (xs.flatMap enc)
      have hy := dec_enc y (ys.flatMap enc)
      rw [h, hy] at hx
      simp at hx
      obtain ⟨rfl, hr⟩ := hx
      rw [flatMap_enc_inj xs ys hr.symm]

end CC.Leb

namespace CC
open CC.Leb

private theorem le_total' (a b : Nat) : (decide (a ≤ b) || decide (b ≤ a)) = true := by
  simp; omega
private theorem le_trans' (a b c : Nat) : decide (a ≤ b) = true → decide (b ≤ c) = true → decide (a ≤ c) = true := by
  simp; omega

/-- two points give the same right iff they are permutations of one another -/
theorem Right.fromPoint_eq_iff (p q : List Nat) : Right.fromPoint p = Right.fromPoint q ↔ p.Perm q := by
  unfold Right.fromPoint
  constructor
  · intro h
    have := flatMap_enc_inj _ _ h
    have h1 := List.mergeSort_perm p (fun a b => decide (a ≤ b))
    have h2 := List.mergeSort_perm q (fun a b => decide (a ≤ b))
    rw [this] at h1
    exact h1.symm.trans h2
  · intro h
    congr 1
    apply List.Perm.eq_of_pairwise (le := fun a b => decide (a ≤ b) = true)
    · intro a b _ _ h1 h2; simp at h1 h2; omega
    · exact List.pairwise_mergeSort le_trans' le_total' p
    · exact List.pairwise_mergeSort le_trans' le_total' q
    · exact (List.mergeSort_perm p _).trans (h.trans (List.mergeSort_perm q _).symm)

end CC
