/-! Association-list lemmas (core only). -/
namespace CC.Look
variable {α β : Type} [BEq α] [LawfulBEq α]

theorem lookup_mem {l : List (α × β)} {k : α} {v : β} (h : l.lookup k = some v) : (k, v) ∈ l := by
  induction l with
  | nil => simp at h
  | cons p l ih =>
    obtain ⟨k', v'⟩ := p
    rw [List.lookup_cons] at h
    by_cases hk : k == k'
    · simp [hk] at h; have := eq_of_beq hk; subst this; subst h; exact List.mem_cons_self
    · simp [hk] at h; exact List.mem_cons_of_mem _ (ih h)

theorem mem_lookup_isSome {l : List (α × β)} {k : α} {v : β} (h : (k, v) ∈ l) : ∃ v', l.lookup k = some v' := by
  induction l with
  | nil => cases h
  | cons p l ih =>
    obtain ⟨k', v'⟩ := p
    rw [List.lookup_cons]
    by_cases hk : k == k'
    · exact ⟨v', by simp [hk]⟩
    · simp only [hk]
      rcases List.mem_cons.1 h with h | h
      · cases h; simp at hk
      · exact ih h

theorem mem_lookup_of_nodup {l : List (α × β)} {k : α} {v : β} (hnd : (l.map (·.1)).Nodup)
    (h : (k, v) ∈ l) : l.lookup k = some v := by
  induction l with
  | nil => cases h
  | cons p l ih =>
    obtain ⟨k', v'⟩ := p
    simp only [List.map_cons, List.nodup_cons] at hnd
    rw [List.lookup_cons]
    rcases List.mem_cons.1 h with h1 | h2
    · cases h1; simp
    · have hne : ¬ (k == k') := by
        intro hk; have := eq_of_beq hk; subst this
        exact hnd.1 (List.mem_map.2 ⟨(k, v), h2, rfl⟩)
      simp only [hne]; exact ih hnd.2 h2

theorem lookup_none_of_not_mem {l : List (α × β)} {k : α} (h : k ∉ l.map (·.1)) : l.lookup k = none := by
  induction l with
  | nil => rfl
  | cons p l ih =>
    obtain ⟨k', v'⟩ := p
    simp only [List.map_cons, List.mem_cons, not_or] at h
    rw [List.lookup_cons]
    have : ¬ (k == k') := fun hk => h.1 (eq_of_beq hk)
    simp only [this]; exact ih h.2

theorem lookup_isSome_of_mem_keys {l : List (α × β)} {k : α} (h : k ∈ l.map (·.1)) :
    ∃ v, l.lookup k = some v := by
  obtain ⟨⟨k', v⟩, hm, rfl⟩ := List.mem_map.1 h
  exact mem_lookup_isSome hm

theorem lookup_eq_none_iff {l : List (α × β)} {k : α} : l.lookup k = none ↔ k ∉ l.map (·.1) := by
  constructor
  · intro h hm
    obtain ⟨v, hv⟩ := lookup_isSome_of_mem_keys hm
    rw [h] at hv; cases hv
  · exact lookup_none_of_not_mem

end CC.Look
