import CC.Lemmas.Disabled
/-! Closed forms of what `update_msk`'s loop, `rekey`'s loop and `prune` do to the chain of one
right: the basis of the history invariants about secrets (flavour coherence, sorted chains,
contiguity of user chains). -/
namespace CC
open CC.Look

/-- the loop of `update_msk` leaves the chain of a right it is not asked about untouched -/
theorem updateLoop_lookup_other : ∀ (rights : List (Right × Bool × Bool)) (secrets : RevMap) (n : Rng) (s : RevMap),
    (updateLoop secrets rights n).1 = .ok s → ∀ k, k ∉ rights.map (·.1) → s.lookup k = secrets.lookup k := by
  intro rights
  induction rights with
  | nil =>
    intro secrets n s h k _
    simp only [updateLoop, Except.ok.injEq] at h; rw [h]
  | cons p rest ih =>
    obtain ⟨r, hyb, ro⟩ := p
    intro secrets n s h k hk
    simp only [List.map_cons, List.mem_cons, not_or] at hk
    have hkr : (k == r) = false := by
      cases hb : k == r
      · rfl
      · exact absurd (eq_of_beq hb) hk.1
    unfold updateLoop at h
    cases hg : secrets.getLatest r with
    | some v =>
      simp only [hg] at h
      rw [ih _ _ _ h k hk.2, RevMap.lookup_setLatest]; simp [hkr]
    | none =>
      simp only [hg] at h
      by_cases hro : ro = true
      · simp [hro] at h
      · simp only [hro, Bool.false_eq_true, if_false] at h
        rw [ih _ _ _ h k hk.2, RevMap.lookup_insert]; simp [hkr]

/-- … and for a right it is asked about: the head of an existing chain gets the flag the structure
dictates (and loses its post-quantum part iff the hint says classic), nothing else changes; a right
without a secret gets a chain of one fresh, activated secret of the hinted flavour -/
theorem updateLoop_lookup_mem : ∀ (rights : List (Right × Bool × Bool)) (secrets : RevMap) (n : Rng) (s : RevMap),
    (rights.map (·.1)).Nodup → (updateLoop secrets rights n).1 = .ok s →
    ∀ r hyb ro, (r, hyb, ro) ∈ rights →
      (∃ h0 t, secrets.lookup r = some (h0 :: t) ∧
        s.lookup r = some ((!ro, if hyb = true then h0.2 else h0.2.dropHyb) :: t)) ∨
      (secrets.getLatest r = none ∧ ∃ n', n ≤ n' ∧ n' < (updateLoop secrets rights n).2 ∧
        s.lookup r = some [(true, ⟨n', hyb⟩)]) := by
  intro rights
  induction rights with
  | nil => intro _ _ _ _ _ r hyb ro hm; cases hm
  | cons p rest ih =>
    obtain ⟨r0, hyb0, ro0⟩ := p
    intro secrets n s hnd h r hyb ro hm
    simp only [List.map_cons, List.nodup_cons] at hnd
    have hmono : ∀ (rs : List (Right × Bool × Bool)) (m : RevMap) (k : Rng), k ≤ (updateLoop m rs k).2 := by
      intro rs
      induction rs with
      | nil => intro m k; exact Nat.le_refl _
      | cons q qs ihq =>
        obtain ⟨a, b, c⟩ := q
        intro m k
        unfold updateLoop
        cases m.getLatest a with
        | some v => exact ihq _ _
        | none =>
          simp only
          by_cases hc : c = true
          · simp [hc]
          · simp only [hc, Bool.false_eq_true, if_false]
            exact Nat.le_trans (Nat.le_succ k) (ihq _ _)
    unfold updateLoop at h ⊢
    cases hg : secrets.getLatest r0 with
    | some v =>
      simp only [hg] at h ⊢
      rcases List.mem_cons.1 hm with heq | hrest
      · simp only [Prod.mk.injEq] at heq
        obtain ⟨rfl, rfl, rfl⟩ := heq
        left
        unfold RevMap.getLatest at hg
        cases hl : secrets.lookup r with
        | none => simp [hl] at hg
        | some c =>
          cases c with
          | nil => simp [hl] at hg
          | cons h0 t =>
            simp only [hl, Option.bind_some, List.head?_cons, Option.some.injEq] at hg
            subst hg
            refine ⟨h0, t, rfl, ?_⟩
            rw [updateLoop_lookup_other _ _ _ _ h r hnd.1, RevMap.lookup_setLatest]
            simp [hl, RevMap.setHead]
      · have hne : (r == r0) = false := by
          cases hb : r == r0
          · rfl
          · exfalso; apply hnd.1; rw [← eq_of_beq hb]; exact List.mem_map.2 ⟨_, hrest, rfl⟩
        rcases ih _ _ _ hnd.2 h r hyb ro hrest with ⟨h0, t, h1, h2⟩ | ⟨h1, n', h2, h3, h4⟩
        · left; refine ⟨h0, t, ?_, h2⟩
          rw [RevMap.lookup_setLatest] at h1; simpa [hne] using h1
        · right; refine ⟨?_, n', h2, h3, h4⟩
          rw [RevMap.getLatest_setLatest] at h1; simpa [hne] using h1
    | none =>
      simp only [hg] at h ⊢
      by_cases hro : ro0 = true
      · simp [hro] at h
      · simp only [hro, Bool.false_eq_true, if_false] at h ⊢
        rcases List.mem_cons.1 hm with heq | hrest
        · simp only [Prod.mk.injEq] at heq
          obtain ⟨rfl, rfl, rfl⟩ := heq
          right
          refine ⟨hg, n, Nat.le_refl _, Nat.lt_of_lt_of_le (Nat.lt_succ_self n) (hmono _ _ _), ?_⟩
          rw [updateLoop_lookup_other _ _ _ _ h r hnd.1, RevMap.lookup_insert]
          simp only [beq_self_eq_true, if_true]
          unfold RevMap.getLatest at hg
          cases hl : secrets.lookup r with
          | none => rfl
          | some c =>
            cases c with
            | nil => rfl
            | cons a b => simp [hl] at hg
        · have hne : (r == r0) = false := by
            cases hb : r == r0
            · rfl
            · exfalso; apply hnd.1; rw [← eq_of_beq hb]; exact List.mem_map.2 ⟨_, hrest, rfl⟩
          rcases ih _ _ _ hnd.2 h r hyb ro hrest with ⟨h0, t, h1, h2⟩ | ⟨h1, n', h2, h3, h4⟩
          · left; refine ⟨h0, t, ?_, h2⟩
            rw [RevMap.lookup_insert] at h1; simpa [hne] using h1
          · right; refine ⟨?_, n', Nat.le_trans (Nat.le_succ n) h2, h3, h4⟩
            rw [RevMap.getLatest_insert] at h1; simpa [hne] using h1

end CC

namespace CC
open CC.Look

theorem rekeyLoop_mono : ∀ (rights : List Right) (secrets : RevMap) (n : Rng), n ≤ (rekeyLoop secrets rights n).2.2
  | [], _, n => Nat.le_refl n
  | r :: rest, secrets, n => by
    unfold rekeyLoop
    split
    · cases secrets.getLatest r with
      | none => exact Nat.le_refl n
      | some v => exact Nat.le_trans (Nat.le_succ n) (rekeyLoop_mono rest _ (n + 1))
    · exact Nat.le_refl n

/-- what `rekey`'s loop does to the chain of any right: a (possibly empty) list of new secrets is
prepended — fresh tokens, strictly decreasing, flag and flavour of the previous newest secret —
and nothing else changes; a right that was not asked for gets nothing -/
theorem rekeyLoop_lookup : ∀ (rights : List Right) (secrets : RevMap) (n : Rng) (k : Right),
    ∃ news : List (Bool × Sk),
      (rekeyLoop secrets rights n).2.1.lookup k = (secrets.lookup k).map (news ++ ·) ∧
      (∀ v ∈ news, n ≤ v.2.tok ∧ v.2.tok < (rekeyLoop secrets rights n).2.2) ∧
      (news.map (·.2.tok)).Pairwise (· > ·) ∧
      (∀ v ∈ news, ∀ h0, secrets.getLatest k = some h0 → v.1 = h0.1 ∧ v.2.hyb = h0.2.hyb) ∧
      (k ∉ rights → news = []) := by
  intro rights
  induction rights with
  | nil =>
    intro secrets n k
    refine ⟨[], ?_, ?_, ?_, ?_, ?_⟩
    · simp only [rekeyLoop]; cases secrets.lookup k <;> simp
    · intro v hv; cases hv
    · simp
    · intro v hv; cases hv
    · intro _; rfl
  | cons r rest ih =>
    intro secrets n k
    have hnone : ∃ news : List (Bool × Sk),
        secrets.lookup k = (secrets.lookup k).map (news ++ ·) ∧ (∀ v ∈ news, n ≤ v.2.tok ∧ v.2.tok < n) ∧
        (news.map (·.2.tok)).Pairwise (· > ·) ∧
        (∀ v ∈ news, ∀ h0, secrets.getLatest k = some h0 → v.1 = h0.1 ∧ v.2.hyb = h0.2.hyb) ∧
        (k ∉ r :: rest → news = []) := by
      refine ⟨[], ?_, ?_, ?_, ?_, ?_⟩
      · cases secrets.lookup k <;> simp
      · intro v hv; cases hv
      · simp
      · intro v hv; cases hv
      · intro _; rfl
    unfold rekeyLoop
    by_cases hc : secrets.containsKey r = true
    · simp only [hc, if_true]
      cases hg : secrets.getLatest r with
      | none => exact hnone
      | some v0 =>
        obtain ⟨act, sk⟩ := v0
        simp only
        obtain ⟨news1, e1, t1, p1, f1, o1⟩ := ih (secrets.insert r (act, ⟨n, sk.hyb⟩)) (n + 1) k
        have hmono : n + 1 ≤ (rekeyLoop (secrets.insert r (act, ⟨n, sk.hyb⟩)) rest (n + 1)).2.2 :=
          rekeyLoop_mono rest _ (n + 1)
        by_cases hk : (k == r) = true
        · have hkr : k = r := eq_of_beq hk
          subst hkr
          unfold RevMap.containsKey at hc
          cases hl : secrets.lookup k with
          | none => simp [hl] at hc
          | some c =>
            refine ⟨news1 ++ [(act, ⟨n, sk.hyb⟩)], ?_, ?_, ?_, ?_, ?_⟩
            · rw [e1, RevMap.lookup_insert]; simp [hl]
            · intro v hv
              rcases List.mem_append.1 hv with hv | hv
              · exact ⟨Nat.le_trans (Nat.le_succ n) (t1 v hv).1, (t1 v hv).2⟩
              · simp at hv; subst hv; exact ⟨Nat.le_refl _, Nat.lt_of_lt_of_le (Nat.lt_succ_self n) hmono⟩
            · rw [List.map_append, List.pairwise_append]
              refine ⟨p1, by simp, ?_⟩
              intro a ha b hb
              have hb' : b = n := by simpa using hb
              rw [hb']
              obtain ⟨v, hv, rfl⟩ := List.mem_map.1 ha
              exact Nat.lt_of_lt_of_le (Nat.lt_succ_self n) (t1 v hv).1
            · intro v hv h0 hh0
              rw [hg] at hh0
              simp only [Option.some.injEq] at hh0; subst hh0
              rcases List.mem_append.1 hv with hv | hv
              · have := f1 v hv (act, ⟨n, sk.hyb⟩) (by rw [RevMap.getLatest_insert]; simp)
                exact this
              · simp at hv; subst hv; exact ⟨rfl, rfl⟩
            · intro hnot; exact absurd List.mem_cons_self hnot
        · have hk' : (k == r) = false := by simpa using hk
          refine ⟨news1, ?_, ?_, p1, ?_, ?_⟩
          · rw [e1, RevMap.lookup_insert]; simp [hk']
          · intro v hv; exact ⟨Nat.le_trans (Nat.le_succ n) (t1 v hv).1, (t1 v hv).2⟩
          · intro v hv h0 hh0
            exact f1 v hv h0 (by rw [RevMap.getLatest_insert]; simp [hk', hh0])
          · intro hnot
            apply o1
            intro hin; exact hnot (List.mem_cons_of_mem _ hin)
    · simp only [hc, Bool.false_eq_true, if_false]
      exact hnone

end CC

namespace CC
open CC.Look

theorem keepN_one_idem (c : List (Bool × Sk)) : RevMap.keepN 1 (RevMap.keepN 1 c) = RevMap.keepN 1 c := by
  cases c with
  | nil => simp [RevMap.keepN]
  | cons a t => simp [RevMap.keepN]

/-- `prune`: the chain of a pruned right keeps its newest secret only, other chains are untouched -/
theorem prune_lookup (msk : Msk) (rights : List Right) (k : Right) :
    (prune msk rights).secrets.lookup k =
      if k ∈ rights then (msk.secrets.lookup k).map (RevMap.keepN 1) else msk.secrets.lookup k := by
  unfold prune
  simp only
  generalize msk.secrets = s
  induction rights generalizing s with
  | nil => simp
  | cons r rest ih =>
    simp only [List.foldl_cons]
    rw [ih, RevMap.lookup_keep]
    by_cases hkr : (k == r) = true
    · have : k = r := eq_of_beq hkr
      subst this
      simp only [beq_self_eq_true, if_true, List.mem_cons, true_or]
      by_cases hin : k ∈ rest
      · simp only [hin, if_true]
        cases s.lookup k with
        | none => rfl
        | some c => simp [keepN_one_idem]
      · simp [hin]
    · have hne : k ≠ r := fun h => hkr (by simp [h])
      simp only [hkr, Bool.false_eq_true, if_false, List.mem_cons, hne, false_or]

theorem keepN_one_eq (c : List (Bool × Sk)) : RevMap.keepN 1 c = c.take 1 := by
  cases c with
  | nil => simp [RevMap.keepN]
  | cons a t => simp [RevMap.keepN]

end CC
