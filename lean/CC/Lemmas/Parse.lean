import CC.Model.Policy
/-! Soundness of the policy parser on the documented grammar: lemmas about trimming, the
parenthesis matcher, attribute tokens and the unfolding of the parser loop. -/
namespace CC
namespace Parse

/-! ### whitespace and trimming -/

def AllWs (w : List Char) : Prop := ∀ c ∈ w, isWs c = true

theorem dropWhile_nil_all {α} (p : α → Bool) : ∀ (l : List α), l.dropWhile p = [] → ∀ x ∈ l, p x = true
  | [], _, x, hx => by cases hx
  | a :: t, h, x, hx => by
    cases hp : p a with
    | false => simp [List.dropWhile, hp] at h
    | true =>
      simp only [List.dropWhile, hp] at h
      rcases List.mem_cons.1 hx with rfl | hx
      · exact hp
      · exact dropWhile_nil_all p t h x hx

theorem dropWhile_head_not {α} (p : α → Bool) : ∀ (l : List α) (c : α) (t : List α), l.dropWhile p = c :: t → p c = false
  | [], c, t, h => by simp at h
  | a :: l, c, t, h => by
    cases hp : p a with
    | false => simp only [List.dropWhile, hp, List.cons.injEq] at h; rw [← h.1]; exact hp
    | true => simp only [List.dropWhile, hp] at h; exact dropWhile_head_not p l c t h

theorem takeWhile_all {α} (p : α → Bool) : ∀ (l : List α), ∀ x ∈ l.takeWhile p, p x = true
  | [], x, hx => by cases hx
  | a :: l, x, hx => by
    cases hp : p a with
    | false => simp [List.takeWhile, hp] at hx
    | true =>
      simp only [List.takeWhile, hp, List.mem_cons] at hx
      rcases hx with rfl | hx
      · exact hp
      · exact takeWhile_all p l x hx

theorem dropWhile_idem {α} (p : α → Bool) (l : List α) : (l.dropWhile p).dropWhile p = l.dropWhile p := by
  cases h : l.dropWhile p with
  | nil => rfl
  | cons c t => simp [List.dropWhile, dropWhile_head_not p l c t h]

theorem dropWhile_all {α} (p : α → Bool) (l : List α) (h : ∀ x ∈ l, p x = true) : l.dropWhile p = [] := by
  induction l with
  | nil => rfl
  | cons a t ih =>
    simp only [List.dropWhile, h a List.mem_cons_self]
    exact ih (fun x hx => h x (List.mem_cons_of_mem _ hx))

theorem dropWhile_append_stop {α} (p : α → Bool) (l : List α) (c : α) (hc : p c = false) (t : List α)
    (h : ∀ x ∈ l, p x = true) : (l ++ c :: t).dropWhile p = c :: t := by
  induction l with
  | nil => simp [hc]
  | cons a l ih =>
    simp only [List.cons_append, List.dropWhile, h a List.mem_cons_self]
    exact ih (fun x hx => h x (List.mem_cons_of_mem _ hx))

theorem dropWhile_append_keep {α} (p : α → Bool) (l t : List α) (h : l.dropWhile p ≠ []) :
    (l ++ t).dropWhile p = l.dropWhile p ++ t := by
  induction l with
  | nil => simp at h
  | cons a l ih =>
    simp only [List.cons_append, List.dropWhile]
    cases hp : p a with
    | true =>
      simp only [List.dropWhile, hp] at h
      exact ih h
    | false => rfl

theorem trimStart_ws (w s : List Char) (hw : AllWs w) : trimStart (w ++ s) = trimStart s := by
  unfold trimStart
  induction w with
  | nil => rfl
  | cons a w ih =>
    simp only [List.cons_append, List.dropWhile, hw a List.mem_cons_self]
    exact ih (fun x hx => hw x (List.mem_cons_of_mem _ hx))

theorem trimStart_cons (c : Char) (s : List Char) (hc : isWs c = false) : trimStart (c :: s) = c :: s := by
  simp [trimStart, List.dropWhile, hc]

theorem trimEnd_ws (s w : List Char) (hw : AllWs w) : trimEnd (s ++ w) = trimEnd s := by
  unfold trimEnd
  rw [List.reverse_append]
  have : ∀ x ∈ w.reverse, isWs x = true := fun x hx => hw x (List.mem_reverse.1 hx)
  congr 1
  generalize w.reverse = wr at this
  induction wr with
  | nil => rfl
  | cons a t ih =>
    simp only [List.cons_append, List.dropWhile, this a List.mem_cons_self]
    exact ih (fun x hx => this x (List.mem_cons_of_mem _ hx))

theorem trimEnd_append_nonws (p : List Char) (c : Char) (hc : isWs c = false) :
    trimEnd (p ++ [c]) = p ++ [c] := by
  unfold trimEnd
  simp [List.reverse_append, List.dropWhile, hc]

/-- trailing trimming does not touch what precedes a non-blank character -/
theorem trimEnd_append (p t : List Char) (h : trimEnd t ≠ []) : trimEnd (p ++ t) = p ++ trimEnd t := by
  unfold trimEnd at h ⊢
  rw [List.reverse_append]
  have h' : t.reverse.dropWhile isWs ≠ [] := by
    intro h0; rw [h0] at h; exact h rfl
  rw [dropWhile_append_keep _ _ _ h', List.reverse_append, List.reverse_reverse]

theorem trimEnd_cons (c : Char) (s : List Char) (hc : isWs c = false) : trimEnd (c :: s) = c :: trimEnd s := by
  by_cases h : trimEnd s = []
  · rw [h]
    unfold trimEnd at h ⊢
    have h0 : s.reverse.dropWhile isWs = [] := by
      have := congrArg List.reverse h; simpa using this
    have hall := dropWhile_nil_all isWs s.reverse h0
    simp only [List.reverse_cons]
    rw [dropWhile_append_stop _ _ _ hc [] hall]
    rfl
  · have := trimEnd_append [c] s h
    simpa using this

theorem trimEnd_nil_of_allWs (w : List Char) (hw : AllWs w) : trimEnd w = [] := by
  have := trimEnd_ws [] w hw
  simpa [trimEnd] using this

theorem trim_ws_left (w s : List Char) (hw : AllWs w) : trim (w ++ s) = trim s := by
  unfold trim; rw [trimStart_ws w s hw]

theorem trim_ws_right (s w : List Char) (hw : AllWs w) : trim (s ++ w) = trim s := by
  unfold trim
  by_cases h : trimStart s = []
  · -- `s` is all blank, so is `s ++ w`
    have hs : AllWs s := by
      unfold trimStart at h
      exact dropWhile_nil_all isWs s h
    have : AllWs (s ++ w) := by
      intro c hc
      rcases List.mem_append.1 hc with h1 | h1
      · exact hs c h1
      · exact hw c h1
    have e1 : trimStart (s ++ w) = [] := by
      have := trimStart_ws (s ++ w) [] this; simpa [trimStart] using this
    rw [e1, h]
  · have : trimStart (s ++ w) = trimStart s ++ w := by
      unfold trimStart at h ⊢
      exact dropWhile_append_keep _ _ _ h
    rw [this, trimEnd_ws _ _ hw]

theorem trim_cons (c : Char) (s : List Char) (hc : isWs c = false) : trim (c :: s) = c :: trimEnd s := by
  unfold trim; rw [trimStart_cons c s hc, trimEnd_cons c s hc]

theorem trimEnd_idem (s : List Char) : trimEnd (trimEnd s) = trimEnd s := by
  unfold trimEnd
  rw [List.reverse_reverse]
  congr 1
  generalize s.reverse = l
  induction l with
  | nil => rfl
  | cons a t ih =>
    simp only [List.dropWhile]
    cases h : isWs a with
    | true => simpa using ih
    | false => simp [List.dropWhile, h]

theorem trimStart_trimEnd (s : List Char) : trimStart (trimEnd s) = trimEnd (trimStart s) := by
  by_cases h : trimStart s = []
  · have hs : AllWs s := by
      unfold trimStart at h; exact dropWhile_nil_all isWs s h
    rw [h, trimEnd_nil_of_allWs s hs]; rfl
  · -- s = w ++ c :: t with c non-blank
    unfold trimStart at h ⊢
    have hsplit : s = s.takeWhile isWs ++ s.dropWhile isWs := (List.takeWhile_append_dropWhile).symm
    cases hd : s.dropWhile isWs with
    | nil => exact absurd hd h
    | cons c t =>
      have hc : isWs c = false := dropWhile_head_not isWs s c t hd
      have hw : AllWs (s.takeWhile isWs) := takeWhile_all isWs s
      rw [hsplit, hd]
      have e1 : trimEnd (List.takeWhile isWs s ++ c :: t) = List.takeWhile isWs s ++ trimEnd (c :: t) := by
        apply trimEnd_append
        rw [trimEnd_cons c t hc]; simp
      rw [e1, trimEnd_cons c t hc]
      have := trimStart_ws (List.takeWhile isWs s) (c :: trimEnd t) hw
      unfold trimStart at this
      rw [this]
      simp [List.dropWhile, hc]

theorem trim_idem (s : List Char) : trim (trim s) = trim s := by
  unfold trim
  rw [trimStart_trimEnd (trimStart s)]
  have : trimStart (trimStart s) = trimStart s := by
    unfold trimStart
    exact dropWhile_idem _ _
  rw [this, trimEnd_idem]

theorem trim_trimEnd (s : List Char) : trim (trimEnd s) = trim s := by
  unfold trim
  rw [trimStart_trimEnd, trimEnd_idem]

/-! ### the loop of the parser, branch by branch -/

theorem parseLoop_trim (q : List AP) (e0 : List Char) : parseLoop q (trim e0) = parseLoop q e0 := by
  rw [parseLoop.eq_def q e0, parseLoop.eq_def q (trim e0)]
  simp only []
  rw [trim_idem e0]

theorem parseLoop_congr (q : List AP) {a b : List Char} (h : trim a = trim b) : parseLoop q a = parseLoop q b := by
  rw [← parseLoop_trim q a, ← parseLoop_trim q b, h]

theorem parseLoop_nil (q : List AP) (e0 : List Char) (h : trim e0 = []) :
    parseLoop q e0 = (match q with | first :: rest => .ok (conjugate first rest) | [] => .error .invalidBool) := by
  unfold parseLoop
  simp only []
  split
  · rfl
  · rename_i c tl he
    rw [h] at he; cases he

theorem parseLoop_paren (q : List AP) (e0 tl : List Char) (h : trim e0 = '(' :: tl) :
    parseLoop q e0 =
      match findClose tl 0 0 with
      | none => .error .invalidBool
      | some off =>
        match parseLoop [] (tl.take off) with
        | .error _ => .error .invalidBool
        | .ok sub => parseLoop (q ++ [sub]) (tl.drop (off + 1)) := by
  rw [parseLoop.eq_def]
  simp only []
  split
  · rename_i he; rw [h] at he; cases he
  · rename_i c tl' he
    have he' := he
    rw [h] at he'
    injection he' with h1 h2
    subst h1 h2
    have hs : ¬ (trim e0 = ['*']) := by
      rw [h]; intro hx; injection hx with h1 _; exact absurd h1 (by decide)
    simp only [hs, if_false, if_true]
    rfl

theorem parseLoop_or (q : List AP) (e0 rest : List Char) (h : trim e0 = '|' :: '|' :: rest) :
    parseLoop q e0 =
      match q with
      | [] => .error .invalidBool
      | base :: qs =>
        match parseLoop [] rest with
        | .error err => .error err
        | .ok rhs => .ok ((conjugate base qs).or rhs) := by
  rw [parseLoop.eq_def]
  simp only []
  split
  · rename_i he; rw [h] at he; cases he
  · rename_i c tl' he
    have he' := he
    rw [h] at he'
    injection he' with h1 h2
    subst h1 h2
    have hs : ¬ (trim e0 = ['*']) := by
      rw [h]; intro hx; injection hx with h1 _; exact absurd h1 (by decide)
    simp only [hs, if_false, if_true, show ¬ ('|' = '(') by decide]
    rfl

theorem parseLoop_and (q : List AP) (e0 rest : List Char) (h : trim e0 = '&' :: '&' :: rest) :
    parseLoop q e0 = if q.isEmpty then .error .invalidBool else parseLoop q rest := by
  rw [parseLoop.eq_def]
  simp only []
  split
  · rename_i he; rw [h] at he; cases he
  · rename_i c tl' he
    have he' := he
    rw [h] at he'
    injection he' with h1 h2
    subst h1 h2
    have hs : ¬ (trim e0 = ['*']) := by
      rw [h]; intro hx; injection hx with h1 _; exact absurd h1 (by decide)
    simp only [hs, if_false, if_true, show ¬ ('&' = '(') by decide, show ¬ ('&' = '|') by decide]

theorem parseLoop_attr (q : List AP) (e0 : List Char) (c : Char) (tl : List Char) (h : trim e0 = c :: tl)
    (hm : isMeta c = false) (hstar : c :: tl ≠ ['*']) :
    parseLoop q e0 =
      match qaOfStr ((c :: tl).takeWhile (fun c => !isMeta c)) with
      | .error err => .error err
      | .ok a => parseLoop (q ++ [.term a]) ((c :: tl).drop ((c :: tl).takeWhile (fun c => !isMeta c)).length) := by
  rw [parseLoop.eq_def]
  simp only []
  split
  · rename_i he; rw [h] at he; cases he
  · rename_i c' tl' he
    have he' := he
    rw [h] at he'
    injection he' with h1 h2
    subst h1 h2
    have hs : ¬ (trim e0 = ['*']) := by rw [h]; exact hstar
    have h1 : ¬ c = '(' := by intro hc; subst hc; simp [isMeta] at hm
    have h2 : ¬ c = '|' := by intro hc; subst hc; simp [isMeta] at hm
    have h3 : ¬ c = '&' := by intro hc; subst hc; simp [isMeta] at hm
    have h4 : ¬ c = ')' := by intro hc; subst hc; simp [isMeta] at hm
    simp only [hstar, h1, h2, h3, h4, if_false, h]
    rfl

/-! ### balanced strings and the parenthesis matcher -/

/-- balanced with respect to `(` and `)` -/
inductive Bal : List Char → Prop
  | nil : Bal []
  | other (c : Char) (s : List Char) : c ≠ '(' → c ≠ ')' → Bal s → Bal (c :: s)
  | paren (s t : List Char) : Bal s → Bal t → Bal ('(' :: s ++ ')' :: t)

theorem Bal.append {s t : List Char} (hs : Bal s) (ht : Bal t) : Bal (s ++ t) := by
  induction hs with
  | nil => simpa using ht
  | other c s h1 h2 _ ih => exact .other c _ h1 h2 ih
  | paren s u _ _ _ ih2 =>
    have : '(' :: s ++ ')' :: u ++ t = '(' :: s ++ ')' :: (u ++ t) := by simp
    rw [this]
    exact .paren s (u ++ t) ‹_› ih2

/-- scanning a balanced string returns to the same depth without ever closing the pending
parenthesis: the matcher skips it -/
theorem findClose_bal {s : List Char} (hs : Bal s) : ∀ (rest : List Char) (d i : Nat),
    findClose (s ++ rest) d i = findClose rest d (i + s.length) := by
  induction hs with
  | nil => intro rest d i; simp
  | other c s h1 h2 _ ih =>
    intro rest d i
    simp only [List.cons_append, findClose, h1, h2, if_false, List.length_cons]
    rw [ih]; congr 1; omega
  | paren s t _ _ ih1 ih2 =>
    intro rest d i
    have e1 : '(' :: s ++ ')' :: t ++ rest = '(' :: (s ++ (')' :: (t ++ rest))) := by simp
    rw [e1]
    simp only [findClose, if_true]
    rw [ih1]
    simp only [findClose, show ¬ (')' = '(') by decide, if_false, if_true, Nat.add_one_ne_zero, Nat.add_sub_cancel]
    rw [ih2]
    congr 1
    simp only [List.cons_append, List.length_cons, List.length_append]
    omega

/-! ### attribute tokens -/

/-- what may follow a token: blanks, then the end of the expression or a metacharacter -/
def Boundary (rest : List Char) : Prop :=
  ∃ w tail, rest = w ++ tail ∧ AllWs w ∧ (tail = [] ∨ ∃ c t, tail = c :: t ∧ isMeta c = true)

/-- the text of a qualified attribute: `dimension :: name`, with blanks allowed around the two
names (not before the dimension: leading blanks belong to the context); no metacharacter and no
colon inside the names -/
def AtomText (raw : List Char) (a : QA) : Prop :=
  ∃ c0 d n, raw = (c0 :: d) ++ ':' :: ':' :: n ∧ isWs c0 = false ∧
    (∀ c ∈ c0 :: d, isMeta c = false ∧ c ≠ ':') ∧ (∀ c ∈ n, isMeta c = false ∧ c ≠ ':') ∧
    trim n ≠ [] ∧ a = ⟨String.ofList (trim (c0 :: d)), String.ofList (trim n)⟩

theorem splitOnce_spec : ∀ (d n : List Char), (∀ c ∈ d, c ≠ ':') → splitOnce (d ++ ':' :: ':' :: n) = some (d, n)
  | [], n, _ => by simp [splitOnce]
  | c :: d, n, h => by
    have hc : c ≠ ':' := h c List.mem_cons_self
    have ih := splitOnce_spec d n (fun x hx => h x (List.mem_cons_of_mem _ hx))
    simp only [List.cons_append]
    unfold splitOnce
    split
    · rename_i heq; cases heq
    · rename_i heq
      injection heq with h1 _
      exact absurd h1 hc
    · rename_i c' rest' hne heq
      injection heq with h1 h2
      subst h1 h2
      rw [ih]; rfl

theorem containsSep_false : ∀ (n : List Char), (∀ c ∈ n, c ≠ ':') → containsSep n = false
  | [], _ => rfl
  | c :: n, h => by
    have hc : c ≠ ':' := h c List.mem_cons_self
    unfold containsSep
    split
    · rename_i heq; cases heq
    · rename_i heq; injection heq with h1 _; exact absurd h1 hc
    · rename_i heq
      injection heq with _ h2
      subst h2
      exact containsSep_false _ (fun x hx => h x (List.mem_cons_of_mem _ hx))

theorem qaOfStr_atom (d m : List Char) (hd : ∀ c ∈ d, c ≠ ':') (hm : ∀ c ∈ m, c ≠ ':') (hdne : d ≠ []) (hmne : m ≠ []) :
    qaOfStr (d ++ ':' :: ':' :: m) = .ok ⟨String.ofList (trim d), String.ofList (trim m)⟩ := by
  unfold qaOfStr
  rw [splitOnce_spec d m hd]
  simp only [containsSep_false m hm, Bool.false_eq_true, if_false]
  have h1 : d.isEmpty = false := by cases d <;> simp_all
  have h2 : m.isEmpty = false := by cases m <;> simp_all
  simp [h1, h2]

theorem takeWhile_notMeta (x tail : List Char) (hx : ∀ c ∈ x, isMeta c = false)
    (ht : tail = [] ∨ ∃ c t, tail = c :: t ∧ isMeta c = true) :
    (x ++ tail).takeWhile (fun c => !isMeta c) = x := by
  induction x with
  | nil =>
    rcases ht with rfl | ⟨c, t, rfl, hc⟩
    · rfl
    · simp [List.takeWhile, hc]
  | cons a x ih =>
    simp only [List.cons_append, List.takeWhile, hx a List.mem_cons_self, Bool.not_false]
    rw [ih (fun c hc => hx c (List.mem_cons_of_mem _ hc))]

theorem ws_not_meta {c : Char} (h : isWs c = true) : isMeta c = false := by
  unfold isMeta
  have h1 : c ≠ '(' := by intro hc; subst hc; revert h; decide
  have h2 : c ≠ ')' := by intro hc; subst hc; revert h; decide
  have h3 : c ≠ '|' := by intro hc; subst hc; revert h; decide
  have h4 : c ≠ '&' := by intro hc; subst hc; revert h; decide
  simp [h1, h2, h3, h4]

theorem ws_ne_colon {c : Char} (h : isWs c = true) : c ≠ ':' := by
  intro hc; subst hc; revert h; decide

theorem trimEnd_ne_nil_of_trim {n : List Char} (h : trim n ≠ []) : trimEnd n ≠ [] := by
  intro h0
  apply h
  have := trim_trimEnd n
  rw [h0] at this
  rw [← this]; rfl

theorem mem_trimEnd {n : List Char} {c : Char} (h : c ∈ trimEnd n) : c ∈ n := by
  unfold trimEnd at h
  have := List.mem_reverse.1 h
  have hsub : ∀ (l : List Char), ∀ x ∈ l.dropWhile isWs, x ∈ l := by
    intro l
    induction l with
    | nil => intro x hx; exact hx
    | cons a t ih =>
      intro x hx
      simp only [List.dropWhile] at hx
      split at hx
      · exact List.mem_cons_of_mem _ (ih x hx)
      · exact hx
  exact List.mem_reverse.1 (hsub _ c this)

/-- **one attribute token is consumed and pushed on the queue, with its names trimmed** -/
theorem atom_step {raw : List Char} {a : QA} (hat : AtomText raw a) (q : List AP) (rest : List Char)
    (hb : Boundary rest) : parseLoop q (raw ++ rest) = parseLoop (q ++ [.term a]) rest := by
  obtain ⟨c0, d, n, rfl, hc0, hd, hn, hnn, rfl⟩ := hat
  obtain ⟨w, tail, rfl, hw, htail⟩ := hb
  have hdcolon : ∀ c ∈ c0 :: d, c ≠ ':' := fun c hc => (hd c hc).2
  have hm0 : isMeta c0 = false := (hd c0 List.mem_cons_self).1
  rcases htail with rfl | ⟨t0, tt, rfl, ht0⟩
  · -- nothing but blanks follows
    have htrim : trim ((c0 :: d) ++ ':' :: ':' :: n ++ (w ++ [])) = c0 :: (d ++ ':' :: ':' :: trimEnd n) := by
      have e1 : (c0 :: d) ++ ':' :: ':' :: n ++ (w ++ []) = c0 :: ((d ++ ':' :: ':' :: n) ++ w) := by simp
      rw [e1, trim_cons _ _ hc0, trimEnd_ws _ _ hw]
      have : trimEnd (d ++ ':' :: ':' :: n) = d ++ ':' :: ':' :: trimEnd n := by
        have := trimEnd_append (d ++ [':', ':']) n (trimEnd_ne_nil_of_trim hnn)
        simpa using this
      rw [this]
    have hall : ∀ c ∈ c0 :: (d ++ ':' :: ':' :: trimEnd n), isMeta c = false := by
      intro c hc
      simp only [List.mem_cons, List.mem_append] at hc
      rcases hc with rfl | h1 | rfl | rfl | h1
      · exact hm0
      · exact (hd c (List.mem_cons_of_mem _ h1)).1
      · decide
      · decide
      · exact (hn c (mem_trimEnd h1)).1
    have hstar : c0 :: (d ++ ':' :: ':' :: trimEnd n) ≠ ['*'] := by
      intro h; injection h with _ h2
      cases d <;> simp at h2
    rw [parseLoop_attr q _ c0 _ htrim hm0 hstar]
    have htw := takeWhile_notMeta (c0 :: (d ++ ':' :: ':' :: trimEnd n)) [] hall (Or.inl rfl)
    simp only [List.append_nil] at htw
    rw [htw]
    have hq := qaOfStr_atom (c0 :: d) (trimEnd n) hdcolon (fun c hc => (hn c (mem_trimEnd hc)).2) (by simp)
      (trimEnd_ne_nil_of_trim hnn)
    simp only [List.cons_append] at hq
    rw [hq, trim_trimEnd]
    simp only [List.drop_length]
    apply parseLoop_congr
    rw [show w ++ ([] : List Char) = [] ++ w by simp, trim_ws_right [] w hw]
  · -- a metacharacter follows (after blanks)
    have ht0ws : isWs t0 = false := by
      cases h : isWs t0 with
      | false => rfl
      | true => rw [ws_not_meta h] at ht0; cases ht0
    have htrim : trim ((c0 :: d) ++ ':' :: ':' :: n ++ (w ++ t0 :: tt)) =
        c0 :: ((d ++ ':' :: ':' :: (n ++ w)) ++ t0 :: trimEnd tt) := by
      have e1 : (c0 :: d) ++ ':' :: ':' :: n ++ (w ++ t0 :: tt) = c0 :: ((d ++ ':' :: ':' :: (n ++ w)) ++ t0 :: tt) := by simp
      rw [e1, trim_cons _ _ hc0]
      have hne : trimEnd (t0 :: tt) ≠ [] := by rw [trimEnd_cons t0 tt ht0ws]; simp
      rw [trimEnd_append _ _ hne, trimEnd_cons t0 tt ht0ws]
    have hall : ∀ c ∈ c0 :: (d ++ ':' :: ':' :: (n ++ w)), isMeta c = false := by
      intro c hc
      simp only [List.mem_cons, List.mem_append] at hc
      rcases hc with rfl | h1 | rfl | rfl | h1 | h1
      · exact hm0
      · exact (hd c (List.mem_cons_of_mem _ h1)).1
      · decide
      · decide
      · exact (hn c h1).1
      · exact ws_not_meta (hw c h1)
    have hstar : c0 :: ((d ++ ':' :: ':' :: (n ++ w)) ++ t0 :: trimEnd tt) ≠ ['*'] := by
      intro h; injection h with _ h2
      cases d <;> simp at h2
    rw [parseLoop_attr q _ c0 _ htrim hm0 hstar]
    have htw := takeWhile_notMeta (c0 :: (d ++ ':' :: ':' :: (n ++ w))) (t0 :: trimEnd tt) hall (Or.inr ⟨t0, _, rfl, ht0⟩)
    simp only [List.cons_append] at htw ⊢
    rw [htw]
    have hnw : n ++ w ≠ [] := by
      intro h
      have : n = [] := (List.append_eq_nil_iff.1 h).1
      subst this; exact hnn rfl
    have hq := qaOfStr_atom (c0 :: d) (n ++ w) hdcolon
      (fun c hc => by
        rcases List.mem_append.1 hc with h1 | h1
        · exact (hn c h1).2
        · exact ws_ne_colon (hw c h1)) (by simp) hnw
    simp only [List.cons_append] at hq
    rw [hq, trim_ws_right n w hw]
    have hdrop : List.drop (c0 :: (d ++ ':' :: ':' :: (n ++ w))).length (c0 :: (d ++ ':' :: ':' :: (n ++ w) ++ t0 :: trimEnd tt)) = t0 :: trimEnd tt := by
      have : c0 :: (d ++ ':' :: ':' :: (n ++ w) ++ t0 :: trimEnd tt) = (c0 :: (d ++ ':' :: ':' :: (n ++ w))) ++ t0 :: trimEnd tt := by simp
      rw [this, List.drop_left]
    rw [hdrop]
    apply parseLoop_congr
    rw [trim_ws_left w _ hw, ← trimEnd_cons t0 tt ht0ws, trim_trimEnd]

end Parse
end CC
