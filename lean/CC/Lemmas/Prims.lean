import CC.Lemmas.RevMap
/-! Lemmas about `update_msk`, `rekey`, `prune`, `refresh`, `usk_keygen`: error paths, flags. -/
namespace CC
open CC.Look

namespace RevMap

theorem getLatest_setLatest (m : RevMap) (r : Right) (v : Bool × Sk) (k : Right) :
    (m.setLatest r v).getLatest k = if k == r then (m.getLatest k).map (fun _ => v) else m.getLatest k := by
  unfold RevMap.getLatest
  rw [lookup_setLatest]
  by_cases hk : k == r
  · simp only [hk, if_true]
    cases m.lookup k with
    | none => rfl
    | some c => cases c <;> rfl
  · simp [hk]

theorem getLatest_keep_one (m : RevMap) (r k : Right) : (m.keep r 1).getLatest k = m.getLatest k := by
  unfold RevMap.getLatest
  rw [lookup_keep]
  by_cases hk : k == r
  · simp only [hk, if_true]
    cases m.lookup k with
    | none => rfl
    | some c =>
      cases c with
      | nil => simp [RevMap.keepN]
      | cons a as => simp [RevMap.keepN]
  · simp [hk]

end RevMap

/-! ### rekey -/

theorem rekeyLoop_ok (secrets : RevMap) (rights : List Right) (n : Rng)
    (h : ∀ r ∈ rights, (secrets.getLatest r).isSome) : (rekeyLoop secrets rights n).1 = .ok () := by
  induction rights generalizing secrets n with
  | nil => rfl
  | cons r rest ih =>
    have hr := h r List.mem_cons_self
    unfold rekeyLoop
    have hc : secrets.containsKey r = true := by
      unfold RevMap.containsKey; unfold RevMap.getLatest at hr
      cases hl : secrets.lookup r with
      | none => simp [hl] at hr
      | some _ => rfl
    simp only [hc, if_true]
    cases hl : secrets.getLatest r with
    | none => simp [hl] at hr
    | some v =>
      obtain ⟨act, sk⟩ := v
      simp only
      apply ih
      intro r' hr'
      rw [RevMap.getLatest_insert]
      by_cases hk : r' == r
      · simp [hk]
      · simp only [hk]; exact h r' (List.mem_cons_of_mem _ hr')

/-- a failing `rekey` leaves the master key exactly as it was -/
theorem rekey_error_unchanged (msk : Msk) (rights : List Right) (n : Rng) (e : Err)
    (h : (rekey msk rights n).1 = .error e) : (rekey msk rights n).2.1 = msk := by
  unfold rekey at h ⊢
  split
  · rfl
  · rename_i hv
    exfalso
    have hall : ∀ r ∈ rights, (msk.secrets.getLatest r).isSome := by
      intro r hr
      simp only [List.any_eq_true, not_exists, not_and, Bool.not_eq_true] at hv
      have := hv r hr
      cases hl : msk.secrets.getLatest r with
      | none => simp [hl] at this
      | some _ => rfl
    have hok := rekeyLoop_ok msk.secrets rights n hall
    simp only [hv, if_false] at h
    rw [show (rekeyLoop msk.secrets rights n) = ((rekeyLoop msk.secrets rights n).1, (rekeyLoop msk.secrets rights n).2.1, (rekeyLoop msk.secrets rights n).2.2) from rfl] at h
    simp only [hok] at h
    cases h

/-- `rekey` succeeds exactly when the master key holds a current secret for every right -/
theorem rekey_ok_iff (msk : Msk) (rights : List Right) (n : Rng) :
    (rekey msk rights n).1 = .ok () ↔ ∀ r ∈ rights, (msk.secrets.getLatest r).isSome := by
  constructor
  · intro h r hr
    unfold rekey at h
    split at h
    · cases h
    · rename_i hv
      simp only [List.any_eq_true, not_exists, not_and, Bool.not_eq_true] at hv
      have := hv r hr
      cases hl : msk.secrets.getLatest r with
      | none => simp [hl] at this
      | some _ => rfl
  · intro hall
    unfold rekey
    have hv : ¬ (rights.any (fun r => (msk.secrets.getLatest r).isNone) = true) := by
      simp only [List.any_eq_true, not_exists, not_and, Bool.not_eq_true]
      intro r hr
      have := hall r hr
      cases hl : msk.secrets.getLatest r with
      | none => simp [hl] at this
      | some _ => rfl
    simp only [hv, if_false]
    rw [show (rekeyLoop msk.secrets rights n) = ((rekeyLoop msk.secrets rights n).1, (rekeyLoop msk.secrets rights n).2.1, (rekeyLoop msk.secrets rights n).2.2) from rfl]
    exact rekeyLoop_ok msk.secrets rights n hall

/-- the activation flag and flavour of the newest secret of every right survive a rekey;
only the token is new -/
theorem rekeyLoop_latest (secrets : RevMap) (rights : List Right) (n : Rng) (k : Right) :
    ((rekeyLoop secrets rights n).2.1.getLatest k).map (fun v => (v.1, v.2.hyb)) =
      (secrets.getLatest k).map (fun v => (v.1, v.2.hyb)) := by
  induction rights generalizing secrets n with
  | nil => rfl
  | cons r rest ih =>
    unfold rekeyLoop
    split
    · cases hl : secrets.getLatest r with
      | none => rfl
      | some v =>
        obtain ⟨act, sk⟩ := v
        simp only
        rw [ih, RevMap.getLatest_insert]
        by_cases hk : k == r
        · have := eq_of_beq hk; subst this; simp [hl]
        · simp [hk]
    · rfl

/-! ### prune -/

theorem prune_latest (msk : Msk) (rights : List Right) (k : Right) :
    (prune msk rights).secrets.getLatest k = msk.secrets.getLatest k := by
  unfold prune
  simp only
  generalize msk.secrets = s
  induction rights generalizing s with
  | nil => rfl
  | cons r rest ih =>
    simp only [List.foldl_cons]
    rw [ih, RevMap.getLatest_keep_one]

/-! ### update_msk -/

theorem updateLoop_ok (secrets : RevMap) (rights : List (Right × Bool × Bool)) (n : Rng)
    (h : ∀ p ∈ rights, p.2.2 = true → (secrets.getLatest p.1).isSome) :
    ∃ s, (updateLoop secrets rights n).1 = .ok s := by
  induction rights generalizing secrets n with
  | nil => exact ⟨secrets, rfl⟩
  | cons p rest ih =>
    obtain ⟨r, hyb, ro⟩ := p
    unfold updateLoop
    cases hl : secrets.getLatest r with
    | some v =>
      obtain ⟨act, sk⟩ := v
      simp only
      apply ih
      intro p hp hro
      rw [RevMap.getLatest_setLatest]
      by_cases hk : p.1 == r
      · have := eq_of_beq hk; rw [this]; simp [hl]
      · simp only [hk]; exact h p (List.mem_cons_of_mem _ hp) hro
    | none =>
      simp only
      have hro : ro = false := by
        cases hro : ro with
        | false => rfl
        | true =>
          have := h (r, hyb, ro) List.mem_cons_self (by simp [hro])
          simp [hl] at this
      simp only [hro, Bool.false_eq_true, if_false]
      apply ih
      intro p hp hro'
      rw [RevMap.getLatest_insert]
      by_cases hk : p.1 == r
      · simp [hk]
      · simp only [hk]; exact h p (List.mem_cons_of_mem _ hp) hro'

/-- once the up-front validation passed, `update_msk` cannot fail -/
theorem updateMsk_ok_of_valid (msk : Msk) (rights : List (Right × Bool × Bool)) (n : Rng)
    (hv : ¬ (rights.any (fun p => p.2.2 && (msk.secrets.getLatest p.1).isNone) = true)) :
    (updateMsk msk rights n).1 = .ok () := by
  have hall : ∀ p ∈ rights, p.2.2 = true →
      ((msk.secrets.retain (fun r => (rights.lookup r).isSome)).getLatest p.1).isSome := by
    intro p hp hro
    have h1 : ¬ ((p.2.2 && (msk.secrets.getLatest p.1).isNone) = true) :=
      fun hc => hv (List.any_eq_true.2 ⟨p, hp, hc⟩)
    unfold RevMap.getLatest
    rw [RevMap.lookup_retain]
    have hin : (rights.lookup p.1).isSome = true := by
      obtain ⟨v, hv'⟩ := mem_lookup_isSome (l := rights) (k := p.1) (v := p.2) (by cases p; exact hp)
      simp [hv']
    simp only [hin, if_true]
    cases hl : msk.secrets.getLatest p.1 with
    | none => exact absurd (by simp [hro, hl]) h1
    | some v => unfold RevMap.getLatest at hl; simp [hl]
  obtain ⟨s, hs⟩ := updateLoop_ok _ rights n hall
  unfold updateMsk
  simp only [hv, if_false]
  rw [show (updateLoop (msk.secrets.retain fun r => (rights.lookup r).isSome) rights n) =
    ((updateLoop (msk.secrets.retain fun r => (rights.lookup r).isSome) rights n).1,
     (updateLoop (msk.secrets.retain fun r => (rights.lookup r).isSome) rights n).2) from rfl]
  simp [hs]

/-- a failing `update_msk` leaves the master key exactly as it was -/
theorem updateMsk_error_unchanged (msk : Msk) (rights : List (Right × Bool × Bool)) (n : Rng) (e : Err)
    (h : (updateMsk msk rights n).1 = .error e) : (updateMsk msk rights n).2.1 = msk := by
  by_cases hv : rights.any (fun p => p.2.2 && (msk.secrets.getLatest p.1).isNone) = true
  · unfold updateMsk; simp [hv]
  · rw [updateMsk_ok_of_valid msk rights n hv] at h; cases h

/-! ### usk_keygen, refresh -/

/-- a failing key generation leaves the master key exactly as it was -/
theorem uskKeygen_error_unchanged (msk : Msk) (rights : List Right) (n : Rng) (e : Err)
    (h : (uskKeygen msk rights n).1 = .error e) : (uskKeygen msk rights n).2.1 = msk := by
  unfold uskKeygen at h ⊢
  cases hl : latestRightSks msk rights with
  | error e' => simp
  | ok chains =>
    simp only [hl] at h ⊢
    by_cases hnt : msk.ntracers = 0
    · simp [generateUserId, hnt]
    · simp [generateUserId, hnt] at h

theorem refreshId_msk_eq (msk : Msk) (id : UserId) (n : Rng) (h : id.length = msk.ntracers) :
    (refreshId msk id n).2.1 = msk := by
  unfold refreshId
  by_cases hk : id ∈ msk.users <;> simp [hk, h]

/-- a failing refresh leaves the user key exactly as it was, and the master key too (for keys of
the master key's tracing level — the only ones the API can produce) -/
theorem refresh_error_unchanged (msk : Msk) (usk : Usk) (keep : Bool) (n : Rng) (e : Err)
    (h : (refresh msk usk keep n).1 = .error e) :
    (refresh msk usk keep n).2.2.1 = usk ∧
      (usk.id.length = msk.ntracers → (refresh msk usk keep n).2.1 = msk) := by
  unfold refresh at h ⊢
  by_cases hv : verify msk usk = true
  · simp only [hv, Bool.not_true, Bool.false_eq_true, if_false] at h ⊢
    have hmsk := refreshId_msk_eq msk usk.id n
    rcases hid : refreshId msk usk.id n with ⟨res, msk', n'⟩
    rw [hid] at h hmsk
    simp only at hmsk
    cases res with
    | error e' => exact ⟨rfl, hmsk⟩
    | ok nid =>
      simp only at h ⊢
      generalize (if keep = true then Except.ok (refreshCoordinateKeys msk' usk.secrets)
          else latestRightSks msk' ((usk.secrets.map (·.1)).filter (fun r => msk'.secrets.containsKey r))) = nr at h ⊢
      cases nr with
      | error e' => exact ⟨rfl, hmsk⟩
      | ok x => simp at h
  · simp [hv]

/-- rekey prepends a fresh secret to the chain of every rekeyed right -/
theorem rekeyLoop_fresh' (secrets : RevMap) (rights : List Right) (n : Rng) (r : Right) (hr : r ∈ rights)
    (hall : ∀ r ∈ rights, (secrets.getLatest r).isSome) :
    ∃ act sk, (rekeyLoop secrets rights n).2.1.getLatest r = some (act, sk) ∧ n ≤ sk.tok := by
  induction rights generalizing secrets n with
  | nil => cases hr
  | cons x xs ih =>
    unfold rekeyLoop
    have hx := hall x List.mem_cons_self
    have hc : secrets.containsKey x = true := by
      unfold RevMap.containsKey; unfold RevMap.getLatest at hx
      cases hl : secrets.lookup x with
      | none => simp [hl] at hx
      | some _ => rfl
    simp only [hc, if_true]
    cases hl : secrets.getLatest x with
    | none => simp [hl] at hx
    | some v =>
      obtain ⟨act, sk⟩ := v
      simp only
      have hall' : ∀ r ∈ xs, ((secrets.insert x (act, ⟨n, sk.hyb⟩)).getLatest r).isSome := by
        intro r' hr'
        rw [RevMap.getLatest_insert]
        by_cases hk : r' == x
        · simp [hk]
        · simp only [hk]; exact hall r' (List.mem_cons_of_mem _ hr')
      by_cases hin : r ∈ xs
      · obtain ⟨a, s, h1, h2⟩ := ih (secrets.insert x (act, ⟨n, sk.hyb⟩)) (n + 1) hin hall'
        exact ⟨a, s, h1, Nat.le_of_succ_le h2⟩
      · have hrx : r = x := by
          rcases List.mem_cons.1 hr with h | h
          · exact h
          · exact absurd h hin
        subst hrx
        -- the remaining rights do not touch `r`: its newest secret is the one just inserted
        have hstable : ∀ (s : RevMap) (m : Rng), r ∉ xs → (rekeyLoop s xs m).2.1.getLatest r = s.getLatest r := by
          intro s m hnin
          clear ih hall' hall hr hin
          induction xs generalizing s m with
          | nil => rfl
          | cons y ys ihy =>
            simp only [List.mem_cons, not_or] at hnin
            unfold rekeyLoop
            split
            · cases hy : s.getLatest y with
              | none => rfl
              | some w =>
                obtain ⟨a, k⟩ := w
                simp only
                rw [ihy _ _ hnin.2, RevMap.getLatest_insert]
                have : (r == y) = false := by simpa using hnin.1
                simp [this]
            · rfl
        rw [hstable _ _ hin, RevMap.getLatest_insert]
        exact ⟨act, ⟨n, sk.hyb⟩, by simp, Nat.le_refl _⟩

end CC
