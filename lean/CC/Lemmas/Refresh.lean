import CC.Model.Prims
/-! `refresh_coordinate_keys`, chain by chain: general facts and the closed form under the
contiguity invariants (master chain = newest `k` entries of the log of the right, user chain = a
contiguous window of the log). -/
namespace CC

theorem spanUntil_notMem (t : Sk) (l : List Sk) (h : t ∉ l) : spanUntil t l = (l, none) := by
  induction l with
  | nil => rfl
  | cons m ms ih =>
    simp only [List.mem_cons, not_or] at h
    simp [spanUntil, Ne.symm h.1, ih h.2]

theorem spanUntil_append (t : Sk) (a b : List Sk) (h : t ∉ a) :
    spanUntil t (a ++ t :: b) = (a, some b) := by
  induction a with
  | nil => simp [spanUntil]
  | cons m ms ih =>
    simp only [List.mem_cons, not_or] at h
    simp [spanUntil, Ne.symm h.1, ih h.2]

/-- decomposition computed by `spanUntil` -/
theorem spanUntil_spec (t : Sk) (l : List Sk) :
    (∃ a b, spanUntil t l = (a, some b) ∧ l = a ++ t :: b ∧ t ∉ a) ∨ (spanUntil t l = (l, none) ∧ t ∉ l) := by
  induction l with
  | nil => right; simp [spanUntil]
  | cons m ms ih =>
    by_cases hm : m = t
    · left; subst hm; exact ⟨[], ms, by simp [spanUntil], rfl, by simp⟩
    · rcases ih with ⟨a, b, h1, h2, h3⟩ | ⟨h1, h2⟩
      · left
        refine ⟨m :: a, b, by simp [spanUntil, hm, h1], by simp [h2], ?_⟩
        simp only [List.mem_cons, not_or]; exact ⟨Ne.symm hm, h3⟩
      · right
        refine ⟨by simp [spanUntil, hm, h1], ?_⟩
        simp only [List.mem_cons, not_or]; exact ⟨Ne.symm hm, h2⟩

theorem commonPrefix_sub_right (u m : List Sk) : ∀ s ∈ commonPrefix u m, s ∈ m := by
  induction u generalizing m with
  | nil => simp [commonPrefix]
  | cons x xs ih =>
    cases m with
    | nil => simp [commonPrefix]
    | cons y ys =>
      simp only [commonPrefix]
      split
      · intro s hs
        rcases List.mem_cons.1 hs with rfl | hs
        · exact List.mem_cons_self
        · exact List.mem_cons_of_mem _ (ih ys s hs)
      · simp

theorem commonPrefix_sub_left (u m : List Sk) : ∀ s ∈ commonPrefix u m, s ∈ u := by
  induction u generalizing m with
  | nil => simp [commonPrefix]
  | cons x xs ih =>
    cases m with
    | nil => simp [commonPrefix]
    | cons y ys =>
      simp only [commonPrefix]
      split
      · rename_i h
        intro s hs
        rcases List.mem_cons.1 hs with rfl | hs
        · rw [h]; exact List.mem_cons_self
        · exact List.mem_cons_of_mem _ (ih ys s hs)
      · simp

/-- every secret of a refreshed chain is a secret of the master chain (whatever the chains) -/
theorem refreshChain_sub_master (m u c : List Sk) (h : refreshChain m u = some c) : ∀ s ∈ c, s ∈ m := by
  unfold refreshChain at h
  cases u with
  | nil => simp at h
  | cons first rest =>
    simp only at h
    rcases spanUntil_spec first m with ⟨a, b, h1, h2, _⟩ | ⟨h1, _⟩
    · rw [h1] at h
      simp only [Option.some.injEq] at h
      subst h
      intro s hs
      rw [h2]
      rcases List.mem_append.1 hs with hs | hs
      · exact List.mem_append_left _ hs
      · rcases List.mem_cons.1 hs with rfl | hs
        · exact List.mem_append_right _ List.mem_cons_self
        · exact List.mem_append_right _ (List.mem_cons_of_mem _ (commonPrefix_sub_right _ _ s hs))
    · rw [h1] at h
      simp only [Option.some.injEq] at h
      subst h
      exact fun s hs => hs

/-- a refreshed chain starts with the newest master secrets: the master head is its head -/
theorem refreshChain_head (m u c : List Sk) (h : refreshChain m u = some c) : c.head? = m.head? ∨ m = [] := by
  unfold refreshChain at h
  cases u with
  | nil => simp at h
  | cons first rest =>
    simp only at h
    rcases spanUntil_spec first m with ⟨a, b, h1, h2, _⟩ | ⟨h1, _⟩
    · rw [h1] at h
      simp only [Option.some.injEq] at h
      subst h; subst h2
      left
      cases a <;> simp
    · rw [h1] at h
      simp only [Option.some.injEq] at h
      subst h
      left; rfl

theorem commonPrefix_take (l : List Sk) (a b : Nat) :
    commonPrefix (l.take a) (l.take b) = l.take (min a b) := by
  induction l generalizing a b with
  | nil => simp [commonPrefix]
  | cons x xs ih =>
    cases a <;> cases b <;> simp [commonPrefix, List.take]
    rename_i a b
    rw [ih a b]

/-- Closed form under the contiguity invariants: `log` duplicate-free (newest first), master chain
= newest `k`, user chain = the `j` entries starting at position `i`. The refreshed chain is the
newest `min k (i+j)` entries if the user's newest is still in the master chain, and the whole
master chain otherwise. -/
theorem refreshChain_spec (log : List Sk) (hnd : log.Nodup) (k i j : Nat)
    (hk : k ≤ log.length) (hj : 0 < j) (hij : i + j ≤ log.length) :
    refreshChain (log.take k) ((log.drop i).take j) =
      some (if i < k then log.take (min k (i + j)) else log.take k) := by
  obtain ⟨j, rfl⟩ : ∃ j', j = j' + 1 := ⟨j - 1, by omega⟩
  have hi : i < log.length := by omega
  have hsplit : log = log.take i ++ log[i] :: log.drop (i + 1) := by
    rw [← List.drop_eq_getElem_cons hi, List.take_append_drop]
  generalize ha : log.take i = a at hsplit
  generalize hb : log.drop (i + 1) = b at hsplit
  generalize ht : log[i] = t at hsplit
  have hal : a.length = i := by rw [← ha]; simp; omega
  subst hsplit
  have hnd' := hnd
  rw [List.nodup_append] at hnd'
  obtain ⟨hnda, hndtb, hdisj⟩ := hnd'
  have htna : t ∉ a := fun h => hdisj t h t (List.mem_cons_self) rfl
  have hdrop : ((a ++ t :: b).drop i).take (j + 1) = t :: b.take j := by
    rw [← hal]; simp
  rw [hdrop]
  have hlen : (a ++ t :: b).length = i + 1 + b.length := by simp [hal]; omega
  rw [hlen] at hk hij hi
  unfold refreshChain
  simp only
  by_cases hlt : i < k
  · have htk : (a ++ t :: b).take k = a ++ t :: b.take (k - i - 1) := by
      rw [List.take_append, hal]
      have h1 : a.take k = a := List.take_of_length_le (by omega)
      rw [h1]
      have h2 : k - i = (k - i - 1) + 1 := by omega
      rw [h2, List.take_succ_cons]; simp
    rw [htk, spanUntil_append t a _ htna]
    simp only [hlt, if_true]
    rw [commonPrefix_take b j (k - i - 1)]
    congr 1
    rw [List.take_append, hal]
    have h1 : a.take (min k (i + (j + 1))) = a := List.take_of_length_le (by omega)
    rw [h1]
    have h2 : min k (i + (j + 1)) - i = min j (k - i - 1) + 1 := by omega
    rw [h2, List.take_succ_cons]
  · have hki : k ≤ a.length := by omega
    have htk : (a ++ t :: b).take k = a.take k := by
      rw [List.take_append_of_le_length hki]
    rw [htk, spanUntil_notMem t _ (fun h => htna (List.mem_of_mem_take h))]
    simp [hlt]

end CC
