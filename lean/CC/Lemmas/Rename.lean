import CC.Lemmas.Cover
import CC.Lemmas.StructWF
/-! Renaming an attribute: the name-level order relation of its dimension is the same under the
new name, and so is the attribute every name denotes. -/
namespace CC
open CC.Look

/-- the new name of `x` inside the renamed dimension -/
def renName (o n x : String) : String := if x = o then n else x

theorem findIdx_map_rename (l : List (String × Attr)) (o n x : String)
    (hn : ∀ p ∈ l, p.1 ≠ n) (hx : x ≠ n) :
    (l.map (fun p => if p.1 == o then (n, p.2) else p)).findIdx (fun p => p.1 == renName o n x) =
      l.findIdx (fun p => p.1 == x) := by
  induction l with
  | nil => rfl
  | cons p t ih =>
    have hpn : p.1 ≠ n := hn p List.mem_cons_self
    simp only [List.map_cons, List.findIdx_cons]
    have key : ((if p.1 == o then (n, p.2) else p).1 == renName o n x) = (p.1 == x) := by
      unfold renName
      by_cases hpo : p.1 = o
      · simp only [hpo, beq_self_eq_true, if_true]
        by_cases hxo : x = o
        · simp [hxo]
        · simp only [hxo, if_false]
          have h1 : (n == x) = false := by
            cases hb : n == x
            · rfl
            · exact absurd (eq_of_beq hb).symm hx
          have h2 : (o == x) = false := by
            cases hb : o == x
            · rfl
            · exact absurd (eq_of_beq hb).symm hxo
          rw [h1, h2]
      · have hpo' : (p.1 == o) = false := by
          cases hb : p.1 == o
          · rfl
          · exact absurd (eq_of_beq hb) hpo
        simp only [hpo', Bool.false_eq_true, if_false]
        by_cases hxo : x = o
        · simp only [hxo, if_true]
          have h1 : (p.1 == n) = false := by
            cases hb : p.1 == n
            · rfl
            · exact absurd (eq_of_beq hb) hpn
          rw [h1, hpo']
        · simp [hxo]
    rw [key, ih (fun q hq => hn q (List.mem_cons_of_mem _ hq))]

/-- **the order relation of a dimension is the same under the new name** (hierarchy: positions are
kept; anarchy: names are equal iff their renamed versions are) -/
theorem leq_rename (d d' : Dim) (o n : String) (hnd : (d.attrs.map (·.1)).Nodup)
    (h : d.renameAttribute o n = .ok d') (x y : String)
    (hx : ∃ a, (x, a) ∈ d.attrs) (hy : ∃ a, (y, a) ∈ d.attrs) :
    Spec.leq d' (renName o n x) (renName o n y) = Spec.leq d x y := by
  -- the new name is not in use, the old one is
  have hfresh : ∀ p ∈ d.attrs, p.1 ≠ n := by
    intro p hp hpn
    unfold Dim.renameAttribute at h
    have hl : (d.attrs.lookup n).isSome = true := by
      have := mem_lookup_isSome (l := d.attrs) (k := n) (v := p.2) (by rw [← hpn]; exact hp)
      obtain ⟨v', hv'⟩ := this; rw [hv']; rfl
    by_cases ho : d.ordered = true
    · simp only [ho, if_true] at h
      cases hlo : d.attrs.lookup o with
      | none => simp [hlo] at h
      | some a => simp [hlo, hl] at h
    · simp only [ho, Bool.false_eq_true, if_false, hl, if_true] at h
      cases h
  have hxn : x ≠ n := by obtain ⟨a, ha⟩ := hx; exact hfresh _ ha
  have hyn : y ≠ n := by obtain ⟨a, ha⟩ := hy; exact hfresh _ ha
  by_cases ho : d.ordered = true
  · -- hierarchy: the list is mapped, positions are unchanged
    have hd' : d'.attrs = d.attrs.map (fun p => if p.1 == o then (n, p.2) else p) ∧ d'.ordered = true := by
      unfold Dim.renameAttribute at h
      simp only [ho, if_true] at h
      cases hlo : d.attrs.lookup o with
      | none => simp [hlo] at h
      | some a =>
        simp only [hlo] at h
        split at h
        · cases h
        · simp only [Except.ok.injEq] at h; subst h; exact ⟨rfl, rfl⟩
    have hpos : ∀ z, z ≠ n → Spec.pos d' (renName o n z) = Spec.pos d z := by
      intro z hz
      unfold Spec.pos
      simp only [hd'.1, List.length_map]
      rw [findIdx_map_rename d.attrs o n z hfresh hz]
    unfold Spec.leq
    rw [hpos x hxn, hpos y hyn, hd'.2, ho]
    cases Spec.pos d x <;> cases Spec.pos d y <;> simp
  · -- anarchy: both names exist before and after; equality of names is preserved
    have hof : d.ordered = false := by simpa using ho
    have hd' : d'.ordered = false ∧ ∃ a, d.attrs.lookup o = some a ∧ d'.attrs = aerase d.attrs o ++ [(n, a)] := by
      unfold Dim.renameAttribute at h
      simp only [ho, Bool.false_eq_true, if_false] at h
      split at h
      · cases h
      · cases hlo : d.attrs.lookup o with
        | none => simp [hlo] at h
        | some a =>
          simp only [hlo, Except.ok.injEq] at h; subst h
          exact ⟨rfl, a, rfl, rfl⟩
    obtain ⟨hof', a, hla, hattrs⟩ := hd'
    have hex : ∀ z, (∃ b, (z, b) ∈ d.attrs) → ∃ b, (renName o n z, b) ∈ d'.attrs := by
      rintro z ⟨b, hb⟩
      unfold renName
      by_cases hzo : z = o
      · simp only [hzo, if_true]; exact ⟨a, by rw [hattrs]; simp⟩
      · simp only [hzo, if_false]
        refine ⟨b, ?_⟩
        rw [hattrs]
        apply List.mem_append_left
        unfold aerase
        exact List.mem_filter.2 ⟨hb, by simpa using hzo⟩
    have hsx := pos_isSome_iff.2 (hex x hx)
    have hsy := pos_isSome_iff.2 (hex y hy)
    have hsx0 := pos_isSome_iff.2 hx
    have hsy0 := pos_isSome_iff.2 hy
    unfold Spec.leq
    cases h1 : Spec.pos d' (renName o n x) with
    | none => rw [h1] at hsx; cases hsx
    | some i =>
      cases h2 : Spec.pos d' (renName o n y) with
      | none => rw [h2] at hsy; cases hsy
      | some j =>
        cases h3 : Spec.pos d x with
        | none => rw [h3] at hsx0; cases hsx0
        | some i0 =>
          cases h4 : Spec.pos d y with
          | none => rw [h4] at hsy0; cases hsy0
          | some j0 =>
            simp only [hof, hof', Bool.false_eq_true, if_false]
            unfold renName
            by_cases hxo : x = o <;> by_cases hyo : y = o
            · simp [hxo, hyo]
            · simp only [hxo, hyo, if_true, if_false]
              have e1 : (n == y) = false := by
                cases hb : n == y
                · rfl
                · exact absurd (eq_of_beq hb).symm hyn
              have e2 : (o == y) = false := by
                cases hb : o == y
                · rfl
                · exact absurd (eq_of_beq hb).symm hyo
              rw [e1, e2]
            · simp only [hxo, hyo, if_true, if_false]
              have e1 : (x == n) = false := by
                cases hb : x == n
                · rfl
                · exact absurd (eq_of_beq hb) hxn
              have e2 : (x == o) = false := by
                cases hb : x == o
                · rfl
                · exact absurd (eq_of_beq hb) hxo
              rw [e1, e2]
            · simp [hxo, hyo]

end CC

namespace CC
open CC.Look

theorem rename_mem (d d' : Dim) (o n : String) (h : d.renameAttribute o n = .ok d') (z : String) (b : Attr)
    (hb : (z, b) ∈ d.attrs) (hnd : (d.attrs.map (·.1)).Nodup) : (renName o n z, b) ∈ d'.attrs := by
  unfold Dim.renameAttribute at h
  by_cases ho : d.ordered = true
  · simp only [ho, if_true] at h
    cases hlo : d.attrs.lookup o with
    | none => simp [hlo] at h
    | some a =>
      simp only [hlo] at h
      split at h
      · cases h
      · simp only [Except.ok.injEq] at h; subst h
        refine List.mem_map.2 ⟨(z, b), hb, ?_⟩
        unfold renName
        by_cases hzo : z = o
        · simp [hzo]
        · have : (z == o) = false := by
            cases hbq : z == o
            · rfl
            · exact absurd (eq_of_beq hbq) hzo
          simp [this, hzo]
  · simp only [ho, Bool.false_eq_true, if_false] at h
    split at h
    · cases h
    · cases hlo : d.attrs.lookup o with
      | none => simp [hlo] at h
      | some a =>
        simp only [hlo, Except.ok.injEq] at h; subst h
        unfold renName
        by_cases hzo : z = o
        · simp only [hzo, if_true]
          have : b = a := by
            have h1 := mem_lookup_of_nodup hnd (hzo ▸ hb)
            rw [hlo] at h1; exact (Option.some.inj h1).symm
          rw [this]; simp
        · simp only [hzo, if_false]
          apply List.mem_append_left
          unfold aerase
          exact List.mem_filter.2 ⟨hb, by simpa using hzo⟩

theorem lookup_areplace_other {β} (l : List (String × β)) (k k' : String) (v : β) (h : k' ≠ k) :
    (areplace l k v).lookup k' = l.lookup k' := by
  unfold areplace
  induction l with
  | nil => rfl
  | cons p t ih =>
    obtain ⟨kk, vv⟩ := p
    simp only [List.map_cons]
    by_cases hk : (kk == k) = true
    · have hkk : kk = k := eq_of_beq hk
      subst hkk
      have : (k' == kk) = false := by
        cases hb : k' == kk
        · rfl
        · exact absurd (eq_of_beq hb) h
      simp only [hk, if_true, List.lookup_cons, this]
      exact ih
    · simp only [hk, Bool.false_eq_true, if_false, List.lookup_cons]
      rw [ih]

theorem lookup_areplace_same {β} (l : List (String × β)) (k : String) (v : β) (h : (l.lookup k).isSome = true) :
    (areplace l k v).lookup k = some v := by
  unfold areplace
  induction l with
  | nil => simp at h
  | cons p t ih =>
    obtain ⟨k', v'⟩ := p
    simp only [List.map_cons, List.lookup_cons] at h ⊢
    by_cases hk : (k == k') = true
    · have : k' = k := (eq_of_beq hk).symm
      subst this
      simp
    · have hk' : (k == k') = false := by simpa using hk
      have hk'' : (k' == k) = false := by
        cases hb : k' == k
        · rfl
        · exact absurd (eq_of_beq hb).symm (by intro h2; rw [h2] at hk'; simp at hk')
      simp only [hk', hk'', Bool.false_eq_true, if_false] at h ⊢
      simp only [List.lookup_cons, hk']
      exact ih h

/-- the qualified attribute under its new name -/
def renQA (dn o n : String) (q : QA) : QA := if q.dim = dn then ⟨dn, renName o n q.name⟩ else q

theorem renQA_dim (dn o n : String) (q : QA) : (renQA dn o n q).dim = q.dim := by
  unfold renQA; split
  · rename_i h; exact h.symm
  · rfl

end CC

namespace CC
open CC.Look

theorem getAttribute_rename {s s' : Struct} (hS : s.WF) (hb : s.IdsBelow) {dn o n : String}
    (h : s.renameAttribute dn o n = .ok s') {q : QA} {a : Attr} (ha : s.getAttribute q = .ok a) :
    s'.getAttribute (renQA dn o n q) = .ok a := by
  have hS' : s'.WF := Struct.apply_wf (e := .rename dn o n) hS hb (by simpa [Struct.apply] using h)
  obtain ⟨d, d', hdl, hf, rfl⟩ := Struct.onDim_spec h
  unfold Struct.getAttribute at ha ⊢
  unfold renQA
  by_cases hq : q.dim = dn
  · simp only [hq, if_true]
    rw [hq, hdl] at ha
    simp only at ha
    cases hla : d.attrs.lookup q.name with
    | none => simp [hla] at ha
    | some a0 =>
      simp only [hla, Except.ok.injEq] at ha
      subst ha
      have hdS : (dn, d) ∈ s.dims := lookup_mem hdl
      have hmem := rename_mem d d' o n hf q.name a0 (lookup_mem hla) (hS.names _ hdS)
      have hl' : (areplace s.dims dn d').lookup dn = some d' := lookup_areplace_same _ _ _ (by rw [hdl]; rfl)
      simp only [hl']
      have hnd : (d'.attrs.map (·.1)).Nodup := hS'.names (dn, d') (lookup_mem hl')
      rw [mem_lookup_of_nodup hnd hmem]
  · simp only [hq, if_false]
    rw [lookup_areplace_other _ _ _ _ hq]
    exact ha

theorem mapM_getAttribute_rename {s s' : Struct} (hS : s.WF) (hb : s.IdsBelow) {dn o n : String}
    (h : s.renameAttribute dn o n = .ok s') : ∀ {ε : List QA} {eas : List Attr},
    mapMExcept s.getAttribute ε = .ok eas → mapMExcept s'.getAttribute (ε.map (renQA dn o n)) = .ok eas
  | [], eas, he => by simpa [mapMExcept] using he
  | q :: rest, eas, he => by
    unfold mapMExcept at he
    cases hq : s.getAttribute q with
    | error e => simp [hq] at he
    | ok a =>
      simp only [hq] at he
      cases hr : mapMExcept s.getAttribute rest with
      | error e => simp [hr] at he
      | ok bs =>
        simp only [hr, Except.ok.injEq] at he
        subst he
        simp only [List.map_cons]
        unfold mapMExcept
        rw [getAttribute_rename hS hb h hq, mapM_getAttribute_rename hS hb h hr]

theorem all_congr_mem {α} {l : List α} {f g : α → Bool} (h : ∀ x ∈ l, f x = g x) : l.all f = l.all g := by
  induction l with
  | nil => rfl
  | cons a t ih =>
    simp only [List.all_cons]
    rw [h a List.mem_cons_self, ih (fun x hx => h x (List.mem_cons_of_mem _ hx))]

/-- the name-level cover relation between two clauses is the same before the rename and, with the
new names, after it -/
theorem coversClause_rename {s s' : Struct} (hS : s.WF) {dn o n : String}
    (h : s.renameAttribute dn o n = .ok s') {cl ε : List QA}
    (hkc : Spec.clauseKnown s cl = true) (hkε : Spec.clauseKnown s ε = true) :
    Spec.coversClause s' (cl.map (renQA dn o n)) (ε.map (renQA dn o n)) = Spec.coversClause s cl ε := by
  obtain ⟨d, d', hdl, hf, rfl⟩ := Struct.onDim_spec h
  have hdS : (dn, d) ∈ s.dims := lookup_mem hdl
  unfold Spec.coversClause
  rw [List.all_map]
  apply all_congr_mem
  intro qx hqx
  simp only [Function.comp]
  rw [List.all_map]
  apply all_congr_mem
  intro qy hqy
  simp only [Function.comp, renQA_dim]
  by_cases hdim : qy.dim = qx.dim
  · have hne : (qy.dim != qx.dim) = false := by simp [hdim]
    simp only [hne, Bool.false_or]
    by_cases hx : qx.dim = dn
    · -- both attributes live in the renamed dimension
      have hy : qy.dim = dn := hdim.trans hx
      have hl' : (areplace s.dims dn d').lookup dn = some d' := lookup_areplace_same _ _ _ (by rw [hdl]; rfl)
      rw [hx, hl', hdl]
      simp only
      have hnx : (renQA dn o n qx).name = renName o n qx.name := by simp [renQA, hx]
      have hny : (renQA dn o n qy).name = renName o n qy.name := by simp [renQA, hy]
      rw [hnx, hny]
      -- both names exist in the dimension
      have hex : ∀ q ∈ ε ++ cl, q.dim = dn → ∃ a, (q.name, a) ∈ d.attrs := by
        intro q hq hqd
        have hk : Spec.clauseKnown s [q] = true := by
          rcases List.mem_append.1 hq with h1 | h1
          · have := List.all_eq_true.1 hkε q h1
            simpa [Spec.clauseKnown] using this
          · have := List.all_eq_true.1 hkc q h1
            simpa [Spec.clauseKnown] using this
        simp only [Spec.clauseKnown, List.all_cons, List.all_nil, Bool.and_true, hqd, hdl] at hk
        exact pos_isSome_iff.1 hk
      exact leq_rename d d' o n (hS.names _ hdS) hf qx.name qy.name
        (hex qx (List.mem_append_left _ hqx) hx) (hex qy (List.mem_append_right _ hqy) hy)
    · have hxn : (renQA dn o n qx).name = qx.name := by simp [renQA, hx]
      have hyn : (renQA dn o n qy).name = qy.name := by
        have : ¬ qy.dim = dn := fun hh => hx (hdim ▸ hh)
        simp [renQA, this]
      rw [lookup_areplace_other _ _ _ _ hx, hxn, hyn]
  · have hne : (qy.dim != qx.dim) = true := by simp [hdim]
    simp [hne]

end CC
