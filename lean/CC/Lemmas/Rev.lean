import CC.Model.Prims
/-! The (repaired) revision iterator yields every secret of every chain, and nothing else. -/
namespace CC

theorem mem_revHeads {chains : RevVec} {x : Right × Sk} :
    x ∈ revHeads chains ↔ ∃ c, (x.1, c) ∈ chains ∧ c.head? = some x.2 := by
  simp only [revHeads, List.mem_filterMap]
  constructor
  · rintro ⟨⟨k, c⟩, hm, h⟩
    cases hc : c.head? with
    | none => simp [hc] at h
    | some s => simp [hc] at h; subst h; exact ⟨c, hm, hc⟩
  · rintro ⟨c, hm, hc⟩
    exact ⟨(x.1, c), hm, by simp [hc]⟩

theorem mem_revTails {chains : RevVec} {k : Right} {c : List Sk} :
    (k, c) ∈ revTails chains ↔ ∃ c', (k, c') ∈ chains ∧ c = c'.tail := by
  simp only [revTails, List.mem_map]
  constructor
  · rintro ⟨⟨k', c'⟩, hm, h⟩
    simp only [Prod.mk.injEq] at h
    obtain ⟨rfl, rfl⟩ := h
    exact ⟨c', hm, rfl⟩
  · rintro ⟨c', hm, rfl⟩
    exact ⟨(k, c'), hm, rfl⟩

/-- `revisions_cover`: a pair is yielded by the iterator iff it is an element of one of the chains -/
theorem mem_revisions (chains : RevVec) (x : Right × Sk) :
    (∃ rev ∈ revisions chains, x ∈ rev) ↔ ∃ c, (x.1, c) ∈ chains ∧ x.2 ∈ c := by
  induction chains using revisions.induct with
  | case1 chains h =>
    rw [revisions, dif_pos h]
    simp only [List.not_mem_nil, false_and, exists_false, false_iff]
    rintro ⟨c, hm, hx⟩
    cases c with
    | nil => cases hx
    | cons s c =>
      have : (x.1, s) ∈ revHeads chains := mem_revHeads.2 ⟨s :: c, hm, rfl⟩
      rw [h] at this; cases this
  | case2 chains h ih =>
    rw [revisions, dif_neg h]
    simp only [List.mem_cons, exists_eq_or_imp]
    rw [ih]
    constructor
    · rintro (hx | ⟨c, hm, hx⟩)
      · obtain ⟨c, hm, hc⟩ := mem_revHeads.1 hx
        exact ⟨c, hm, List.mem_of_mem_head? hc⟩
      · obtain ⟨c', hm', rfl⟩ := mem_revTails.1 hm
        exact ⟨c', hm', List.mem_of_mem_tail hx⟩
    · rintro ⟨c, hm, hx⟩
      cases c with
      | nil => cases hx
      | cons s c =>
        rcases List.mem_cons.1 hx with rfl | hx
        · exact Or.inl (mem_revHeads.2 ⟨_, hm, rfl⟩)
        · exact Or.inr ⟨c, mem_revTails.2 ⟨_, hm, rfl⟩, hx⟩

/-- the key is of the same authority and tracing shape and one of its secrets, in any chain at any
depth, opens one of the components -/
def CanOpen (usk : Usk) (enc : XEnc) : Prop :=
  usk.auth = enc.auth ∧ usk.nps = enc.ntraps ∧ usk.id.length = enc.ntraps ∧
    ∃ r c s t, (r, c) ∈ usk.secrets ∧ s ∈ c ∧ t ∈ enc.targets ∧ opens enc.hybrid s t = true

theorem decaps_eq_some_iff (usk : Usk) (enc : XEnc) (v : Nat) :
    decaps usk enc = some v ↔ v = enc.seed ∧ CanOpen usk enc := by
  unfold decaps CanOpen
  by_cases h : usk.auth = enc.auth ∧ usk.nps = enc.ntraps ∧ usk.id.length = enc.ntraps
  · rw [if_pos h]
    obtain ⟨h1, h2, h3⟩ := h
    have key : ((revisions usk.secrets).any (fun rev =>
        enc.targets.any (fun t => rev.any (fun p => opens enc.hybrid p.2 t))) = true) ↔
        ∃ r c s t, (r, c) ∈ usk.secrets ∧ s ∈ c ∧ t ∈ enc.targets ∧ opens enc.hybrid s t = true := by
      simp only [List.any_eq_true]
      constructor
      · rintro ⟨rev, hrev, t, ht, p, hp, ho⟩
        obtain ⟨c, hm, hx⟩ := (mem_revisions usk.secrets p).1 ⟨rev, hrev, hp⟩
        exact ⟨p.1, c, p.2, t, hm, hx, ht, ho⟩
      · rintro ⟨r, c, s, t, hm, hs, ht, ho⟩
        obtain ⟨rev, hrev, hp⟩ := (mem_revisions usk.secrets (r, s)).2 ⟨c, hm, hs⟩
        exact ⟨rev, hrev, t, ht, (r, s), hp, ho⟩
    split
    · rename_i hany
      simp only [Option.some.injEq]
      constructor
      · intro hv; exact ⟨hv.symm, h1, h2, h3, key.1 hany⟩
      · rintro ⟨hv, _⟩; exact hv.symm
    · rename_i hany
      simp only [reduceCtorEq, false_iff]
      rintro ⟨_, _, _, _, hex⟩
      exact hany (key.2 hex)
  · rw [if_neg h]
    simp only [reduceCtorEq, false_iff]
    rintro ⟨_, a, b, c, _⟩; exact h ⟨a, b, c⟩

theorem decaps_eq_none_iff (usk : Usk) (enc : XEnc) :
    decaps usk enc = none ↔ ¬ CanOpen usk enc := by
  constructor
  · intro h hc
    have := (decaps_eq_some_iff usk enc enc.seed).2 ⟨rfl, hc⟩
    rw [h] at this; cases this
  · intro h
    cases hd : decaps usk enc with
    | none => rfl
    | some v => exact absurd ((decaps_eq_some_iff usk enc v).1 hd).2 h

end CC
