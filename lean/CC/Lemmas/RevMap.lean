import CC.Model.Prims
import CC.Lemmas.Look
/-! Lookup lemmas for the `RevisionMap` operations (association lists keyed by rights). -/
namespace CC
open CC.Look

theorem lookup_mapVal {β} (m : List (Right × β)) (r : Right) (f : β → β) (k : Right) :
    (m.map (fun p => if p.1 == r then (p.1, f p.2) else p)).lookup k =
      if k == r then (m.lookup k).map f else m.lookup k := by
  induction m with
  | nil => simp
  | cons p m ih =>
    obtain ⟨k', v⟩ := p
    simp only [List.map_cons]
    by_cases hr' : (k' == r) = true
    · simp only [hr', if_true, List.lookup_cons]
      by_cases hk : (k == k') = true
      · have hkk : k = k' := eq_of_beq hk
        subst hkk
        simp [hr']
      · have hk' : (k == k') = false := by simpa using hk
        simp only [hk']
        exact ih
    · have hr'' : (k' == r) = false := by simpa using hr'
      simp only [hr'', Bool.false_eq_true, if_false, List.lookup_cons]
      by_cases hk : (k == k') = true
      · have hkk : k = k' := eq_of_beq hk
        subst hkk
        simp [hr'']
      · have hk' : (k == k') = false := by simpa using hk
        simp only [hk']
        exact ih

theorem lookup_append_single {β} (m : List (Right × β)) (r : Right) (v : β) (k : Right) :
    (m ++ [(r, v)]).lookup k = match m.lookup k with
      | some x => some x
      | none => if k == r then some v else none := by
  induction m with
  | nil => simp [List.lookup]; split <;> simp_all
  | cons p m ih =>
    obtain ⟨k', v'⟩ := p
    simp only [List.cons_append, List.lookup_cons]
    by_cases hk : k == k'
    · simp [hk]
    · simp only [hk]; exact ih

namespace RevMap

theorem lookup_insert (m : RevMap) (r : Right) (v : Bool × Sk) (k : Right) :
    (m.insert r v).lookup k =
      if k == r then some (v :: (m.lookup r).getD []) else m.lookup k := by
  unfold RevMap.insert
  cases hr : m.lookup r with
  | none =>
    simp only [Option.isSome_none, Bool.false_eq_true, if_false, Option.getD_none]
    rw [lookup_append_single]
    by_cases hk : k == r
    · have := eq_of_beq hk; subst this; simp [hr]
    · simp only [hk]
      cases m.lookup k <;> simp
  | some c =>
    simp only [Option.isSome_some, if_true, Option.getD_some]
    rw [lookup_mapVal m r (fun c => v :: c) k]
    by_cases hk : k == r
    · have := eq_of_beq hk; subst this; simp [hr]
    · simp [hk]

theorem getLatest_insert (m : RevMap) (r : Right) (v : Bool × Sk) (k : Right) :
    (m.insert r v).getLatest k = if k == r then some v else m.getLatest k := by
  unfold RevMap.getLatest
  rw [lookup_insert]
  by_cases hk : k == r <;> simp [hk]

theorem lookup_setLatest (m : RevMap) (r : Right) (v : Bool × Sk) (k : Right) :
    (m.setLatest r v).lookup k =
      if k == r then (m.lookup k).map (RevMap.setHead v) else m.lookup k := by
  unfold RevMap.setLatest
  exact lookup_mapVal m r (RevMap.setHead v) k

theorem lookup_keep (m : RevMap) (r : Right) (n : Nat) (k : Right) :
    (m.keep r n).lookup k =
      if k == r then (m.lookup k).map (RevMap.keepN n) else m.lookup k := by
  unfold RevMap.keep
  exact lookup_mapVal m r (RevMap.keepN n) k

theorem lookup_retain (m : RevMap) (f : Right → Bool) (k : Right) :
    (m.retain f).lookup k = if f k then m.lookup k else none := by
  unfold RevMap.retain
  induction m with
  | nil => simp
  | cons p m ih =>
    obtain ⟨k', v⟩ := p
    simp only [List.filter_cons]
    by_cases hf : f k'
    · simp only [hf, if_true, List.lookup_cons]
      by_cases hk : k == k'
      · have := eq_of_beq hk; subst this; simp [hf]
      · simp only [hk]; exact ih
    · simp only [hf, Bool.false_eq_true, if_false, List.lookup_cons]
      by_cases hk : k == k'
      · have := eq_of_beq hk; subst this; simp only [beq_self_eq_true, hf]
        rw [ih]; simp [hf]
      · simp only [hk]; exact ih

end RevMap
end CC
