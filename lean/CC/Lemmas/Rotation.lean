import CC.Lemmas.World
import CC.Lemmas.Refresh
/-! Rotation and revocation at the level of `refresh`, `rekey` and the public key. -/
namespace CC
open CC.Look

/-- what a successful refresh leaves in the user key: for every right it keeps, secrets that are
all current master secrets of that right, starting with the master's newest one -/
theorem refresh_secrets_spec (msk : Msk) (usk : Usk) (keep : Bool) (n : Rng)
    (hne : ∀ r c, (r, c) ∈ msk.secrets → c ≠ [])
    (h : (refresh msk usk keep n).1 = .ok ()) :
    ∀ r c, (r, c) ∈ (refresh msk usk keep n).2.2.1.secrets →
      ∃ mchain, msk.secrets.lookup r = some mchain ∧ (∀ s ∈ c, s ∈ mchain.map (·.2)) ∧
        c.head? = (mchain.map (·.2)).head? ∧ (∃ uc, (r, uc) ∈ usk.secrets) := by
  unfold refresh at h ⊢
  by_cases hv : verify msk usk = true
  · simp only [hv, Bool.not_true, Bool.false_eq_true, if_false] at h ⊢
    have hs := refreshId_secrets msk usk.id n
    rcases hid : refreshId msk usk.id n with ⟨res, msk', n'⟩
    rw [hid] at hs h
    simp only at hs
    have hsec : msk'.secrets = msk.secrets := hs.1
    cases res with
    | error e => simp at h
    | ok nid =>
      simp only at h ⊢
      cases keep with
      | true =>
        simp only [if_true]
        intro r c hm
        unfold refreshCoordinateKeys at hm
        simp only [List.mem_filterMap] at hm
        obtain ⟨⟨r', u⟩, hu, hmm⟩ := hm
        simp only at hmm
        unfold RevMap.get at hmm
        rw [hsec] at hmm
        cases hg : msk.secrets.lookup r' with
        | none => simp [hg] at hmm
        | some mchain =>
          simp only [hg, Option.map_eq_some_iff] at hmm
          obtain ⟨c', hc', heq⟩ := hmm
          simp only [Prod.mk.injEq] at heq
          obtain ⟨rfl, rfl⟩ := heq
          have hnem : mchain ≠ [] := hne r' mchain (lookup_mem hg)
          refine ⟨mchain, hg, refreshChain_sub_master _ _ _ hc', ?_, ⟨u, hu⟩⟩
          rcases refreshChain_head _ _ _ hc' with hh | hh
          · exact hh
          · exact absurd (List.map_eq_nil_iff.1 hh) hnem
      | false =>
        simp only [Bool.false_eq_true, if_false] at h ⊢
        cases hl : latestRightSks msk' ((usk.secrets.map (·.1)).filter (fun r => msk'.secrets.containsKey r)) with
        | error e => simp [hl] at h
        | ok nr =>
          simp only
          intro r c hm
          have := (latestRightSks_mem msk' _ nr hl r c).1 hm
          obtain ⟨hin, act, sk, hlat, hceq⟩ := this
          subst hceq
          rw [hsec] at hlat
          unfold RevMap.getLatest at hlat
          cases hg : msk.secrets.lookup r with
          | none => simp [hg] at hlat
          | some mchain =>
            simp only [hg, Option.bind_some] at hlat
            refine ⟨mchain, rfl, ?_, ?_, ?_⟩
            · intro s hs
              simp only [List.mem_singleton] at hs; rw [hs]
              exact List.mem_map.2 ⟨(act, sk), List.mem_of_mem_head? hlat, rfl⟩
            · cases mchain with
              | nil => simp at hlat
              | cons x xs => simp only [List.head?_cons, Option.some.injEq] at hlat; subst hlat; rfl
            · obtain ⟨hin1, _⟩ := List.mem_filter.1 hin
              obtain ⟨p, hp, rfl⟩ := List.mem_map.1 hin1
              exact ⟨p.2, hp⟩
  · simp [hv] at h

/-- the secrets a rekey publishes for the rekeyed rights are drawn by that call -/
theorem rekey_published_fresh (msk : Msk) (rights : List Right) (n : Rng) (hinv : msk.Inv n)
    (h : (rekey msk rights n).1 = .ok ()) (r : Right) (hr : r ∈ rights) (t : Sk)
    (hk : (rekey msk rights n).2.1.mpk.keyOf r = .ok t) : n ≤ t.tok := by
  have hall := (rekey_ok_iff msk rights n).1 h
  have hnd : ((rekey msk rights n).2.1.secrets.map (·.1)).Nodup := (rekey_inv msk rights n hinv).1.keys
  have hl := (mpk_keyOf _ hnd r t).1 hk
  unfold rekey at hl
  have hv : ¬ (rights.any (fun r => (msk.secrets.getLatest r).isNone) = true) := by
    simp only [List.any_eq_true, not_exists, not_and, Bool.not_eq_true]
    intro r' hr'
    have := hall r' hr'
    cases hh : msk.secrets.getLatest r' with
    | none => simp [hh] at this
    | some _ => rfl
  simp only [hv] at hl
  obtain ⟨act, sk, hfresh, hle⟩ := rekeyLoop_fresh' msk.secrets rights n r hr hall
  have hl' : (rekeyLoop msk.secrets rights n).2.1.getLatest r = some (true, t) := hl
  rw [hfresh] at hl'
  simp only [Option.some.injEq, Prod.mk.injEq] at hl'
  rw [← hl'.2]; exact hle

end CC

namespace CC
open CC.Look

/-- no chain of the master key is empty -/
def RevMap.NonEmpty (m : RevMap) : Prop := ∀ r c, (r, c) ∈ m → c ≠ []

theorem RevMap.NonEmpty.insert {m : RevMap} (h : m.NonEmpty) (r : Right) (v : Bool × Sk) : (m.insert r v).NonEmpty := by
  unfold RevMap.insert
  split
  · intro k c hm
    obtain ⟨d, hd, hc⟩ := mem_mapVal (f := fun c => v :: c) hm
    rcases hc with ⟨_, hcd⟩ | ⟨_, hcd⟩
    · rw [hcd]; simp
    · rw [hcd]; exact h k d hd
  · intro k c hm
    rcases List.mem_append.1 hm with hm | hm
    · exact h k c hm
    · simp at hm; rw [hm.2]; simp

theorem RevMap.NonEmpty.setLatest {m : RevMap} (h : m.NonEmpty) (r : Right) (v : Bool × Sk) : (m.setLatest r v).NonEmpty := by
  unfold RevMap.setLatest
  intro k c hm
  obtain ⟨d, hd, hc⟩ := mem_mapVal (f := RevMap.setHead v) hm
  have hdne := h k d hd
  rcases hc with ⟨_, hcd⟩ | ⟨_, hcd⟩
  · rw [hcd]
    cases d with
    | nil => exact absurd rfl hdne
    | cons x xs => simp [RevMap.setHead]
  · rw [hcd]; exact hdne

theorem RevMap.NonEmpty.retain {m : RevMap} (h : m.NonEmpty) (f : Right → Bool) : (m.retain f).NonEmpty :=
  fun k c hm => h k c (List.mem_filter.1 hm).1

theorem RevMap.NonEmpty.keep {m : RevMap} (h : m.NonEmpty) (r : Right) : (m.keep r 1).NonEmpty := by
  unfold RevMap.keep
  intro k c hm
  obtain ⟨d, hd, hc⟩ := mem_mapVal (f := RevMap.keepN 1) hm
  have hdne := h k d hd
  rcases hc with ⟨_, hcd⟩ | ⟨_, hcd⟩
  · rw [hcd]
    cases d with
    | nil => exact absurd rfl hdne
    | cons x xs => simp [RevMap.keepN]
  · rw [hcd]; exact hdne

theorem updateLoop_nonEmpty : ∀ (rights : List (Right × Bool × Bool)) (secrets : RevMap) (n : Rng) (s : RevMap),
    secrets.NonEmpty → (updateLoop secrets rights n).1 = .ok s → s.NonEmpty
  | [], secrets, n, s, h, hs => by simp only [updateLoop, Except.ok.injEq] at hs; subst hs; exact h
  | (r, hyb, ro) :: rest, secrets, n, s, h, hs => by
    unfold updateLoop at hs
    cases hl : secrets.getLatest r with
    | some v =>
      obtain ⟨a0, sk⟩ := v
      simp only [hl] at hs
      exact updateLoop_nonEmpty rest _ n s (h.setLatest r _) hs
    | none =>
      simp only [hl] at hs
      cases ro with
      | true => simp at hs
      | false =>
        simp only [Bool.false_eq_true, if_false] at hs
        exact updateLoop_nonEmpty rest _ (n + 1) s (h.insert r _) hs

theorem rekeyLoop_nonEmpty : ∀ (rights : List Right) (secrets : RevMap) (n : Rng),
    secrets.NonEmpty → (rekeyLoop secrets rights n).2.1.NonEmpty
  | [], secrets, n, h => h
  | r :: rest, secrets, n, h => by
    unfold rekeyLoop
    split
    · cases hl : secrets.getLatest r with
      | none => exact h
      | some v => obtain ⟨act, sk⟩ := v; exact rekeyLoop_nonEmpty rest _ (n + 1) (h.insert r _)
    · exact h

theorem step_nonEmpty (w : World) (op : Op) (h : w.msk.secrets.NonEmpty) : (w.step op).msk.secrets.NonEmpty := by
  cases op with
  | edit e =>
    simp only [World.step]
    cases w.msk.structure_.apply e <;> exact h
  | update =>
    simp only [World.step]
    unfold updateMsk
    split
    · exact h
    · simp only
      rcases hu : updateLoop (w.msk.secrets.retain fun r => (w.msk.structure_.omega.lookup r).isSome) w.msk.structure_.omega w.rng with ⟨res, n'⟩
      cases res with
      | error e => intro r c hm; cases hm
      | ok s => exact updateLoop_nonEmpty _ _ _ s (h.retain _) (by rw [hu])
  | rekey p =>
    simp only [World.step]
    cases w.msk.structure_.uskRights p with
    | error _ => exact h
    | ok rights =>
      simp only
      unfold CC.rekey
      split
      · exact h
      · exact rekeyLoop_nonEmpty rights w.msk.secrets w.rng h
  | prune p =>
    simp only [World.step]
    cases w.msk.structure_.uskRights p with
    | error _ => exact h
    | ok rights =>
      simp only [CC.prune]
      have : ∀ (rs : List Right) (s : RevMap), s.NonEmpty → (rs.foldl (fun s r => s.keep r 1) s).NonEmpty := by
        intro rs
        induction rs with
        | nil => intro s hs; exact hs
        | cons r rest ih => intro s hs; exact ih _ (hs.keep r)
      exact this rights w.msk.secrets h
  | keygen p =>
    simp only [World.step]
    cases w.msk.structure_.uskRights p with
    | error _ => exact h
    | ok rights =>
      simp only
      have : (uskKeygen w.msk rights w.rng).2.1.secrets = w.msk.secrets := by
        unfold uskKeygen
        cases latestRightSks w.msk rights with
        | error e => rfl
        | ok chains =>
          simp only
          by_cases hnt : w.msk.ntracers = 0
          · simp [generateUserId, hnt]
          · simp [generateUserId, hnt]
      rw [this]; exact h
  | refresh usk keep =>
    simp only [World.step]
    have : (CC.refresh w.msk usk keep w.rng).2.1.secrets = w.msk.secrets := by
      unfold CC.refresh
      by_cases hv : verify w.msk usk = true
      · simp only [hv, Bool.not_true, Bool.false_eq_true, if_false]
        have hs := refreshId_secrets w.msk usk.id w.rng
        rcases hid : refreshId w.msk usk.id w.rng with ⟨res, msk', n'⟩
        rw [hid] at hs
        cases res with
        | error e => exact hs.1
        | ok nid =>
          simp only
          generalize (if keep = true then Except.ok (refreshCoordinateKeys msk' usk.secrets)
              else latestRightSks msk' ((usk.secrets.map (·.1)).filter (fun r => msk'.secrets.containsKey r))) = nr
          cases nr <;> exact hs.1
      · simp only [hv, Bool.not_false, if_true]
    rw [this]; exact h
  | draw k => exact h

/-- in every reachable world no chain of the master key is empty -/
theorem reachable_nonEmpty (w : World) (h : Reachable w) : w.msk.secrets.NonEmpty := by
  obtain ⟨n, k, ops, rfl⟩ := h
  have : ∀ (ops : List Op) (w0 : World), w0.msk.secrets.NonEmpty → (ops.foldl World.step w0).msk.secrets.NonEmpty := by
    intro ops
    induction ops with
    | nil => intro w0 h0; exact h0
    | cons op rest ih => intro w0 h0; exact ih _ (step_nonEmpty w0 op h0)
  apply this ops
  have h0 : (setup n k).1.secrets.NonEmpty := by intro r c hm; simp [setup] at hm
  have := step_nonEmpty ⟨(setup n k).1, (setup n k).2⟩ .update h0
  exact this

end CC
