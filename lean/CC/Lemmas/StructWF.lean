import CC.Lemmas.Edits
import CC.Lemmas.Cover
/-! Well-formedness of the access structure (distinct dimension names, distinct attribute names
per dimension, identifiers unique) is preserved by the seven edit operations. -/
namespace CC
open CC.Look

theorem keys_areplace {β} (l : List (String × β)) (k : String) (v : β) :
    (areplace l k v).map (·.1) = l.map (·.1) := by
  unfold areplace
  induction l with
  | nil => rfl
  | cons p ps ih =>
    simp only [List.map_cons, ih]
    congr 1
    by_cases h : (p.1 == k) = true
    · simp [h]; exact (eq_of_beq h).symm
    · simp [h]

theorem keys_aerase_sublist {β} (l : List (String × β)) (k : String) :
    ((aerase l k).map (·.1)).Sublist (l.map (·.1)) := (List.filter_sublist).map _

theorem mem_aerase_ne {β} {l : List (String × β)} {k : String} {p : String × β} (h : p ∈ aerase l k) : p.1 ≠ k := by
  have := (List.mem_filter.1 h).2
  simpa using this

/-- membership in a structure after replacing one dimension -/
theorem mem_all_areplace {S : Struct} {dn : String} {d' : Dim} {n' : Nat} {t : String × String × Attr}
    (h : t ∈ ({ nextId := n', dims := areplace S.dims dn d' } : Struct).all) :
    (t ∈ S.all ∧ t.1 ≠ dn) ∨ (t.1 = dn ∧ (t.2.1, t.2.2) ∈ d'.attrs) := by
  simp only [Struct.all, List.mem_flatMap, List.mem_map] at h
  obtain ⟨p, hp, q, hq, rfl⟩ := h
  rcases mem_areplace hp with hp' | hp'
  · by_cases hk : p.1 = dn
    · -- the entry kept its place but then it *was* replaced; `mem_areplace` left it only if key differs
      unfold areplace at hp
      obtain ⟨p0, hp0, hp0e⟩ := List.mem_map.1 hp
      by_cases hk0 : (p0.1 == dn) = true
      · simp only [hk0, if_true] at hp0e
        right; subst hp0e; exact ⟨rfl, hq⟩
      · simp only [hk0, Bool.false_eq_true, if_false] at hp0e
        subst hp0e
        exact absurd (by simpa using hk) hk0
    · left
      exact ⟨by simp only [Struct.all, List.mem_flatMap, List.mem_map]; exact ⟨p, hp', q, hq, rfl⟩, hk⟩
  · right; subst hp'; exact ⟨rfl, hq⟩

theorem takeWhile_all {α : Type} (p : α → Bool) : ∀ (l : List α), (∀ a ∈ l, p a = true) → l.takeWhile p = l
  | [], _ => rfl
  | x :: xs, h => by
    simp only [List.takeWhile, h x List.mem_cons_self]
    rw [takeWhile_all p xs (fun a ha => h a (List.mem_cons_of_mem _ ha))]

/-- `insertAbove` splits the list in two and puts the new attribute in between -/
theorem insertAbove_eq (attrs : List (String × Attr)) (name after : String) (a : Attr)
    (hnd : (attrs.map (·.1)).Nodup) :
    ∃ pre suf, attrs = pre ++ suf ∧ Dim.insertAbove attrs name a after = pre ++ [(name, a)] ++ suf := by
  unfold Dim.insertAbove
  let p : String × Attr → Bool := fun q => q.1 != after
  let pre := (attrs.reverse.dropWhile p).reverse
  let suf := (attrs.reverse.takeWhile p).reverse
  have hsplit : attrs = pre ++ suf := by
    have := List.takeWhile_append_dropWhile (p := p) (l := attrs.reverse)
    have h2 := congrArg List.reverse this
    simp only [List.reverse_append, List.reverse_reverse] at h2
    exact h2.symm
  refine ⟨pre, suf, hsplit, ?_⟩
  have hlast : (attrs.reverse.takeWhile p).getLast? = suf.head? := by
    show _ = (attrs.reverse.takeWhile p).reverse.head?
    rw [List.head?_reverse]
  show attrs.takeWhile (fun q => some q != (attrs.reverse.takeWhile p).getLast?) ++ [(name, a)] ++
      (attrs.reverse.takeWhile p).reverse = pre ++ [(name, a)] ++ suf
  rw [hlast]
  congr 2
  cases hs : suf with
  | nil =>
    have hpre : attrs = pre := by rw [hsplit, hs]; simp
    simp only [List.head?_nil]
    rw [takeWhile_all _ attrs (by intro q _; simp)]
    exact hpre
  | cons y ys =>
    simp only [List.head?_cons]
    have hsplit' : attrs = pre ++ y :: ys := by rw [hsplit, hs]
    have hnotin : ∀ q ∈ pre, q ≠ y := by
      intro q hq heq
      have hnd' := hnd
      rw [hsplit', List.map_append, List.map_cons, List.nodup_append] at hnd'
      exact hnd'.2.2 q.1 (List.mem_map.2 ⟨q, hq, rfl⟩) y.1 List.mem_cons_self (by rw [heq])
    conv => lhs; rw [hsplit']
    rw [List.takeWhile_append_of_pos (by intro q hq; have := hnotin q hq; simp [this])]
    simp [List.takeWhile]

theorem nodup_insert_mid {α : Type} (pre suf : List α) (x : α) (hnd : (pre ++ suf).Nodup) (hx : x ∉ pre ++ suf) :
    (pre ++ [x] ++ suf).Nodup := by
  rw [List.nodup_append] at hnd
  simp only [List.mem_append, not_or] at hx
  rw [List.append_assoc, List.nodup_append]
  refine ⟨hnd.1, ?_, ?_⟩
  · simp only [List.singleton_append, List.nodup_cons]; exact ⟨hx.2, hnd.2.1⟩
  · intro a ha b hb hab
    simp only [List.singleton_append, List.mem_cons] at hb
    rcases hb with rfl | hb
    · exact hx.1 (hab ▸ ha)
    · exact hnd.2.2 a ha b hb hab

/-- the result of a successful `Dimension::add_attribute`: the old attributes plus the new one,
names still distinct -/
theorem Dim.addAttribute_spec {d d' : Dim} {name : String} {hyb : Bool} {after : Option String} {id : Nat}
    (h : d.addAttribute name hyb after id = .ok d') (hnd : (d.attrs.map (·.1)).Nodup) :
    (d'.attrs.map (·.1)).Nodup ∧ (∀ q, q ∈ d'.attrs ↔ q ∈ d.attrs ∨ q = (name, ⟨id, hyb, false⟩)) ∧
      d.attrs.lookup name = none ∧ d'.ordered = d.ordered := by
  unfold Dim.addAttribute at h
  have core : ∀ (l pre suf : List (String × Attr)), d.attrs.lookup name = none → d.attrs = pre ++ suf →
      l = pre ++ [(name, (⟨id, hyb, false⟩ : Attr))] ++ suf →
      (l.map (·.1)).Nodup ∧ (∀ q, q ∈ l ↔ q ∈ d.attrs ∨ q = (name, ⟨id, hyb, false⟩)) := by
    intro l pre suf hnone hsplit hl
    have hnotin : name ∉ d.attrs.map (·.1) := lookup_eq_none_iff.1 hnone
    constructor
    · rw [hl]
      simp only [List.map_append, List.map_cons, List.map_nil]
      rw [hsplit, List.map_append] at hnd hnotin
      exact nodup_insert_mid _ _ name hnd hnotin
    · intro q
      rw [hl, hsplit]
      simp only [List.mem_append, List.mem_singleton]
      constructor
      · rintro ((hq | hq) | hq)
        · exact Or.inl (Or.inl hq)
        · exact Or.inr hq
        · exact Or.inl (Or.inr hq)
      · rintro ((hq | hq) | hq)
        · exact Or.inl (Or.inl hq)
        · exact Or.inr hq
        · exact Or.inl (Or.inr hq)
  by_cases ho : d.ordered = true
  · simp only [ho, if_true] at h
    cases hl : d.attrs.lookup name with
    | some x => simp [hl] at h
    | none =>
      simp only [hl, Option.isSome_none, Bool.false_eq_true, if_false] at h
      cases after with
      | none =>
        simp only [Except.ok.injEq] at h; subst h
        obtain ⟨pre, suf, hsplit, hk⟩ := insertAbove_eq d.attrs name "" ⟨id, hyb, false⟩ hnd
        obtain ⟨c1, c2⟩ := core _ pre suf hl hsplit hk
        exact ⟨c1, c2, rfl, by simp [ho]⟩
      | some af =>
        simp only at h
        split at h
        · cases h
        · simp only [Except.ok.injEq] at h; subst h
          obtain ⟨pre, suf, hsplit, hk⟩ := insertAbove_eq d.attrs name af ⟨id, hyb, false⟩ hnd
          obtain ⟨c1, c2⟩ := core _ pre suf hl hsplit hk
          exact ⟨c1, c2, rfl, by simp [ho]⟩
  · simp only [ho, Bool.false_eq_true, if_false] at h
    cases hl : d.attrs.lookup name with
    | some x => simp [hl] at h
    | none =>
      simp only [hl, Option.isSome_none, Bool.false_eq_true, if_false, Except.ok.injEq] at h; subst h
      obtain ⟨c1, c2⟩ := core (d.attrs ++ [(name, ⟨id, hyb, false⟩)]) d.attrs [] hl (by simp) (by simp)
      exact ⟨c1, c2, rfl, by simp [ho]⟩

end CC

namespace CC
open CC.Look

theorem Struct.WF.dim_ids {S : Struct} (hS : S.WF) {dn : String} {d : Dim} (hd : (dn, d) ∈ S.dims)
    {q q' : String × Attr} (hq : q ∈ d.attrs) (hq' : q' ∈ d.attrs) (hid : q.2.id = q'.2.id) : q = q' := by
  have := hS.ids _ (mem_all hd (show (q.1, q.2) ∈ d.attrs from hq)) _ (mem_all hd (show (q'.1, q'.2) ∈ d.attrs from hq')) hid
  simp only [Prod.mk.injEq] at this
  exact Prod.ext this.2.1 this.2.2

/-- replacing one dimension by one whose attributes have distinct names, ids that are either ids
of the old dimension or unused in the whole structure, and no repeated id, keeps well-formedness -/
theorem Struct.WF.areplace {S : Struct} (hS : S.WF) {dn : String} {d d' : Dim} (n' : Nat)
    (hd : S.dims.lookup dn = some d)
    (h1 : (d'.attrs.map (·.1)).Nodup)
    (h2 : ∀ q ∈ d'.attrs, (∃ q0 ∈ d.attrs, q0.2.id = q.2.id) ∨ (∀ t ∈ S.all, t.2.2.id ≠ q.2.id))
    (h3 : ∀ q1 ∈ d'.attrs, ∀ q2 ∈ d'.attrs, q1.2.id = q2.2.id → q1 = q2) :
    ({ nextId := n', dims := areplace S.dims dn d' } : Struct).WF := by
  have hdS : (dn, d) ∈ S.dims := lookup_mem hd
  refine ⟨by simp only [keys_areplace]; exact hS.dims, ?_, ?_⟩
  · intro p hp
    rcases mem_areplace hp with hp | hp
    · exact hS.names p hp
    · subst hp; exact h1
  · intro t1 ht1 t2 ht2 hid
    rcases mem_all_areplace ht1 with ⟨o1, ne1⟩ | ⟨e1, m1⟩ <;> rcases mem_all_areplace ht2 with ⟨o2, ne2⟩ | ⟨e2, m2⟩
    · exact hS.ids t1 o1 t2 o2 hid
    · exfalso
      rcases h2 _ m2 with ⟨q0, hq0, hq0id⟩ | hfresh
      · have := hS.ids _ (mem_all hdS (show (q0.1, q0.2) ∈ d.attrs from hq0)) t1 o1 (by simp only; rw [hq0id, ← hid])
        exact ne1 (by rw [← this])
      · exact hfresh t1 o1 hid
    · exfalso
      rcases h2 _ m1 with ⟨q0, hq0, hq0id⟩ | hfresh
      · have := hS.ids _ (mem_all hdS (show (q0.1, q0.2) ∈ d.attrs from hq0)) t2 o2 (by simp only; rw [hq0id, hid])
        exact ne2 (by rw [← this])
      · exact hfresh t2 o2 hid.symm
    · have := h3 _ m1 _ m2 hid
      simp only [Prod.mk.injEq] at this
      obtain ⟨t1a, t1b, t1c⟩ := t1
      obtain ⟨t2a, t2b, t2c⟩ := t2
      simp only at e1 e2 this
      rw [e1, e2, this.1, this.2]

theorem all_ids_below {S : Struct} (hb : S.IdsBelow) : ∀ t ∈ S.all, t.2.2.id < S.nextId := by
  intro t ht
  simp only [Struct.all, List.mem_flatMap, List.mem_map] at ht
  obtain ⟨p, hp, q, hq, rfl⟩ := ht
  exact hb p hp q hq

/-- **Well-formedness is preserved by every successful edit** -/
theorem Struct.apply_wf {s s' : Struct} {e : Edit} (hS : s.WF) (hb : s.IdsBelow) (h : s.apply e = .ok s') : s'.WF := by
  cases e with
  | addDim n o =>
    simp only [Struct.apply, Struct.addDimension] at h
    cases hl : s.dims.lookup n with
    | some x => simp [hl] at h
    | none =>
      simp only [hl, Option.isSome_none, Bool.false_eq_true, if_false, Except.ok.injEq] at h; subst h
      have hnotin : n ∉ s.dims.map (·.1) := lookup_eq_none_iff.1 hl
      refine ⟨?_, ?_, ?_⟩
      · rw [List.map_append, List.nodup_append]
        refine ⟨hS.dims, by simp, ?_⟩
        intro x hx y hy hxy; simp at hy; subst hy; subst hxy; exact hnotin hx
      · intro p hp
        rcases List.mem_append.1 hp with hp | hp
        · exact hS.names p hp
        · simp at hp; subst hp; simp
      · have hall : ({ nextId := s.nextId, dims := s.dims ++ [(n, ⟨o, []⟩)] } : Struct).all = s.all := by
          simp [Struct.all, List.flatMap_append]
        intro t1 ht1 t2 ht2
        rw [hall] at ht1 ht2
        exact hS.ids t1 ht1 t2 ht2
  | delDim n =>
    simp only [Struct.apply, Struct.delDimension] at h
    split at h
    · simp only [Except.ok.injEq] at h; subst h
      have hsub : ∀ p, p ∈ aerase s.dims n → p ∈ s.dims := fun p hp => mem_aerase hp
      refine ⟨hS.dims.sublist (keys_aerase_sublist _ _), fun p hp => hS.names p (hsub p hp), ?_⟩
      have hall : ∀ t, t ∈ ({ nextId := s.nextId, dims := aerase s.dims n } : Struct).all → t ∈ s.all := by
        intro t ht
        simp only [Struct.all, List.mem_flatMap, List.mem_map] at ht ⊢
        obtain ⟨p, hp, q, hq, rfl⟩ := ht
        exact ⟨p, hsub p hp, q, hq, rfl⟩
      intro t1 ht1 t2 ht2; exact hS.ids t1 (hall t1 ht1) t2 (hall t2 ht2)
    · cases h
  | addAttr dn n hy af =>
    simp only [Struct.apply, Struct.addAttribute] at h
    cases hd : s.dims.lookup dn with
    | none => simp [hd] at h
    | some d =>
      simp only [hd] at h
      cases hf : d.addAttribute n hy af s.nextId with
      | error e => simp [hf] at h
      | ok d' =>
        simp only [hf, Except.ok.injEq] at h; subst h
        have hdS : (dn, d) ∈ s.dims := lookup_mem hd
        obtain ⟨c1, c2, _, _⟩ := Dim.addAttribute_spec hf (hS.names _ hdS)
        refine hS.areplace _ hd c1 ?_ ?_
        · intro q hq
          rcases (c2 q).1 hq with hq | hq
          · exact Or.inl ⟨q, hq, rfl⟩
          · right
            intro t ht heq
            have := all_ids_below hb t ht
            rw [heq, hq] at this
            exact Nat.lt_irrefl _ this
        · intro q1 hq1 q2 hq2 hid
          rcases (c2 q1).1 hq1 with o1 | n1 <;> rcases (c2 q2).1 hq2 with o2 | n2
          · exact hS.dim_ids hdS o1 o2 hid
          · exfalso
            have := hb _ hdS q1 o1
            rw [hid, n2] at this; exact Nat.lt_irrefl _ this
          · exfalso
            have := hb _ hdS q2 o2
            rw [← hid, n1] at this; exact Nat.lt_irrefl _ this
          · rw [n1, n2]
  | delAttr dn n =>
    simp only [Struct.apply, Struct.delAttribute] at h
    obtain ⟨d, d', hd, hf, rfl⟩ := Struct.onDim_spec h
    have hdS : (dn, d) ∈ s.dims := lookup_mem hd
    unfold Dim.removeAttribute at hf
    split at hf
    · simp only [Except.ok.injEq] at hf; subst hf
      refine hS.areplace _ hd ((hS.names _ hdS).sublist (keys_aerase_sublist _ _)) ?_ ?_
      · intro q hq; exact Or.inl ⟨q, mem_aerase hq, rfl⟩
      · intro q1 hq1 q2 hq2 hid; exact hS.dim_ids hdS (mem_aerase hq1) (mem_aerase hq2) hid
    · cases hf
  | rename dn o n =>
    simp only [Struct.apply, Struct.renameAttribute] at h
    obtain ⟨d, d', hd, hf, rfl⟩ := Struct.onDim_spec h
    have hdS : (dn, d) ∈ s.dims := lookup_mem hd
    have hnd := hS.names _ hdS
    unfold Dim.renameAttribute at hf
    by_cases ho : d.ordered = true
    · simp only [ho, if_true] at hf
      cases hlo : d.attrs.lookup o with
      | none => simp [hlo] at hf
      | some a =>
        simp only [hlo] at hf
        cases hln : d.attrs.lookup n with
        | some x => simp [hln] at hf
        | none =>
          simp only [hln, Option.isSome_none, Bool.false_eq_true, if_false, Except.ok.injEq] at hf; subst hf
          have hnn : n ∉ d.attrs.map (·.1) := lookup_eq_none_iff.1 hln
          have hg2 : ∀ p : String × Attr, (if p.1 == o then (n, p.2) else p).2 = p.2 := by
            intro p; split <;> rfl
          refine hS.areplace _ hd ?_ ?_ ?_
          · simp only
            have : ∀ (l : List (String × Attr)), (l.map (·.1)).Nodup → n ∉ l.map (·.1) →
                ((l.map (fun p => if p.1 == o then (n, p.2) else p)).map (·.1)).Nodup := by
              intro l
              induction l with
              | nil => intro _ _; simp
              | cons x xs ih =>
                intro hl hn
                simp only [List.map_cons, List.nodup_cons, List.mem_cons, not_or] at hl hn ⊢
                refine ⟨?_, ih hl.2 hn.2⟩
                intro hin
                obtain ⟨y, hy, hye⟩ := List.mem_map.1 hin
                obtain ⟨z, hz, rfl⟩ := List.mem_map.1 hy
                by_cases hxo : (x.1 == o) = true
                · by_cases hzo : (z.1 == o) = true
                  · exact hl.1 (List.mem_map.2 ⟨z, hz, by rw [eq_of_beq hzo, eq_of_beq hxo]⟩)
                  · simp only [hxo, hzo, if_true, Bool.false_eq_true, if_false] at hye
                    exact hn.2 (List.mem_map.2 ⟨z, hz, hye⟩)
                · by_cases hzo : (z.1 == o) = true
                  · simp only [hxo, hzo, if_true, Bool.false_eq_true, if_false] at hye
                    exact hn.1 hye
                  · simp only [hxo, hzo, Bool.false_eq_true, if_false] at hye
                    exact hl.1 (List.mem_map.2 ⟨z, hz, hye⟩)
            exact this d.attrs hnd hnn
          · intro q hq
            obtain ⟨q0, hq0, rfl⟩ := List.mem_map.1 hq
            exact Or.inl ⟨q0, hq0, by rw [hg2]⟩
          · intro q1 hq1 q2 hq2 hid
            obtain ⟨p1, hp1, rfl⟩ := List.mem_map.1 hq1
            obtain ⟨p2, hp2, rfl⟩ := List.mem_map.1 hq2
            rw [hg2, hg2] at hid
            rw [hS.dim_ids hdS hp1 hp2 hid]
    · simp only [ho, Bool.false_eq_true, if_false] at hf
      cases hln : d.attrs.lookup n with
      | some x => simp [hln] at hf
      | none =>
        simp only [hln, Option.isSome_none, Bool.false_eq_true, if_false] at hf
        cases hlo : d.attrs.lookup o with
        | none => simp [hlo] at hf
        | some a =>
          simp only [hlo, Except.ok.injEq] at hf; subst hf
          have hnn : n ∉ d.attrs.map (·.1) := lookup_eq_none_iff.1 hln
          have hoa : (o, a) ∈ d.attrs := lookup_mem hlo
          refine hS.areplace _ hd ?_ ?_ ?_
          · simp only [List.map_append, List.map_cons, List.map_nil]
            rw [List.nodup_append]
            refine ⟨hnd.sublist (keys_aerase_sublist _ _), by simp, ?_⟩
            intro x hx y hy hxy; simp at hy; subst hy; subst hxy
            exact hnn ((keys_aerase_sublist d.attrs o).subset hx)
          · intro q hq
            rcases List.mem_append.1 hq with hq | hq
            · exact Or.inl ⟨q, mem_aerase hq, rfl⟩
            · simp at hq; subst hq; exact Or.inl ⟨(o, a), hoa, rfl⟩
          · intro q1 hq1 q2 hq2 hid
            rcases List.mem_append.1 hq1 with m1 | m1 <;> rcases List.mem_append.1 hq2 with m2 | m2
            · exact hS.dim_ids hdS (mem_aerase m1) (mem_aerase m2) hid
            · exfalso
              simp at m2; subst m2
              have := hS.dim_ids hdS (mem_aerase m1) hoa hid
              exact mem_aerase_ne m1 (by rw [this])
            · exfalso
              simp at m1; subst m1
              have := hS.dim_ids hdS (mem_aerase m2) hoa hid.symm
              exact mem_aerase_ne m2 (by rw [this])
            · simp at m1 m2; rw [m1, m2]
  | disable dn n =>
    simp only [Struct.apply, Struct.disableAttribute] at h
    obtain ⟨d, d', hd, hf, rfl⟩ := Struct.onDim_spec h
    have hdS : (dn, d) ∈ s.dims := lookup_mem hd
    unfold Dim.disableAttribute at hf
    cases hl : d.attrs.lookup n with
    | none => simp [hl] at hf
    | some a =>
      simp only [hl, Except.ok.injEq] at hf; subst hf
      have hna : (n, a) ∈ d.attrs := lookup_mem hl
      -- every new entry is an old entry, or the disabled copy of `(n, a)`
      have key : ∀ q ∈ areplace d.attrs n { a with ro := true }, ∃ q0 ∈ d.attrs, q0.1 = q.1 ∧ q0.2.id = q.2.id := by
        intro q hq
        rcases mem_areplace hq with hq | hq
        · exact ⟨q, hq, rfl, rfl⟩
        · subst hq; exact ⟨(n, a), hna, rfl, rfl⟩
      refine hS.areplace _ hd (by simp only [keys_areplace]; exact hS.names _ hdS) ?_ ?_
      · intro q hq
        obtain ⟨q0, hq0, _, hid⟩ := key q hq
        exact Or.inl ⟨q0, hq0, hid⟩
      · intro q1 hq1 q2 hq2 hid
        obtain ⟨p1, hp1, n1, i1⟩ := key q1 hq1
        obtain ⟨p2, hp2, n2, i2⟩ := key q2 hq2
        have hp : p1 = p2 := hS.dim_ids hdS hp1 hp2 (by rw [i1, i2, hid])
        -- same name in a list with distinct names: same entry
        have hnames : q1.1 = q2.1 := by rw [← n1, ← n2, hp]
        have hndn : ((areplace d.attrs n { a with ro := true }).map (·.1)).Nodup := by
          simp only [keys_areplace]; exact hS.names _ hdS
        have l1 := mem_lookup_of_nodup hndn (show (q1.1, q1.2) ∈ _ from hq1)
        have l2 := mem_lookup_of_nodup hndn (show (q2.1, q2.2) ∈ _ from hq2)
        rw [hnames] at l1
        rw [l1] at l2
        exact Prod.ext hnames (Option.some.inj l2)

end CC
