import CC.Model.Wire
import Mathlib.Tactic.Ring
/-! Round-trip lemmas for the wire model: `decode (encode x ++ rest) = some (x, rest)`. -/
namespace CC.Wire
open CC

theorem toNat_ofNat_lt (n : Nat) (h : n < 256) : (UInt8.ofNat n).toNat = n := by
  simp [UInt8.toNat_ofNat', Nat.mod_eq_of_lt h]

/-- the bounded decoder inverts the encoder on every value that fits the remaining bits -/
theorem decU64Aux_enc (n : Nat) : ∀ (k : Nat) (acc fuel : Nat) (rest : Bytes),
    7 * k ≤ 63 → n < 2 ^ (64 - 7 * k) → 10 - k ≤ fuel →
    Leb.decU64Aux (Leb.enc n ++ rest) (7 * k) acc fuel = some (acc + n * 2 ^ (7 * k), rest) := by
  induction n using Nat.strongRecOn with
  | _ n ih =>
    intro k acc fuel rest hk hn hf
    have hk9 : k ≤ 9 := by omega
    obtain ⟨fuel, rfl⟩ : ∃ f, fuel = f + 1 := ⟨fuel - 1, by omega⟩
    unfold Leb.enc
    split
    · rename_i hlt
      simp only [List.cons_append, List.nil_append, Leb.decU64Aux]
      have hb : (UInt8.ofNat n).toNat = n := toNat_ofNat_lt n (by omega)
      rw [hb]
      have hcond : ¬ (7 * k = 63 ∧ n ≠ 0 ∧ n ≠ 1) := by
        rintro ⟨h63, h0, h1⟩
        have : k = 9 := by omega
        subst this
        simp at hn
        omega
      simp only [hcond, if_false, hlt, if_true, Nat.mod_eq_of_lt hlt]
    · rename_i hge
      have hge' : 128 ≤ n := by omega
      simp only [List.cons_append, Leb.decU64Aux]
      have hb : (UInt8.ofNat (n % 128 + 128)).toNat = n % 128 + 128 := toNat_ofNat_lt _ (by omega)
      rw [hb]
      have hk8 : k ≤ 8 := by
        by_contra hc
        have : k = 9 := by omega
        subst this
        simp at hn
        omega
      have hcond : ¬ (7 * k = 63 ∧ n % 128 + 128 ≠ 0 ∧ n % 128 + 128 ≠ 1) := by
        rintro ⟨h63, _, _⟩; omega
      have hnlt : ¬ (n % 128 + 128 < 128) := by omega
      simp only [hcond, if_false, hnlt]
      have hmod : (n % 128 + 128) % 128 = n % 128 := by omega
      rw [hmod]
      have hrec := ih (n / 128) (by omega) (k + 1) (acc + n % 128 * 2 ^ (7 * k)) fuel rest (by omega)
        (by
          have h1 : 2 ^ (64 - 7 * k) = 2 ^ (64 - 7 * (k + 1)) * 128 := by
            have : 64 - 7 * k = (64 - 7 * (k + 1)) + 7 := by omega
            rw [this, Nat.pow_add]
          rw [h1] at hn
          exact Nat.div_lt_of_lt_mul (by rw [Nat.mul_comm]; exact hn))
        (by omega)
      have h7 : 7 * (k + 1) = 7 * k + 7 := by ring_nf
      rw [h7] at hrec
      rw [hrec]
      congr 1
      rw [Nat.pow_add]
      have : n = n % 128 + 128 * (n / 128) := (Nat.mod_add_div n 128).symm
      have h128 : (2:Nat) ^ 7 = 128 := by decide
      rw [h128]
      congr 1
      calc acc + n % 128 * 2 ^ (7 * k) + n / 128 * (2 ^ (7 * k) * 128)
          = acc + (n % 128 + 128 * (n / 128)) * 2 ^ (7 * k) := by ring
        _ = acc + n * 2 ^ (7 * k) := by rw [← this]

theorem _root_.CC.Leb.enc_ne_nil' (n : Nat) : Leb.enc n ≠ [] := by
  unfold Leb.enc; split <;> simp

theorem leb_wleb (n : Nat) (h : n < 2 ^ 64) (rest : Bytes) : leb (wleb n ++ rest) = some (n, rest) := by
  unfold leb wleb Leb.decU64
  have := decU64Aux_enc n 0 0 10 rest (by omega) (by simpa using h) (by omega)
  simpa using this

theorem takeN_append (b rest : Bytes) (k : Nat) (h : b.length = k) : takeN k (b ++ rest) = some (b, rest) := by
  unfold takeN
  have : ¬ ((b ++ rest).length < k) := by simp [h]
  simp [this, ← h]

theorem vec_wvec (b rest : Bytes) (h : b.length < 2 ^ 64) : vec (wvec b ++ rest) = some (b, rest) := by
  unfold vec wvec
  rw [List.append_assoc, leb_wleb _ h]
  exact takeN_append b rest _ rfl

theorem many_flatMap {α : Type} (d : Dec α) (e : α → Bytes) (l : List α) (rest : Bytes)
    (h : ∀ x ∈ l, ∀ r, d (e x ++ r) = some (x, r)) :
    many l.length d (l.flatMap e ++ rest) = some (l, rest) := by
  induction l with
  | nil => simp [many]
  | cons x xs ih =>
    simp only [List.length_cons, many, List.flatMap_cons, List.append_assoc]
    rw [h x List.mem_cons_self]
    simp only
    rw [ih (fun y hy => h y (List.mem_cons_of_mem _ hy))]

theorem many_flatten (k : Nat) (l : List Bytes) (rest : Bytes) (h : ∀ x ∈ l, x.length = k) :
    many l.length (takeN k) (l.flatten ++ rest) = some (l, rest) := by
  have := many_flatMap (takeN k) id l rest (fun x hx r => takeN_append x r k (h x hx))
  simpa [List.flatMap_id] using this

end CC.Wire
