import CC.Model.World
import CC.Lemmas.Inv
import CC.Lemmas.StructWF
/-! The master-key invariant holds in every reachable world. -/
namespace CC

theorem refreshId_secrets (msk : Msk) (id : UserId) (n : Rng) :
    (refreshId msk id n).2.1.secrets = msk.secrets ∧ n ≤ (refreshId msk id n).2.2 := by
  unfold refreshId
  by_cases hk : id ∈ msk.users
  · by_cases hl : id.length = msk.ntracers
    · simp [hk, hl]
    · by_cases hnt : msk.ntracers = 0
      · simp only [hk, not_true_eq_false, if_false, hl, generateUserId, hnt, if_true]
        split <;> exact ⟨rfl, Nat.le_refl _⟩
      · simp [hk, hl, generateUserId, hnt]
  · simp [hk]

theorem refresh_inv (msk : Msk) (usk : Usk) (keep : Bool) (n : Rng) (h : msk.Inv n) :
    (refresh msk usk keep n).2.1.Inv (refresh msk usk keep n).2.2.2 ∧ n ≤ (refresh msk usk keep n).2.2.2 := by
  unfold refresh
  by_cases hv : verify msk usk = true
  · simp only [hv, Bool.not_true, Bool.false_eq_true, if_false]
    have hs := refreshId_secrets msk usk.id n
    rcases hid : refreshId msk usk.id n with ⟨res, msk', n'⟩
    rw [hid] at hs
    simp only at hs
    have hinv : msk'.Inv n' := by
      unfold Msk.Inv; rw [hs.1]; exact RevMap.Inv.mono h hs.2
    cases res with
    | error e => exact ⟨hinv, hs.2⟩
    | ok nid =>
      simp only
      generalize (if keep = true then Except.ok (refreshCoordinateKeys msk' usk.secrets)
          else latestRightSks msk' ((usk.secrets.map (·.1)).filter (fun r => msk'.secrets.containsKey r))) = nr
      cases nr with
      | error e => exact ⟨hinv, hs.2⟩
      | ok x => exact ⟨hinv, hs.2⟩
  · simp only [hv, Bool.not_false, if_true]
    exact ⟨h, Nat.le_refl _⟩

theorem step_inv (w : World) (op : Op) (h : w.msk.Inv w.rng) : (w.step op).msk.Inv (w.step op).rng := by
  cases op with
  | edit e =>
    simp only [World.step]
    cases w.msk.structure_.apply e with
    | ok s => exact h
    | error _ => exact h
  | update => exact (updateMsk_inv w.msk _ w.rng h).1
  | rekey p =>
    simp only [World.step]
    cases w.msk.structure_.uskRights p with
    | error _ => exact h
    | ok rights => exact (rekey_inv w.msk rights w.rng h).1
  | prune p =>
    simp only [World.step]
    cases w.msk.structure_.uskRights p with
    | error _ => exact h
    | ok rights => exact prune_inv w.msk rights w.rng h
  | keygen p =>
    simp only [World.step]
    cases w.msk.structure_.uskRights p with
    | error _ => exact h
    | ok rights => exact (uskKeygen_inv w.msk rights w.rng h).1
  | refresh usk keep => exact (refresh_inv w.msk usk keep w.rng h).1
  | draw k => exact RevMap.Inv.mono h (Nat.le_add_right _ _)

theorem init_inv (n : Rng) (k : Nat) : (World.init n k).msk.Inv (World.init n k).rng := by
  have := (updateMsk_inv (setup n k).1 (setup n k).1.structure_.omega (setup n k).2 (setup_inv n k)).1
  exact this

/-- **Every reachable world satisfies the master-key invariant**: distinct rights, no token shared
between two rights, every token already drawn. -/
theorem reachable_inv (w : World) (h : Reachable w) : w.msk.Inv w.rng := by
  obtain ⟨n, k, ops, rfl⟩ := h
  have : ∀ (ops : List Op) (w0 : World), w0.msk.Inv w0.rng → (ops.foldl World.step w0).msk.Inv (ops.foldl World.step w0).rng := by
    intro ops
    induction ops with
    | nil => intro w0 h0; exact h0
    | cons op rest ih => intro w0 h0; exact ih _ (step_inv w0 op h0)
  exact this ops _ (init_inv n k)

end CC

namespace CC

theorem updateMsk_structure (msk : Msk) (rights : List (Right × Bool × Bool)) (n : Rng) :
    (updateMsk msk rights n).2.1.structure_ = msk.structure_ := by
  unfold updateMsk
  split
  · rfl
  · simp only
    rcases hu : updateLoop (msk.secrets.retain fun r => (rights.lookup r).isSome) rights n with ⟨res, n'⟩
    cases res <;> rfl

theorem rekey_structure (msk : Msk) (rights : List Right) (n : Rng) :
    (rekey msk rights n).2.1.structure_ = msk.structure_ := by
  unfold rekey; split <;> rfl

theorem uskKeygen_structure (msk : Msk) (rights : List Right) (n : Rng) :
    (uskKeygen msk rights n).2.1.structure_ = msk.structure_ := by
  unfold uskKeygen
  cases latestRightSks msk rights with
  | error e => rfl
  | ok chains =>
    simp only
    by_cases hnt : msk.ntracers = 0
    · simp [generateUserId, hnt]
    · simp [generateUserId, hnt]

theorem refreshId_structure (msk : Msk) (id : UserId) (n : Rng) :
    (refreshId msk id n).2.1.structure_ = msk.structure_ := by
  unfold refreshId
  by_cases hk : id ∈ msk.users
  · by_cases hl : id.length = msk.ntracers
    · simp [hk, hl]
    · by_cases hnt : msk.ntracers = 0
      · simp only [hk, not_true_eq_false, if_false, hl, generateUserId, hnt, if_true]
        split <;> rfl
      · simp [hk, hl, generateUserId, hnt]
  · simp [hk]

theorem refresh_structure (msk : Msk) (usk : Usk) (keep : Bool) (n : Rng) :
    (refresh msk usk keep n).2.1.structure_ = msk.structure_ := by
  unfold refresh
  by_cases hv : verify msk usk = true
  · simp only [hv, Bool.not_true, Bool.false_eq_true, if_false]
    have hs := refreshId_structure msk usk.id n
    rcases hid : refreshId msk usk.id n with ⟨res, msk', n'⟩
    rw [hid] at hs
    cases res with
    | error e => exact hs
    | ok nid =>
      simp only
      generalize (if keep = true then Except.ok (refreshCoordinateKeys msk' usk.secrets)
          else latestRightSks msk' ((usk.secrets.map (·.1)).filter (fun r => msk'.secrets.containsKey r))) = nr
      cases nr <;> exact hs
  · simp only [hv, Bool.not_false, if_true]

theorem step_struct (w : World) (op : Op) (h : w.msk.structure_.WF ∧ w.msk.structure_.IdsBelow) :
    (w.step op).msk.structure_.WF ∧ (w.step op).msk.structure_.IdsBelow := by
  cases op with
  | edit e =>
    simp only [World.step]
    cases ha : w.msk.structure_.apply e with
    | ok s => exact ⟨Struct.apply_wf h.1 h.2 ha, (Struct.apply_idsBelow ha h.2).1⟩
    | error _ => exact h
  | update => simp only [World.step, updateMsk_structure]; exact h
  | rekey p =>
    simp only [World.step]
    cases w.msk.structure_.uskRights p with
    | error _ => exact h
    | ok rights => simp only [rekey_structure]; exact h
  | prune p =>
    simp only [World.step]
    cases w.msk.structure_.uskRights p with
    | error _ => exact h
    | ok rights => exact h
  | keygen p =>
    simp only [World.step]
    cases w.msk.structure_.uskRights p with
    | error _ => exact h
    | ok rights => simp only [uskKeygen_structure]; exact h
  | refresh usk keep => simp only [World.step, refresh_structure]; exact h
  | draw k => exact h

theorem empty_wf : Struct.empty.WF ∧ Struct.empty.IdsBelow := by
  constructor
  · refine ⟨List.nodup_nil, ?_, ?_⟩
    · intro p hp; cases hp
    · intro t1 ht1; simp [Struct.all, Struct.empty] at ht1
  · intro p hp; cases hp

/-- **Every reachable world has a well-formed access structure** (distinct names, identifiers
never shared: the D1 defect of the pinned tree violated exactly this) -/
theorem reachable_struct_wf (w : World) (h : Reachable w) : w.msk.structure_.WF ∧ w.msk.structure_.IdsBelow := by
  obtain ⟨n, k, ops, rfl⟩ := h
  have : ∀ (ops : List Op) (w0 : World), (w0.msk.structure_.WF ∧ w0.msk.structure_.IdsBelow) →
      ((ops.foldl World.step w0).msk.structure_.WF ∧ (ops.foldl World.step w0).msk.structure_.IdsBelow) := by
    intro ops
    induction ops with
    | nil => intro w0 h0; exact h0
    | cons op rest ih => intro w0 h0; exact ih _ (step_struct w0 op h0)
  apply this ops
  show (World.init n k).msk.structure_.WF ∧ (World.init n k).msk.structure_.IdsBelow
  unfold World.init
  simp only [updateMsk_structure]
  exact empty_wf

end CC
