import CC.Model.Sched
/-! # Threads sharing one generator behind one mutex: lock events *and* the generator's state

`CC.Model.Sched` knows lock events only. Here the shared state is the generator of the instance
(idealised, as everywhere, as a counter of fresh tokens), and a draw is what it is on a real
machine: a **read‑modify‑write** of that state — the thread reads the state (`load`), computes, and
writes the advanced state back (`store k`, having produced the `k` tokens from the value it read).
Nothing in the semantics makes `load` / `store` wait for the mutex: it is the *discipline* of the
code (every access to the `CsRng` goes through the `MutexGuard`, which Rust's type system enforces,
and every guard lives inside one `acq … rel` section — the table regenerated from the source) that
puts them inside critical sections. The theorems of `CC.Props.C19Conc` say what that discipline
buys for every schedule, and `snapshot_breaks` what is lost without it.

Everything is executable: `step` is a function, a schedule is a list of thread numbers. -/

namespace CC.Conc

inductive Ev where
  | acq | rel | load | store (k : Nat)
deriving DecidableEq, Repr

structure Thread where
  evs : List Ev
  /-- the thread's private copy of the generator state between its `load` and its `store` -/
  reg : Option Nat
deriving DecidableEq, Repr

/-- one block of tokens handed out: `[start, start + len)` to thread `thread` -/
structure Entry where
  thread : Nat
  start : Nat
  len : Nat
deriving DecidableEq, Repr

structure State where
  holder : Option Nat
  rng : Nat
  threads : List Thread
  /-- newest first -/
  log : List Entry
deriving DecidableEq, Repr

/-- thread `i` attempts its next event; `none` when it is not enabled (blocked on the mutex, no
such thread, nothing left to do, or a `store` with nothing loaded) -/
def step (s : State) (i : Nat) : Option State :=
  match s.threads[i]? with
  | none => none
  | some th =>
    match th.evs with
    | [] => none
    | .acq :: rest =>
      if s.holder = none then
        some { s with holder := some i, threads := s.threads.set i { th with evs := rest } }
      else none
    | .rel :: rest =>
      if s.holder = some i then
        some { s with holder := none, threads := s.threads.set i { th with evs := rest } }
      else none
    | .load :: rest =>
      some { s with threads := s.threads.set i { evs := rest, reg := some s.rng } }
    | .store k :: rest =>
      match th.reg with
      | none => none
      | some a =>
        some { s with rng := a + k, log := ⟨i, a, k⟩ :: s.log,
                      threads := s.threads.set i { evs := rest, reg := none } }

/-- a schedule: which thread is given the processor at each tick (a tick given to a thread that
cannot move is lost) -/
def run (s : State) : List Nat → State
  | [] => s
  | i :: sched =>
    match step s i with
    | some s' => run s' sched
    | none => run s sched

def init (n0 : Nat) (threads : List (List Ev)) : State :=
  { holder := none, rng := n0, threads := threads.map (fun e => ⟨e, none⟩), log := [] }

/-! ## the discipline -/

inductive Phase where
  | out | held | loaded
deriving DecidableEq, Repr

/-- every access to the generator happens under the guard, and a section ends with the state
written back: `(acq (load store)* rel)*` -/
def disc : Phase → List Ev → Bool
  | .out, [] => true
  | .out, .acq :: r => disc .held r
  | .held, .load :: r => disc .loaded r
  | .loaded, .store _ :: r => disc .held r
  | .held, .rel :: r => disc .out r
  | _, _ => false

/-- the events of one API call: each `acq … rel` section of the lock table performs the draws
`ks` (one `load` / `store` pair per draw; which draws, and how many tokens each, is the business of
the primitive running under the guard) -/
def section_ (ks : List Nat) : List Ev :=
  .acq :: (ks.flatMap (fun k => [.load, .store k])) ++ [.rel]

/-- a thread: the sections of its successive calls, each with its own draws -/
def threadOf (sections : List (List Nat)) : List Ev := sections.flatMap section_

/-! ## the log -/

/-- where the blocks of the log end, the oldest block starting at `n0` -/
def blocksEnd (n0 : Nat) : List Entry → Nat
  | [] => n0
  | e :: _ => e.start + e.len

/-- the blocks of the log are consecutive: each starts where the previous one ended -/
def Contig (n0 : Nat) : List Entry → Prop
  | [] => True
  | e :: rest => e.start = blocksEnd n0 rest ∧ Contig n0 rest

def total : List Entry → Nat
  | [] => 0
  | e :: rest => e.len + total rest

def overlap (a b : Entry) : Prop := ∃ t, a.start ≤ t ∧ t < a.start + a.len ∧ b.start ≤ t ∧ t < b.start + b.len

end CC.Conc
