import CC.Model.Structure
/-! # `Dict`: the insertion-ordered map of `src/data_struct/dictionary.rs`, at the level of its representation

The rest of the model treats a hierarchy's attributes as an ordered association list
(`Dim.attrs`, `ainsert`, `aerase`, `areplace`). The code keeps two structures in step: a
`HashMap<K, usize>` from keys to positions and a `Vec<(K, V)>` of entries; `remove` shifts the
positions above the removed one, `update_key` moves a position to a new key. This file models
that representation operation by operation (the `HashMap` is a partial function with a size,
`std`'s implementation being trusted); an out-of-bounds `self.entries[i]` — a panic in the code —
is `none`. `CC.Props.DictRefine` proves that, from the empty `Dict`, no operation panics and each
one is the association-list operation the rest of the model uses. -/

namespace CC

structure DictRep (V : Type) where
  /-- `indices: HashMap<K, Index>` -/
  indices : String → Option Nat
  /-- `indices.len()` -/
  nIdx : Nat
  /-- `entries: Vec<(K, V)>` -/
  entries : List (String × V)

namespace DictRep
variable {V : Type}

/-- `Dict::new` -/
def empty : DictRep V := ⟨fun _ => none, 0, []⟩

/-- `Dict::len` (answers from the hash map) -/
def len (d : DictRep V) : Nat := d.nIdx

/-- `Dict::insert`: overwrite in place, or push at the end. `none` = index out of bounds. -/
def insert (d : DictRep V) (k : String) (v : V) : Option (DictRep V × Option V) :=
  match d.indices k with
  | some i =>
    match d.entries[i]? with
    | some p => some ({ d with entries := d.entries.set i (p.1, v) }, some p.2)
    | none => none
  | none =>
    some ({ indices := fun k' => if k' = k then some d.entries.length else d.indices k',
            nIdx := d.nIdx + 1, entries := d.entries ++ [(k, v)] }, none)

/-- `Dict::remove`: forget the key, shift the positions above it, remove the entry -/
def remove (d : DictRep V) (k : String) : Option (DictRep V × Option V) :=
  match d.indices k with
  | none => some (d, none)
  | some i =>
    match d.entries[i]? with
    | none => none
    | some p =>
      some ({ indices := fun k' => if k' = k then none
                          else (d.indices k').map (fun j => if j > i then j - 1 else j),
              nIdx := d.nIdx - 1, entries := d.entries.eraseIdx i }, some p.2)

inductive KeyErr where
  | missing | existing
deriving DecidableEq, Repr

/-- `Dict::update_key` -/
def updateKey (d : DictRep V) (old new : String) : Option (Except KeyErr (DictRep V)) :=
  match d.indices old with
  | none => some (.error .missing)
  | some i =>
    match d.indices new with
    | some _ => some (.error .existing)
    | none =>
      match d.entries[i]? with
      | none => none
      | some p =>
        some (.ok { indices := fun k' => if k' = old then none else if k' = new then some i else d.indices k',
                    nIdx := d.nIdx, entries := d.entries.set i (new, p.2) })

/-- `Dict::contains_key` -/
def containsKey (d : DictRep V) (k : String) : Bool := (d.indices k).isSome

/-- `Dict::get` -/
def get (d : DictRep V) (k : String) : Option V :=
  match d.indices k with
  | none => none
  | some i => (d.entries[i]?).map (·.2)

/-- `Dict::get_mut` followed by an assignment through the reference -/
def modify (d : DictRep V) (k : String) (f : V → V) : DictRep V × Bool :=
  match d.indices k with
  | none => (d, false)
  | some i =>
    match d.entries[i]? with
    | none => (d, false)
    | some p => ({ d with entries := d.entries.set i (p.1, f p.2) }, true)

/-- `Dict::iter` / `into_iter`: entries in insertion order -/
def iter (d : DictRep V) : List (String × V) := d.entries

/-- `FromIterator`: successive `insert`s -/
def fromList : List (String × V) → Option (DictRep V)
  | l => l.foldl (fun acc p => acc.bind (fun d => (d.insert p.1 p.2).map (·.1))) (some empty)

/-- the hierarchy arm of `Dimension::add_attribute`, on the representation: clone, walk down from
the top to `after`, rebuild the lower part, insert the new attribute, re-insert the higher ones -/
def addAbove (d : DictRep V) (name : String) (a : V) (after : String) [DecidableEq V] : Option (DictRep V) :=
  let higher := d.iter.reverse.takeWhile (fun p => p.1 != after)
  let lower := d.iter.takeWhile (fun p => some p != higher.getLast?)
  (fromList lower).bind (fun nd =>
    (nd.insert name a).bind (fun r =>
      higher.reverse.foldl (fun acc p => acc.bind (fun d => (d.insert p.1 p.2).map (·.1))) (some r.1)))

end DictRep
end CC
