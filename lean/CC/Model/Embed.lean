import CC.Model.Wire
import CC.Model.Keys
import CC.Model.Sym
/-! # From the symbolic keys to the wire

The symbolic model (`CC.Model.Keys`, the state of the `World` machine) names cryptographic leaves by
tokens; the wire model (`CC.Model.Wire`) is about bytes. `Leaves` is any choice of byte
representations for the tokens that has the sizes of the configuration and is accepted by the leaf
decoders — the real scalars, points and ML-KEM keys are one such choice. `toWire` lays a symbolic key
out as the wire object `write` serialises: same counts, same order, flags as `0 / 1`, names as UTF-8,
rights as they are (a `Right` is already its byte string). The theorems of `CC.Props.C13Reach` show
that what the `World` machine can reach lands inside the well-formed wire objects that
`CC.Props.C13` proves to round-trip. -/

namespace CC
open CC.Wire

structure Leaves (c : Cfg) where
  /-- scalar named by a token (right secret, tracer, marker, master scalar) -/
  scalar : Nat → Bytes
  /-- its public point -/
  point : Nat → Bytes
  /-- ML-KEM decapsulation / encapsulation key drawn with a token -/
  dk : Nat → Bytes
  ek : Nat → Bytes
  /-- the KMAC key -/
  sigKey : Nat → Bytes
  /-- KMAC output over a signed content -/
  mac : Sig → Bytes
  /-- of an encapsulation with seed token `s`: the tag, the trap for tracer `t`, and for the target key with
  token `k` the masked seed `F` and the ML-KEM ciphertext `E` -/
  tag : Nat → Bytes
  trap : Nat → Nat → Bytes
  mask : Nat → Nat → Bytes
  ct : Nat → Nat → Bytes
  /-- AEAD: the nonce named by a token, and the box (ciphertext and MAC) of a sealed plaintext -/
  nonce : Nat → Bytes
  box : Sealed → Bytes
  scalar_len : ∀ t, (scalar t).length = c.sk
  scalar_ok : ∀ t, c.validSk (scalar t) = true
  point_len : ∀ t, (point t).length = c.pk
  point_ok : ∀ t, c.validPk (point t) = true
  dk_len : ∀ t, (dk t).length = c.dk
  ek_len : ∀ t, (ek t).length = c.ek
  sigKey_len : ∀ t, (sigKey t).length = SIGK
  mac_len : ∀ s, (mac s).length = SIG
  tag_len : ∀ s, (tag s).length = TAG
  trap_len : ∀ s t, (trap s t).length = c.pk
  trap_ok : ∀ s t, c.validPk (trap s t) = true
  mask_len : ∀ s k, (mask s k).length = SS
  ct_len : ∀ s k, (ct s k).length = c.enc
  nonce_len : ∀ t, (nonce t).length = NONCE_LENGTH
  box_len : ∀ s, (box s).length = s.ptx.length + 16

/-- UTF-8 bytes of a name -/
def strBytes (s : String) : Bytes := s.toUTF8.data.toList

def Attr.toWire (n : String) (a : Attr) : WAttr :=
  ⟨strBytes n, a.id, if a.hyb then 1 else 0, if a.ro then 0 else 1⟩

def Dim.toWire (n : String) (d : Dim) : WDim :=
  ⟨strBytes n, if d.ordered then 1 else 0, d.attrs.map (fun p => Attr.toWire p.1 p.2)⟩

/-- the current format (`V2`: the identifier counter is stored) -/
def Struct.toWire (s : Struct) : WStruct :=
  ⟨1, some s.nextId, s.dims.map (fun p => Dim.toWire p.1 p.2)⟩

variable {c : Cfg}

/-- `RightSecretKey` -/
def Sk.toWireSk (L : Leaves c) (s : Sk) : WKey := ⟨s.hyb, L.scalar s.tok, if s.hyb then L.dk s.tok else []⟩
/-- `RightPublicKey` -/
def Sk.toWirePk (L : Leaves c) (s : Sk) : WKey := ⟨s.hyb, L.point s.tok, if s.hyb then L.ek s.tok else []⟩

/-- `setup n k` draws the master scalar (token `auth`), then `k` tracers (the following tokens) -/
def tracerToks (auth k : Nat) : List Nat := (List.range k).map (fun i => auth + 1 + i)

def Msk.toWire (L : Leaves c) (m : Msk) : WMsk :=
  { s := L.scalar m.auth
    tracers := (tracerToks m.auth m.ntracers).map (fun t => (L.scalar t, L.point t))
    users := m.users.map (fun id => id.map L.scalar)
    secrets := m.secrets.map (fun p => (p.1, p.2.map (fun q => (q.1, q.2.toWireSk L))))
    signingKey := m.signKey.map L.sigKey
    structure_ := m.structure_.toWire }

def Mpk.toWire (L : Leaves c) (m : Mpk) : WMpk :=
  { tpk := (tracerToks m.auth m.ntracers).map L.point
    keys := m.keys.map (fun p => (p.1, p.2.toWirePk L))
    structure_ := m.structure_.toWire }

def Usk.toWire (L : Leaves c) (u : Usk) : WUsk :=
  { id := u.id.map L.scalar
    ps := (tracerToks u.auth u.nps).map L.point
    secrets := u.secrets.map (fun p => (p.1, p.2.map (fun s => s.toWireSk L)))
    signature := u.sig.map L.mac }

/-- `XEnc`: tag, one trap per tracer of the authority, the flavour, one `(E, F)` per target -/
def XEnc.toWire (L : Leaves c) (x : XEnc) : WEnc :=
  { tag := L.tag x.seed
    c := (tracerToks x.auth x.ntraps).map (L.trap x.seed)
    hyb := x.hybrid
    encs := x.targets.map (fun t => (if x.hybrid then L.ct x.seed t.tok else [], L.mask x.seed t.tok)) }

/-- `EncryptedHeader`: the encapsulation, then nonce ‖ box of the metadata when there is one -/
def Header.toWire (L : Leaves c) (h : Header) : WHeader :=
  { enc := h.enc.toWire L
    mdata := h.mdata.map (fun s => L.nonce s.nonce ++ L.box s) }

end CC
