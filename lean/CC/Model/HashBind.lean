import CC.Generated.Consts
/-! # What is hashed by `c_encaps` / `h_encaps` and recomputed by `c_decaps` / `h_decaps` / `full_decaps`

`T = H₁(traps ‖ ML-KEM ciphertexts)` (classic: traps only — the list of ciphertexts is empty),
`U = H₂(T ‖ masked seeds)`, `(tag, key) = J(S, U)`. The hashes are parameters. -/

namespace CC.HB

abbrev Bytes := List UInt8

/-- the received parts of an encapsulation: tag, traps, ML-KEM ciphertexts (empty when classic),
masked seeds -/
structure Enc where
  tag : Bytes
  c : List Bytes
  es : List Bytes
  fs : List Bytes

section
variable (HT HU : Bytes → Bytes) (Jtag : Bytes → Bytes → Bytes)

/-- `T`: the hasher is fed every trap, then every ML-KEM ciphertext, in order -/
def T (x : Enc) : Bytes := HT (x.c.flatten ++ x.es.flatten)
/-- `U`: fed `T`, then every masked seed, in order -/
def U (x : Enc) : Bytes := HU (T HT x ++ x.fs.flatten)
/-- the tag `decaps` recomputes for a candidate seed -/
def tagFor (x : Enc) (s : Bytes) : Bytes := Jtag s (U HT HU x)

end

/-- size discipline of a deserialised encapsulation: the wire format has fixed-size leaves -/
def WF (PL EL : Nat) (x : Enc) : Prop :=
  (∀ p ∈ x.c, p.length = PL) ∧ (∀ e ∈ x.es, e.length = EL) ∧
  (∀ f ∈ x.fs, f.length = CC.Generated.SHARED_SECRET_LENGTH)

end CC.HB
