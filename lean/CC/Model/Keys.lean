import CC.Model.Structure
/-! # Keys and encapsulations, symbolically

Cryptographic leaves are tokens: a right secret key is `{tok, hyb}` (`tok` names the ElGamal
scalar — and the ML-KEM key pair drawn with it when `hyb`); its public key is the public half of
the same token. An encapsulation records the tokens of the public keys it was made for; "the tag
matches and the traps re-derive" becomes "the secret's token is among the targets, the flavour is
usable, and the key belongs to the same authority" (justified once by `CC.Props.C07`/`C01Alg`, and
checked against the real code by the correspondence runs). -/

namespace CC

/-- `RightSecretKey` (and, read as its public half, `RightPublicKey`) -/
structure Sk where
  tok : Nat
  hyb : Bool
deriving DecidableEq, Repr, Inhabited

/-- `RightSecretKey::drop_hybridization` -/
def Sk.dropHyb (s : Sk) : Sk := { s with hyb := false }

/-- `UserId`: the markers -/
abbrev UserId := List Nat

/-- what KMAC was computed over (`sign`): key token, markers, chains -/
structure Sig where
  key : Nat
  id : UserId
  secrets : List (Right × List Sk)
deriving DecidableEq, Repr, Inhabited

/-- `RevisionMap<Right, (bool, RightSecretKey)>` -/
abbrev RevMap := List (Right × List (Bool × Sk))
/-- `RevisionVec<Right, RightSecretKey>` -/
abbrev RevVec := List (Right × List Sk)

structure Msk where
  /-- identity of the authority: stands for `tsk.s` and the tracers -/
  auth : Nat
  /-- number of tracers (tracing level + 1) -/
  ntracers : Nat
  users : List UserId
  secrets : RevMap
  signKey : Option Nat
  structure_ : Struct
deriving DecidableEq, Repr, Inhabited

structure Mpk where
  auth : Nat
  ntracers : Nat
  keys : List (Right × Sk)
  structure_ : Struct
deriving DecidableEq, Repr, Inhabited

structure Usk where
  id : UserId
  /-- `ps`: the public tracers it embeds: authority and number -/
  auth : Nat
  nps : Nat
  secrets : RevVec
  sig : Option Sig
deriving DecidableEq, Repr, Inhabited

structure XEnc where
  /-- authority whose tracers made the traps `c`, and their number -/
  auth : Nat
  ntraps : Nat
  /-- `Encapsulations::HEncs` vs `CEncs` -/
  hybrid : Bool
  /-- public keys the seed was masked for, in (shuffled) order -/
  targets : List Sk
  /-- name of the seed `S`; the returned shared secret and the tag are functions of it -/
  seed : Nat
deriving DecidableEq, Repr, Inhabited

/-! ## RevisionMap / RevisionVec -/

namespace RevMap

def get (m : RevMap) (r : Right) : Option (List (Bool × Sk)) := m.lookup r
def containsKey (m : RevMap) (r : Right) : Bool := (m.lookup r).isSome
/-- `RevisionMap::get_latest` -/
def getLatest (m : RevMap) (r : Right) : Option (Bool × Sk) := (m.lookup r).bind List.head?

/-- `RevisionMap::insert`: push at the front of the chain, or start a chain -/
def insert (m : RevMap) (r : Right) (v : Bool × Sk) : RevMap :=
  if (m.lookup r).isSome then m.map (fun p => if p.1 == r then (p.1, v :: p.2) else p)
  else m ++ [(r, [v])]

/-- replace the head of a chain -/
def setHead (v : Bool × Sk) : List (Bool × Sk) → List (Bool × Sk)
  | [] => []
  | _ :: tl => v :: tl

/-- `LinkedList::split_off(n)` keeping the front, when `n <= len` -/
def keepN (n : Nat) (c : List (Bool × Sk)) : List (Bool × Sk) := if n ≤ c.length then c.take n else c

/-- `get_latest_mut` followed by an assignment -/
def setLatest (m : RevMap) (r : Right) (v : Bool × Sk) : RevMap :=
  m.map (fun p => if p.1 == r then (p.1, setHead v p.2) else p)

/-- `RevisionMap::keep(key, n)` -/
def keep (m : RevMap) (r : Right) (n : Nat) : RevMap :=
  m.map (fun p => if p.1 == r then (p.1, keepN n p.2) else p)

/-- `RevisionMap::retain` -/
def retain (m : RevMap) (f : Right → Bool) : RevMap := m.filter (fun p => f p.1)

end RevMap

/-- one step of the (repaired) `RevisionIterator::next`: the next element of every chain that is
not exhausted, and the remaining chains. -/
def revHeads (chains : RevVec) : List (Right × Sk) :=
  chains.filterMap (fun p => p.2.head?.map (fun s => (p.1, s)))
def revTails (chains : RevVec) : RevVec := chains.map (fun p => (p.1, p.2.tail))

def revTotal (chains : RevVec) : Nat := (chains.map (fun p => p.2.length)).sum

theorem revTotal_tails_lt (chains : RevVec) (h : revHeads chains ≠ []) :
    revTotal (revTails chains) < revTotal chains := by
  induction chains with
  | nil => simp [revHeads] at h
  | cons p ps ih =>
    obtain ⟨k, c⟩ := p
    cases c with
    | nil =>
      have : revHeads ps ≠ [] := by simpa [revHeads] using h
      have := ih this
      simp [revTotal, revTails] at this ⊢; omega
    | cons s c =>
      have hle : revTotal (revTails ps) ≤ revTotal ps := by
        clear ih h
        induction ps with
        | nil => simp [revTotal, revTails]
        | cons q qs ih2 =>
          simp [revTotal, revTails] at ih2 ⊢; omega
      simp [revTotal, revTails] at hle ⊢; omega

/-- `RevisionVec::revisions`, as the list of all revisions the iterator yields -/
def revisions (chains : RevVec) : List (List (Right × Sk)) :=
  if h : revHeads chains = [] then [] else revHeads chains :: revisions (revTails chains)
termination_by revTotal chains
decreasing_by exact revTotal_tails_lt chains h

end CC
