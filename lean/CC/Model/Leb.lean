/-! # Unsigned LEB128 (as the `leb128` crate writes and reads a `u64`)

Model of `Serializer::write_leb128_u64`, `Deserializer::read_leb128_u64` and `to_leb128_len`.
Core Lean only. -/

namespace CC.Leb

/-- unsigned LEB128 of a natural. -/
def enc (n : Nat) : List UInt8 :=
  if h : n < 128 then [UInt8.ofNat n]
  else UInt8.ofNat (n % 128 + 128) :: enc (n / 128)
termination_by n
decreasing_by omega

/-- `to_leb128_len`. -/
def len (n : Nat) : Nat := if n < 128 then 1 else 1 + len (n / 128)
termination_by n
decreasing_by omega

/-- Decoder without the 64-bit overflow check: value and rest. -/
def dec : List UInt8 → Option (Nat × List UInt8)
  | [] => none
  | b :: rest =>
    if b.toNat < 128 then some (b.toNat, rest)
    else match dec rest with
      | none => none
      | some (v, r) => some ((b.toNat - 128) + 128 * v, r)

/-- Decoder mirroring `leb128::read::unsigned`: `shift` is the current bit position; a byte at
shift 63 with more than the low bit set (or a continuation bit) is an overflow error. Returns the
value, the rest and the number of bytes consumed. -/
def decU64Aux : List UInt8 → (shift : Nat) → (acc : Nat) → (fuel : Nat) → Option (Nat × List UInt8)
  | _, _, _, 0 => none
  | [], _, _, _ => none
  | b :: rest, shift, acc, fuel + 1 =>
    if shift = 63 ∧ b.toNat ≠ 0 ∧ b.toNat ≠ 1 then none
    else
      let acc' := acc + (b.toNat % 128) * 2 ^ shift
      if b.toNat < 128 then some (acc', rest)
      else decU64Aux rest (shift + 7) acc' fuel

/-- `Deserializer::read_leb128_u64`. -/
def decU64 (bs : List UInt8) : Option (Nat × List UInt8) := decU64Aux bs 0 0 10

end CC.Leb
