import CC.Model.Wire
/-! # What `primitives::sign` feeds KMAC

`kmac.update(marker)` for every marker, then for every `(right, chain)` in order:
`kmac.update(right)`, and for every secret `kmac.update(sk)` (and `kmac.update(dk)` when
hybridized). KMAC absorbs a plain concatenation: there is no length, count or flavour framing. -/

namespace CC.Mac
open CC.Wire

/-- the byte stream absorbed by KMAC for a user key -/
def input (u : WUsk) : Bytes :=
  u.id.flatten ++ u.secrets.flatMap (fun p => p.1 ++ p.2.flatMap (fun k => k.a ++ k.b))

/-- the model of `verify` on bytes, relative to an issued key `k0` whose signature is genuine:
KMAC being idealised (a tag verifies only for the exact stream it was computed on, under the same
key), a key presenting `k0`'s signature passes iff its stream equals `k0`'s. -/
def verifiesLike (k0 k : WUsk) : Bool :=
  decide (k.signature = k0.signature) && decide (input k = input k0)

/-- `refresh` accepts `k` (given that `k0` was issued and its id is known) iff `verify` passes and
the id is the known one -/
def acceptedLike (k0 k : WUsk) : Bool := verifiesLike k0 k && decide (k.id = k0.id)

end CC.Mac
