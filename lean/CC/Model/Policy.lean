/-! # Access policies: AST, smart constructors, DNF, evaluation, parser

Mirrors `src/abe_policy/access_policy.rs` and `QualifiedAttribute::try_from(&str)` of
`src/abe_policy/attribute.rs`. The parser works on `List Char` (the Rust code slices at char
boundaries after the D11 repair), with the queue `q` of the Rust loop made explicit. -/

namespace CC

structure QA where
  dim : String
  name : String
deriving DecidableEq, Repr, Inhabited

inductive AP where
  | broadcast
  | term (a : QA)
  | conj (l r : AP)
  | disj (l r : AP)
deriving DecidableEq, Repr, Inhabited

namespace AP

/-- `impl BitAnd for AccessPolicy` -/
def and (l r : AP) : AP :=
  if l = .broadcast then r else if r = .broadcast then l else .conj l r

/-- `impl BitOr for AccessPolicy` -/
def or (l r : AP) : AP :=
  if l = .broadcast then l else if r = .broadcast then r else .disj l r

def eval (v : QA → Bool) : AP → Bool
  | .broadcast => true
  | .term a => v a
  | .conj l r => l.eval v && r.eval v
  | .disj l r => l.eval v || r.eval v

/-- `AccessPolicy::to_dnf` -/
def toDnf : AP → List (List QA)
  | .term a => [[a]]
  | .conj l r => l.toDnf.flatMap (fun x => r.toDnf.map (fun y => x ++ y))
  | .disj l r => l.toDnf ++ r.toDnf
  | .broadcast => [[]]

def atoms : AP → List QA
  | .broadcast => []
  | .term a => [a]
  | .conj l r => l.atoms ++ r.atoms
  | .disj l r => l.atoms ++ r.atoms

end AP

def evalDnf (v : QA → Bool) (d : List (List QA)) : Bool := d.any (fun c => c.all v)

/-! ## The parser -/

inductive PErr where
  | invalidBool | invalidAttr
deriving DecidableEq, Repr

/-- `char::is_whitespace` (Unicode `White_Space`). -/
def isWs (c : Char) : Bool :=
  let n := c.toNat
  n = 0x20 || (0x09 ≤ n && n ≤ 0x0D) || n = 0x85 || n = 0xA0 || n = 0x1680 ||
  (0x2000 ≤ n && n ≤ 0x200A) || n = 0x2028 || n = 0x2029 || n = 0x202F || n = 0x205F || n = 0x3000

def trimStart (s : List Char) : List Char := s.dropWhile isWs
def trimEnd (s : List Char) : List Char := (s.reverse.dropWhile isWs).reverse
/-- `str::trim` -/
def trim (s : List Char) : List Char := trimEnd (trimStart s)

theorem dropWhile_length_le {α} (p : α → Bool) (l : List α) : (l.dropWhile p).length ≤ l.length := by
  induction l with
  | nil => simp
  | cons a l ih => simp only [List.dropWhile]; split <;> simp <;> omega

theorem trim_length_le (s : List Char) : (trim s).length ≤ s.length := by
  unfold trim trimEnd trimStart
  have h1 := dropWhile_length_le isWs s
  have h2 := dropWhile_length_le isWs (s.dropWhile isWs).reverse
  simp at h2 ⊢; omega

/-- `find_matching_closing_parenthesis`: index (in chars) of the parenthesis closing the one
already consumed. -/
def findClose : List Char → Nat → Nat → Option Nat
  | [], _, _ => none
  | c :: cs, depth, idx =>
    if c = '(' then findClose cs (depth + 1) (idx + 1)
    else if c = ')' then
      if depth = 0 then some idx else findClose cs (depth - 1) (idx + 1)
    else findClose cs depth (idx + 1)

theorem findClose_lt : ∀ (s : List Char) (d i k : Nat), findClose s d i = some k → k < i + s.length
  | [], _, _, _, h => by simp [findClose] at h
  | c :: cs, d, i, k, h => by
    unfold findClose at h
    split at h
    · have := findClose_lt cs _ _ _ h; simp; omega
    · split at h
      · split at h
        · simp at h; subst h; simp
        · have := findClose_lt cs _ _ _ h; simp; omega
      · have := findClose_lt cs _ _ _ h; simp; omega

def isMeta (c : Char) : Bool := c = '(' || c = ')' || c = '|' || c = '&'

/-- `str::split_once("::")` -/
def splitOnce : List Char → Option (List Char × List Char)
  | [] => none
  | ':' :: ':' :: rest => some ([], rest)
  | c :: rest => (splitOnce rest).map (fun (a, b) => (c :: a, b))

/-- `str::contains("::")` -/
def containsSep : List Char → Bool
  | [] => false
  | ':' :: ':' :: _ => true
  | _ :: rest => containsSep rest

/-- `QualifiedAttribute::try_from(&str)` -/
def qaOfStr (s : List Char) : Except PErr QA :=
  match splitOnce s with
  | none => .error .invalidAttr
  | some (d, n) =>
    if containsSep n then .error .invalidAttr
    else if d.isEmpty || n.isEmpty then .error .invalidAttr
    else .ok ⟨String.ofList (trim d), String.ofList (trim n)⟩

/-- `AccessPolicy::conjugate` -/
def conjugate (first : AP) (rest : List AP) : AP := rest.foldl AP.and first

/-- `AccessPolicy::parse` with its queue made explicit. -/
def parseLoop (q : List AP) (e0 : List Char) : Except PErr AP :=
  let e := trim e0
  match he : e with
  | [] =>
    match q with
    | first :: rest => .ok (conjugate first rest)
    | [] => .error .invalidBool
  | c :: tl =>
    if e = ['*'] then .ok (conjugate .broadcast q)
    else if c = '(' then
      match findClose tl 0 0 with
      | none => .error .invalidBool
      | some off =>
        match parseLoop [] (tl.take off) with
        | .error _ => .error .invalidBool
        | .ok sub => parseLoop (q ++ [sub]) (tl.drop (off + 1))
    else if c = '|' then
      match tl with
      | '|' :: rest =>
        match q with
        | [] => .error .invalidBool
        | base :: qs =>
          match parseLoop [] rest with
          | .error err => .error err
          | .ok rhs => .ok ((conjugate base qs).or rhs)
      | _ => .error .invalidBool
    else if c = '&' then
      match tl with
      | '&' :: rest => if q.isEmpty then .error .invalidBool else parseLoop q rest
      | _ => .error .invalidBool
    else if c = ')' then .error .invalidBool
    else
      let attr := e.takeWhile (fun c => !isMeta c)
      match qaOfStr attr with
      | .error err => .error err
      | .ok a => parseLoop (q ++ [.term a]) (e.drop attr.length)
termination_by e0.length
decreasing_by
  all_goals simp_wf
  all_goals have hle := trim_length_le e0
  · have h2 : trim e0 = c :: tl := he
    simp [h2] at hle; omega
  · have h2 : trim e0 = c :: tl := he
    simp [h2] at hle; omega
  · have h2 : trim e0 = c :: '|' :: rest := he
    simp [h2] at hle; omega
  · have h2 : trim e0 = c :: '&' :: rest := he
    simp [h2] at hle; omega
  · have h2 : trim e0 = c :: tl := he
    have hnm : isMeta c = false := by simp [isMeta, *]
    rw [h2] at hle ⊢
    simp only [List.takeWhile, hnm, Bool.not_false, List.length_cons] at hle ⊢
    omega

def parse (s : String) : Except PErr AP := parseLoop [] s.toList

end CC
