import CC.Model.Keys
/-! # The primitives of `src/core/primitives.rs` and `src/core/mod.rs` over symbolic keys

Every function that takes `&mut` in Rust returns the state *it leaves behind on that path*
together with its result, in the order of validation and mutation of the (repaired) code, so that
"a failed operation leaves the key untouched" is a theorem and not an artefact of the modelling.
The CSPRNG is a counter of fresh tokens threaded through every operation. -/

namespace CC

/-- the idealised CSPRNG: next fresh token -/
abbrev Rng := Nat

/-- `MIN_TRACING_LEVEL + 1` tracers -/
def defaultTracers : Nat := 2

/-- `primitives::setup(tracing_level, rng)` with `k = tracing_level + 1` tracers (+ the empty
`update_msk` of `Covercrypt::setup` happens in `World`). `Covercrypt::setup` passes
`MIN_TRACING_LEVEL`, i.e. `k = defaultTracers`; the model and every theorem over reachable worlds
are stated for any `k` (a master key with more tracers can be obtained by deserialisation).
Draws: the scalar `s` (names the authority), the tracers, the signing key. -/
def setup (n : Rng) (k : Nat) : Msk × Rng :=
  ({ auth := n, ntracers := k, users := [], secrets := [],
     signKey := some (n + 1 + k), structure_ := Struct.empty }, n + 2 + k)

/-- `primitives::sign` -/
def sign (msk : Msk) (id : UserId) (secrets : RevVec) : Option Sig :=
  msk.signKey.map (fun k => ⟨k, id, secrets⟩)

/-- `primitives::verify` -/
def verify (msk : Msk) (usk : Usk) : Bool := decide (sign msk usk.id usk.secrets = usk.sig)

/-! ## update_msk -/

/-- the `for (r, (hint, status)) in rights` loop of `update_msk` -/
def updateLoop (secrets : RevMap) : List (Right × Bool × Bool) → Rng → Except Err RevMap × Rng
  | [], n => (.ok secrets, n)
  | (r, hyb, ro) :: rest, n =>
    match secrets.getLatest r with
    | some (_, sk) =>
      let sk' := if hyb then sk else sk.dropHyb
      updateLoop (secrets.setLatest r (!ro, sk')) rest n
    | none =>
      if ro then (.error .notPermitted, n)
      else updateLoop (secrets.insert r (true, ⟨n, hyb⟩)) rest (n + 1)

/-- `primitives::update_msk`; `rights` is the `HashMap` produced by `omega`, in iteration order. -/
def updateMsk (msk : Msk) (rights : List (Right × Bool × Bool)) (n : Rng) : Except Err Unit × Msk × Rng :=
  if rights.any (fun p => p.2.2 && (msk.secrets.getLatest p.1).isNone) then
    (.error .notPermitted, msk, n)
  else
    -- `take(&mut msk.secrets)`; `retain`
    let secrets := msk.secrets.retain (fun r => (rights.lookup r).isSome)
    match updateLoop secrets rights n with
    | (.error e, n') => (.error e, { msk with secrets := [] }, n')
    | (.ok s, n') => (.ok (), { msk with secrets := s }, n')

/-! ## rekey, prune -/

/-- the `for r in rights` loop of `rekey` -/
def rekeyLoop (secrets : RevMap) : List Right → Rng → Except Err Unit × RevMap × Rng
  | [], n => (.ok (), secrets, n)
  | r :: rest, n =>
    if secrets.containsKey r then
      match secrets.getLatest r with
      | none => (.error .notPermitted, secrets, n)
      | some (act, sk) => rekeyLoop (secrets.insert r (act, ⟨n, sk.hyb⟩)) rest (n + 1)
    else (.error .notPermitted, secrets, n)

/-- `primitives::rekey` -/
def rekey (msk : Msk) (rights : List Right) (n : Rng) : Except Err Unit × Msk × Rng :=
  if rights.any (fun r => (msk.secrets.getLatest r).isNone) then (.error .notPermitted, msk, n)
  else
    match rekeyLoop msk.secrets rights n with
    | (res, s, n') => (res, { msk with secrets := s }, n')

/-- `primitives::prune` -/
def prune (msk : Msk) (rights : List Right) : Msk :=
  { msk with secrets := rights.foldl (fun s r => s.keep r 1) msk.secrets }

/-! ## user keys -/

/-- `MasterSecretKey::get_latest_right_sk`, collected -/
def latestRightSks (msk : Msk) : List Right → Except Err RevVec
  | [] => .ok []
  | r :: rest =>
    match msk.secrets.getLatest r with
    | none => .error .keyError
    | some (_, sk) =>
      match latestRightSks msk rest with
      | .error e => .error e
      | .ok tl => .ok ((r, [sk]) :: tl)

/-- `TracingSecretKey::generate_user_id`: fresh markers (the last one is solved from the others;
it is a function of fresh draws, named by its own token), registered in `users`. -/
def generateUserId (msk : Msk) (n : Rng) : Except Err UserId × Msk × Rng :=
  if msk.ntracers = 0 then (.error .keyError, msk, n)
  else
    let id : UserId := (List.range msk.ntracers).map (· + n)
    (.ok id, { msk with users := if id ∈ msk.users then msk.users else msk.users ++ [id] }, n + msk.ntracers)

/-- `primitives::usk_keygen` -/
def uskKeygen (msk : Msk) (rights : List Right) (n : Rng) : Except Err Usk × Msk × Rng :=
  match latestRightSks msk rights with
  | .error e => (.error e, msk, n)
  | .ok chains =>
    match generateUserId msk n with
    | (.error e, msk', n') => (.error e, msk', n')
    | (.ok id, msk', n') =>
      (.ok { id := id, auth := msk'.auth, nps := msk'.ntracers, secrets := chains,
             sig := sign msk' id chains }, msk', n')

/-- `TracingSecretKey::refresh_id` -/
def refreshId (msk : Msk) (id : UserId) (n : Rng) : Except Err UserId × Msk × Rng :=
  if id ∉ msk.users then (.error .tracing, msk, n)
  else if id.length ≠ msk.ntracers then
    match generateUserId msk n with
    | (.error e, msk', n') => (.error e, msk', n')
    | (.ok nid, msk', n') => (.ok nid, { msk' with users := msk'.users.filter (· ≠ id) }, n')
  else (.ok id, msk, n)

/-- split the master chain at the first occurrence of `t` -/
def spanUntil (t : Sk) : List Sk → List Sk × Option (List Sk)
  | [] => ([], none)
  | m :: ms => if m = t then ([], some ms) else
      let (pre, r) := spanUntil t ms
      (m :: pre, r)

/-- the pairwise loop of `refresh_coordinate_keys`: longest common prefix -/
def commonPrefix : List Sk → List Sk → List Sk
  | u :: us, m :: ms => if m = u then m :: commonPrefix us ms else []
  | _, _ => []

/-- one chain of `refresh_coordinate_keys` (repaired); `none` = the right is dropped -/
def refreshChain (mchain usk : List Sk) : Option (List Sk) :=
  match usk with
  | [] => none
  | first :: rest =>
    match spanUntil first mchain with
    | (pre, some mrest) => some (pre ++ first :: commonPrefix rest mrest)
    | (pre, none) => some pre

/-- `primitives::refresh_coordinate_keys` -/
def refreshCoordinateKeys (msk : Msk) (chains : RevVec) : RevVec :=
  chains.filterMap (fun (r, uchain) =>
    match msk.secrets.get r with
    | none => none
    | some mchain => (refreshChain (mchain.map (·.2)) uchain).map (fun c => (r, c)))

/-- `primitives::refresh` -/
def refresh (msk : Msk) (usk : Usk) (keep : Bool) (n : Rng) : Except Err Unit × Msk × Usk × Rng :=
  if !verify msk usk then (.error .keyError, msk, usk, n)
  else
    match refreshId msk usk.id n with
    | (.error e, msk', n') => (.error e, msk', usk, n')
    | (.ok nid, msk', n') =>
      let newRights : Except Err RevVec :=
        if keep then .ok (refreshCoordinateKeys msk' usk.secrets)
        else latestRightSks msk' ((usk.secrets.map (·.1)).filter (fun r => msk'.secrets.containsKey r))
      match newRights with
      | .error e => (.error e, msk', usk, n')
      | .ok nr =>
        (.ok (), msk', { usk with id := nid, secrets := nr, sig := sign msk' nid nr }, n')

/-! ## public key, encapsulation, decapsulation -/

/-- the public entry of a right: its newest secret, if activated -/
def mpkEntry (p : Right × List (Bool × Sk)) : Option (Right × Sk) :=
  match p.2.head? with
  | some (true, sk) => some (p.1, sk)
  | _ => none

/-- `MasterSecretKey::mpk` -/
def Msk.mpk (msk : Msk) : Mpk :=
  { auth := msk.auth, ntracers := msk.ntracers,
    keys := msk.secrets.filterMap mpkEntry,
    structure_ := msk.structure_ }

/-- the lookup inside `select_subkeys` -/
def Mpk.keyOf (mpk : Mpk) (r : Right) : Except Err Sk :=
  match mpk.keys.lookup r with
  | none => .error .keyError
  | some k => .ok k

/-- `MasterPublicKey::select_subkeys` -/
def Mpk.selectSubkeys (mpk : Mpk) (targets : List Right) : Except Err (Bool × List Sk) :=
  match mapMExcept mpk.keyOf targets with
  | .error e => .error e
  | .ok ks => .ok (ks.all (·.hyb), ks)

/-- `primitives::encaps`; returns the name of the shared secret and the encapsulation.
Draws: the shuffle, the seed `S`, ML-KEM randomness per target. -/
def encaps (mpk : Mpk) (targets : List Right) (n : Rng) : Except Err (Nat × XEnc) × Rng :=
  match mpk.selectSubkeys targets with
  | .error e => (.error e, n)
  | .ok (hyb, ks) =>
    (.ok (n, { auth := mpk.auth, ntraps := mpk.ntracers, hybrid := hyb, targets := ks, seed := n }),
     n + 1 + (if hyb then ks.length else 0))

/-- does secret `s` open the component made for public key `t`? (`c_decaps`/`h_decaps` inner test) -/
def opens (hybrid : Bool) (s t : Sk) : Bool :=
  s.tok == t.tok && (!hybrid || (s.hyb && t.hyb))

/-- `primitives::decaps`: the loop nest over revisions, components and secrets -/
def decaps (usk : Usk) (enc : XEnc) : Option Nat :=
  if usk.auth = enc.auth ∧ usk.nps = enc.ntraps ∧ usk.id.length = enc.ntraps then
    if (revisions usk.secrets).any (fun rev =>
        enc.targets.any (fun t => rev.any (fun p => opens enc.hybrid p.2 t))) then some enc.seed
    else none
  else none

/-- `primitives::full_decaps` (repaired): rights of the master key one of whose secrets opens a
component; a right counts only if its newest secret is activated. -/
def fullDecaps (msk : Msk) (enc : XEnc) : Except Err (Nat × List Right) :=
  if enc.ntraps = 0 then .error .kem
  else if msk.ntracers = 0 then .error .keyError
  else
    let rights := msk.secrets.filterMap (fun (r, chain) =>
      match chain.head? with
      | some (true, _) =>
        if msk.auth = enc.auth ∧ msk.ntracers = enc.ntraps ∧
            chain.any (fun p => enc.targets.any (fun t => opens enc.hybrid p.2 t)) then some r else none
      | _ => none)
    if rights.isEmpty then .error .kem else .ok (enc.seed, rights)

/-- `Covercrypt::recaps` -/
def recaps (msk : Msk) (mpk : Mpk) (enc : XEnc) (n : Rng) : Except Err (Nat × XEnc) × Rng :=
  match fullDecaps msk enc with
  | .error e => (.error e, n)
  | .ok (_, rights) => encaps mpk rights n

end CC
