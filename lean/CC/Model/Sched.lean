import CC.Generated.Locks
/-! # Threads sharing one instance: lock events over the RNG mutex

Every API call expands (from the table generated from the source) to a sequence of lock events;
threads are sequences of calls; the semantics is the interleaving of their events over one mutex
(`std::sync::Mutex`, idealised: mutual exclusion, a guard is released at the end of its scope). -/

namespace CC.Sched
open CC.Generated

/-- events of a call after expanding calls to locking functions with those functions' own events -/
def expand (table : List (String × List LockEv)) : List LockEv → List LockEv
  | [] => []
  | .call f :: rest =>
    (match table.lookup ("api::" ++ f) with
     | some evs => evs.filter (fun e => match e with | .call _ => false | _ => true)
     | none => [.call f]) ++ expand table rest
  | e :: rest => e :: expand table rest

/-- the "lock after encaps" rule: while a guard is held there is no second acquisition and no call
to a locking function; every acquisition is released; `held` is whether the guard is held so far -/
def wellNested : Bool → List LockEv → Bool
  | held, [] => !held
  | false, .acq :: rest => wellNested true rest
  | true, .acq :: _ => false
  | true, .rel :: rest => wellNested false rest
  | false, .rel :: _ => false
  | false, .call _ :: rest => wellNested false rest
  | true, .call _ :: _ => false

/-- a thread's remaining events alternate acquire / release, starting according to whether it
holds the lock -/
def Alt : Bool → List LockEv → Prop
  | held, [] => held = false
  | false, .acq :: rest => Alt true rest
  | true, .rel :: rest => Alt false rest
  | _, _ => False

structure State where
  holder : Option Nat
  threads : List (List LockEv)

/-- one step of thread `i` -/
inductive Step : State → State → Prop
  | acq (s : State) (i : Nat) (rest : List LockEv) :
      s.holder = none → s.threads[i]? = some (.acq :: rest) →
      Step s { holder := some i, threads := s.threads.set i rest }
  | rel (s : State) (i : Nat) (rest : List LockEv) :
      s.holder = some i → s.threads[i]? = some (.rel :: rest) →
      Step s { holder := none, threads := s.threads.set i rest }

def Inv (s : State) : Prop :=
  (∀ i evs, s.threads[i]? = some evs → Alt (s.holder = some i) evs) ∧
  (∀ i, s.holder = some i → i < s.threads.length)

def remaining (s : State) : Nat := (s.threads.map List.length).sum

end CC.Sched
