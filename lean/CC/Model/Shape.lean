import CC.Model.Embed
/-! # The shape of a wire object

What is left of a wire object once the bytes of its cryptographic leaves are forgotten (their lengths
stay) and what Rust keeps in hash maps is put in a canonical order: counts, rights, flags, chain
lengths and order, names, identifiers, hints, statuses, the stored counter. The driver compares the
shape of what the real code serialised with the shape of `toWire` of the model's own symbolic key:
that ties `CC.Model.Embed` — the layout the theorems of `CC.Props.C13Reach` are about — to the code on
every `ser` line of every history. -/

namespace CC
open CC.Wire

/-- constant leaves of the configuration's sizes (both configurations accept every scalar / point in
the wire model: `validSk` / `validPk` are the defaults) -/
def zeroLeaves (c : Cfg) (hs : ∀ b, c.validSk b = true) (hp : ∀ b, c.validPk b = true) : Leaves c where
  scalar := fun _ => List.replicate c.sk 0
  point := fun _ => List.replicate c.pk 0
  dk := fun _ => List.replicate c.dk 0
  ek := fun _ => List.replicate c.ek 0
  sigKey := fun _ => List.replicate SIGK 0
  mac := fun _ => List.replicate SIG 0
  tag := fun _ => List.replicate TAG 0
  trap := fun _ _ => List.replicate c.pk 0
  mask := fun _ _ => List.replicate SS 0
  ct := fun _ _ => List.replicate c.enc 0
  nonce := fun _ => List.replicate NONCE_LENGTH 0
  box := fun s => List.replicate (s.ptx.length + 16) 0
  scalar_len := by intro; simp only [List.length_replicate]
  scalar_ok := by intro; exact hs _
  point_len := by intro; simp only [List.length_replicate]
  point_ok := by intro; exact hp _
  dk_len := by intro; simp only [List.length_replicate]
  ek_len := by intro; simp only [List.length_replicate]
  sigKey_len := by intro; simp only [List.length_replicate]
  mac_len := by intro; simp only [List.length_replicate]
  tag_len := by intro; simp only [List.length_replicate]
  trap_len := by intro _ _; simp only [List.length_replicate]
  trap_ok := by intro _ _; exact hp _
  mask_len := by intro _ _; simp only [List.length_replicate]
  ct_len := by intro _ _; simp only [List.length_replicate]
  nonce_len := by intro; simp only [List.length_replicate]
  box_len := by intro; simp only [List.length_replicate]

def zeroLeavesC25519 : Leaves cfgC25519 := zeroLeaves cfgC25519 (fun _ => rfl) (fun _ => rfl)
def zeroLeavesP256 : Leaves cfgP256 := zeroLeaves cfgP256 (fun _ => rfl) (fun _ => rfl)

namespace Shape

def zeros (b : Bytes) : Bytes := List.replicate b.length 0

/-- lexicographic order on byte strings -/
def bytesLe : Bytes → Bytes → Bool
  | [], _ => true
  | _ :: _, [] => false
  | a :: as, b :: bs => if a < b then true else if b < a then false else bytesLe as bs

def key (k : WKey) : WKey := ⟨k.hyb, zeros k.a, zeros k.b⟩

def dim (d : WDim) : WDim :=
  if d.ordered = 0 then { d with attrs := d.attrs.mergeSort (fun a b => bytesLe a.name b.name) } else d

def struct_ (s : WStruct) : WStruct :=
  { s with dims := (s.dims.map dim).mergeSort (fun a b => bytesLe a.name b.name) }

def msk (m : WMsk) : WMsk :=
  { s := zeros m.s
    tracers := m.tracers.map (fun t => (zeros t.1, zeros t.2))
    users := m.users.map (fun u => u.map zeros)
    secrets := (m.secrets.map (fun p => (p.1, p.2.map (fun q => (q.1, key q.2))))).mergeSort (fun a b => bytesLe a.1 b.1)
    signingKey := m.signingKey.map zeros
    structure_ := struct_ m.structure_ }

def mpk (m : WMpk) : WMpk :=
  { tpk := m.tpk.map zeros
    keys := (m.keys.map (fun p => (p.1, key p.2))).mergeSort (fun a b => bytesLe a.1 b.1)
    structure_ := struct_ m.structure_ }

def usk (u : WUsk) : WUsk :=
  { id := u.id.map zeros
    ps := u.ps.map zeros
    secrets := (u.secrets.map (fun p => (p.1, p.2.map key))).mergeSort (fun a b => bytesLe a.1 b.1)
    signature := u.signature.map zeros }

/-- the components are shuffled: all that is left is their number and flavour -/
def enc (x : WEnc) : WEnc :=
  { tag := zeros x.tag, c := x.c.map zeros, hyb := x.hyb, encs := x.encs.map (fun p => (zeros p.1, zeros p.2)) }

def header (h : WHeader) : WHeader := { enc := enc h.enc, mdata := h.mdata.map zeros }

end Shape
end CC
