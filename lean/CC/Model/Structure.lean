import CC.Model.Leb
import CC.Model.Policy
/-! # Attributes, dimensions, access structure, rights

Mirrors `src/abe_policy/{dimension,access_structure,rights}.rs` (after the `fix:` commits: the
structure carries a persistent `next_attribute_id`). `HashMap`s are association lists whose keys
are kept duplicate-free (a separate invariant, `Struct.WF`); wherever Rust iterates a `HashMap` in
arbitrary order the model iterates the list, and the theorems are order-independent (results are
compared as sets). -/

namespace CC

/-- `Error` variants, as kinds. -/
inductive Err where
  | dimNotFound | attrNotFound | existingDim | notPermitted | keyError | kem | tracing
  | invalidBool | invalidAttr | conversion | crypto
deriving DecidableEq, Repr, Inhabited

def PErr.toErr : PErr → Err
  | .invalidBool => .invalidBool
  | .invalidAttr => .invalidAttr

/-- A right is the byte string `Right(Vec<u8>)`. -/
abbrev Right := List UInt8

/-- `Right::from_point`: sort the ids, concatenate their LEB128 encodings. -/
def Right.fromPoint (ids : List Nat) : Right :=
  (ids.mergeSort (fun a b => decide (a ≤ b))).flatMap Leb.enc

structure Attr where
  id : Nat
  /-- `EncryptionHint::Hybridized` -/
  hyb : Bool
  /-- `AttributeStatus::DecryptOnly` -/
  ro : Bool
deriving DecidableEq, Repr, Inhabited

structure Dim where
  /-- `Dimension::Hierarchy` (attributes in ascending order) vs `Dimension::Anarchy` -/
  ordered : Bool
  attrs : List (String × Attr)
deriving DecidableEq, Repr, Inhabited

structure Struct where
  nextId : Nat
  dims : List (String × Dim)
deriving DecidableEq, Repr, Inhabited

def Struct.empty : Struct := ⟨0, []⟩

/-- remove a key from an association list -/
def aerase {β} (l : List (String × β)) (k : String) : List (String × β) := l.filter (fun p => p.1 != k)

/-- replace the value of a key in place -/
def areplace {β} (l : List (String × β)) (k : String) (v : β) : List (String × β) :=
  l.map (fun p => if p.1 == k then (k, v) else p)

/-- `HashMap::insert` / `Dict::insert`: replace in place or append -/
def ainsert {β} (l : List (String × β)) (k : String) (v : β) : List (String × β) :=
  if (l.lookup k).isSome then areplace l k v else l ++ [(k, v)]

namespace Dim

def nbAttributes (d : Dim) : Nat := d.attrs.length

/-- `Dimension::restrict` (`none` = `AttributeNotFound`) -/
def restrict (d : Dim) (n : String) : Option Dim :=
  match d.attrs.lookup n with
  | none => none
  | some a =>
    if d.ordered then some { d with attrs := d.attrs.takeWhile (fun p => p.1 != n) ++ [(n, a)] }
    else some { d with attrs := [(n, a)] }

/-- the hierarchy arm of `Dimension::add_attribute`, once validated: insert right above `after`
(the Rust code uses `""` when no `after` is given). -/
def insertAbove (attrs : List (String × Attr)) (name : String) (a : Attr) (after : String) :
    List (String × Attr) :=
  let higher := attrs.reverse.takeWhile (fun p => p.1 != after)
  let lower := attrs.takeWhile (fun p => some p != higher.getLast?)
  lower ++ [(name, a)] ++ higher.reverse

/-- `Dimension::add_attribute` -/
def addAttribute (d : Dim) (name : String) (hyb : Bool) (after : Option String) (id : Nat) :
    Except Err Dim :=
  let a : Attr := ⟨id, hyb, false⟩
  if d.ordered then
    if (d.attrs.lookup name).isSome then .error .notPermitted
    else match after with
      | some af =>
        if (d.attrs.lookup af).isNone then .error .attrNotFound
        else .ok { d with attrs := insertAbove d.attrs name a af }
      | none => .ok { d with attrs := insertAbove d.attrs name a "" }
  else
    if (d.attrs.lookup name).isSome then .error .notPermitted
    else .ok { d with attrs := d.attrs ++ [(name, a)] }

/-- `Dimension::remove_attribute` -/
def removeAttribute (d : Dim) (name : String) : Except Err Dim :=
  if (d.attrs.lookup name).isSome then .ok { d with attrs := aerase d.attrs name }
  else .error .attrNotFound

/-- `Dimension::disable_attribute` -/
def disableAttribute (d : Dim) (name : String) : Except Err Dim :=
  match d.attrs.lookup name with
  | some a => .ok { d with attrs := areplace d.attrs name { a with ro := true } }
  | none => .error .attrNotFound

/-- `Dimension::rename_attribute` -/
def renameAttribute (d : Dim) (old new : String) : Except Err Dim :=
  if d.ordered then
    -- `Dict::update_key`
    match d.attrs.lookup old with
    | none => .error .notPermitted
    | some _ =>
      if (d.attrs.lookup new).isSome then .error .notPermitted
      else .ok { d with attrs := d.attrs.map (fun p => if p.1 == old then (new, p.2) else p) }
  else
    if (d.attrs.lookup new).isSome then .error .notPermitted
    else match d.attrs.lookup old with
      | some a => .ok { d with attrs := aerase d.attrs old ++ [(new, a)] }
      | none => .error .attrNotFound

end Dim

namespace Struct

/-- `AccessStructure::add_anarchy` / `add_hierarchy` -/
def addDimension (s : Struct) (name : String) (ordered : Bool) : Except Err Struct :=
  if (s.dims.lookup name).isSome then .error .existingDim
  else .ok { s with dims := s.dims ++ [(name, ⟨ordered, []⟩)] }

/-- `AccessStructure::del_dimension` -/
def delDimension (s : Struct) (name : String) : Except Err Struct :=
  if (s.dims.lookup name).isSome then .ok { s with dims := aerase s.dims name }
  else .error .dimNotFound

/-- `AccessStructure::add_attribute` -/
def addAttribute (s : Struct) (dim name : String) (hyb : Bool) (after : Option String) :
    Except Err Struct :=
  match s.dims.lookup dim with
  | none => .error .dimNotFound
  | some d =>
    match d.addAttribute name hyb after s.nextId with
    | .error e => .error e
    | .ok d' => .ok { nextId := s.nextId + 1, dims := areplace s.dims dim d' }

def onDim (s : Struct) (dim : String) (f : Dim → Except Err Dim) : Except Err Struct :=
  match s.dims.lookup dim with
  | none => .error .dimNotFound
  | some d =>
    match f d with
    | .error e => .error e
    | .ok d' => .ok { s with dims := areplace s.dims dim d' }

/-- `AccessStructure::del_attribute` -/
def delAttribute (s : Struct) (dim name : String) : Except Err Struct :=
  s.onDim dim (·.removeAttribute name)

/-- `AccessStructure::rename_attribute` -/
def renameAttribute (s : Struct) (dim old new : String) : Except Err Struct :=
  s.onDim dim (·.renameAttribute old new)

/-- `AccessStructure::disable_attribute` -/
def disableAttribute (s : Struct) (dim name : String) : Except Err Struct :=
  s.onDim dim (·.disableAttribute name)

/-- `AccessStructure::get_attribute` -/
def getAttribute (s : Struct) (a : QA) : Except Err Attr :=
  match s.dims.lookup a.dim with
  | none => .error .dimNotFound
  | some d =>
    match d.attrs.lookup a.name with
    | none => .error .attrNotFound
    | some x => .ok x

end Struct

/-- `access_structure::combine` over the dimensions in the given order:
`(ids, hybridized-OR, decrypt-only-OR)`. -/
def combine : List Dim → List (List Nat × Bool × Bool)
  | [] => [([], false, false)]
  | d :: ds =>
    let partials := combine ds
    partials ++ d.attrs.flatMap (fun a => partials.map (fun (ids, h, r) => (a.2.id :: ids, h || a.2.hyb, r || a.2.ro)))

/-- insert-or-overwrite in a map keyed by rights (`HashMap<Right, _>::insert` through `collect`) -/
def rinsert {β} (l : List (Right × β)) (k : Right) (v : β) : List (Right × β) :=
  if (l.lookup k).isSome then l.map (fun p => if p.1 == k then (k, v) else p) else l ++ [(k, v)]

/-- `AccessStructure::omega` -/
def Struct.omega (s : Struct) : List (Right × Bool × Bool) :=
  (combine (s.dims.map (·.2))).foldl (fun acc (ids, h, r) => rinsert acc (Right.fromPoint ids) (h, r)) []

/-- `generate_semantic_space`: the clause's dimensions, each restricted at the named attribute;
collected into a `HashMap`, so a dimension named twice keeps its last restriction. -/
def Struct.semanticSpace (s : Struct) : List QA → Except Err (List (String × Dim))
  | [] => .ok []
  | qa :: rest =>
    match s.dims.lookup qa.dim with
    | none => .error .dimNotFound
    | some d =>
      match d.restrict qa.name with
      | none => .error .attrNotFound
      | some r =>
        match s.semanticSpace rest with
        | .error e => .error e
        | .ok tl =>
          -- `collect` inserts in clause order: an earlier entry is overwritten by a later one
          .ok (if (tl.lookup qa.dim).isSome then tl else (qa.dim, r) :: tl)

/-- `generate_complementary_points` -/
def Struct.complementaryPoints (s : Struct) (clause : List QA) : Except Err (List (List Nat)) :=
  match s.semanticSpace clause with
  | .error e => .error e
  | .ok sem =>
    let semPts := (combine (sem.map (·.2))).map (·.1)
    let rest := s.dims.filter (fun p => (sem.lookup p.1).isNone)
    .ok ((combine (rest.map (·.2))).flatMap (fun pre => semPts.map (fun suf => pre.1 ++ suf)))

def mapMExcept {α β ε} (f : α → Except ε β) : List α → Except ε (List β)
  | [] => .ok []
  | a :: as =>
    match f a with
    | .error e => .error e
    | .ok b =>
      match mapMExcept f as with
      | .error e => .error e
      | .ok bs => .ok (b :: bs)

/-- `generate_complementary_rights` = `ap_to_usk_rights` (as a duplicate-free list) -/
def Struct.uskRights (s : Struct) (ap : AP) : Except Err (List Right) :=
  match mapMExcept s.complementaryPoints ap.toDnf with
  | .error e => .error e
  | .ok ptss => .ok ((ptss.flatten.map Right.fromPoint).eraseDups)

/-- `generate_associated_rights` = `ap_to_enc_rights` (as a duplicate-free list) -/
def Struct.encRights (s : Struct) (ap : AP) : Except Err (List Right) :=
  match mapMExcept (fun cl => (mapMExcept s.getAttribute cl).map (fun as => Right.fromPoint (as.map (·.id)))) ap.toDnf with
  | .error e => .error e
  | .ok rs => .ok rs.eraseDups

end CC
