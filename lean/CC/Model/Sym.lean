import CC.Model.Prims
/-! # DEM layer: `AE for Aes256Gcm` (src/ae.rs), `PkeAc for Covercrypt` (src/api.rs),
`EncryptedHeader` (src/encrypted_header.rs)

AES-256-GCM is idealised: a sealed box records the key, nonce, associated data and plaintext it
was made with and opens only under the same key, nonce and associated data; any byte change of
the box makes it unopenable (`tamper`). Keys are derivations `(seed, label)`. The framing
`nonce ‖ box` and the length guard are modelled explicitly. -/

namespace CC

abbrev Bytes := List UInt8

/-- `SymmetricKey::derive(seed, label)` / `kdf256!(seed, label)`: a free constructor -/
structure DKey where
  seed : Nat
  label : List Nat
deriving DecidableEq, Repr, Inhabited

/-- what happened to the bytes of a ciphertext since it was produced -/
inductive Tamper where
  | intact
  /-- truncated below `NONCE_LENGTH` -/
  | short
  /-- any other modification (bit flip, truncation elsewhere, extension) -/
  | altered
deriving DecidableEq, Repr, Inhabited

/-- `nonce ‖ AES-GCM(key, nonce, ad, ptx)` -/
structure Sealed where
  key : DKey
  nonce : Nat
  ad : Bytes
  ptx : Bytes
  tamper : Tamper
deriving DecidableEq, Repr, Inhabited

def NONCE_LENGTH : Nat := 12
def GCM_TAG_LENGTH : Nat := 16

def Sealed.length (c : Sealed) : Nat := NONCE_LENGTH + c.ptx.length + GCM_TAG_LENGTH

/-- `Aes256Gcm::new(key).encrypt(nonce, ptx, ad)` with a fresh nonce, framed -/
def aeSeal (key : DKey) (nonce : Nat) (ad ptx : Bytes) : Sealed := ⟨key, nonce, ad, ptx, .intact⟩

/-- the decryption side: length guard, then authenticated opening -/
def aeOpen (key : DKey) (ad : Bytes) (c : Sealed) : Except Err Bytes :=
  match c.tamper with
  | .short => .error .crypto
  | .altered => .error .crypto
  | .intact => if c.key = key ∧ c.ad = ad then .ok c.ptx else .error .crypto

def labelPke : List Nat := [67, 111, 118, 101, 114, 99, 114, 121, 112, 116, 32, 65, 69, 32, 107, 101, 121]
def labelHdrKey : List Nat := [0]
def labelHdrSecret : List Nat := [1]

/-- `PkeAc::encrypt`: encapsulate, then seal under the key derived from the seed. Draws: those of
`encaps`, then the nonce. -/
def pkeEncrypt (mpk : Mpk) (targets : List Right) (ptx : Bytes) (n : Rng) : Except Err (XEnc × Sealed) × Rng :=
  match encaps mpk targets n with
  | (.error e, n') => (.error e, n')
  | (.ok (seed, x), n') => (.ok (x, aeSeal ⟨seed, labelPke⟩ n' [] ptx), n' + 1)

/-- `PkeAc::decrypt` -/
def pkeDecrypt (usk : Usk) (c : XEnc × Sealed) : Except Err (Option Bytes) :=
  match decaps usk c.1 with
  | none => .ok none
  | some seed =>
    match aeOpen ⟨seed, labelPke⟩ [] c.2 with
    | .error e => .error e
    | .ok p => .ok (some p)

structure Header where
  enc : XEnc
  mdata : Option Sealed
deriving DecidableEq, Repr, Inhabited

/-- absent authentication data is the empty string -/
def adBytes : Option Bytes → Bytes
  | none => []
  | some b => b

/-- `EncryptedHeader::generate`: returns the secret handed to the caller (a derivation of the
seed under label `[1]`) and the header -/
def hdrGenerate (mpk : Mpk) (targets : List Right) (mdata ad : Option Bytes) (n : Rng) :
    Except Err (DKey × Header) × Rng :=
  match encaps mpk targets n with
  | (.error e, n') => (.error e, n')
  | (.ok (seed, x), n') =>
    match mdata with
    | none => (.ok (⟨seed, labelHdrSecret⟩, ⟨x, none⟩), n')
    | some m => (.ok (⟨seed, labelHdrSecret⟩, ⟨x, some (aeSeal ⟨seed, labelHdrKey⟩ n' (adBytes ad) m)⟩), n' + 1)

/-- `EncryptedHeader::decrypt` -/
def hdrDecrypt (usk : Usk) (h : Header) (ad : Option Bytes) : Except Err (Option (DKey × Option Bytes)) :=
  match decaps usk h.enc with
  | none => .ok none
  | some seed =>
    match h.mdata with
    | none => .ok (some (⟨seed, labelHdrSecret⟩, none))
    | some c =>
      match aeOpen ⟨seed, labelHdrKey⟩ (adBytes ad) c with
      | .error e => .error e
      | .ok m => .ok (some (⟨seed, labelHdrSecret⟩, some m))

end CC
