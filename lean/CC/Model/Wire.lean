import CC.Model.Leb
/-! # Wire formats of every `Serializable` type

Mirrors `src/core/serialization/mod.rs`, the `serialization` modules of `access_structure.rs`,
`dimension.rs`, `encrypted_header.rs`, `rights.rs`, and the leaves' sizes (`Cfg`). Leaves are
fixed-size blobs with an abstract validity predicate (scalar / point decoding can fail).
Decoders return the value and the rest of the input; `none` = `Err`. There is no other outcome:
no partial slice, no arithmetic that can wrap, no unbounded pre-allocation (see `CC.Props.C14`). -/

namespace CC.Wire

abbrev Bytes := List UInt8

structure Cfg where
  sk : Nat
  pk : Nat
  ek : Nat
  dk : Nat
  enc : Nat
  validSk : Bytes → Bool := fun _ => true
  validPk : Bytes → Bool := fun _ => true

def cfgC25519 : Cfg := { sk := 32, pk := 32, ek := 800, dk := 1632, enc := 768 }
def cfgP256 : Cfg := { sk := 32, pk := 33, ek := 1184, dk := 2400, enc := 1088 }

def TAG : Nat := 16
def SIGK : Nat := 16
def SIG : Nat := 32
def SS : Nat := 32

abbrev Dec (α : Type) := Bytes → Option (α × Bytes)

def takeN (n : Nat) : Dec Bytes := fun bs =>
  if bs.length < n then none else some (bs.take n, bs.drop n)

def leb : Dec Nat := Leb.decU64

/-- `crate::bytes::read_vec`: announced length checked against what remains, then `read_vec` -/
def vec : Dec Bytes := fun bs =>
  match leb bs with
  | none => none
  | some (n, r) => takeN n r

/-- `for _ in 0..n { read }`: stops at the first error; every element consumes input -/
def many {α : Type} : Nat → Dec α → Dec (List α)
  | 0, _, bs => some ([], bs)
  | n + 1, d, bs =>
    match d bs with
    | none => none
    | some (a, r) =>
      match many n d r with
      | none => none
      | some (as, r') => some (a :: as, r')

def validUtf8 (b : Bytes) : Bool := String.validateUTF8 (ByteArray.mk b.toArray)

def sk (c : Cfg) : Dec Bytes := fun bs =>
  match takeN c.sk bs with
  | some (b, r) => if c.validSk b then some (b, r) else none
  | none => none

def pk (c : Cfg) : Dec Bytes := fun bs =>
  match takeN c.pk bs with
  | some (b, r) => if c.validPk b then some (b, r) else none
  | none => none

/-! ## access structure -/

structure WAttr where
  name : Bytes
  id : Nat
  hint : Nat
  status : Nat
deriving DecidableEq, Repr

structure WDim where
  name : Bytes
  ordered : Nat
  attrs : List WAttr
deriving DecidableEq, Repr

structure WStruct where
  version : Nat
  nextId : Option Nat
  dims : List WDim
deriving DecidableEq, Repr

def attr : Dec WAttr := fun bs =>
  match vec bs with
  | none => none
  | some (name, r) =>
    if !validUtf8 name then none else
    match leb r with
    | none => none
    | some (id, r) =>
      match leb r with
      | none => none
      | some (hint, r) =>
        if hint > 1 then none else
        match leb r with
        | none => none
        | some (status, r) => if status > 1 then none else some (⟨name, id, hint, status⟩, r)

def dim : Dec WDim := fun bs =>
  match vec bs with
  | none => none
  | some (name, r) =>
    if !validUtf8 name then none else
    match leb r with
    | none => none
    | some (ordered, r) =>
      match leb r with
      | none => none
      | some (n, r) =>
        match many n attr r with
        | none => none
        | some (as, r) => if ordered > 1 then none else some (⟨name, ordered, as⟩, r)

def struct_ : Dec WStruct := fun bs =>
  match leb bs with
  | none => none
  | some (version, r) =>
    if version > 1 then none else
    match (if version = 1 then (leb r).map (fun p => (some p.1, p.2)) else some (none, r)) with
    | none => none
    | some (nextId, r) =>
      match leb r with
      | none => none
      | some (n, r) =>
        match many n dim r with
        | none => none
        | some (ds, r) =>
          -- V1 stores no identifier counter: the reader recomputes it as `max(id) + 1` with checked arithmetic
          -- (an identifier without a successor in `usize` is a `ConversionFailed`)
          if version = 0 ∧ ds.any (fun d => d.attrs.any (fun a => decide (2 ^ 64 ≤ a.id + 1))) then none
          else some (⟨version, nextId, ds⟩, r)

/-! ## keys -/

/-- `RightSecretKey` / `RightPublicKey`: flavour flag, first leaf, second leaf (empty when classic) -/
structure WKey where
  hyb : Bool
  a : Bytes
  b : Bytes
deriving DecidableEq, Repr

def key (first : Dec Bytes) (second : Nat) : Dec WKey := fun bs =>
  match leb bs with
  | none => none
  | some (flag, r) =>
    match first r with
    | none => none
    | some (a, r) =>
      if flag = 1 then
        match takeN second r with
        | none => none
        | some (b, r) => some (⟨true, a, b⟩, r)
      else if flag = 0 then some (⟨false, a, []⟩, r)
      else none

def counted {α : Type} (d : Dec α) (nonEmpty : Bool) : Dec (List α) := fun bs =>
  match leb bs with
  | none => none
  | some (n, r) => if nonEmpty && n == 0 then none else many n d r

structure WMpk where
  tpk : List Bytes
  keys : List (Bytes × WKey)
  structure_ : WStruct
deriving DecidableEq, Repr

/-- `(Right, RightPublicKey)` -/
def mpkItem (c : Cfg) : Dec (Bytes × WKey) := fun bs =>
  match vec bs with
  | none => none
  | some (right, r) => (key (pk c) c.ek r).map (fun p => ((right, p.1), p.2))

def mpk (c : Cfg) : Dec WMpk := fun bs =>
  match counted (pk c) true bs with
  | none => none
  | some (tpk, r) =>
    match counted (mpkItem c) false r with
    | none => none
    | some (keys, r) =>
      match struct_ r with
      | none => none
      | some (s, r) => some (⟨tpk, keys, s⟩, r)

structure WMsk where
  s : Bytes
  tracers : List (Bytes × Bytes)
  users : List (List Bytes)
  secrets : List (Bytes × List (Bool × WKey))
  signingKey : Option Bytes
  structure_ : WStruct
deriving DecidableEq, Repr

def userId (c : Cfg) : Dec (List Bytes) := counted (sk c) true

/-- `(tracer scalar, tracer point)` -/
def tracer (c : Cfg) : Dec (Bytes × Bytes) := fun bs =>
  match sk c bs with
  | none => none
  | some (t, r) => (pk c r).map (fun p => ((t, p.1), p.2))

/-- `(is_activated, RightSecretKey)` -/
def mskChainItem (c : Cfg) : Dec (Bool × WKey) := fun bs =>
  match leb bs with
  | none => none
  | some (flag, r) => (key (sk c) c.dk r).map (fun p => ((flag == 1, p.1), p.2))

/-- `(Right, chain)` of the master key -/
def mskItem (c : Cfg) : Dec (Bytes × List (Bool × WKey)) := fun bs =>
  match vec bs with
  | none => none
  | some (right, r) => (counted (mskChainItem c) false r).map (fun p => ((right, p.1), p.2))

def msk (c : Cfg) : Dec WMsk := fun bs =>
  match sk c bs with
  | none => none
  | some (s, r) =>
    match counted (tracer c) true r with
    | none => none
    | some (tracers, r) =>
      match counted (userId c) false r with
      | none => none
      | some (users, r) =>
        match counted (mskItem c) false r with
        | none => none
        | some (secrets, r) =>
          match (if r.length < SIGK then some (none, r) else (takeN SIGK r).map (fun p => (some p.1, p.2))) with
          | none => none
          | some (sig, r) =>
            match struct_ r with
            | none => none
            | some (st, r) => some (⟨s, tracers, users, secrets, sig, st⟩, r)

structure WUsk where
  id : List Bytes
  ps : List Bytes
  secrets : List (Bytes × List WKey)
  signature : Option Bytes
deriving DecidableEq, Repr

/-- `(Right, chain)` of a user key -/
def uskItem (c : Cfg) : Dec (Bytes × List WKey) := fun bs =>
  match vec bs with
  | none => none
  | some (right, r) => (counted (key (sk c) c.dk) false r).map (fun p => ((right, p.1), p.2))

def usk (c : Cfg) : Dec WUsk := fun bs =>
  match userId c bs with
  | none => none
  | some (id, r) =>
    match counted (pk c) false r with
    | none => none
    | some (ps, r) =>
      match counted (uskItem c) false r with
      | none => none
      | some (secrets, r) =>
        -- `insert_new_chain` drops empty chains
        let secrets := secrets.filter (fun p => !p.2.isEmpty)
        if r.length < SIG then some (⟨id, ps, secrets, none⟩, r)
        else (takeN SIG r).map (fun p => (⟨id, ps, secrets, some p.1⟩, p.2))

/-! ## encapsulations, headers -/

structure WEnc where
  tag : Bytes
  c : List Bytes
  hyb : Bool
  /-- `(E, F)`; `E` empty when classic -/
  encs : List (Bytes × Bytes)
deriving DecidableEq, Repr

/-- `(E, F)` of a hybridized encapsulation -/
def encItemH (c : Cfg) : Dec (Bytes × Bytes) := fun bs =>
  match takeN c.enc bs with
  | none => none
  | some (e, r) => (takeN SS r).map (fun p => ((e, p.1), p.2))

/-- `F` of a classic encapsulation -/
def encItemC : Dec (Bytes × Bytes) := fun bs => (takeN SS bs).map (fun p => (([], p.1), p.2))

def xenc (c : Cfg) : Dec WEnc := fun bs =>
  match takeN TAG bs with
  | none => none
  | some (tag, r) =>
    match counted (pk c) true r with
    | none => none
    | some (traps, r) =>
      match leb r with
      | none => none
      | some (flag, r) =>
        if flag = 1 then
          (counted (encItemH c) false r).map (fun p => (⟨tag, traps, true, p.1⟩, p.2))
        else if flag = 0 then
          (counted encItemC false r).map (fun p => (⟨tag, traps, false, p.1⟩, p.2))
        else none

structure WHeader where
  enc : WEnc
  /-- `None` when the ciphertext is empty on the wire -/
  mdata : Option Bytes
deriving DecidableEq, Repr

def header (c : Cfg) : Dec WHeader := fun bs =>
  match xenc c bs with
  | none => none
  | some (e, r) => (vec r).map (fun p => (⟨e, if p.1.isEmpty then none else some p.1⟩, p.2))

structure WClear where
  secret : Bytes
  mdata : Option Bytes
deriving DecidableEq, Repr

def clear : Dec WClear := fun bs =>
  match takeN SS bs with
  | none => none
  | some (s, r) => (vec r).map (fun p => (⟨s, if p.1.isEmpty then none else some p.1⟩, p.2))

/-- `Serializable::deserialize`: non-empty input, fully consumed -/
def deserialize {α : Type} (d : Dec α) (bs : Bytes) : Option α :=
  if bs.isEmpty then none else
  match d bs with
  | some (a, []) => some a
  | _ => none

/-! ## encoders -/

def wleb (n : Nat) : Bytes := Leb.enc n
def wvec (b : Bytes) : Bytes := wleb b.length ++ b

def encAttr (a : WAttr) : Bytes := wvec a.name ++ wleb a.id ++ wleb a.hint ++ wleb a.status
def encDim (d : WDim) : Bytes :=
  wvec d.name ++ wleb d.ordered ++ wleb d.attrs.length ++ d.attrs.flatMap encAttr
def encStruct (s : WStruct) : Bytes :=
  wleb s.version ++ (match s.nextId with | some n => wleb n | none => []) ++
    wleb s.dims.length ++ s.dims.flatMap encDim

def encKey (k : WKey) : Bytes := wleb (if k.hyb then 1 else 0) ++ k.a ++ k.b

def encMpk (m : WMpk) : Bytes :=
  wleb m.tpk.length ++ m.tpk.flatten ++ wleb m.keys.length ++
    m.keys.flatMap (fun p => wvec p.1 ++ encKey p.2) ++ encStruct m.structure_

def encUserId (id : List Bytes) : Bytes := wleb id.length ++ id.flatten

def encMsk (m : WMsk) : Bytes :=
  m.s ++ wleb m.tracers.length ++ m.tracers.flatMap (fun p => p.1 ++ p.2) ++
    wleb m.users.length ++ m.users.flatMap encUserId ++
    wleb m.secrets.length ++ m.secrets.flatMap (fun p =>
      wvec p.1 ++ wleb p.2.length ++ p.2.flatMap (fun q => wleb (if q.1 then 1 else 0) ++ encKey q.2)) ++
    (match m.signingKey with | some k => k | none => []) ++ encStruct m.structure_

def encUsk (u : WUsk) : Bytes :=
  encUserId u.id ++ wleb u.ps.length ++ u.ps.flatten ++ wleb u.secrets.length ++
    u.secrets.flatMap (fun p => wvec p.1 ++ wleb p.2.length ++ p.2.flatMap encKey) ++
    (match u.signature with | some s => s | none => [])

def encXenc (x : WEnc) : Bytes :=
  x.tag ++ wleb x.c.length ++ x.c.flatten ++ wleb (if x.hyb then 1 else 0) ++ wleb x.encs.length ++
    x.encs.flatMap (fun p => p.1 ++ p.2)

def encHeader (h : WHeader) : Bytes :=
  encXenc h.enc ++ wvec (match h.mdata with | some b => b | none => [])

def encClear (c : WClear) : Bytes := c.secret ++ wvec (match c.mdata with | some b => b | none => [])

end CC.Wire
