import CC.Model.Wire
/-! # `Serializable::length` of every wire type

Mirrors the `length()` functions of `src/core/serialization/mod.rs`, `access_structure.rs`,
`dimension.rs`, `rights.rs` and `encrypted_header.rs` formula by formula: the code computes the
size of the buffer it is about to fill *without* serialising (sums of LEB128 lengths, leaf
constants and name lengths, `1` for each flag), so it is a second, independent description of the
wire format. `CC.Props.C13` proves that each formula is the length of the encoding; the driver
prints these values, the harness prints `length()` of the real objects. -/

namespace CC.Wire

/-- `to_leb128_len` -/
def lebLen (n : Nat) : Nat := Leb.len n

/-- `name.len()` prefixed by its LEB128 length, then `l` more bytes -/
def lenNamed (name : Bytes) (l : Nat) : Nat := lebLen name.length + name.length + l

/-- `Attribute::length`: `2 + to_leb128_len(id)` (the two flags are one byte each) -/
def lenAttr (a : WAttr) : Nat := 2 + lebLen a.id

/-- `Dimension::length` -/
def lenDim (d : WDim) : Nat :=
  1 + (lebLen d.attrs.length + (d.attrs.map (fun a => lenNamed a.name (lenAttr a))).sum)

/-- `AccessStructure::length` (the version tag is one byte; V1 objects carry no counter) -/
def lenStruct (s : WStruct) : Nat :=
  1 + (match s.nextId with | some n => lebLen n | none => 0) + lebLen s.dims.length +
    (s.dims.map (fun d => lenNamed d.name (lenDim d))).sum

/-- `RightPublicKey::length` / `RightSecretKey::length` with leaves of sizes `la`, `lb` -/
def lenKey (la lb : Nat) (k : WKey) : Nat := 1 + (if k.hyb then la + lb else la)

/-- `TracingPublicKey::length` -/
def lenTpk (c : Cfg) (tpk : List Bytes) : Nat := lebLen tpk.length + (tpk.map (fun _ => c.pk)).sum

/-- `MasterPublicKey::length` -/
def lenMpk (c : Cfg) (m : WMpk) : Nat :=
  lenTpk c m.tpk + lebLen m.keys.length +
    (m.keys.map (fun p => lenNamed p.1 0 + lenKey c.pk c.ek p.2)).sum + lenStruct m.structure_

/-- `UserId::length` -/
def lenUserId (c : Cfg) (id : List Bytes) : Nat := lebLen id.length + (id.map (fun _ => c.sk)).sum

/-- `TracingSecretKey::length` -/
def lenTsk (c : Cfg) (m : WMsk) : Nat :=
  c.sk + lebLen m.users.length + (m.users.map (lenUserId c)).sum + lebLen m.tracers.length +
    (m.tracers.map (fun _ => c.sk + c.pk)).sum

/-- `MasterSecretKey::length` -/
def lenMsk (c : Cfg) (m : WMsk) : Nat :=
  lenTsk c m + lebLen m.secrets.length +
    (m.secrets.map (fun p =>
      lenNamed p.1 0 + lebLen p.2.length + (p.2.map (fun q => 1 + lenKey c.sk c.dk q.2)).sum)).sum +
    (match m.signingKey with | some k => k.length | none => 0) + lenStruct m.structure_

/-- `UserSecretKey::length` -/
def lenUsk (c : Cfg) (u : WUsk) : Nat :=
  lenUserId c u.id + lebLen u.ps.length + (u.ps.map (fun _ => c.pk)).sum + lebLen u.secrets.length +
    (u.secrets.map (fun p =>
      lenNamed p.1 0 + lebLen p.2.length + (p.2.map (lenKey c.sk c.dk)).sum)).sum +
    (match u.signature with | some s => s.length | none => 0)

/-- `Encapsulations::length` -/
def lenEncs (c : Cfg) (x : WEnc) : Nat :=
  1 + (if x.hyb then lebLen x.encs.length + (x.encs.map (fun p => c.enc + p.2.length)).sum
       else lebLen x.encs.length + (x.encs.map (fun p => p.2.length)).sum)

/-- `XEnc::length` -/
def lenXenc (c : Cfg) (x : WEnc) : Nat :=
  TAG + lebLen x.c.length + (x.c.map (fun _ => c.pk)).sum + lenEncs c x

/-- `EncryptedHeader::length` -/
def lenHeader (c : Cfg) (h : WHeader) : Nat :=
  lenXenc c h.enc + (match h.mdata with | some b => lebLen b.length + b.length | none => 1)

/-- `CleartextHeader::length` -/
def lenClear (cl : WClear) : Nat :=
  SS + lebLen ((cl.mdata.map List.length).getD 0) + (cl.mdata.map List.length).getD 0

end CC.Wire
