import CC.Model.Prims
import CC.Lemmas.Edits
/-! # The authority's state machine

One master key (with its access structure) and the generator's counter; every operation of the API
that can change them. User keys, public keys and encapsulations are *values* returned by the
operations: whatever an outside party may hold (including forged or stale keys) is an argument. -/

namespace CC

structure World where
  msk : Msk
  rng : Rng

inductive Op where
  | edit (e : Edit)
  | update
  | rekey (p : AP)
  | prune (p : AP)
  | keygen (p : AP)
  | refresh (usk : Usk) (keep : Bool)
  /-- any operation that only draws randomness (encaps, encrypt, header generation, recaps) -/
  | draw (k : Nat)

/-- `Covercrypt::setup`: `primitives::setup`, then `update_msk` with the rights of the empty structure -/
def World.init (n : Rng) (k : Nat) : World :=
  ⟨(updateMsk (setup n k).1 (setup n k).1.structure_.omega (setup n k).2).2.1,
   (updateMsk (setup n k).1 (setup n k).1.structure_.omega (setup n k).2).2.2⟩

def World.step (w : World) : Op → World
  | .edit e =>
    match w.msk.structure_.apply e with
    | .ok s => { w with msk := { w.msk with structure_ := s } }
    | .error _ => w
  | .update =>
    ⟨(updateMsk w.msk w.msk.structure_.omega w.rng).2.1, (updateMsk w.msk w.msk.structure_.omega w.rng).2.2⟩
  | .rekey p =>
    match w.msk.structure_.uskRights p with
    | .error _ => w
    | .ok rights => ⟨(rekey w.msk rights w.rng).2.1, (rekey w.msk rights w.rng).2.2⟩
  | .prune p =>
    match w.msk.structure_.uskRights p with
    | .error _ => w
    | .ok rights => ⟨prune w.msk rights, w.rng⟩
  | .keygen p =>
    match w.msk.structure_.uskRights p with
    | .error _ => w
    | .ok rights => ⟨(uskKeygen w.msk rights w.rng).2.1, (uskKeygen w.msk rights w.rng).2.2⟩
  | .refresh usk keep =>
    ⟨(refresh w.msk usk keep w.rng).2.1, (refresh w.msk usk keep w.rng).2.2.2⟩
  | .draw k => { w with rng := w.rng + k }

/-- the worlds reachable from `setup` — at any tracing level — by any sequence of operations with
any arguments -/
def Reachable (w : World) : Prop := ∃ (n : Rng) (k : Nat) (ops : List Op), w = ops.foldl World.step (World.init n k)

end CC
