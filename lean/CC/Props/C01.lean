import CC.Lemmas.Leb
import CC.Lemmas.Comb
import CC.Lemmas.Rev
import CC.Spec.Cover
/-! # C01 — authorized keys always recover exactly the encapsulated secret

Statements about the model functions the driver executes (`combine`, `Right.fromPoint`,
`decaps`, …). The end-to-end statement is `C01.authorized_opens` (see also `CC.Props.C02`). -/

namespace CC.Props.C01
open CC

/-- the points of `combine` are exactly the choices of at most one attribute per dimension, with
the hybridization hint and the read-only status being the disjunction over the chosen attributes
(any number, kind and size of dimensions) -/
theorem combine_points (ds : List Dim) (p : List Nat) (h r : Bool) :
    (p, h, r) ∈ combine ds ↔
      ∃ as, Choice ds as ∧ p = as.map (·.id) ∧ h = as.any (·.hyb) ∧ r = as.any (·.ro) :=
  mem_combine ds p h r

/-- a right is determined by the *set* of ids of its point, whatever the order in which the
dimensions were iterated -/
theorem right_of_point (p q : List Nat) : Right.fromPoint p = Right.fromPoint q ↔ p.Perm q :=
  Right.fromPoint_eq_iff p q

/-- whenever one secret of the key, in any chain and at any depth, opens a component,
decapsulation returns exactly the secret of the encapsulation -/
theorem decaps_opens (usk : Usk) (enc : XEnc) (h : CanOpen usk enc) :
    decaps usk enc = some enc.seed :=
  (decaps_eq_some_iff usk enc enc.seed).2 ⟨rfl, h⟩

/-- non-vacuity: a two-chain key whose second chain holds, at depth 2, the secret targeted -/
example : CanOpen
    { id := [7, 8], auth := 1, nps := 2, secrets := [([0], [⟨10, false⟩]), ([1], [⟨12, true⟩, ⟨11, true⟩])], sig := none }
    { auth := 1, ntraps := 2, hybrid := true, targets := [⟨11, true⟩], seed := 99 } := by
  refine ⟨rfl, rfl, rfl, [1], [⟨12, true⟩, ⟨11, true⟩], ⟨11, true⟩, ⟨11, true⟩, ?_, ?_, ?_, ?_⟩ <;> simp [opens]

end CC.Props.C01
