import Mathlib.Algebra.Field.Basic
import Mathlib.Algebra.Module.Basic
import Mathlib.Algebra.NoZeroSMulDivisors.Basic
import Mathlib.Tactic.FieldSimp
import Mathlib.Tactic.Ring
import CC.Props.C17Alg
/-! # C01 (algebra) — encapsulation and decapsulation derive the same ElGamal session key

The symbolic model treats "secret `x` opens the component made for public key `H`" as token
equality. Here is the algebra behind it, over **any** field `F` of scalars and any `F`-vector space
`G` of points (Ristretto25519 / P-256 with their scalar fields): with tracers `tᵢ` (`Pᵢ = tᵢ•g`),
binding scalar `s` (`h = s•g`), right secret `x` (`H = x•h`), markers `αᵢ` with `Σ tᵢ·αᵢ = s`
(C17), and encapsulation randomness `r` (traps `cᵢ = r•Pᵢ`, `K₁ = r•H`):
the user's `K₁' = x • Σ αᵢ•cᵢ` and the master key's `K₁'' = x • ((s / t₀) • c₀)` both equal `K₁`;
and markers that do **not** satisfy the tracing relation give a different key. -/

namespace CC.Props.C01Alg
open CC.Props.C17Alg

variable {F G : Type} [Field F] [AddCommGroup G] [Module F G]

/-- `A = Σ αᵢ • cᵢ` over the zipped lists (`primitives::decaps`) -/
def comb : List F → List G → G
  | a :: as, c :: cs => a • c + comb as cs
  | _, _ => 0

/-- `MasterPublicKey::set_traps`: `cᵢ = r • Pᵢ` with `Pᵢ = tᵢ • g` -/
def traps (r : F) (ts : List F) (g : G) : List G := ts.map (fun t => r • (t • g))

theorem comb_traps (r : F) (g : G) : ∀ (ts as : List F), comb as (traps r ts g) = (r * dot ts as) • g
  | [], [] => by simp [comb, traps, dot]
  | [], _ :: _ => by simp [comb, traps, dot]
  | _ :: _, [] => by simp [comb, traps, dot]
  | t :: ts, a :: as => by
    have ih := comb_traps r g ts as
    simp only [traps, List.map_cons, comb, dot] at ih ⊢
    rw [ih, smul_smul, smul_smul, ← add_smul]
    congr 1; ring

/-- **the user derives the session key of the encapsulation**: `x • A = r • H` -/
theorem session_key_agree (g : G) (ts as : List F) (s x r : F) (hid : dot ts as = s) :
    x • comb as (traps r ts g) = r • (x • (s • g)) := by
  rw [comb_traps, hid, smul_smul, smul_smul, smul_smul]
  congr 1; ring

/-- the master key derives it too (`full_decaps`: `A = (s / t₀) • c₀`) -/
theorem master_session_key_agree (g : G) (t0 s x r : F) (h0 : t0 ≠ 0) :
    x • ((s / t0) • (r • (t0 • g))) = r • (x • (s • g)) := by
  rw [smul_smul, smul_smul, smul_smul, smul_smul, smul_smul]
  congr 1
  field_simp

/-- **markers that do not satisfy the tracing relation do not open**: the key derived from them
differs from the session key (a forged or altered identifier is useless) -/
theorem wrong_markers_differ (g : G) (ts as : List F) (s x r : F) (hid : dot ts as ≠ s)
    (hg : g ≠ 0) (hx : x ≠ 0) (hr : r ≠ 0) :
    x • comb as (traps r ts g) ≠ r • (x • (s • g)) := by
  rw [comb_traps, smul_smul, smul_smul, smul_smul]
  intro h
  have h2 : (x * (r * dot ts as) - r * x * s) • g = 0 := by rw [sub_smul, h, sub_self]
  rcases smul_eq_zero.1 h2 with h3 | h3
  · have : x * r * (dot ts as - s) = 0 := by rw [← h3]; ring
    rcases mul_eq_zero.1 this with h4 | h4
    · rcases mul_eq_zero.1 h4 with h5 | h5
      · exact hx h5
      · exact hr h5
    · exact hid (sub_eq_zero.1 h4)
  · exact hg h3

/-- non-vacuity: level 1 (two tracers), the last marker solved as `generate_user_id` does -/
example (g : G) (t0 t1 a0 s x r : F) (h1 : t1 ≠ 0) :
    x • comb [a0, (s - dot [t0] [a0]) / t1] (traps r [t0, t1] g) = r • (x • (s • g)) :=
  session_key_agree g [t0, t1] _ s x r (by simpa using userId_valid s [t0] [a0] t1 rfl h1)

end CC.Props.C01Alg
