import CC.Lemmas.Leb
import CC.Lemmas.Comb
import CC.Lemmas.Rev
import CC.Spec.Cover
import CC.Lemmas.Cover
import CC.Lemmas.Kem
import CC.Lemmas.World
/-! # C02 — unauthorized keys never recover a secret -/

namespace CC.Props.C02
open CC

/-- decapsulation never returns a secret other than the encapsulated one -/
theorem decaps_never_other (usk : Usk) (enc : XEnc) (v : Nat) (h : decaps usk enc = some v) :
    v = enc.seed :=
  ((decaps_eq_some_iff usk enc v).1 h).1

/-- a key none of whose secrets opens a component gets no secret -/
theorem decaps_none (usk : Usk) (enc : XEnc) (h : ¬ CanOpen usk enc) : decaps usk enc = none :=
  (decaps_eq_none_iff usk enc).2 h

/-- a key of another authority never opens -/
theorem foreign_key_none (usk : Usk) (enc : XEnc) (h : usk.auth ≠ enc.auth) : decaps usk enc = none :=
  decaps_none usk enc (fun hc => h hc.1)

/-- **C02, end to end on the model.** If no conjunction of the encryption policy is covered by the
user policy, the key generated for the user policy gets *nothing* from the encapsulation — not a
secret of any value. -/
theorem unauthorized_gets_nothing (msk : Msk) (hS : msk.structure_.WF) (hd : msk.Distinct) (u e : AP)
    (hu : Spec.policyWf msk.structure_ u = true) (he : Spec.policyWf msk.structure_ e = true)
    (ru re : List Right) (hru : msk.structure_.uskRights u = .ok ru) (hre : msk.mpk.structure_.encRights e = .ok re)
    (n n' : Rng) (usk : Usk) (s : Nat) (x : XEnc)
    (hk : (uskKeygen msk ru n).1 = .ok usk) (hen : (encaps msk.mpk re n').1 = .ok (s, x))
    (hcov : Spec.covers msk.structure_ u e = false) : decaps usk x = none := by
  obtain ⟨ru', re', h1, h2, hiff⟩ := CC.rights_meet_iff_covers hS hu he
  rw [hru] at h1; cases h1
  have : msk.mpk.structure_ = msk.structure_ := rfl
  rw [this, h2] at hre; cases hre
  refine (keygen_encaps_decaps msk hd ru re n n' usk s x hk hen).2.2 ?_
  intro hex
  rw [hiff.1 hex] at hcov
  cases hcov

/-- **C02 over every history**: in every reachable world an unauthorised key gets nothing -/
theorem unauthorized_gets_nothing_reachable (w : World) (hw : Reachable w) (u e : AP)
    (hu : Spec.policyWf w.msk.structure_ u = true) (he : Spec.policyWf w.msk.structure_ e = true)
    (ru re : List Right) (hru : w.msk.structure_.uskRights u = .ok ru) (hre : w.msk.mpk.structure_.encRights e = .ok re)
    (n n' : Rng) (usk : Usk) (s : Nat) (x : XEnc)
    (hk : (uskKeygen w.msk ru n).1 = .ok usk) (hen : (encaps w.msk.mpk re n').1 = .ok (s, x))
    (hcov : Spec.covers w.msk.structure_ u e = false) : decaps usk x = none :=
  unauthorized_gets_nothing w.msk (reachable_struct_wf w hw).1 (reachable_inv w hw).distinct u e hu he ru re hru hre n n' usk s x hk hen hcov

/-- a lower hierarchical attribute never opens a higher one: in a hierarchy, `x ≤ y` of the
specification is the position order, so a clause restricted at `y` does not cover `x` above `y` -/
theorem lower_never_covers_higher (d : Dim) (hord : d.ordered = true) (x y : String) (i j : Nat)
    (hx : Spec.pos d x = some i) (hy : Spec.pos d y = some j) (hlt : j < i) : Spec.leq d x y = false := by
  simp [Spec.leq, hx, hy, hord]; omega

/-- an attribute of an unordered dimension never opens a sibling -/
theorem sibling_never_covers (d : Dim) (hord : d.ordered = false) (x y : String) (hne : x ≠ y) :
    Spec.leq d x y = false := by
  unfold Spec.leq
  cases Spec.pos d x <;> cases Spec.pos d y <;> simp [hord, hne]

/-- non-vacuity: same right name, different secret (a stale key) -/
example : decaps
    { id := [7, 8], auth := 1, nps := 2, secrets := [([0], [⟨10, false⟩])], sig := none }
    { auth := 1, ntraps := 2, hybrid := false, targets := [⟨11, false⟩], seed := 99 } = none := by
  apply decaps_none
  rintro ⟨_, _, _, r, c, s, t, hm, hs, ht, ho⟩
  simp at hm ht
  obtain ⟨rfl, rfl⟩ := hm
  subst ht
  simp at hs
  subst hs
  simp [opens] at ho

end CC.Props.C02
