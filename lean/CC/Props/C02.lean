import CC.Lemmas.Leb
import CC.Lemmas.Comb
import CC.Lemmas.Rev
import CC.Spec.Cover
/-! # C02 — unauthorized keys never recover a secret -/

namespace CC.Props.C02
open CC

/-- decapsulation never returns a secret other than the encapsulated one -/
theorem decaps_never_other (usk : Usk) (enc : XEnc) (v : Nat) (h : decaps usk enc = some v) :
    v = enc.seed :=
  ((decaps_eq_some_iff usk enc v).1 h).1

/-- a key none of whose secrets opens a component gets no secret -/
theorem decaps_none (usk : Usk) (enc : XEnc) (h : ¬ CanOpen usk enc) : decaps usk enc = none :=
  (decaps_eq_none_iff usk enc).2 h

/-- a key of another authority never opens -/
theorem foreign_key_none (usk : Usk) (enc : XEnc) (h : usk.auth ≠ enc.auth) : decaps usk enc = none :=
  decaps_none usk enc (fun hc => h hc.1)

/-- non-vacuity: same right name, different secret (a stale key) -/
example : decaps
    { id := [7, 8], auth := 1, nps := 2, secrets := [([0], [⟨10, false⟩])], sig := none }
    { auth := 1, ntraps := 2, hybrid := false, targets := [⟨11, false⟩], seed := 99 } = none := by
  apply decaps_none
  rintro ⟨_, _, _, r, c, s, t, hm, hs, ht, ho⟩
  simp at hm ht
  obtain ⟨rfl, rfl⟩ := hm
  subst ht
  simp at hs
  subst hs
  simp [opens] at ho

end CC.Props.C02
