import CC.Lemmas.Edits
import CC.Lemmas.Leb
import CC.Lemmas.World
import CC.Lemmas.Contig
import CC.Lemmas.Rename
/-! # C03 — access decisions stay correct across access-structure edits

Rights are named by attribute *identifiers*; the theorems show that identifiers are permanent
identities: along any history of edits an identifier is never issued twice (so a new attribute
never inherits the rights, hence the access, of a live or deleted one), and renaming or disabling
keeps it. -/

namespace CC.Props.C03
open CC CC.Look

/-- along any history of edits (failing ones included) all identifiers in use stay below the
counter and the counter never decreases -/
theorem ids_below_counter (es : List Edit) :
    (Struct.empty.run es).IdsBelow ∧ ∀ es', (Struct.empty.run es).nextId ≤ ((Struct.empty.run es).run es').nextId := by
  have h0 : Struct.empty.IdsBelow := by intro p hp; cases hp
  obtain ⟨h1, _⟩ := Struct.run_idsBelow Struct.empty es h0
  exact ⟨h1, fun es' => (Struct.run_idsBelow _ es' h1).2⟩

/-- an identifier is never issued twice: the attribute created after any history `es ++ es'`
receives an identifier strictly greater than every identifier that was in use after `es`
(whether or not its holder has been deleted in between) -/
theorem id_never_reissued (es es' : List Edit) (dim name : String) (hyb : Bool) (after : Option String)
    (s' : Struct) (h : ((Struct.empty.run es).run es').addAttribute dim name hyb after = .ok s') :
    s'.nextId = ((Struct.empty.run es).run es').nextId + 1 ∧
    ∀ p ∈ (Struct.empty.run es).dims, ∀ q ∈ p.2.attrs, q.2.id < ((Struct.empty.run es).run es').nextId := by
  obtain ⟨hb, hmono⟩ := ids_below_counter es
  constructor
  · unfold Struct.addAttribute at h
    cases hd : ((Struct.empty.run es).run es').dims.lookup dim with
    | none => simp [hd] at h
    | some d =>
      simp only [hd] at h
      cases hf : d.addAttribute name hyb after ((Struct.empty.run es).run es').nextId with
      | error e => simp [hf] at h
      | ok d' => simp only [hf, Except.ok.injEq] at h; subst h; rfl
  · intro p hp q hq
    exact Nat.lt_of_lt_of_le (hb p hp q hq) (hmono es')

/-- disabling an attribute keeps its identifier and hint (its rights are unchanged) -/
theorem disable_keeps_id (d d' : Dim) (name : String) (h : d.disableAttribute name = .ok d')
    (hnd : (d.attrs.map (·.1)).Nodup) :
    ∃ a, d.attrs.lookup name = some a ∧ d'.attrs = areplace d.attrs name { a with ro := true } := by
  unfold Dim.disableAttribute at h
  cases hl : d.attrs.lookup name with
  | none => simp [hl] at h
  | some a => simp only [hl, Except.ok.injEq] at h; subst h; exact ⟨a, rfl, rfl⟩

/-- renaming keeps position (hierarchy), identifier, hint and status: only the name changes -/
theorem rename_keeps_attr (d d' : Dim) (old new : String) (h : d.renameAttribute old new = .ok d') :
    d'.attrs.map (·.2) = d.attrs.map (·.2) ∨
      (d.ordered = false ∧ ∃ a, d.attrs.lookup old = some a ∧ d'.attrs = aerase d.attrs old ++ [(new, a)]) := by
  unfold Dim.renameAttribute at h
  by_cases ho : d.ordered = true
  · left
    simp only [ho, if_true] at h
    cases hl : d.attrs.lookup old with
    | none => simp [hl] at h
    | some a =>
      simp only [hl] at h
      split at h
      · cases h
      · simp only [Except.ok.injEq] at h; subst h
        simp only [List.map_map]
        apply List.map_congr_left
        intro p _
        simp only [Function.comp]
        split <;> rfl
  · right
    simp only [ho, Bool.false_eq_true, if_false] at h
    split at h
    · cases h
    · cases hl : d.attrs.lookup old with
      | none => simp [hl] at h
      | some a =>
        simp only [hl, Except.ok.injEq] at h; subst h
        exact ⟨by simpa using ho, a, rfl, rfl⟩

/-- two attributes with different identifiers never share a single-attribute right, and more
generally points with different id sets give different rights -/
theorem distinct_ids_distinct_rights (p q : List Nat) (h : ¬ p.Perm q) :
    Right.fromPoint p ≠ Right.fromPoint q :=
  fun he => h ((Right.fromPoint_eq_iff p q).1 he)

/-- in every world reachable through the API (edits interleaved with updates, rekeys, prunes, key
generations and refreshes) the access structure is well formed: dimension names and attribute
names are unique and **no identifier is shared by two attributes** — so the rights of different
attribute sets are different byte strings, and a new attribute never inherits another's rights -/
theorem reachable_structure_wf (w : World) (hw : Reachable w) :
    w.msk.structure_.WF ∧ w.msk.structure_.IdsBelow := reachable_struct_wf w hw

/-- **Edits never change the secrets of unrelated rights, over every history.** In any reachable
world, a structure edit changes no secret at all, and the `update_msk` that makes edits effective
either removes a right (one of its attributes or its dimension was deleted) or leaves its chain of
secrets exactly as it was (only the activation flag of the newest one is recomputed). So a user
key opens encapsulations for a surviving right after the edits exactly as before: the published
key of that right is still the same secret. -/
theorem edits_keep_secrets (w : World) (hw : Reachable w) (k : Right) (c : List (Bool × Sk))
    (hl : w.msk.secrets.lookup k = some c) :
    (∀ e, (w.step (.edit e)).msk.secrets.lookup k = some c) ∧
    ((w.step .update).msk.secrets.lookup k = none ∨
      ∃ c', (w.step .update).msk.secrets.lookup k = some c' ∧ c'.map (·.2) = c.map (·.2)) := by
  refine ⟨?_, update_keeps_secrets w hw k c hl⟩
  intro e
  simp only [World.step]
  cases w.msk.structure_.apply e <;> exact hl

/-- no operation whatsoever alters an existing secret of a right: it can only remove the right
(update after a deletion), put newer secrets in front of the chain (rekey), or keep the newest only
(prune) -/
theorem operations_never_alter_secrets (w : World) (hw : Reachable w) (op : Op) (k : Right) (c : List (Bool × Sk))
    (hl : w.msk.secrets.lookup k = some c) :
    (w.step op).msk.secrets.lookup k = none ∨
    ∃ c', (w.step op).msk.secrets.lookup k = some c' ∧
      ((∃ news : List Sk, c'.map (·.2) = news ++ c.map (·.2) ∧ ∀ x ∈ news, w.rng ≤ x.tok) ∨
       c'.map (·.2) = (c.map (·.2)).take 1) := step_secrets w hw op k c hl

/-- **A new attribute inherits nothing, over every history.** In any reachable world, after
`add_attribute` (which hands out the identifier `nextId`) and the `update_msk` that makes it
effective, every secret of every right that involves the new attribute was drawn by that update:
no right of the master key mentioned that identifier before (whatever was deleted earlier), so no
user key issued before holds, or can be refreshed into holding through old rights, a secret that
opens encapsulations for the new attribute. -/
theorem new_attribute_inherits_nothing (w : World) (hw : Reachable w) (dn nm : String) (hyb : Bool)
    (after : Option String) (ids : List Nat) (hi : w.msk.structure_.nextId ∈ ids) (c : List (Bool × Sk))
    (hl : ((w.step (.edit (.addAttr dn nm hyb after))).step .update).msk.secrets.lookup (Right.fromPoint ids) = some c) :
    ∀ v ∈ c, w.rng ≤ v.2.tok := by
  have hc := reachable_coh w hw
  -- before the edit no right of the master key mentions the identifier about to be handed out
  have hnone : w.msk.secrets.lookup (Right.fromPoint ids) = none := by
    cases hlk : w.msk.secrets.lookup (Right.fromPoint ids) with
    | none => rfl
    | some c0 =>
      exfalso
      obtain ⟨ids0, h1, h2⟩ := hc.below _ c0 hlk
      have hperm := (Right.fromPoint_eq_iff _ _).1 h1
      exact Nat.lt_irrefl _ (h2 _ (hperm.mem_iff.1 hi))
  have hsec1 : (w.step (.edit (.addAttr dn nm hyb after))).msk.secrets = w.msk.secrets := by
    simp only [World.step]
    cases w.msk.structure_.apply (.addAttr dn nm hyb after) <;> rfl
  have hrng1 : (w.step (.edit (.addAttr dn nm hyb after))).rng = w.rng := by
    simp only [World.step]
    cases w.msk.structure_.apply (.addAttr dn nm hyb after) <;> rfl
  have hcs := step_chain (w.step (.edit (.addAttr dn nm hyb after))) .update (Right.fromPoint ids)
  rw [hsec1, hnone, hl, hrng1] at hcs
  cases hcs with
  | born _ t hy ro _ _ h1 _ =>
    intro v hv
    simp only [List.mem_singleton] at hv
    subst hv
    exact h1

/-- looking a key up in a list after `areplace` on that key -/
theorem lookup_areplace_self {β} (l : List (String × β)) (k : String) (v : β) (h : (l.lookup k).isSome = true) :
    (areplace l k v).lookup k = some v := by
  unfold areplace
  induction l with
  | nil => simp at h
  | cons p t ih =>
    obtain ⟨k', v'⟩ := p
    simp only [List.map_cons, List.lookup_cons] at h ⊢
    by_cases hk : (k == k') = true
    · have : k' = k := (eq_of_beq hk).symm
      subst this
      simp
    · have hk' : (k == k') = false := by simpa using hk
      have hk'' : (k' == k) = false := by
        cases hb : k' == k
        · rfl
        · exact absurd (eq_of_beq hb).symm (by intro h2; rw [h2] at hk'; simp at hk')
      simp only [hk', hk'', Bool.false_eq_true, if_false] at h ⊢
      simp only [List.lookup_cons, hk']
      exact ih h

/-- **A renamed attribute keeps its access, under its new name.** After `rename_attribute` the
new name denotes the very same attribute (identifier, hint, status) the old name denoted: policies
written with the new name produce the rights, hence reach the secrets, the old name did
(`edits_keep_secrets`: the rename changed no secret). -/
theorem rename_keeps_access_by_name (s s' : Struct) (hS : s.WF) (hb : s.IdsBelow) (dn o n : String)
    (h : s.renameAttribute dn o n = .ok s') (a : Attr) (ha : s.getAttribute ⟨dn, o⟩ = .ok a) :
    s'.getAttribute ⟨dn, n⟩ = .ok a := by
  have hS' : s'.WF := Struct.apply_wf (e := .rename dn o n) hS hb (by simpa [Struct.apply] using h)
  obtain ⟨d, d', hdl, hf, rfl⟩ := Struct.onDim_spec h
  unfold Struct.getAttribute at ha ⊢
  simp only [hdl] at ha
  cases hlo : d.attrs.lookup o with
  | none => simp [hlo] at ha
  | some a0 =>
    simp only [hlo, Except.ok.injEq] at ha
    subst ha
    simp only
    rw [lookup_areplace_self _ _ _ (by rw [hdl]; rfl)]
    simp only
    -- the renamed dimension lists `(n, a0)`, and its names are distinct
    have hmem : (n, a0) ∈ d'.attrs := by
      rcases rename_keeps_attr d d' o n hf with hmap | ⟨_, a1, hl1, hd'⟩
      · unfold Dim.renameAttribute at hf
        by_cases ho : d.ordered = true
        · simp only [ho, if_true, hlo] at hf
          split at hf
          · cases hf
          · simp only [Except.ok.injEq] at hf; subst hf
            exact List.mem_map.2 ⟨(o, a0), Look.lookup_mem hlo, by simp⟩
        · simp only [ho, Bool.false_eq_true, if_false] at hf
          split at hf
          · cases hf
          · simp only [hlo, Except.ok.injEq] at hf; subst hf
            simp
      · rw [hlo] at hl1
        simp only [Option.some.injEq] at hl1
        subst hl1
        rw [hd']; simp
    have hnd : (d'.attrs.map (·.1)).Nodup := by
      have := hS'.names (dn, d') (by
        have h1 : ((areplace s.dims dn d').lookup dn) = some d' := lookup_areplace_self _ _ _ (by rw [hdl]; rfl)
        exact Look.lookup_mem h1)
      exact this
    rw [Look.mem_lookup_of_nodup hnd hmem]

/-- **A renamed attribute keeps its access, at the level of names.** Rename an attribute; take a
user key generated *before* the rename for a clause `cl` (its rights are the complementary points
of `cl` in the old structure) and an encapsulation made *after* it for the clause `ε` written with
the new name: one of the key's rights is the targeted right exactly when the name-level cover
relation holds between the two clauses read with the new names in the new structure. The rename
changed neither what the old key opens nor what the name-level relation says. -/
theorem renamed_attribute_keeps_access (s s' : Struct) (hS : s.WF) (hb : s.IdsBelow) (dn o n : String)
    (h : s.renameAttribute dn o n = .ok s') (cl ε : List QA)
    (hcl : ClauseNodup cl) (hε : ClauseNodup ε)
    (hkc : Spec.clauseKnown s cl = true) (hkε : Spec.clauseKnown s ε = true) :
    ∃ pts eas, s.complementaryPoints cl = .ok pts ∧
      mapMExcept s'.getAttribute (ε.map (renQA dn o n)) = .ok eas ∧
      ((∃ p ∈ pts, Right.fromPoint p = Right.fromPoint (eas.map (·.id))) ↔
        Spec.coversClause s' (cl.map (renQA dn o n)) (ε.map (renQA dn o n)) = true) := by
  obtain ⟨pts, eas, hpts, heas, hiff⟩ := clause_right_iff hS hcl hε hkc hkε
  refine ⟨pts, eas, hpts, mapM_getAttribute_rename hS hb h heas, ?_⟩
  rw [coversClause_rename hS h hkc hkε]
  exact hiff

/-- a clause whose attributes the structure knows stays known, under the new names, after a rename -/
theorem clauseKnown_rename {s s' : Struct} (hS : s.WF) (hb : s.IdsBelow) {dn o n : String}
    (h : s.renameAttribute dn o n = .ok s') {cl : List QA} (hk : Spec.clauseKnown s cl = true) :
    Spec.clauseKnown s' (cl.map (renQA dn o n)) = true := by
  unfold Spec.clauseKnown
  rw [List.all_map]
  apply List.all_eq_true.2
  intro q hq
  obtain ⟨d, b, hd, hbm⟩ := known_attr hk hq
  obtain ⟨a, ha⟩ := Look.mem_lookup_isSome hbm
  have hg : s.getAttribute q = .ok a := getAttribute_ok_iff.2 ⟨d, hd, ha⟩
  obtain ⟨d', hd', ha'⟩ := getAttribute_ok_iff.1 (getAttribute_rename hS hb h hg)
  simp only [Function.comp, hd']
  exact pos_isSome_iff.2 ⟨a, Look.lookup_mem ha'⟩

theorem clauseNodup_rename {dn o n : String} {cl : List QA} (h : ClauseNodup cl) :
    ClauseNodup (cl.map (renQA dn o n)) := by
  unfold ClauseNodup at h ⊢
  rw [List.map_map]
  have : ((fun q : QA => q.dim) ∘ renQA dn o n) = (fun q : QA => q.dim) := by
    funext q; exact renQA_dim dn o n q
  rw [this]; exact h

/-- a rename request: dimension, old name, new name -/
structure Ren where
  dim : String
  old : String
  new : String

/-- several renames in a row, each of them accepted (of any attributes, in any dimensions — the same
attribute may be renamed again and again, a name given up may be taken by another attribute) -/
def applyRens : Struct → List Ren → Except Err Struct
  | s, [] => .ok s
  | s, r :: rs => match s.renameAttribute r.dim r.old r.new with
    | .ok s' => applyRens s' rs
    | .error e => .error e

/-- a clause read with the names of the end of the sequence -/
def renClause : List Ren → List QA → List QA
  | [], c => c
  | r :: rs, c => renClause rs (c.map (renQA r.dim r.old r.new))

/-- **Renamed attributes keep their access, through any number of renames.** A user key generated for
the clause `cl` *before* a sequence of accepted renames, an encapsulation made *after* it for the clause
`ε` written with the names of the end: one of the key's rights is the targeted right exactly when the
name-level cover relation holds between the two clauses read with the final names in the final
structure. (One rename: `renamed_attribute_keeps_access`.) -/
theorem renamed_many_keep_access : ∀ (rs : List Ren) (s s' : Struct), s.WF → s.IdsBelow →
    applyRens s rs = .ok s' → ∀ (cl ε : List QA), ClauseNodup cl → ClauseNodup ε →
    Spec.clauseKnown s cl = true → Spec.clauseKnown s ε = true →
    ∃ pts eas, s.complementaryPoints cl = .ok pts ∧
      mapMExcept s'.getAttribute (renClause rs ε) = .ok eas ∧
      ((∃ p ∈ pts, Right.fromPoint p = Right.fromPoint (eas.map (·.id))) ↔
        Spec.coversClause s' (renClause rs cl) (renClause rs ε) = true) := by
  -- the statement carried along the sequence: identifiers of `ε` and the verdict, as first computed
  have key : ∀ (rs : List Ren) (s s' : Struct), s.WF → s.IdsBelow → applyRens s rs = .ok s' →
      ∀ (cl ε : List QA) (eas : List Attr), Spec.clauseKnown s cl = true → Spec.clauseKnown s ε = true →
      mapMExcept s.getAttribute ε = .ok eas →
      mapMExcept s'.getAttribute (renClause rs ε) = .ok eas ∧
        Spec.coversClause s' (renClause rs cl) (renClause rs ε) = Spec.coversClause s cl ε := by
    intro rs
    induction rs with
    | nil =>
      intro s s' _ _ h cl ε eas _ _ he
      simp only [applyRens, Except.ok.injEq] at h
      subst h
      exact ⟨he, rfl⟩
    | cons r rest ih =>
      intro s s' hS hb h cl ε eas hkc hkε he
      simp only [applyRens] at h
      cases h1 : s.renameAttribute r.dim r.old r.new with
      | error e => simp [h1] at h
      | ok s1 =>
        simp only [h1] at h
        have hS1 : s1.WF := Struct.apply_wf (e := .rename r.dim r.old r.new) hS hb (by simpa [Struct.apply] using h1)
        have hb1 : s1.IdsBelow := (Struct.apply_idsBelow (e := .rename r.dim r.old r.new) (by simpa [Struct.apply] using h1) hb).1
        obtain ⟨h2, h3⟩ := ih s1 s' hS1 hb1 h (cl.map (renQA r.dim r.old r.new)) (ε.map (renQA r.dim r.old r.new)) eas
          (clauseKnown_rename hS hb h1 hkc) (clauseKnown_rename hS hb h1 hkε) (mapM_getAttribute_rename hS hb h1 he)
        refine ⟨h2, ?_⟩
        simp only [renClause]
        rw [h3, coversClause_rename hS h1 hkc hkε]
  intro rs s s' hS hb h cl ε hcl hε hkc hkε
  obtain ⟨pts, eas, hpts, heas, hiff⟩ := clause_right_iff hS hcl hε hkc hkε
  obtain ⟨h2, h3⟩ := key rs s s' hS hb h cl ε eas hkc hkε heas
  exact ⟨pts, eas, hpts, h2, by rw [h3]; exact hiff⟩

/-- non-vacuity: two attributes exchange their names through a third one (three accepted renames) -/
example : ∃ s', applyRens (Struct.empty.run [.addDim "D" false, .addAttr "D" "A" false none, .addAttr "D" "B" false none])
    [⟨"D", "A", "T"⟩, ⟨"D", "B", "A"⟩, ⟨"D", "T", "B"⟩] = .ok s' := ⟨_, rfl⟩

/-! ### edits elsewhere -/

/-- the dimension an edit is about -/
def _root_.CC.Edit.dim : Edit → String
  | .addDim n _ => n
  | .delDim n => n
  | .addAttr d _ _ _ => d
  | .delAttr d _ => d
  | .rename d _ _ => d
  | .disable d _ => d

theorem lookup_aerase_other {β} (l : List (String × β)) (k k' : String) (h : k' ≠ k) :
    (aerase l k).lookup k' = l.lookup k' := by
  induction l with
  | nil => rfl
  | cons p t ih =>
    obtain ⟨a, b⟩ := p
    unfold aerase at ih ⊢
    by_cases hak : a = k
    · subst hak
      have h1 : (a != a) = false := by simp
      have h2 : (k' == a) = false := by
        cases hb : k' == a
        · rfl
        · exact absurd (eq_of_beq hb) h
      simp only [List.filter_cons, h1, Bool.false_eq_true, if_false, List.lookup_cons, h2]
      exact ih
    · have h1 : (a != k) = true := by simp [hak]
      simp only [List.filter_cons, h1, if_true, List.lookup_cons]
      cases hb : k' == a
      · exact ih
      · rfl

theorem lookup_append_other {β} (l : List (String × β)) (k k' : String) (v : β) (h : k' ≠ k) :
    (l ++ [(k, v)]).lookup k' = l.lookup k' := by
  induction l with
  | nil =>
    have h2 : (k' == k) = false := by
      cases hb : k' == k
      · rfl
      · exact absurd (eq_of_beq hb) h
    simp [List.lookup, h2]
  | cons p t ih =>
    obtain ⟨a, b⟩ := p
    simp only [List.cons_append, List.lookup_cons]
    cases hb : k' == a
    · exact ih
    · rfl

/-- an accepted edit leaves every other dimension exactly as it was -/
theorem Struct.apply_lookup_other {s s' : Struct} {e : Edit} (h : s.apply e = .ok s') {dn : String}
    (hd : dn ≠ e.dim) : s'.dims.lookup dn = s.dims.lookup dn := by
  cases e with
  | addDim n o =>
    simp only [Struct.apply, Struct.addDimension] at h
    split at h
    · simp at h
    · simp only [Except.ok.injEq] at h; subst h
      exact lookup_append_other _ _ _ _ hd
  | delDim n =>
    simp only [Struct.apply, Struct.delDimension] at h
    split at h
    · simp only [Except.ok.injEq] at h; subst h
      exact lookup_aerase_other _ _ _ hd
    · simp at h
  | addAttr d n hy a =>
    simp only [Struct.apply, Struct.addAttribute] at h
    cases hl : s.dims.lookup d with
    | none => simp [hl] at h
    | some dd =>
      simp only [hl] at h
      cases ha : dd.addAttribute n hy a s.nextId with
      | error e => simp [ha] at h
      | ok d' =>
        simp only [ha, Except.ok.injEq] at h; subst h
        exact lookup_areplace_other _ _ _ _ hd
  | delAttr d n =>
    obtain ⟨_, d', _, _, rfl⟩ := Struct.onDim_spec (by simpa [Struct.apply, Struct.delAttribute] using h)
    exact lookup_areplace_other _ _ _ _ hd
  | rename d o n =>
    obtain ⟨_, d', _, _, rfl⟩ := Struct.onDim_spec (by simpa [Struct.apply, Struct.renameAttribute] using h)
    exact lookup_areplace_other _ _ _ _ hd
  | disable d n =>
    obtain ⟨_, d', _, _, rfl⟩ := Struct.onDim_spec (by simpa [Struct.apply, Struct.disableAttribute] using h)
    exact lookup_areplace_other _ _ _ _ hd

/-- any sequence of edits (failing ones included) none of which is about dimension `dn` leaves `dn` as it was -/
theorem Struct.run_lookup_other (es : List Edit) : ∀ (s : Struct) {dn : String}, (∀ e ∈ es, dn ≠ e.dim) →
    (s.run es).dims.lookup dn = s.dims.lookup dn := by
  induction es with
  | nil => intro s dn _; rfl
  | cons e rest ih =>
    intro s dn hd
    simp only [Struct.run, List.foldl_cons]
    cases ha : s.apply e with
    | error _ =>
      simp only
      exact ih s (fun e' he' => hd e' (List.mem_cons_of_mem _ he'))
    | ok s1 =>
      simp only
      have := ih s1 (dn := dn) (fun e' he' => hd e' (List.mem_cons_of_mem _ he'))
      unfold Struct.run at this
      rw [this]
      exact Struct.apply_lookup_other ha (hd e List.mem_cons_self)

theorem mapM_getAttribute_congr {s s' : Struct} : ∀ (ε : List QA),
    (∀ q ∈ ε, s'.dims.lookup q.dim = s.dims.lookup q.dim) →
    mapMExcept s'.getAttribute ε = mapMExcept s.getAttribute ε
  | [], _ => rfl
  | q :: rest, h => by
    have hq : s'.getAttribute q = s.getAttribute q := by
      unfold Struct.getAttribute; rw [h q List.mem_cons_self]
    unfold mapMExcept
    rw [hq, mapM_getAttribute_congr rest (fun q' hq' => h q' (List.mem_cons_of_mem _ hq'))]

/-- **Edits never change who can open encapsulations for unrelated attributes.** Any sequence of
edits — additions, deletions, renames, disables of attributes, additions and deletions of
dimensions, accepted or refused — none of which is about a dimension named by the encryption clause
`ε`: a key generated *before* them for any clause `cl` (whatever dimensions it names — they may have
been edited or deleted since) holds the right targeted *after* them by `ε` exactly when the
name-level cover relation held before the edits, and it is the same relation in the edited
structure. -/
theorem unrelated_edits_keep_access (s : Struct) (hS : s.WF) (es : List Edit) (cl ε : List QA)
    (hcl : ClauseNodup cl) (hε : ClauseNodup ε)
    (hkc : Spec.clauseKnown s cl = true) (hkε : Spec.clauseKnown s ε = true)
    (hun : ∀ e ∈ es, ∀ q ∈ ε, q.dim ≠ e.dim) :
    ∃ pts eas, s.complementaryPoints cl = .ok pts ∧
      mapMExcept (s.run es).getAttribute ε = .ok eas ∧
      ((∃ p ∈ pts, Right.fromPoint p = Right.fromPoint (eas.map (·.id))) ↔
        Spec.coversClause (s.run es) cl ε = true) ∧
      Spec.coversClause (s.run es) cl ε = Spec.coversClause s cl ε := by
  obtain ⟨pts, eas, hpts, heas, hiff⟩ := clause_right_iff hS hcl hε hkc hkε
  have hlk : ∀ q ∈ ε, (s.run es).dims.lookup q.dim = s.dims.lookup q.dim :=
    fun q hq => Struct.run_lookup_other es s (fun e he => hun e he q hq)
  have hcov : Spec.coversClause (s.run es) cl ε = Spec.coversClause s cl ε := by
    unfold Spec.coversClause
    apply all_congr_mem
    intro qx hqx
    rw [hlk qx hqx]
  refine ⟨pts, eas, hpts, ?_, ?_, hcov⟩
  · rw [mapM_getAttribute_congr ε hlk]; exact heas
  · rw [hcov]; exact hiff

/-- non-vacuity: a dimension is added, filled, an attribute of it renamed and disabled, another
dimension deleted — none of it is about dimension "D" -/
example : ∀ e ∈ [Edit.addDim "N" true, .addAttr "N" "X" true none, .rename "N" "X" "Y", .disable "N" "Y", .delDim "S"],
    ∀ q ∈ [(⟨"D", "A"⟩ : QA)], q.dim ≠ Edit.dim e := by decide

/-- non-vacuity: delete then add — the new attribute gets a new identifier (2), not the deleted one's (0) -/
example : (Struct.empty.run [.addDim "D" false, .addAttr "D" "A" false none, .addAttr "D" "B" false none,
    .delAttr "D" "A", .addAttr "D" "C" false none]).dims = [("D", ⟨false, [("B", ⟨1, false, false⟩), ("C", ⟨2, false, false⟩)]⟩)] := by
  rfl

end CC.Props.C03
