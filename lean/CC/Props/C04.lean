import CC.Lemmas.Prims
import CC.Lemmas.Refresh
import CC.Lemmas.Rev
import CC.Lemmas.Rotation
import CC.Lemmas.Issued
import CC.Lemmas.Contig
/-! # C04 — key rotation: refreshed keys follow the master key, stale keys fall behind -/

namespace CC.Props.C04
open CC

/-- the repaired revision iterator reaches every secret of every chain, whatever the chain lengths
(after a partial rekey the chains of one key have different lengths), and nothing else -/
theorem revisions_cover (chains : RevVec) (x : Right × Sk) :
    (∃ rev ∈ revisions chains, x ∈ rev) ↔ ∃ c, (x.1, c) ∈ chains ∧ x.2 ∈ c :=
  mem_revisions chains x

/-- rekey prepends a *fresh* secret to the chain of every rekeyed right: the new newest secret
carries a token the generator had not handed out before -/
theorem rekeyLoop_fresh (secrets : RevMap) (rights : List Right) (n : Rng) (r : Right) (hr : r ∈ rights)
    (hall : ∀ r ∈ rights, (secrets.getLatest r).isSome) :
    ∃ act sk, (rekeyLoop secrets rights n).2.1.getLatest r = some (act, sk) ∧ n ≤ sk.tok :=
  rekeyLoop_fresh' secrets rights n r hr hall

/-- a key whose secrets were all issued before a rotation cannot open an encapsulation whose
components were all made for secrets created by that rotation (stale keys fall behind) -/
theorem stale_cannot_open (usk : Usk) (enc : XEnc) (n : Rng)
    (hold : ∀ r c, (r, c) ∈ usk.secrets → ∀ s ∈ c, s.tok < n)
    (hnew : ∀ t ∈ enc.targets, n ≤ t.tok) : decaps usk enc = none := by
  apply (decaps_eq_none_iff usk enc).2
  rintro ⟨_, _, _, r, c, s, t, hm, hs, ht, ho⟩
  have h1 := hold r c hm s hs
  have h2 := hnew t ht
  simp [opens] at ho
  have h3 : s.tok = t.tok := ho.1
  rw [h3] at h1
  exact absurd h2 (Nat.not_le.2 h1)

/-- a key refreshed with `keep old secrets` follows the master key: the chain of each right it
keeps starts with the master key's newest secret of that right -/
theorem refresh_keep_follows (m u c : List Sk) (h : refreshChain m u = some c) (hm : m ≠ []) :
    c.head? = m.head? := by
  rcases refreshChain_head m u c h with h | h
  · exact h
  · exact absurd h hm

/-- closed form of the chain merge under the contiguity invariants (see `CC.refreshChain_spec`):
in particular everything the key held that the master key still holds is kept -/
theorem refresh_keep_closed_form (log : List Sk) (hnd : log.Nodup) (k i j : Nat)
    (hk : k ≤ log.length) (hj : 0 < j) (hij : i + j ≤ log.length) :
    refreshChain (log.take k) ((log.drop i).take j) =
      some (if i < k then log.take (min k (i + j)) else log.take k) :=
  refreshChain_spec log hnd k i j hk hj hij

/-- **Stale keys fall behind, over every history.** In any reachable world, after a successful rekey
of some rights, an encapsulation made under the new public key for rights that were all rekeyed
cannot be opened by any key all of whose secrets were drawn before the rekey (every key issued
earlier and not refreshed since). -/
theorem stale_key_after_rekey (w : World) (hw : Reachable w) (rights : List Right)
    (hok : (rekey w.msk rights w.rng).1 = .ok ()) (re : List Right) (hsub : ∀ r ∈ re, r ∈ rights)
    (n' : Rng) (s : Nat) (x : XEnc) (hen : (encaps (rekey w.msk rights w.rng).2.1.mpk re n').1 = .ok (s, x))
    (usk : Usk) (hold : ∀ r c, (r, c) ∈ usk.secrets → ∀ k ∈ c, k.tok < w.rng) : decaps usk x = none := by
  apply stale_cannot_open usk x w.rng hold
  -- every component of `x` was made for the published key of a rekeyed right
  unfold encaps at hen
  cases hs : (rekey w.msk rights w.rng).2.1.mpk.selectSubkeys re with
  | error e => simp [hs] at hen
  | ok v =>
    obtain ⟨hyb, ks⟩ := v
    simp only [hs, Except.ok.injEq, Prod.mk.injEq] at hen
    obtain ⟨_, rfl⟩ := hen
    unfold Mpk.selectSubkeys at hs
    cases hm : mapMExcept (rekey w.msk rights w.rng).2.1.mpk.keyOf re with
    | error e => simp [hm] at hs
    | ok ks' =>
      simp only [hm, Except.ok.injEq, Prod.mk.injEq] at hs
      obtain ⟨_, rfl⟩ := hs
      intro t ht
      obtain ⟨r, hr, hk⟩ := (mapMExcept_mem _ re ks' hm t).1 ht
      exact rekey_published_fresh w.msk rights w.rng (reachable_inv w hw) hok r (hsub r hr) t hk

/-- **Refreshed keys follow the master key, over every history.** In any reachable world, after a
successful refresh with either flag, every right the key keeps has a chain made only of current
master secrets of that right and starting with the master's newest one — so the refreshed key
opens an encapsulation made under the current public key for any right it keeps. -/
theorem refreshed_key_follows (w : World) (hw : Reachable w) (usk : Usk) (keep : Bool)
    (hok : (refresh w.msk usk keep w.rng).1 = .ok ()) :
    ∀ r c, (r, c) ∈ (refresh w.msk usk keep w.rng).2.2.1.secrets →
      ∃ mchain, w.msk.secrets.lookup r = some mchain ∧ (∀ k ∈ c, k ∈ mchain.map (·.2)) ∧
        c.head? = (mchain.map (·.2)).head? :=
  fun r c hm =>
    let ⟨mchain, h1, h2, h3, _⟩ := refresh_secrets_spec w.msk usk keep w.rng (reachable_nonEmpty w hw) hok r c hm
    ⟨mchain, h1, h2, h3⟩

/-- **`keep old secrets`, over every history.** A key generated in any reachable world, then any
sequence of operations with any arguments on the master key (rekeys — partial or repeated —,
prunes, structure edits and updates, other key generations and refreshes), then a refresh of that
key with `keep old secrets`: the refresh succeeds, and every secret the key held that the master
key still holds for that right is still in the refreshed key. -/
theorem keep_refresh_keeps_secrets (w : World) (hw : Reachable w) (p : AP) (rights : List Right)
    (hr : w.msk.structure_.uskRights p = .ok rights) (usk : Usk)
    (hk : (uskKeygen w.msk rights w.rng).1 = .ok usk) (ops : List Op) :
    let w' := ops.foldl World.step (w.step (.keygen p))
    (refresh w'.msk usk true w'.rng).1 = .ok () ∧
    ∀ r u, (r, u) ∈ usk.secrets → ∀ mc, w'.msk.secrets.lookup r = some mc →
      ∀ s ∈ u, s ∈ mc.map (·.2) → ∃ c', (r, c') ∈ (refresh w'.msk usk true w'.rng).2.2.1.secrets ∧ s ∈ c' := by
  intro w'
  have hstep : w.step (.keygen p) = ⟨(uskKeygen w.msk rights w.rng).2.1, (uskKeygen w.msk rights w.rng).2.2⟩ := by
    simp only [World.step, hr]
  have hr1 : Reachable (w.step (.keygen p)) := by
    obtain ⟨n, k0, ops0, rfl⟩ := hw
    exact ⟨n, k0, ops0 ++ [.keygen p], by simp [List.foldl_append]⟩
  have hreach : Reachable w' := by
    obtain ⟨n, k0, ops0, rfl⟩ := hw
    exact ⟨n, k0, ops0 ++ [.keygen p] ++ ops, by simp [w', List.foldl_append]⟩
  have hi : Issued (w.step (.keygen p)).msk usk := by
    rw [hstep]; exact keygen_issues w.msk rights w.rng usk hk
  have hi' : Issued w'.msk usk := issued_stable _ ops usk hi
  have hok := issued_refresh_ok w' hreach usk hi' true
  have ht : Tracks w' usk := steps_tracks ops _ hr1 usk (keygen_tracks w hw p rights hr usk hk)
  exact ⟨hok, tracks_refresh_keeps w' hreach usk ht hi'.2.2 hok⟩

/-- … hence it **still opens every encapsulation it could open before the refresh**, unless the
secret through which it opened it was removed from the master key (pruned, or its right deleted):
if the key opens `x` through a secret `k` of its chain of right `r`, and the master key still
holds `k` for `r`, the refreshed key opens `x` and recovers the same secret. -/
theorem keep_refresh_still_opens (w : World) (hw : Reachable w) (p : AP) (rights : List Right)
    (hr : w.msk.structure_.uskRights p = .ok rights) (usk : Usk)
    (hk : (uskKeygen w.msk rights w.rng).1 = .ok usk) (ops : List Op) (x : XEnc)
    (hshape : usk.auth = x.auth ∧ usk.nps = x.ntraps ∧ usk.id.length = x.ntraps)
    (r : Right) (u : List Sk) (k t : Sk) (hm : (r, u) ∈ usk.secrets) (hku : k ∈ u) (ht : t ∈ x.targets)
    (hopen : opens x.hybrid k t = true) (mc : List (Bool × Sk))
    (hl : (ops.foldl World.step (w.step (.keygen p))).msk.secrets.lookup r = some mc) (hstill : k ∈ mc.map (·.2)) :
    decaps usk x = some x.seed ∧
    decaps (refresh (ops.foldl World.step (w.step (.keygen p))).msk usk true
      (ops.foldl World.step (w.step (.keygen p))).rng).2.2.1 x = some x.seed := by
  obtain ⟨hok, hkeep⟩ := keep_refresh_keeps_secrets w hw p rights hr usk hk ops
  obtain ⟨c', hc', hkc'⟩ := hkeep r u hm mc hl k hku hstill
  refine ⟨(decaps_eq_some_iff _ _ _).2 ⟨rfl, hshape.1, hshape.2.1, hshape.2.2, r, u, k, t, hm, hku, ht, hopen⟩, ?_⟩
  have hstep : w.step (.keygen p) = ⟨(uskKeygen w.msk rights w.rng).2.1, (uskKeygen w.msk rights w.rng).2.2⟩ := by
    simp only [World.step, hr]
  have hi : Issued (w.step (.keygen p)).msk usk := by
    rw [hstep]; exact keygen_issues w.msk rights w.rng usk hk
  have hi' := issued_stable _ ops usk hi
  obtain ⟨ha, hn, hid, _⟩ := refresh_keep_shape _ usk _ hok hi'.2.2
  refine (decaps_eq_some_iff _ _ _).2 ⟨rfl, ?_, ?_, ?_, r, c', k, t, hc', hkc', ht, hopen⟩
  · rw [ha]; exact hshape.1
  · rw [hn]; exact hshape.2.1
  · rw [hid]; exact hshape.2.2

/-- the same holds for a key produced by a refresh (with either flag) instead of a key generation:
it tracks the master key from then on -/
theorem refreshed_key_tracks (w : World) (hw : Reachable w) (usk : Usk) (keep : Bool)
    (hok : (refresh w.msk usk keep w.rng).1 = .ok ()) (ops : List Op) :
    Tracks (ops.foldl World.step (w.step (.refresh usk keep))) (refresh w.msk usk keep w.rng).2.2.1 := by
  have hr1 : Reachable (w.step (.refresh usk keep)) := by
    obtain ⟨n, k0, ops0, rfl⟩ := hw
    exact ⟨n, k0, ops0 ++ [.refresh usk keep], by simp [List.foldl_append]⟩
  exact steps_tracks ops _ hr1 _ (refresh_tracks w hw usk keep hok)

/-- non-vacuity: log [9,7,5,3]; master holds all four; the user held [5,3] -/
example : refreshChain [⟨9, false⟩, ⟨7, false⟩, ⟨5, false⟩, ⟨3, false⟩] [⟨5, false⟩, ⟨3, false⟩] =
    some [⟨9, false⟩, ⟨7, false⟩, ⟨5, false⟩, ⟨3, false⟩] := by decide

end CC.Props.C04
