import CC.Lemmas.Prims
import CC.Lemmas.Refresh
import CC.Lemmas.Rev
/-! # C04 — key rotation: refreshed keys follow the master key, stale keys fall behind -/

namespace CC.Props.C04
open CC

/-- the repaired revision iterator reaches every secret of every chain, whatever the chain lengths
(after a partial rekey the chains of one key have different lengths), and nothing else -/
theorem revisions_cover (chains : RevVec) (x : Right × Sk) :
    (∃ rev ∈ revisions chains, x ∈ rev) ↔ ∃ c, (x.1, c) ∈ chains ∧ x.2 ∈ c :=
  mem_revisions chains x

/-- rekey prepends a *fresh* secret to the chain of every rekeyed right: the new newest secret
carries a token the generator had not handed out before -/
theorem rekeyLoop_fresh (secrets : RevMap) (rights : List Right) (n : Rng) (r : Right) (hr : r ∈ rights)
    (hall : ∀ r ∈ rights, (secrets.getLatest r).isSome) :
    ∃ act sk, (rekeyLoop secrets rights n).2.1.getLatest r = some (act, sk) ∧ n ≤ sk.tok := by
  induction rights generalizing secrets n with
  | nil => cases hr
  | cons x xs ih =>
    unfold rekeyLoop
    have hx := hall x List.mem_cons_self
    have hc : secrets.containsKey x = true := by
      unfold RevMap.containsKey; unfold RevMap.getLatest at hx
      cases hl : secrets.lookup x with
      | none => simp [hl] at hx
      | some _ => rfl
    simp only [hc, if_true]
    cases hl : secrets.getLatest x with
    | none => simp [hl] at hx
    | some v =>
      obtain ⟨act, sk⟩ := v
      simp only
      have hall' : ∀ r ∈ xs, ((secrets.insert x (act, ⟨n, sk.hyb⟩)).getLatest r).isSome := by
        intro r' hr'
        rw [RevMap.getLatest_insert]
        by_cases hk : r' == x
        · simp [hk]
        · simp only [hk]; exact hall r' (List.mem_cons_of_mem _ hr')
      by_cases hin : r ∈ xs
      · obtain ⟨a, s, h1, h2⟩ := ih (secrets.insert x (act, ⟨n, sk.hyb⟩)) (n + 1) hin hall'
        exact ⟨a, s, h1, Nat.le_of_succ_le h2⟩
      · have hrx : r = x := by
          rcases List.mem_cons.1 hr with h | h
          · exact h
          · exact absurd h hin
        subst hrx
        -- the remaining rights do not touch `r`: its newest secret is the one just inserted
        have hstable : ∀ (s : RevMap) (m : Rng), r ∉ xs → (rekeyLoop s xs m).2.1.getLatest r = s.getLatest r := by
          intro s m hnin
          clear ih hall' hall hr hin
          induction xs generalizing s m with
          | nil => rfl
          | cons y ys ihy =>
            simp only [List.mem_cons, not_or] at hnin
            unfold rekeyLoop
            split
            · cases hy : s.getLatest y with
              | none => rfl
              | some w =>
                obtain ⟨a, k⟩ := w
                simp only
                rw [ihy _ _ hnin.2, RevMap.getLatest_insert]
                have : (r == y) = false := by simpa using hnin.1
                simp [this]
            · rfl
        rw [hstable _ _ hin, RevMap.getLatest_insert]
        exact ⟨act, ⟨n, sk.hyb⟩, by simp, Nat.le_refl _⟩

/-- a key whose secrets were all issued before a rotation cannot open an encapsulation whose
components were all made for secrets created by that rotation (stale keys fall behind) -/
theorem stale_cannot_open (usk : Usk) (enc : XEnc) (n : Rng)
    (hold : ∀ r c, (r, c) ∈ usk.secrets → ∀ s ∈ c, s.tok < n)
    (hnew : ∀ t ∈ enc.targets, n ≤ t.tok) : decaps usk enc = none := by
  apply (decaps_eq_none_iff usk enc).2
  rintro ⟨_, _, _, r, c, s, t, hm, hs, ht, ho⟩
  have h1 := hold r c hm s hs
  have h2 := hnew t ht
  simp [opens] at ho
  have h3 : s.tok = t.tok := ho.1
  rw [h3] at h1
  exact absurd h2 (Nat.not_le.2 h1)

/-- a key refreshed with `keep old secrets` follows the master key: the chain of each right it
keeps starts with the master key's newest secret of that right -/
theorem refresh_keep_follows (m u c : List Sk) (h : refreshChain m u = some c) (hm : m ≠ []) :
    c.head? = m.head? := by
  rcases refreshChain_head m u c h with h | h
  · exact h
  · exact absurd h hm

/-- closed form of the chain merge under the contiguity invariants (see `CC.refreshChain_spec`):
in particular everything the key held that the master key still holds is kept -/
theorem refresh_keep_closed_form (log : List Sk) (hnd : log.Nodup) (k i j : Nat)
    (hk : k ≤ log.length) (hj : 0 < j) (hij : i + j ≤ log.length) :
    refreshChain (log.take k) ((log.drop i).take j) =
      some (if i < k then log.take (min k (i + j)) else log.take k) :=
  refreshChain_spec log hnd k i j hk hj hij

/-- non-vacuity: log [9,7,5,3]; master holds all four; the user held [5,3] -/
example : refreshChain [⟨9, false⟩, ⟨7, false⟩, ⟨5, false⟩, ⟨3, false⟩] [⟨5, false⟩, ⟨3, false⟩] =
    some [⟨9, false⟩, ⟨7, false⟩, ⟨5, false⟩, ⟨3, false⟩] := by decide

end CC.Props.C04
