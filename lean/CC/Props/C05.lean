import CC.Lemmas.Prims
import CC.Lemmas.Refresh
import CC.Lemmas.Rev
import CC.Lemmas.Rotation
import CC.Lemmas.Contig
/-! # C05 — revocation takes effect: pruned and deleted secrets leave refreshed keys -/

namespace CC.Props.C05
open CC CC.Look

/-- the master key keeps exactly the newest secret of each pruned right -/
theorem prune_keeps_newest (m : RevMap) (r : Right) (c : List (Bool × Sk)) (h : m.lookup r = some c)
    (hne : c ≠ []) : (m.keep r 1).lookup r = some [c.head hne] := by
  rw [RevMap.lookup_keep]
  simp only [beq_self_eq_true, if_true, h, Option.map_some, Option.some.injEq]
  cases c with
  | nil => exact absurd rfl hne
  | cons a as => simp [RevMap.keepN]

/-- pruning one right leaves every other right untouched -/
theorem prune_other_untouched (m : RevMap) (r k : Right) (h : k ≠ r) : (m.keep r 1).lookup k = m.lookup k := by
  rw [RevMap.lookup_keep]
  have : (k == r) = false := by simpa using h
  simp [this]

/-- with `keep old secrets`, every secret a refreshed key holds for a right is a secret the master
key still holds for that right: nothing pruned survives a refresh -/
theorem refresh_keep_sub_master (msk : Msk) (chains : RevVec) (r : Right) (c : List Sk)
    (h : (r, c) ∈ refreshCoordinateKeys msk chains) :
    ∃ mchain, msk.secrets.get r = some mchain ∧ ∀ s ∈ c, s ∈ mchain.map (·.2) := by
  unfold refreshCoordinateKeys at h
  simp only [List.mem_filterMap] at h
  obtain ⟨⟨r', u⟩, _, hm⟩ := h
  simp only at hm
  cases hg : msk.secrets.get r' with
  | none => simp [hg] at hm
  | some mchain =>
    simp only [hg, Option.map_eq_some_iff] at hm
    obtain ⟨c', hc', heq⟩ := hm
    simp only [Prod.mk.injEq] at heq
    obtain ⟨rfl, rfl⟩ := heq
    exact ⟨mchain, hg, refreshChain_sub_master _ _ _ hc'⟩

/-- with `keep old secrets`, a right that left the master key (deleted attribute or dimension,
then update) leaves the refreshed key -/
theorem refresh_keep_drops_deleted (msk : Msk) (chains : RevVec) (r : Right)
    (h : msk.secrets.get r = none) : ∀ c, (r, c) ∉ refreshCoordinateKeys msk chains := by
  intro c hc
  obtain ⟨mchain, hg, _⟩ := refresh_keep_sub_master msk chains r c hc
  rw [h] at hg; cases hg

/-- without `keep old secrets`, the refreshed key holds exactly the newest master secret of each
right it names -/
theorem latest_only (msk : Msk) (rights : List Right) (chains : RevVec)
    (h : latestRightSks msk rights = .ok chains) :
    ∀ r c, (r, c) ∈ chains → ∃ act sk, msk.secrets.getLatest r = some (act, sk) ∧ c = [sk] := by
  induction rights generalizing chains with
  | nil => simp [latestRightSks] at h; subst h; simp
  | cons x xs ih =>
    unfold latestRightSks at h
    cases hl : msk.secrets.getLatest x with
    | none => simp [hl] at h
    | some v =>
      obtain ⟨act, sk⟩ := v
      simp only [hl] at h
      cases hr : latestRightSks msk xs with
      | error e => simp [hr] at h
      | ok tl =>
        simp only [hr, Except.ok.injEq] at h
        subst h
        intro r c hm
        rcases List.mem_cons.1 hm with hm | hm
        · simp only [Prod.mk.injEq] at hm
          obtain ⟨rfl, rfl⟩ := hm
          exact ⟨act, sk, hl, rfl⟩
        · exact ih tl hr r c hm

/-- a refreshed key cannot open an encapsulation all of whose components were made under secrets
the master key no longer holds (pruned, or of a deleted right) -/
theorem pruned_secret_unusable (msk : Msk) (usk : Usk) (enc : XEnc)
    (hsub : ∀ r c, (r, c) ∈ usk.secrets → ∃ mchain, msk.secrets.get r = some mchain ∧ ∀ s ∈ c, s ∈ mchain.map (·.2))
    (hgone : ∀ t ∈ enc.targets, ∀ r mchain, msk.secrets.get r = some mchain → ∀ s ∈ mchain.map (·.2), s.tok ≠ t.tok) :
    decaps usk enc = none := by
  apply (decaps_eq_none_iff usk enc).2
  rintro ⟨_, _, _, r, c, s, t, hm, hs, ht, ho⟩
  obtain ⟨mchain, hg, hsm⟩ := hsub r c hm
  have := hgone t ht r mchain hg s (hsm s hs)
  simp [opens] at ho
  exact this ho.1

/-- **Revocation takes effect, over every history.** In any reachable world, a key refreshed with
either flag holds, for every right it keeps, only secrets the master key still holds for that
right, and only rights the master key still holds and that the key had before; so it cannot open an
encapsulation whose components were all made under secrets the master key has dropped (pruned, or
of a deleted right). -/
theorem refreshed_key_cannot_use_removed (w : World) (hw : Reachable w) (usk : Usk) (keep : Bool)
    (hok : (refresh w.msk usk keep w.rng).1 = .ok ()) (enc : XEnc)
    (hgone : ∀ t ∈ enc.targets, ∀ r mchain, w.msk.secrets.get r = some mchain → ∀ s ∈ mchain.map (·.2), s.tok ≠ t.tok) :
    decaps (refresh w.msk usk keep w.rng).2.2.1 enc = none := by
  apply pruned_secret_unusable w.msk _ enc _ hgone
  intro r c hm
  obtain ⟨mchain, h1, h2, _, _⟩ := refresh_secrets_spec w.msk usk keep w.rng (reachable_nonEmpty w hw) hok r c hm
  exact ⟨mchain, h1, h2⟩

/-- a refresh never *adds* a right to a key -/
theorem refresh_adds_no_right (w : World) (hw : Reachable w) (usk : Usk) (keep : Bool)
    (hok : (refresh w.msk usk keep w.rng).1 = .ok ()) :
    ∀ r c, (r, c) ∈ (refresh w.msk usk keep w.rng).2.2.1.secrets → ∃ uc, (r, uc) ∈ usk.secrets :=
  fun r c hm =>
    let ⟨_, _, _, _, h4⟩ := refresh_secrets_spec w.msk usk keep w.rng (reachable_nonEmpty w hw) hok r c hm
    h4

/-- non-vacuity of `refresh_keep_sub_master`: master chain [9,5] after pruning [9,5,3]; user held [5,3] -/
example : refreshChain [⟨9, false⟩, ⟨5, false⟩] [⟨5, false⟩, ⟨3, false⟩] = some [⟨9, false⟩, ⟨5, false⟩] := by
  decide

/-- **Deletion takes effect, over every history.** In any reachable world in which no attribute
carries the identifier `i` any more (its attribute, or its whole dimension, was deleted), a
successful `update_msk` leaves no right involving `i` in the master key; hence a key refreshed
afterwards with either flag holds no such right (`refresh_adds_no_right`,
`refreshed_key_cannot_use_removed`), and nothing can be encapsulated for it. -/
theorem deleted_attribute_leaves_master_key (w : World) (hw : Reachable w) (i : Nat)
    (hdead : ¬ w.msk.structure_.live i)
    (hok : (updateMsk w.msk w.msk.structure_.omega w.rng).1 = .ok ()) (ids : List Nat) (hi : i ∈ ids) :
    (w.step .update).msk.secrets.lookup (Right.fromPoint ids) = none :=
  update_removes_dead w hw i hdead hok ids hi

end CC.Props.C05
