import CC.Lemmas.Prims
import CC.Lemmas.Disabled
import CC.Lemmas.Contig
/-! # C06 — disabled attributes can never be encrypted to again, but stay decryptable -/

namespace CC.Props.C06
open CC CC.Look

/-- `rekey` never re-activates a right: flag and flavour of the newest secret are carried over -/
theorem rekey_keeps_flag (secrets : RevMap) (rights : List Right) (n : Rng) (k : Right) :
    ((rekeyLoop secrets rights n).2.1.getLatest k).map (·.1) = (secrets.getLatest k).map (·.1) := by
  have := rekeyLoop_latest secrets rights n k
  cases h1 : (rekeyLoop secrets rights n).2.1.getLatest k <;> cases h2 : secrets.getLatest k <;>
    simp [h1, h2] at this ⊢
  exact this.1

/-- `prune` does not touch the newest secret of any right, hence not its flag -/
theorem prune_keeps_flag (msk : Msk) (rights : List Right) (k : Right) :
    (prune msk rights).secrets.getLatest k = msk.secrets.getLatest k :=
  prune_latest msk rights k

/-- the public key publishes a right only if its newest secret is activated -/
theorem mpk_only_activated (msk : Msk) (r : Right) (pk : Sk) (h : (r, pk) ∈ msk.mpk.keys) :
    ∃ chain, (r, chain) ∈ msk.secrets ∧ chain.head? = some (true, pk) := by
  unfold Msk.mpk at h
  simp only [List.mem_filterMap] at h
  obtain ⟨⟨r', chain⟩, hm, hh⟩ := h
  simp only [mpkEntry] at hh
  cases hc : chain.head? with
  | none => simp [hc] at hh
  | some v =>
    obtain ⟨act, sk⟩ := v
    cases act with
    | false => simp [hc] at hh
    | true =>
      simp only [hc, Option.some.injEq, Prod.mk.injEq] at hh
      obtain ⟨rfl, rfl⟩ := hh
      exact ⟨chain, hm, hc⟩

/-- a deactivated right has no entry in any public key derived from the master key -/
theorem deactivated_unpublished (msk : Msk) (r : Right) (sk : Sk)
    (hwf : (msk.secrets.map (·.1)).Nodup) (h : msk.secrets.getLatest r = some (false, sk)) :
    msk.mpk.keys.lookup r = none := by
  cases hl : msk.mpk.keys.lookup r with
  | none => rfl
  | some pk =>
    exfalso
    obtain ⟨chain, hm, hh⟩ := mpk_only_activated msk r pk (lookup_mem hl)
    have := mem_lookup_of_nodup hwf hm
    unfold RevMap.getLatest at h
    rw [this] at h
    simp only [Option.bind_some] at h
    rw [hh] at h
    cases h

/-- encapsulation fails as soon as one targeted right has no published key -/
theorem encaps_needs_key (mpk : Mpk) (targets : List Right) (n : Rng) (r : Right) (hr : r ∈ targets)
    (h : mpk.keys.lookup r = none) : (encaps mpk targets n).1 = .error .keyError := by
  have : mapMExcept mpk.keyOf targets = .error .keyError := by
    induction targets with
    | nil => cases hr
    | cons x xs ih =>
      unfold mapMExcept
      cases hx : mpk.keys.lookup x with
      | none => simp [Mpk.keyOf, hx]
      | some k =>
        have hrx : r ∈ xs := by
          rcases List.mem_cons.1 hr with rfl | h'
          · rw [h] at hx; cases hx
          · exact h'
        simp [Mpk.keyOf, hx, ih hrx]
  simp [encaps, Mpk.selectSubkeys, this]

/-- `update_msk` sets the flag of an existing right from the structure: decrypt-only ⇒ deactivated -/
theorem update_sets_flag (secrets : RevMap) (r : Right) (hyb ro : Bool) (n : Rng) (act : Bool) (sk : Sk)
    (h : secrets.getLatest r = some (act, sk)) :
    (updateLoop secrets [(r, hyb, ro)] n).1.toOption.bind (fun s => (s.getLatest r).map (·.1)) = some (!ro) := by
  simp only [updateLoop, h]
  rw [show (Except.ok (secrets.setLatest r (!ro, if hyb = true then sk else sk.dropHyb)) : Except Err RevMap).toOption =
    some (secrets.setLatest r (!ro, if hyb = true then sk else sk.dropHyb)) from rfl]
  simp [RevMap.getLatest_setLatest, h]

/-- when no right containing `i` is activated, no public key derived from the master key has an
entry for such a right -/
theorem quiet_unpublished (msk : Msk) (hwf : (msk.secrets.map (·.1)).Nodup) {i : Nat} (hq : msk.Quiet i)
    (ids : List Nat) (hi : i ∈ ids) : msk.mpk.keys.lookup (Right.fromPoint ids) = none := by
  cases hl : msk.mpk.keys.lookup (Right.fromPoint ids) with
  | none => rfl
  | some pk =>
    exfalso
    obtain ⟨chain, hm, hh⟩ := mpk_only_activated msk _ pk (lookup_mem hl)
    have := mem_lookup_of_nodup hwf hm
    have hg : msk.secrets.getLatest (Right.fromPoint ids) = some (true, pk) := by
      unfold RevMap.getLatest; rw [this]; simpa using hh
    have := hq ids hi _ hg
    cases this

/-- **C06 over every history.** In any reachable world in which the identifier `i` is disabled
(every attribute carrying it is read-only), once `update_msk` succeeds, then after *any* further
sequence of operations with any arguments (structure edits, updates, rekeys, prunes, key
generations, refreshes) encapsulation under the then-current public key fails for every target
set containing a right that involves `i`. There is no operation that re-enables it. -/
theorem disabled_never_encryptable (w : World) (hr : Reachable w) (i : Nat)
    (hd : w.msk.structure_.IdDisabled i)
    (hu : (updateMsk w.msk w.msk.structure_.omega w.rng).1 = .ok ())
    (ops : List Op) (ids : List Nat) (hi : i ∈ ids) (targets : List Right)
    (ht : Right.fromPoint ids ∈ targets) (n : Rng) :
    (encaps (ops.foldl World.step (w.step .update)).msk.mpk targets n).1 = .error .keyError := by
  have hS := reachable_struct_wf w hr
  have hoff0 : (w.step .update).Off i := by
    refine ⟨?_, updateMsk_makes_quiet w.msk w.rng hd hu⟩
    simp only [World.step, updateMsk_structure]; exact hd
  have hS1 := step_struct w .update hS
  have hoff := steps_off ops (w.step .update) hS1 hoff0
  have hreach : Reachable (ops.foldl World.step (w.step .update)) := by
    obtain ⟨n0, k0, ops0, rfl⟩ := hr
    refine ⟨n0, k0, ops0 ++ (.update :: ops), ?_⟩
    rw [List.foldl_append]; rfl
  have hinv := reachable_inv _ hreach
  exact encaps_needs_key _ targets n _ ht (quiet_unpublished _ hinv.1 hoff.2 ids hi)

/-- disabling an attribute in a reachable world makes its identifier disabled, so the theorem
above applies to the world right after the edit -/
theorem disable_then_update (w : World) (hr : Reachable w) (dn nm : String) (s' : Struct)
    (h : w.msk.structure_.disableAttribute dn nm = .ok s') :
    ∃ d a, w.msk.structure_.dims.lookup dn = some d ∧ d.attrs.lookup nm = some a ∧
      (w.step (.edit (.disable dn nm))).msk.structure_.IdDisabled a.id := by
  have hS := reachable_struct_wf w hr
  obtain ⟨d, a, h1, h2, h3⟩ := Struct.disable_makes_disabled hS.1 hS.2 h
  refine ⟨d, a, h1, h2, ?_⟩
  simp only [World.step, Struct.apply, h]
  exact h3

/-- **… but stay decryptable.** A successful `update_msk` (in particular the one that follows a
`disable_attribute`) changes no secret of any right the structure still defines — only the
activation flag of the newest one: a user key that opened an encapsulation through a secret of
such a right still holds a secret the master key holds, so (C04 `keep_refresh_still_opens`) it
keeps opening that encapsulation after a refresh with `keep`, and (C09) it stays refreshable. -/
theorem update_keeps_defined_rights (w : World) (hw : Reachable w) (k : Right)
    (c : List (Bool × Sk)) (hl : w.msk.secrets.lookup k = some c)
    (hsurv : (w.msk.structure_.omega.lookup k).isSome = true)
    (hok : (updateMsk w.msk w.msk.structure_.omega w.rng).1 = .ok ()) :
    ∃ c', (w.step .update).msk.secrets.lookup k = some c' ∧ c'.map (·.2) = c.map (·.2) := by
  rcases update_keeps_secrets w hw k c hl with hnone | h
  · exfalso
    simp only [World.step] at hnone
    unfold updateMsk at hnone hok
    split at hnone
    · rw [hl] at hnone; cases hnone
    · rename_i hpre
      simp only [hpre, Bool.false_eq_true, if_false] at hok
      simp only at hnone
      rcases hu : updateLoop (w.msk.secrets.retain fun r => (w.msk.structure_.omega.lookup r).isSome)
          w.msk.structure_.omega w.rng with ⟨res, n'⟩
      rw [hu] at hnone hok
      cases res with
      | error e => simp at hok
      | ok s =>
        simp only at hnone
        have hu' : (updateLoop (w.msk.secrets.retain fun r => (w.msk.structure_.omega.lookup r).isSome)
          w.msk.structure_.omega w.rng).1 = .ok s := by rw [hu]
        cases hlo : w.msk.structure_.omega.lookup k with
        | none => rw [hlo] at hsurv; cases hsurv
        | some fl =>
          obtain ⟨hyb, ro⟩ := fl
          rcases updateLoop_lookup_mem _ _ _ _ (omega_keys_nodup _) hu' k hyb ro (Look.lookup_mem hlo) with ⟨h0, t, _, h2⟩ | ⟨_, t, _, _, h4⟩
          · rw [h2] at hnone; cases hnone
          · rw [h4] at hnone; cases hnone
  · exact h

end CC.Props.C06
