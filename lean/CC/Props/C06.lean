import CC.Lemmas.Prims
/-! # C06 — disabled attributes can never be encrypted to again, but stay decryptable -/

namespace CC.Props.C06
open CC CC.Look

/-- `rekey` never re-activates a right: flag and flavour of the newest secret are carried over -/
theorem rekey_keeps_flag (secrets : RevMap) (rights : List Right) (n : Rng) (k : Right) :
    ((rekeyLoop secrets rights n).2.1.getLatest k).map (·.1) = (secrets.getLatest k).map (·.1) := by
  have := rekeyLoop_latest secrets rights n k
  cases h1 : (rekeyLoop secrets rights n).2.1.getLatest k <;> cases h2 : secrets.getLatest k <;>
    simp [h1, h2] at this ⊢
  exact this.1

/-- `prune` does not touch the newest secret of any right, hence not its flag -/
theorem prune_keeps_flag (msk : Msk) (rights : List Right) (k : Right) :
    (prune msk rights).secrets.getLatest k = msk.secrets.getLatest k :=
  prune_latest msk rights k

/-- the public key publishes a right only if its newest secret is activated -/
theorem mpk_only_activated (msk : Msk) (r : Right) (pk : Sk) (h : (r, pk) ∈ msk.mpk.keys) :
    ∃ chain, (r, chain) ∈ msk.secrets ∧ chain.head? = some (true, pk) := by
  unfold Msk.mpk at h
  simp only [List.mem_filterMap] at h
  obtain ⟨⟨r', chain⟩, hm, hh⟩ := h
  simp only [mpkEntry] at hh
  cases hc : chain.head? with
  | none => simp [hc] at hh
  | some v =>
    obtain ⟨act, sk⟩ := v
    cases act with
    | false => simp [hc] at hh
    | true =>
      simp only [hc, Option.some.injEq, Prod.mk.injEq] at hh
      obtain ⟨rfl, rfl⟩ := hh
      exact ⟨chain, hm, hc⟩

/-- a deactivated right has no entry in any public key derived from the master key -/
theorem deactivated_unpublished (msk : Msk) (r : Right) (sk : Sk)
    (hwf : (msk.secrets.map (·.1)).Nodup) (h : msk.secrets.getLatest r = some (false, sk)) :
    msk.mpk.keys.lookup r = none := by
  cases hl : msk.mpk.keys.lookup r with
  | none => rfl
  | some pk =>
    exfalso
    obtain ⟨chain, hm, hh⟩ := mpk_only_activated msk r pk (lookup_mem hl)
    have := mem_lookup_of_nodup hwf hm
    unfold RevMap.getLatest at h
    rw [this] at h
    simp only [Option.bind_some] at h
    rw [hh] at h
    cases h

/-- encapsulation fails as soon as one targeted right has no published key -/
theorem encaps_needs_key (mpk : Mpk) (targets : List Right) (n : Rng) (r : Right) (hr : r ∈ targets)
    (h : mpk.keys.lookup r = none) : (encaps mpk targets n).1 = .error .keyError := by
  have : mapMExcept mpk.keyOf targets = .error .keyError := by
    induction targets with
    | nil => cases hr
    | cons x xs ih =>
      unfold mapMExcept
      cases hx : mpk.keys.lookup x with
      | none => simp [Mpk.keyOf, hx]
      | some k =>
        have hrx : r ∈ xs := by
          rcases List.mem_cons.1 hr with rfl | h'
          · rw [h] at hx; cases hx
          · exact h'
        simp [Mpk.keyOf, hx, ih hrx]
  simp [encaps, Mpk.selectSubkeys, this]

/-- `update_msk` sets the flag of an existing right from the structure: decrypt-only ⇒ deactivated -/
theorem update_sets_flag (secrets : RevMap) (r : Right) (hyb ro : Bool) (n : Rng) (act : Bool) (sk : Sk)
    (h : secrets.getLatest r = some (act, sk)) :
    (updateLoop secrets [(r, hyb, ro)] n).1.toOption.bind (fun s => (s.getLatest r).map (·.1)) = some (!ro) := by
  simp only [updateLoop, h]
  rw [show (Except.ok (secrets.setLatest r (!ro, if hyb = true then sk else sk.dropHyb)) : Except Err RevMap).toOption =
    some (secrets.setLatest r (!ro, if hyb = true then sk else sk.dropHyb)) from rfl]
  simp [RevMap.getLatest_setLatest, h]

end CC.Props.C06
