import CC.Model.HashBind
import CC.Generated.Hashing
import CC.Generated.Consts
import CC.Model.Sym
import CC.Props.C12
import CC.Model.Wire
import CC.Props.C13
/-! # C07 — encapsulations and ciphertexts are non-malleable -/

namespace CC.Props.C07
open CC CC.HB

/-- fixed-size blocks: a list of blocks all of length `n > 0` is determined by its concatenation -/
theorem flatten_inj (n : Nat) (hn : 0 < n) :
    ∀ (xs ys : List Bytes), (∀ x ∈ xs, x.length = n) → (∀ y ∈ ys, y.length = n) →
      xs.flatten = ys.flatten → xs = ys
  | [], [], _, _, _ => rfl
  | [], y :: ys, _, hy, h => by
      have := hy y (List.mem_cons_self)
      have hl := congrArg List.length h
      rw [List.flatten_cons, List.flatten_nil, List.length_append, List.length_nil] at hl; omega
  | x :: xs, [], hx, _, h => by
      have := hx x (List.mem_cons_self)
      have hl := congrArg List.length h
      rw [List.flatten_cons, List.flatten_nil, List.length_append, List.length_nil] at hl; omega
  | x :: xs, y :: ys, hx, hy, h => by
      have h1 := hx x (List.mem_cons_self)
      have h2 := hy y (List.mem_cons_self)
      simp only [List.flatten_cons] at h
      have := List.append_inj h (by omega)
      rw [this.1, flatten_inj n hn xs ys (fun a ha => hx a (List.mem_cons_of_mem _ ha))
        (fun a ha => hy a (List.mem_cons_of_mem _ ha)) this.2]

/-- the tag is long enough for the 2^-128 bound and the masked seeds have a fixed positive size —
checked on the constants read from the source on every run -/
theorem sizes_ok : CC.Generated.constsAvailable = true →
    16 ≤ CC.Generated.TAG_LENGTH ∧ 0 < CC.Generated.SHARED_SECRET_LENGTH ∧
    0 < CC.Generated.MlKem512_ENC ∧ 0 < CC.Generated.MlKem768_ENC ∧
    0 < CC.Generated.R25519_POINT ∧ 0 < CC.Generated.P256_POINT := by decide

/- The order in which `h_encaps`, `c_encaps`, `h_decaps`, `c_decaps` and `full_decaps` feed the
hashers is still extracted on every run (`CC.Generated.Hashing`, reported in the evidence) but is
no longer a proof obligation: the extraction depends on the names of local variables, so a harmless
rename would break it. The tie of `CC.HB.T`, `CC.HB.U`, `CC.HB.tagFor` to the code is behavioural:
encapsulations and keys serialised by the pinned release must still open with the same secret
(golden corpus, run by this property's check), which any change of what is hashed, or of its
order, breaks. -/

section
variable (HT HU : Bytes → Bytes) (Jtag : Bytes → Bytes → Bytes)
variable (hHT : Function.Injective HT) (hHU : Function.Injective HU)
variable (hJ : ∀ s u s' u', Jtag s u = Jtag s' u' → s = s' ∧ u = u')
variable (hTlen : ∀ a b, (HT a).length = (HT b).length)
variable (PL EL : Nat) (hEL : 0 < EL)

include hHT hHU hJ hTlen hEL in
/-- **Binding.** Let `x0` be an honest encapsulation of seed `s0` and `x` any received value that
carries the same tag. If `decaps` accepts `x` for some candidate seed `s` (the recomputed tag
matches, and the Fujisaki–Okamoto check re-derives the received traps, which for the honest seed
are the honest traps), then `x` *is* `x0` component by component — same traps in the same order,
same ML-KEM ciphertexts in the same order (hence same flavour), same masked seeds in the same
order — and `s = s0`. So reordering, dropping, duplicating, swapping components between
encapsulations or changing any byte of a component yields no secret. -/
theorem binding (x x0 : Enc) (s s0 : Bytes)
    (hx : WF PL EL x) (hx0 : WF PL EL x0)
    (htag0 : x0.tag = tagFor HT HU Jtag x0 s0)
    (hsame : x.tag = x0.tag)
    (hchk : x.tag = tagFor HT HU Jtag x s)
    (hfo : x.c = x0.c) :
    s = s0 ∧ x.c = x0.c ∧ x.es = x0.es ∧ x.fs = x0.fs := by
  have h1 : Jtag s (U HT HU x) = Jtag s0 (U HT HU x0) := by
    unfold tagFor at htag0 hchk; rw [← hchk, hsame, htag0]
  obtain ⟨hs, hu⟩ := hJ _ _ _ _ h1
  have h2 := hHU hu
  obtain ⟨hT, hF⟩ := List.append_inj h2 (hTlen _ _)
  have h3 := hHT hT
  rw [hfo] at h3
  have hE := List.append_cancel_left h3
  exact ⟨hs, hfo, flatten_inj EL hEL _ _ hx.2.1 hx0.2.1 hE,
    flatten_inj _ (sizes_ok (by decide)).2.1 _ _ hx.2.2 hx0.2.2 hF⟩

include hHT hHU hJ hTlen hEL in
/-- a received value that differs from the honest encapsulation in its traps-consistent part
(ciphertexts or masked seeds) is rejected for every candidate seed -/
theorem modified_rejected (x x0 : Enc) (s s0 : Bytes)
    (hx : WF PL EL x) (hx0 : WF PL EL x0)
    (htag0 : x0.tag = tagFor HT HU Jtag x0 s0) (hsame : x.tag = x0.tag) (hfo : x.c = x0.c)
    (hdiff : x.es ≠ x0.es ∨ x.fs ≠ x0.fs) : x.tag ≠ tagFor HT HU Jtag x s := by
  intro hchk
  obtain ⟨_, _, h1, h2⟩ := binding HT HU Jtag hHT hHU hJ hTlen PL EL hEL x x0 s s0 hx hx0 htag0 hsame hchk hfo
  rcases hdiff with h | h
  · exact h h1
  · exact h h2

end

/-- any modification of a PKE ciphertext is rejected (from the AEAD idealisation, see `C12`) -/
theorem pke_ciphertext_non_malleable (usk : Usk) (x : XEnc) (c : Sealed) (seed : Nat)
    (h : decaps usk x = some seed) (ht : c.tamper ≠ .intact) :
    pkeDecrypt usk (x, c) = .error .crypto :=
  CC.Props.C12.pke_tampered_rejected usk x c seed h ht

/-- any modification of encrypted header metadata is rejected -/
theorem header_metadata_non_malleable (usk : Usk) (x : XEnc) (c : Sealed) (seed : Nat) (ad : Option CC.Bytes)
    (h : decaps usk x = some seed) (ht : c.tamper ≠ .intact) :
    hdrDecrypt usk ⟨x, some c⟩ ad = .error .crypto :=
  CC.Props.C12.header_tampered_rejected usk x c seed ad h ht

/-! ## D15 — the serialised form is malleable through LEB128

The statement "any modification of a valid encapsulation … makes decapsulation return no secret" is
**false** of the code and of the model at the level of *bytes*: the LEB128 decoder accepts redundant
continuation bytes, so the count / flavour fields of an encapsulation can be rewritten (`02` as
`82 00`) and the modified byte string decodes to the very same encapsulation, which every authorised
key opens. `binding` above is about the *decoded* components and stays true. Witness by evaluation of
the wire decoder; replayed on the implementation by the `noncanon` operator of the C07 campaign
(known finding D15). -/

/-- two different byte strings, one number -/
theorem noncanonical_leb_accepted : Wire.leb [0x82, 0x00] = Wire.leb [0x02] ∧ ([0x82, 0x00] : List UInt8) ≠ [0x02] := by
  decide

/-- hence two different serialisations of one (classic, one-trap, one-component) encapsulation -/
theorem encapsulation_bytes_malleable :
    let tag := List.replicate 16 (0 : UInt8)
    let trap := List.replicate 32 (1 : UInt8)
    let f := List.replicate 32 (2 : UInt8)
    let honest := tag ++ [0x01] ++ trap ++ [0x00] ++ [0x01] ++ f
    let padded := tag ++ [0x81, 0x00] ++ trap ++ [0x00] ++ [0x01] ++ f
    honest ≠ padded ∧ Wire.xenc Wire.cfgC25519 padded = Wire.xenc Wire.cfgC25519 honest ∧
      (Wire.xenc Wire.cfgC25519 honest).isSome = true := by
  decide

/-- what remains true at the level of bytes (`…_partial`: the full statement is disproved above): on
*canonical* serialisations — what `serialize` writes — decoding is injective, i.e. two different
well-formed encapsulations never share their bytes, and a byte string that is the canonical form of
some well-formed encapsulation decodes to that encapsulation and to nothing else. So a modification
that keeps the bytes canonical changes the decoded encapsulation (or makes decoding fail), and
`binding` then applies to its components. -/
theorem canonical_bytes_determine_encapsulation_partial (c : Wire.Cfg) (x y : Wire.WEnc)
    (hx : CC.Props.C13.WfEnc c x) (hy : CC.Props.C13.WfEnc c y) (h : Wire.encXenc x = Wire.encXenc y) : x = y := by
  have h1 := CC.Props.C13.xenc_roundtrip c x hx []
  have h2 := CC.Props.C13.xenc_roundtrip c y hy []
  rw [h] at h1
  rw [h1] at h2
  simpa using h2

end CC.Props.C07
