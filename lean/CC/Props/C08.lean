import CC.Model.Mac
import CC.Lemmas.Prims
/-! # C08 — only user keys issued by the master key are accepted for refresh

KMAC is idealised: a tag verifies only for the exact byte stream it was computed on under the same
key. The question left is *which byte stream* `sign` feeds it (`CC.Mac.input`). The full statement
needs `input` to be injective; it is not (known finding D9: no length / count / flavour framing) —
both witnesses are proved below — so the property is proved among keys of the same shape
(`accepted_same_shape_is_issued`), together with the rejections that do not depend on framing. -/

namespace CC.Props.C08
open CC CC.Wire CC.Mac

def keyShape (k : WKey) : Bool × Nat × Nat := (k.hyb, k.a.length, k.b.length)
def chainShape (c : List WKey) : List (Bool × Nat × Nat) := c.map keyShape
def secretsShape (s : List (Bytes × List WKey)) : List (Nat × List (Bool × Nat × Nat)) :=
  s.map (fun p => (p.1.length, chainShape p.2))
/-- lengths of the markers, of the right names, of the chains and of every leaf, and the flavours -/
def shape (u : WUsk) : List Nat × List (Nat × List (Bool × Nat × Nat)) :=
  (u.id.map List.length, secretsShape u.secrets)

theorem blocks_inj : ∀ (xs ys : List Bytes) (r1 r2 : Bytes), xs.map List.length = ys.map List.length →
    xs.flatten ++ r1 = ys.flatten ++ r2 → xs = ys ∧ r1 = r2
  | [], [], _, _, _, h => ⟨rfl, by simpa using h⟩
  | [], _ :: _, _, _, hl, _ => by simp at hl
  | _ :: _, [], _, _, hl, _ => by simp at hl
  | x :: xs, y :: ys, r1, r2, hl, h => by
    simp only [List.map_cons, List.cons.injEq] at hl
    simp only [List.flatten_cons, List.append_assoc] at h
    obtain ⟨hxy, hrest⟩ := List.append_inj h hl.1
    obtain ⟨h1, h2⟩ := blocks_inj xs ys r1 r2 hl.2 hrest
    exact ⟨by rw [hxy, h1], h2⟩

theorem chain_inj : ∀ (c1 c2 : List WKey) (r1 r2 : Bytes), chainShape c1 = chainShape c2 →
    c1.flatMap (fun k => k.a ++ k.b) ++ r1 = c2.flatMap (fun k => k.a ++ k.b) ++ r2 → c1 = c2 ∧ r1 = r2
  | [], [], _, _, _, h => ⟨rfl, by simpa using h⟩
  | [], _ :: _, _, _, hl, _ => by simp [chainShape] at hl
  | _ :: _, [], _, _, hl, _ => by simp [chainShape] at hl
  | k1 :: c1, k2 :: c2, r1, r2, hl, h => by
    simp only [chainShape, List.map_cons, List.cons.injEq, keyShape, Prod.mk.injEq] at hl
    obtain ⟨⟨hh, ha, hb⟩, hrest⟩ := hl
    simp only [List.flatMap_cons, List.append_assoc] at h
    obtain ⟨haa, h'⟩ := List.append_inj h ha
    obtain ⟨hbb, h''⟩ := List.append_inj h' hb
    obtain ⟨h1, h2⟩ := chain_inj c1 c2 r1 r2 hrest h''
    refine ⟨?_, h2⟩
    rw [h1]
    congr 1
    cases k1; cases k2; simp_all

theorem secrets_inj : ∀ (s1 s2 : List (Bytes × List WKey)), secretsShape s1 = secretsShape s2 →
    s1.flatMap (fun p => p.1 ++ p.2.flatMap (fun k => k.a ++ k.b)) =
      s2.flatMap (fun p => p.1 ++ p.2.flatMap (fun k => k.a ++ k.b)) → s1 = s2
  | [], [], _, _ => rfl
  | [], _ :: _, hl, _ => by simp [secretsShape] at hl
  | _ :: _, [], hl, _ => by simp [secretsShape] at hl
  | (n1, c1) :: s1, (n2, c2) :: s2, hl, h => by
    simp only [secretsShape, List.map_cons, List.cons.injEq, Prod.mk.injEq] at hl
    obtain ⟨⟨hn, hc⟩, hrest⟩ := hl
    simp only [List.flatMap_cons, List.append_assoc] at h
    obtain ⟨hnn, h'⟩ := List.append_inj h hn
    obtain ⟨hcc, h''⟩ := chain_inj c1 c2 _ _ hc h'
    rw [hnn, hcc, secrets_inj s1 s2 hrest h'']

/-- **Partial C08.** Among keys of the same shape the MAC input determines the identifier, the
rights and the secrets in their exact arrangement. -/
theorem input_inj_same_shape (k1 k2 : WUsk) (hs : shape k1 = shape k2) (h : input k1 = input k2) :
    k1.id = k2.id ∧ k1.secrets = k2.secrets := by
  simp only [shape, Prod.mk.injEq] at hs
  unfold input at h
  obtain ⟨hid, hrest⟩ := blocks_inj k1.id k2.id _ _ hs.1 h
  exact ⟨hid, secrets_inj _ _ hs.2 hrest⟩

/-- a key accepted on presentation of an issued key's signature, and of the same shape, *is* that
issued key (identifier, rights, secrets, signature) -/
theorem accepted_same_shape_is_issued (k0 k : WUsk) (hs : shape k = shape k0) (h : acceptedLike k0 k = true) :
    k.id = k0.id ∧ k.secrets = k0.secrets ∧ k.signature = k0.signature := by
  simp only [acceptedLike, verifiesLike, Bool.and_eq_true, decide_eq_true_eq] at h
  obtain ⟨⟨hsig, hin⟩, _⟩ := h
  obtain ⟨h1, h2⟩ := input_inj_same_shape k k0 hs hin
  exact ⟨h1, h2, hsig⟩

/-- a stripped or altered signature is rejected -/
theorem other_signature_rejected (k0 k : WUsk) (h : k.signature ≠ k0.signature) : acceptedLike k0 k = false := by
  simp [acceptedLike, verifiesLike, h]

/-- a different identifier is rejected -/
theorem other_id_rejected (k0 k : WUsk) (h : k.id ≠ k0.id) : acceptedLike k0 k = false := by
  simp [acceptedLike, h]

/-- any change that changes the MAC stream is rejected -/
theorem other_stream_rejected (k0 k : WUsk) (h : input k ≠ input k0) : acceptedLike k0 k = false := by
  simp [acceptedLike, verifiesLike, h]

/-- **D9, witness 1** (the full statement is false): the chain of right `i+1` folded into the
*name* of right `i` gives a different key with the same MAC stream. -/
theorem framing_ambiguity_name (id ps : List Bytes) (sig : Option Bytes) (r1 s1 r2 s2 : Bytes) :
    input ⟨id, ps, [(r1, [⟨false, s1, []⟩]), (r2, [⟨false, s2, []⟩])], sig⟩ =
      input ⟨id, ps, [(r1 ++ s1 ++ r2, [⟨false, s2, []⟩])], sig⟩ ∧
    (⟨id, ps, [(r1, [⟨false, s1, []⟩]), (r2, [⟨false, s2, []⟩])], sig⟩ : WUsk) ≠
      ⟨id, ps, [(r1 ++ s1 ++ r2, [⟨false, s2, []⟩])], sig⟩ := by
  constructor
  · simp [input]
  · intro h; injection h with _ _ h3 _; simp at h3

/-- **D9, witness 2**: the secret of the broadcast right (empty name) moved into the chain that
precedes it. -/
theorem framing_ambiguity_broadcast (id ps : List Bytes) (sig : Option Bytes) (r1 : Bytes) (k1 k2 : WKey) :
    input ⟨id, ps, [(r1, [k1]), ([], [k2])], sig⟩ = input ⟨id, ps, [(r1, [k1, k2])], sig⟩ ∧
    (⟨id, ps, [(r1, [k1]), ([], [k2])], sig⟩ : WUsk) ≠ ⟨id, ps, [(r1, [k1, k2])], sig⟩ := by
  constructor
  · simp [input]
  · intro h; injection h with _ _ h3 _; simp at h3

/-- at the level of the key-management model: a key that fails `verify` is refused and neither
key is modified -/
theorem unverified_refused (msk : Msk) (usk : Usk) (keep : Bool) (n : Rng) (h : verify msk usk = false) :
    refresh msk usk keep n = (.error .keyError, msk, usk, n) := by
  simp [refresh, h]

/-- non-vacuity of the partial statement: two different keys of the same shape have different
streams -/
example : shape ⟨[[1]], [], [([7], [⟨false, [2], []⟩])], none⟩ = shape ⟨[[1]], [], [([7], [⟨false, [3], []⟩])], none⟩ ∧
    input ⟨[[1]], [], [([7], [⟨false, [2], []⟩])], none⟩ ≠ input ⟨[[1]], [], [([7], [⟨false, [3], []⟩])], none⟩ := by
  decide

end CC.Props.C08
