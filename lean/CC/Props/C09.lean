import CC.Lemmas.Prims
import CC.Lemmas.Issued
/-! # C09 — every API call succeeds or fails exactly as its contract says

Each theorem characterises, for *all* states and arguments, when the model of an operation
returns an error. -/

namespace CC.Props.C09
open CC

/-- `add_anarchy` / `add_hierarchy` fail exactly on a duplicate dimension name -/
theorem addDimension_err_iff (s : Struct) (name : String) (o : Bool) :
    (∃ e, s.addDimension name o = .error e) ↔ (s.dims.lookup name).isSome := by
  unfold Struct.addDimension
  cases h : s.dims.lookup name <;> simp

/-- `del_dimension` fails exactly on an unknown dimension -/
theorem delDimension_err_iff (s : Struct) (name : String) :
    (∃ e, s.delDimension name = .error e) ↔ (s.dims.lookup name).isNone := by
  unfold Struct.delDimension
  cases h : s.dims.lookup name <;> simp

/-- `add_attribute`: unknown dimension, duplicate name, or (hierarchy only) unknown `after` -/
theorem addAttribute_err_iff (s : Struct) (dim name : String) (hyb : Bool) (after : Option String) :
    (∃ e, s.addAttribute dim name hyb after = .error e) ↔
      match s.dims.lookup dim with
      | none => True
      | some d => (d.attrs.lookup name).isSome ∨
          (d.ordered = true ∧ ∃ af, after = some af ∧ (d.attrs.lookup af).isNone) := by
  unfold Struct.addAttribute
  cases hd : s.dims.lookup dim with
  | none => simp
  | some d =>
    simp only
    unfold Dim.addAttribute
    by_cases ho : d.ordered = true
    · simp only [ho, if_true]
      by_cases hn : (d.attrs.lookup name).isSome = true
      · simp [hn]
      · simp only [hn, Bool.false_eq_true, if_false, false_or, true_and]
        cases after with
        | none => simp
        | some af =>
          cases ha : d.attrs.lookup af <;> simp [-List.lookup_eq_none_iff, ha]
    · simp only [ho, Bool.false_eq_true, if_false, false_and, or_false]
      by_cases hn : (d.attrs.lookup name).isSome = true
      · simp [hn]
      · simp [hn]

/-- `del_attribute` / `disable_attribute` fail exactly on an unknown dimension or attribute -/
theorem delAttribute_err_iff (s : Struct) (dim name : String) :
    (∃ e, s.delAttribute dim name = .error e) ↔
      match s.dims.lookup dim with
      | none => True
      | some d => (d.attrs.lookup name).isNone := by
  unfold Struct.delAttribute Struct.onDim
  cases hd : s.dims.lookup dim with
  | none => simp
  | some d =>
    simp only
    unfold Dim.removeAttribute
    cases hl : d.attrs.lookup name <;> simp

theorem disableAttribute_err_iff (s : Struct) (dim name : String) :
    (∃ e, s.disableAttribute dim name = .error e) ↔
      match s.dims.lookup dim with
      | none => True
      | some d => (d.attrs.lookup name).isNone := by
  unfold Struct.disableAttribute Struct.onDim
  cases hd : s.dims.lookup dim with
  | none => simp
  | some d =>
    simp only
    unfold Dim.disableAttribute
    cases hl : d.attrs.lookup name <;> simp

/-- `rename_attribute`: unknown dimension, unknown old name, or new name already used -/
theorem renameAttribute_err_iff (s : Struct) (dim old new : String) :
    (∃ e, s.renameAttribute dim old new = .error e) ↔
      match s.dims.lookup dim with
      | none => True
      | some d => (d.attrs.lookup old).isNone ∨ (d.attrs.lookup new).isSome := by
  unfold Struct.renameAttribute Struct.onDim
  cases hd : s.dims.lookup dim with
  | none => simp
  | some d =>
    simp only
    unfold Dim.renameAttribute
    by_cases ho : d.ordered = true
    · simp only [ho, if_true]
      cases hl : d.attrs.lookup old with
      | none => simp
      | some a =>
        simp only
        by_cases hn : (d.attrs.lookup new).isSome = true <;> simp [hn]
    · simp only [ho, Bool.false_eq_true, if_false]
      by_cases hn : (d.attrs.lookup new).isSome = true
      · simp [hn]
      · simp only [hn, Bool.false_eq_true, if_false]
        cases hl : d.attrs.lookup old <;> simp

/-- `rekey` succeeds exactly when the master key holds every right of the policy -/
theorem rekey_ok_iff (msk : Msk) (rights : List Right) (n : Rng) :
    (rekey msk rights n).1 = .ok () ↔ ∀ r ∈ rights, (msk.secrets.getLatest r).isSome :=
  CC.rekey_ok_iff msk rights n

/-- `update_msk` fails exactly when the structure defines a right that would be born disabled -/
theorem update_err_iff (msk : Msk) (rights : List (Right × Bool × Bool)) (n : Rng) :
    (∃ e, (updateMsk msk rights n).1 = .error e) ↔
      ∃ p ∈ rights, p.2.2 = true ∧ msk.secrets.getLatest p.1 = none := by
  constructor
  · rintro ⟨e, he⟩
    by_cases hv : rights.any (fun p => p.2.2 && (msk.secrets.getLatest p.1).isNone) = true
    · obtain ⟨p, hp, hc⟩ := List.any_eq_true.1 hv
      simp only [Bool.and_eq_true, Option.isNone_iff_eq_none] at hc
      exact ⟨p, hp, hc.1, hc.2⟩
    · rw [updateMsk_ok_of_valid msk rights n hv] at he; cases he
  · rintro ⟨p, hp, hro, hl⟩
    unfold updateMsk
    have hv : rights.any (fun p => p.2.2 && (msk.secrets.getLatest p.1).isNone) = true :=
      List.any_eq_true.2 ⟨p, hp, by simp [hro, hl]⟩
    simp [hv]

/-- key generation fails exactly when the master key lacks one of the rights of the policy
(structure edited but master key not updated yet) -/
theorem latestRightSks_err_iff (msk : Msk) (rights : List Right) :
    (∃ e, latestRightSks msk rights = .error e) ↔ ∃ r ∈ rights, msk.secrets.getLatest r = none := by
  induction rights with
  | nil => simp [latestRightSks]
  | cons x xs ih =>
    unfold latestRightSks
    cases hl : msk.secrets.getLatest x with
    | none => simp [hl]
    | some v =>
      obtain ⟨a, sk⟩ := v
      simp only [List.mem_cons, exists_eq_or_imp, hl, reduceCtorEq, false_or]
      rw [← ih]
      cases latestRightSks msk xs <;> simp

/-- encapsulation succeeds exactly when every targeted right has a published key -/
theorem encaps_ok_iff (mpk : Mpk) (targets : List Right) (n : Rng) :
    (∃ v, (encaps mpk targets n).1 = .ok v) ↔ ∀ r ∈ targets, (mpk.keys.lookup r).isSome = true := by
  have key : (∃ ks, mapMExcept mpk.keyOf targets = .ok ks) ↔ ∀ r ∈ targets, (mpk.keys.lookup r).isSome = true := by
    induction targets with
    | nil => simp [mapMExcept]
    | cons x xs ih =>
      unfold mapMExcept
      cases hx : mpk.keys.lookup x with
      | none =>
        constructor
        · rintro ⟨ks, h⟩; simp [Mpk.keyOf, hx] at h
        · intro h
          have := h x List.mem_cons_self
          rw [hx] at this; cases this
      | some k =>
        simp only [Mpk.keyOf, hx, List.mem_cons, forall_eq_or_imp, Option.isSome_some, true_and]
        rw [← ih]
        cases mapMExcept mpk.keyOf xs <;> simp
  rw [← key]
  unfold encaps Mpk.selectSubkeys
  cases mapMExcept mpk.keyOf targets <;> simp

/-- **`refresh` succeeds exactly when** the key passes the integrity check, its identifier is
registered (and can be re-issued if its tracing level is outdated) and — without `keep` — every
right the key holds that the master key still knows has a newest secret. Nothing else (rotations,
prunes, deletions of rights) makes it fail. -/
theorem refresh_ok_iff (msk : Msk) (usk : Usk) (keep : Bool) (n : Rng) :
    (refresh msk usk keep n).1 = .ok () ↔
      verify msk usk = true ∧ usk.id ∈ msk.users ∧ (usk.id.length = msk.ntracers ∨ msk.ntracers ≠ 0) ∧
      (keep = true ∨ ∀ r ∈ (usk.secrets.map (·.1)).filter (fun r => msk.secrets.containsKey r),
          (msk.secrets.getLatest r).isSome = true) := by
  unfold refresh
  by_cases hv : verify msk usk = true
  · simp only [hv, Bool.not_true, Bool.false_eq_true, if_false, true_and]
    have hsec := (refreshId_secrets msk usk.id n).1
    unfold refreshId at hsec ⊢
    by_cases hk : usk.id ∈ msk.users
    · simp only [hk, not_true_eq_false, if_false, true_and] at hsec ⊢
      by_cases hl : usk.id.length = msk.ntracers
      · simp only [hl, ne_eq, not_true_eq_false, if_false, true_or, true_and]
        cases keep with
        | true => simp
        | false =>
          simp only [Bool.false_eq_true, if_false, false_or]
          have := latestRightSks_err_iff msk ((usk.secrets.map (·.1)).filter (fun r => msk.secrets.containsKey r))
          cases hlr : latestRightSks msk ((usk.secrets.map (·.1)).filter (fun r => msk.secrets.containsKey r)) with
          | error e =>
            rw [hlr] at this
            constructor
            · intro h; cases h
            · intro hall
              obtain ⟨r, hr, hn⟩ := this.1 ⟨e, rfl⟩
              have h2 := hall r hr
              rw [hn] at h2; cases h2
          | ok v =>
            rw [hlr] at this
            simp only [true_iff]
            intro r hr
            cases hg : msk.secrets.getLatest r with
            | some _ => rfl
            | none => exact absurd (this.2 ⟨r, hr, hg⟩) (by simp)
      · simp only [hl, ne_eq, not_false_eq_true, if_true, false_or] at hsec ⊢
        unfold generateUserId at hsec ⊢
        by_cases hnt : msk.ntracers = 0
        · simp [hnt]
        · simp only [hnt, if_false, not_false_eq_true, true_and] at hsec ⊢
          cases keep with
          | true => simp
          | false =>
            simp only [Bool.false_eq_true, if_false, false_or]
            -- the master key after the identifier exchange holds the same secrets
            generalize hm' : ({ ({ msk with users := if (List.range msk.ntracers).map (· + n) ∈ msk.users then msk.users
                else msk.users ++ [(List.range msk.ntracers).map (· + n)] } : Msk) with
                users := (if (List.range msk.ntracers).map (· + n) ∈ msk.users then msk.users
                  else msk.users ++ [(List.range msk.ntracers).map (· + n)]).filter (· ≠ usk.id) } : Msk) = m' at hsec ⊢
            have hs : m'.secrets = msk.secrets := by rw [← hm']
            have e2 : ∀ l, latestRightSks m' l = latestRightSks msk l := by
              intro l
              induction l with
              | nil => rfl
              | cons x xs ih => unfold latestRightSks; rw [hs, ih]
            rw [e2]
            have := latestRightSks_err_iff msk ((usk.secrets.map (·.1)).filter (fun r => msk.secrets.containsKey r))
            cases hlr : latestRightSks msk ((usk.secrets.map (·.1)).filter (fun r => msk.secrets.containsKey r)) with
            | error e =>
              rw [hlr] at this
              constructor
              · intro h; cases h
              · intro hall
                obtain ⟨r, hr, hn⟩ := this.1 ⟨e, rfl⟩
                have h2 := hall r hr
                rw [hn] at h2; cases h2
            | ok v =>
              rw [hlr] at this
              simp only [true_iff]
              intro r hr
              cases hg : msk.secrets.getLatest r with
              | some _ => rfl
              | none => exact absurd (this.2 ⟨r, hr, hg⟩) (by simp)
    · simp [hk]
  · simp [hv]

/-- **Refreshing an issued user key succeeds with either flag whatever was rekeyed, pruned or
deleted in between**: a key generated in some reachable world is refreshable in every world
reachable from there by any further operations (edits, updates, rekeys, prunes, other key
generations and refreshes — of arbitrary keys —, randomness-consuming calls). -/
theorem issued_key_always_refreshable (w : World) (hw : Reachable w) (p : AP) (rights : List Right)
    (hr : w.msk.structure_.uskRights p = .ok rights) (usk : Usk)
    (hk : (uskKeygen w.msk rights w.rng).1 = .ok usk) (ops : List Op) (keep : Bool) :
    (refresh (ops.foldl World.step (w.step (.keygen p))).msk usk keep (ops.foldl World.step (w.step (.keygen p))).rng).1 = .ok () := by
  have hstep : w.step (.keygen p) = ⟨(uskKeygen w.msk rights w.rng).2.1, (uskKeygen w.msk rights w.rng).2.2⟩ := by
    simp only [World.step, hr]
  have hi : Issued (w.step (.keygen p)).msk usk := by
    rw [hstep]; exact keygen_issues w.msk rights w.rng usk hk
  have hreach : Reachable (ops.foldl World.step (w.step (.keygen p))) := by
    obtain ⟨n, k0, ops0, rfl⟩ := hw
    exact ⟨n, k0, ops0 ++ [.keygen p] ++ ops, by simp [List.foldl_append]⟩
  exact issued_refresh_ok _ hreach usk (issued_stable _ ops usk hi) keep

end CC.Props.C09
