import CC.Lemmas.Prims
import CC.Model.World
/-! # C10 — failed operations leave keys untouched

The model functions return the state *the code leaves behind on each path* (e.g. `updateMsk`
returns a master key with no secrets on the error branch inside the loop, exactly where the Rust
code has already `take`n them). The theorems show those branches are unreachable once the
up-front validation passed, for every state and argument — no reachability hypothesis needed. -/

namespace CC.Props.C10
open CC

/-- `update_msk` -/
theorem update_failed_untouched (msk : Msk) (rights : List (Right × Bool × Bool)) (n : Rng) (e : Err)
    (h : (updateMsk msk rights n).1 = .error e) : (updateMsk msk rights n).2.1 = msk :=
  updateMsk_error_unchanged msk rights n e h

/-- `rekey`: never partially rotated, whatever the position of the failing right -/
theorem rekey_failed_untouched (msk : Msk) (rights : List Right) (n : Rng) (e : Err)
    (h : (rekey msk rights n).1 = .error e) : (rekey msk rights n).2.1 = msk :=
  rekey_error_unchanged msk rights n e h

/-- `usk_keygen`: no user is registered when key generation fails -/
theorem keygen_failed_untouched (msk : Msk) (rights : List Right) (n : Rng) (e : Err)
    (h : (uskKeygen msk rights n).1 = .error e) : (uskKeygen msk rights n).2.1 = msk :=
  uskKeygen_error_unchanged msk rights n e h

/-- `refresh`: the user key is never emptied; the master key is untouched -/
theorem refresh_failed_untouched (msk : Msk) (usk : Usk) (keep : Bool) (n : Rng) (e : Err)
    (h : (refresh msk usk keep n).1 = .error e) (hlvl : usk.id.length = msk.ntracers) :
    (refresh msk usk keep n).2.2.1 = usk ∧ (refresh msk usk keep n).2.1 = msk :=
  ⟨(refresh_error_unchanged msk usk keep n e h).1, (refresh_error_unchanged msk usk keep n e h).2 hlvl⟩

/-- the result an operation of the world machine reports to the caller -/
def opResult (w : World) : Op → Except Err Unit
  | .edit e => (w.msk.structure_.apply e).map (fun _ => ())
  | .update => (updateMsk w.msk w.msk.structure_.omega w.rng).1
  | .rekey p => match w.msk.structure_.uskRights p with
    | .error e => .error e
    | .ok rights => (rekey w.msk rights w.rng).1
  | .prune p => (w.msk.structure_.uskRights p).map (fun _ => ())
  | .keygen p => match w.msk.structure_.uskRights p with
    | .error e => .error e
    | .ok rights => (uskKeygen w.msk rights w.rng).1.map (fun _ => ())
  | .refresh usk keep => (refresh w.msk usk keep w.rng).1
  | .draw _ => .ok ()

/-- **Failed operations leave the master key untouched, as one statement over the world machine**:
whatever the state and the arguments, when an operation reports an error the master key after it is
the master key before it (for `refresh`: of a key of the master key's tracing level — the only kind
the API produces). -/
theorem failed_step_leaves_master_key (w : World) (op : Op) (e : Err) (h : opResult w op = .error e)
    (hlvl : ∀ usk keep, op = .refresh usk keep → usk.id.length = w.msk.ntracers) :
    (w.step op).msk = w.msk := by
  cases op with
  | edit ed =>
    simp only [opResult] at h
    simp only [World.step]
    cases ha : w.msk.structure_.apply ed with
    | ok s => rw [ha] at h; cases h
    | error _ => rfl
  | update =>
    simp only [opResult] at h
    exact update_failed_untouched _ _ _ e h
  | rekey p =>
    simp only [opResult] at h
    simp only [World.step]
    cases hr : w.msk.structure_.uskRights p with
    | error _ => rfl
    | ok rights =>
      rw [hr] at h
      exact rekey_failed_untouched _ _ _ e h
  | prune p =>
    simp only [opResult] at h
    simp only [World.step]
    cases hr : w.msk.structure_.uskRights p with
    | error _ => rfl
    | ok rights => rw [hr] at h; cases h
  | keygen p =>
    simp only [opResult] at h
    simp only [World.step]
    cases hr : w.msk.structure_.uskRights p with
    | error _ => rfl
    | ok rights =>
      rw [hr] at h
      simp only at h
      cases hk : (uskKeygen w.msk rights w.rng).1 with
      | ok u => rw [hk] at h; cases h
      | error e' => exact keygen_failed_untouched _ _ _ e' hk
  | refresh usk keep =>
    simp only [opResult] at h
    exact (refresh_failed_untouched _ _ _ _ e h (hlvl usk keep rfl)).2
  | draw k => simp [opResult] at h

/-- a master key holding one right -/
def exMsk : Msk :=
  { auth := 0, ntracers := 2, users := [], secrets := [([1], [(true, (⟨5, false⟩ : Sk))])],
    signKey := none, structure_ := Struct.empty }

/-- non-vacuity: a rekey that fails on its second right -/
example : (rekey exMsk [[1], [2]] 10).1 = .error .notPermitted := by rfl

end CC.Props.C10
