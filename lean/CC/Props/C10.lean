import CC.Lemmas.Prims
/-! # C10 — failed operations leave keys untouched

The model functions return the state *the code leaves behind on each path* (e.g. `updateMsk`
returns a master key with no secrets on the error branch inside the loop, exactly where the Rust
code has already `take`n them). The theorems show those branches are unreachable once the
up-front validation passed, for every state and argument — no reachability hypothesis needed. -/

namespace CC.Props.C10
open CC

/-- `update_msk` -/
theorem update_failed_untouched (msk : Msk) (rights : List (Right × Bool × Bool)) (n : Rng) (e : Err)
    (h : (updateMsk msk rights n).1 = .error e) : (updateMsk msk rights n).2.1 = msk :=
  updateMsk_error_unchanged msk rights n e h

/-- `rekey`: never partially rotated, whatever the position of the failing right -/
theorem rekey_failed_untouched (msk : Msk) (rights : List Right) (n : Rng) (e : Err)
    (h : (rekey msk rights n).1 = .error e) : (rekey msk rights n).2.1 = msk :=
  rekey_error_unchanged msk rights n e h

/-- `usk_keygen`: no user is registered when key generation fails -/
theorem keygen_failed_untouched (msk : Msk) (rights : List Right) (n : Rng) (e : Err)
    (h : (uskKeygen msk rights n).1 = .error e) : (uskKeygen msk rights n).2.1 = msk :=
  uskKeygen_error_unchanged msk rights n e h

/-- `refresh`: the user key is never emptied; the master key is untouched -/
theorem refresh_failed_untouched (msk : Msk) (usk : Usk) (keep : Bool) (n : Rng) (e : Err)
    (h : (refresh msk usk keep n).1 = .error e) (hlvl : usk.id.length = msk.ntracers) :
    (refresh msk usk keep n).2.2.1 = usk ∧ (refresh msk usk keep n).2.1 = msk :=
  ⟨(refresh_error_unchanged msk usk keep n e h).1, (refresh_error_unchanged msk usk keep n e h).2 hlvl⟩

/-- a master key holding one right -/
def exMsk : Msk :=
  { auth := 0, ntracers := 2, users := [], secrets := [([1], [(true, (⟨5, false⟩ : Sk))])],
    signKey := none, structure_ := Struct.empty }

/-- non-vacuity: a rekey that fails on its second right -/
example : (rekey exMsk [[1], [2]] 10).1 = .error .notPermitted := by rfl

end CC.Props.C10
