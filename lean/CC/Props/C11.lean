import CC.Lemmas.Prims
import CC.Lemmas.Comb
import CC.Lemmas.Refresh
import CC.Lemmas.Contig
/-! # C11 — post-quantum protection is applied exactly where the policy asks for it -/

namespace CC.Props.C11
open CC

/-- a right is hybridized iff at least one of its attributes was declared hybridized -/
theorem right_hint (ds : List Dim) (p : List Nat) (h r : Bool) (hm : (p, h, r) ∈ combine ds) :
    ∃ as, Choice ds as ∧ p = as.map (·.id) ∧ (h = true ↔ ∃ a ∈ as, a.hyb = true) := by
  obtain ⟨as, hc, hp, hh, _⟩ := (mem_combine ds p h r).1 hm
  exact ⟨as, hc, hp, by rw [hh]; simp [List.any_eq_true]⟩

/-- a secret created by `update_msk` for a new right has the flavour of the right's hint -/
theorem update_new_secret_flavour (secrets : RevMap) (r : Right) (hyb : Bool) (n : Rng)
    (h : secrets.getLatest r = none) :
    (updateLoop secrets [(r, hyb, false)] n).1 = .ok (secrets.insert r (true, ⟨n, hyb⟩)) := by
  simp [updateLoop, h]

/-- `rekey` keeps the flavour of every right -/
theorem rekey_keeps_flavour (secrets : RevMap) (rights : List Right) (n : Rng) (k : Right) :
    ((rekeyLoop secrets rights n).2.1.getLatest k).map (·.2.hyb) = (secrets.getLatest k).map (·.2.hyb) := by
  have := rekeyLoop_latest secrets rights n k
  cases h1 : (rekeyLoop secrets rights n).2.1.getLatest k <;> cases h2 : secrets.getLatest k <;>
    simp [h1, h2] at this ⊢
  exact this.2

/-- the public key of a right has the flavour of the master secret it is derived from -/
theorem mpk_flavour (msk : Msk) (r : Right) (pk : Sk) (h : (r, pk) ∈ msk.mpk.keys) :
    ∃ chain act, (r, chain) ∈ msk.secrets ∧ chain.head? = some (act, pk) := by
  unfold Msk.mpk at h
  simp only [List.mem_filterMap] at h
  obtain ⟨⟨r', chain⟩, hm, hh⟩ := h
  simp only [mpkEntry] at hh
  cases hc : chain.head? with
  | none => simp [hc] at hh
  | some v =>
    obtain ⟨act, sk⟩ := v
    cases act with
    | false => simp [hc] at hh
    | true =>
      simp only [hc, Option.some.injEq, Prod.mk.injEq] at hh
      obtain ⟨rfl, rfl⟩ := hh
      exact ⟨chain, true, hm, hc⟩

/-- refreshed user keys hold copies of master secrets, flavour included (ML-KEM material for
exactly the hybridized rights) -/
theorem refresh_copies_master (m u c : List Sk) (h : refreshChain m u = some c) : ∀ s ∈ c, s ∈ m :=
  refreshChain_sub_master m u c h

/-- an encapsulation is hybridized iff every public key it targets is hybridized -/
theorem encaps_hybrid_iff_all (mpk : Mpk) (targets : List Right) (n : Rng) (s : Nat) (x : XEnc)
    (h : (encaps mpk targets n).1 = .ok (s, x)) : x.hybrid = x.targets.all (·.hyb) := by
  unfold encaps at h
  cases hs : mpk.selectSubkeys targets with
  | error e => simp [hs] at h
  | ok v =>
    obtain ⟨hyb, ks⟩ := v
    simp only [hs, Except.ok.injEq, Prod.mk.injEq] at h
    obtain ⟨_, rfl⟩ := h
    unfold Mpk.selectSubkeys at hs
    cases hm : mapMExcept mpk.keyOf targets with
    | error e => simp [hm] at hs
    | ok ks' =>
      simp only [hm, Except.ok.injEq, Prod.mk.injEq] at hs
      obtain ⟨rfl, rfl⟩ := hs
      rfl

/-- in a hybridized encapsulation a classic secret opens nothing (the ML-KEM ciphertexts are
bound into the tag: see `CC.Props.C07`) -/
theorem classic_secret_opens_no_hybrid (s t : Sk) (h : s.hyb = false) : opens true s t = false := by
  simp [opens, h]

/-- **Flavours are coherent over every history.** In any reachable world, for every right of the
master key all of whose attributes still exist, the newest secret is hybridized exactly when one of
those attributes was declared hybridized (identifier by identifier: hints never change, whatever
edits, updates, rekeys, prunes happened). -/
theorem flavour_follows_hints (w : World) (hw : Reachable w) (r : Right) (c : List (Bool × Sk))
    (hl : w.msk.secrets.lookup r = some c) (ids : List Nat) (hr : r = Right.fromPoint ids)
    (hlive : ∀ i ∈ ids, w.msk.structure_.live i) (v : Bool × Sk) (hv : c.head? = some v) :
    v.2.hyb = ids.any w.msk.structure_.hybId :=
  (reachable_coh w hw).hint r c hl ids hr hlive v hv

/-- … so `update_msk` never strips the post-quantum part of a secret (the `drop_hybridization`
branch is a no-op in every reachable world): the secrets of surviving rights are untouched -/
theorem update_never_strips (w : World) (hw : Reachable w) (k : Right) (c : List (Bool × Sk))
    (hl : w.msk.secrets.lookup k = some c) :
    (w.step .update).msk.secrets.lookup k = none ∨
    ∃ c', (w.step .update).msk.secrets.lookup k = some c' ∧ c'.map (·.2) = c.map (·.2) :=
  update_keeps_secrets w hw k c hl

end CC.Props.C11
