import CC.Props.C01
import CC.Props.C02
import CC.Model.Sym
import CC.Lemmas.Rev
import CC.Generated.Consts
/-! # C12 — PKE and encrypted-header layers round-trip and authenticate

AES-256-GCM is idealised as in `CC.Model.Sym` (a sealed box opens only under the key, nonce and
associated data it was made with, and not at all once altered); the theorems are about the
composition: which key is derived from what, what is sealed with which associated data, the
framing and the length guard. -/

namespace CC.Props.C12
open CC

/-- PKE round trip: whoever decapsulates the right seed gets exactly the plaintext (any length) -/
theorem pke_roundtrip (usk : Usk) (x : XEnc) (nonce : Nat) (ptx : Bytes)
    (h : decaps usk x = some x.seed) :
    pkeDecrypt usk (x, aeSeal ⟨x.seed, labelPke⟩ nonce [] ptx) = .ok (some ptx) := by
  simp [pkeDecrypt, h, aeOpen, aeSeal]

/-- an unauthorised key gets `not authorized`, whatever the ciphertext bytes are -/
theorem pke_unauthorized (usk : Usk) (x : XEnc) (c : Sealed) (h : decaps usk x = none) :
    pkeDecrypt usk (x, c) = .ok none := by
  simp [pkeDecrypt, h]

/-- a truncated or altered ciphertext is an error for every key that decapsulates, never a panic
or wrong data (the length guard covers truncation below the nonce length) -/
theorem pke_tampered_rejected (usk : Usk) (x : XEnc) (c : Sealed) (seed : Nat)
    (h : decaps usk x = some seed) (ht : c.tamper ≠ .intact) :
    pkeDecrypt usk (x, c) = .error .crypto := by
  simp only [pkeDecrypt, h, aeOpen]
  cases hc : c.tamper with
  | intact => exact absurd hc ht
  | short => rfl
  | altered => rfl

/-- a ciphertext sealed for another encapsulation's seed does not open -/
theorem pke_wrong_seed_rejected (usk : Usk) (x : XEnc) (c : Sealed) (seed : Nat)
    (h : decaps usk x = some seed) (hk : c.key ≠ ⟨seed, labelPke⟩) :
    pkeDecrypt usk (x, c) = .error .crypto := by
  simp only [pkeDecrypt, h, aeOpen]
  cases c.tamper <;> simp [hk]

/-- header round trip: exact metadata (absent, empty or not) and the same secret as generation
returned, whenever the authentication data has the same content (absent = empty) -/
theorem header_roundtrip (usk : Usk) (x : XEnc) (nonce : Nat) (md ad ad' : Option Bytes)
    (h : decaps usk x = some x.seed) (had : adBytes ad' = adBytes ad) :
    hdrDecrypt usk ⟨x, md.map (aeSeal ⟨x.seed, labelHdrKey⟩ nonce (adBytes ad))⟩ ad' =
      .ok (some (⟨x.seed, labelHdrSecret⟩, md)) := by
  cases md with
  | none => simp [hdrDecrypt, h]
  | some m => simp [hdrDecrypt, h, aeOpen, aeSeal, had]

theorem header_unauthorized (usk : Usk) (hd : Header) (ad : Option Bytes) (h : decaps usk hd.enc = none) :
    hdrDecrypt usk hd ad = .ok none := by
  simp [hdrDecrypt, h]

/-- `C12_partial`: authentication data with a different content is rejected **when metadata is
present** -/
theorem header_ad_mismatch_rejected_partial (usk : Usk) (x : XEnc) (nonce : Nat) (m : Bytes) (ad ad' : Option Bytes)
    (h : decaps usk x = some x.seed) (had : adBytes ad' ≠ adBytes ad) :
    hdrDecrypt usk ⟨x, some (aeSeal ⟨x.seed, labelHdrKey⟩ nonce (adBytes ad) m)⟩ ad' = .error .crypto := by
  simp [hdrDecrypt, h, aeOpen, aeSeal, Ne.symm had]

/-- The full statement is false of the code and of the model (known finding D12): with no
metadata nothing is sealed, so the authentication data is not bound. Concrete witness. -/
theorem header_ad_unbound_without_metadata (usk : Usk) (x : XEnc) (h : decaps usk x = some x.seed) :
    hdrDecrypt usk ⟨x, none⟩ (some [1, 2, 3]) = .ok (some (⟨x.seed, labelHdrSecret⟩, none)) := by
  simp [hdrDecrypt, h]

theorem header_tampered_rejected (usk : Usk) (x : XEnc) (c : Sealed) (seed : Nat) (ad : Option Bytes)
    (h : decaps usk x = some seed) (ht : c.tamper ≠ .intact) :
    hdrDecrypt usk ⟨x, some c⟩ ad = .error .crypto := by
  simp only [hdrDecrypt, h, aeOpen]
  cases hc : c.tamper with
  | intact => exact absurd hc ht
  | short => rfl
  | altered => rfl

/-- the metadata encryption key differs from the secret handed to the caller, and both differ from
the PKE key: the derivation labels are pairwise distinct — on the labels *read from the source*
(`CC.Generated.Consts`, regenerated on every run) -/
theorem labels_distinct : CC.Generated.labelsAvailable = true →
    CC.Generated.LABEL_HEADER_METADATA_KEY ≠ CC.Generated.LABEL_HEADER_SECRET ∧
    CC.Generated.LABEL_HEADER_METADATA_KEY ≠ CC.Generated.LABEL_PKE_KEY ∧
    CC.Generated.LABEL_HEADER_SECRET ≠ CC.Generated.LABEL_PKE_KEY := by decide

/-- the model uses exactly the labels of the source -/
theorem labels_match_source : CC.Generated.labelsAvailable = true →
    labelPke = CC.Generated.LABEL_PKE_KEY ∧ labelHdrKey = CC.Generated.LABEL_HEADER_METADATA_KEY ∧
    labelHdrSecret = CC.Generated.LABEL_HEADER_SECRET := by decide

theorem header_secret_ne_metadata_key (seed : Nat) :
    (⟨seed, labelHdrSecret⟩ : DKey) ≠ ⟨seed, labelHdrKey⟩ := by
  intro h; injection h with _ h2; revert h2; decide

end CC.Props.C12

/-! ## end to end, over every history

The layer theorems above take "the key decapsulates" as a hypothesis; composed with the
reachable-world theorems of C01 / C02 they speak about the API: in **any** world reachable from
`setup`, a key just generated for policy `u` and a ciphertext / header just made under the current
public key for policy `e`. -/

namespace CC.Props.C12
open CC

/-- an authorised key decrypts a PKE ciphertext to the exact plaintext -/
theorem pke_authorized_reachable (w : World) (hw : Reachable w) (u e : AP)
    (hu : Spec.policyWf w.msk.structure_ u = true) (he : Spec.policyWf w.msk.structure_ e = true)
    (ru re : List Right) (hru : w.msk.structure_.uskRights u = .ok ru) (hre : w.msk.mpk.structure_.encRights e = .ok re)
    (n n' : Rng) (usk : Usk) (ptx : Bytes) (x : XEnc) (c : Sealed)
    (hk : (uskKeygen w.msk ru n).1 = .ok usk) (hen : (pkeEncrypt w.msk.mpk re ptx n').1 = .ok (x, c))
    (hcov : Spec.covers w.msk.structure_ u e = true) : pkeDecrypt usk (x, c) = .ok (some ptx) := by
  unfold pkeEncrypt at hen
  rcases he' : encaps w.msk.mpk re n' with ⟨res, n''⟩
  rw [he'] at hen
  cases res with
  | error err => simp at hen
  | ok v =>
    obtain ⟨seed, x0⟩ := v
    simp only [Except.ok.injEq, Prod.mk.injEq] at hen
    obtain ⟨rfl, rfl⟩ := hen
    have hen' : (encaps w.msk.mpk re n').1 = .ok (seed, x0) := by rw [he']
    have hd := C01.authorized_opens_reachable w hw u e hu he ru re hru hre n n' usk seed x0 hk hen' hcov
    simp [pkeDecrypt, hd, aeOpen, aeSeal]

/-- an unauthorised key gets `not authorized`, never data -/
theorem pke_unauthorized_reachable (w : World) (hw : Reachable w) (u e : AP)
    (hu : Spec.policyWf w.msk.structure_ u = true) (he : Spec.policyWf w.msk.structure_ e = true)
    (ru re : List Right) (hru : w.msk.structure_.uskRights u = .ok ru) (hre : w.msk.mpk.structure_.encRights e = .ok re)
    (n n' : Rng) (usk : Usk) (ptx : Bytes) (x : XEnc) (c : Sealed)
    (hk : (uskKeygen w.msk ru n).1 = .ok usk) (hen : (pkeEncrypt w.msk.mpk re ptx n').1 = .ok (x, c))
    (hcov : Spec.covers w.msk.structure_ u e = false) : pkeDecrypt usk (x, c) = .ok none := by
  unfold pkeEncrypt at hen
  rcases he' : encaps w.msk.mpk re n' with ⟨res, n''⟩
  rw [he'] at hen
  cases res with
  | error err => simp at hen
  | ok v =>
    obtain ⟨seed, x0⟩ := v
    simp only [Except.ok.injEq, Prod.mk.injEq] at hen
    obtain ⟨rfl, rfl⟩ := hen
    have hen' : (encaps w.msk.mpk re n').1 = .ok (seed, x0) := by rw [he']
    have hd := C02.unauthorized_gets_nothing_reachable w hw u e hu he ru re hru hre n n' usk seed x0 hk hen' hcov
    simp [pkeDecrypt, hd]

/-- an authorised key opens a header to the exact metadata (absent, empty or not) and to the very
secret that generation returned, when given authentication data with the same content (absent and
empty being the same) -/
theorem header_authorized_reachable (w : World) (hw : Reachable w) (u e : AP)
    (hu : Spec.policyWf w.msk.structure_ u = true) (he : Spec.policyWf w.msk.structure_ e = true)
    (ru re : List Right) (hru : w.msk.structure_.uskRights u = .ok ru) (hre : w.msk.mpk.structure_.encRights e = .ok re)
    (n n' : Rng) (usk : Usk) (md ad ad' : Option Bytes) (sec : DKey) (hd : Header)
    (hk : (uskKeygen w.msk ru n).1 = .ok usk) (hg : (hdrGenerate w.msk.mpk re md ad n').1 = .ok (sec, hd))
    (hcov : Spec.covers w.msk.structure_ u e = true) (had : adBytes ad' = adBytes ad) :
    hdrDecrypt usk hd ad' = .ok (some (sec, md)) := by
  unfold hdrGenerate at hg
  rcases he' : encaps w.msk.mpk re n' with ⟨res, n''⟩
  rw [he'] at hg
  cases res with
  | error err => simp at hg
  | ok v =>
    obtain ⟨seed, x0⟩ := v
    have hen' : (encaps w.msk.mpk re n').1 = .ok (seed, x0) := by rw [he']
    have hdc := C01.authorized_opens_reachable w hw u e hu he ru re hru hre n n' usk seed x0 hk hen' hcov
    cases md with
    | none =>
      simp only [Except.ok.injEq, Prod.mk.injEq] at hg
      obtain ⟨rfl, rfl⟩ := hg
      simp [hdrDecrypt, hdc]
    | some m =>
      simp only [Except.ok.injEq, Prod.mk.injEq] at hg
      obtain ⟨rfl, rfl⟩ := hg
      simp [hdrDecrypt, hdc, aeOpen, aeSeal, had]

/-- an unauthorised key learns nothing from a header -/
theorem header_unauthorized_reachable (w : World) (hw : Reachable w) (u e : AP)
    (hu : Spec.policyWf w.msk.structure_ u = true) (he : Spec.policyWf w.msk.structure_ e = true)
    (ru re : List Right) (hru : w.msk.structure_.uskRights u = .ok ru) (hre : w.msk.mpk.structure_.encRights e = .ok re)
    (n n' : Rng) (usk : Usk) (md ad ad' : Option Bytes) (sec : DKey) (hd : Header)
    (hk : (uskKeygen w.msk ru n).1 = .ok usk) (hg : (hdrGenerate w.msk.mpk re md ad n').1 = .ok (sec, hd))
    (hcov : Spec.covers w.msk.structure_ u e = false) : hdrDecrypt usk hd ad' = .ok none := by
  unfold hdrGenerate at hg
  rcases he' : encaps w.msk.mpk re n' with ⟨res, n''⟩
  rw [he'] at hg
  cases res with
  | error err => simp at hg
  | ok v =>
    obtain ⟨seed, x0⟩ := v
    have hen' : (encaps w.msk.mpk re n').1 = .ok (seed, x0) := by rw [he']
    have hdc := C02.unauthorized_gets_nothing_reachable w hw u e hu he ru re hru hre n n' usk seed x0 hk hen' hcov
    cases md with
    | none =>
      simp only [Except.ok.injEq, Prod.mk.injEq] at hg
      obtain ⟨rfl, rfl⟩ := hg
      simp [hdrDecrypt, hdc]
    | some m =>
      simp only [Except.ok.injEq, Prod.mk.injEq] at hg
      obtain ⟨rfl, rfl⟩ := hg
      simp [hdrDecrypt, hdc]

end CC.Props.C12
