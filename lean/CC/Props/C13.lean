import CC.Lemmas.Wire
/-! # C13 — serialized objects are faithful and stable

For every wire type: decoding the encoding of a well-formed value (followed by anything) gives
back exactly that value and the rest — fixed-size leaves, counts and lengths below 2^64, flags in
range, UTF-8 names. Well-formedness is an explicit predicate; the correspondence check shows that
the objects the real code produces are accepted byte-exactly by these decoders and re-encoded to
the same bytes, and that `length()` is the length of the encoding. -/

namespace CC.Props.C13
open CC CC.Wire

def WfAttr (a : WAttr) : Prop :=
  validUtf8 a.name = true ∧ a.name.length < 2 ^ 64 ∧ a.id < 2 ^ 64 ∧ a.hint ≤ 1 ∧ a.status ≤ 1

theorem attr_roundtrip (a : WAttr) (h : WfAttr a) (rest : Bytes) : attr (encAttr a ++ rest) = some (a, rest) := by
  obtain ⟨h1, h2, h3, h4, h5⟩ := h
  have h4' : a.hint < 2 ^ 64 := by omega
  have h5' : a.status < 2 ^ 64 := by omega
  have h4'' : ¬ a.hint > 1 := by omega
  have h5'' : ¬ a.status > 1 := by omega
  unfold attr encAttr
  simp only [List.append_assoc, vec_wvec _ _ h2, h1, Bool.not_true, Bool.false_eq_true, if_false,
    leb_wleb _ h3, leb_wleb _ h4', leb_wleb _ h5', h4'', h5'']

def WfDim (d : WDim) : Prop :=
  validUtf8 d.name = true ∧ d.name.length < 2 ^ 64 ∧ d.ordered ≤ 1 ∧ d.attrs.length < 2 ^ 64 ∧
    ∀ a ∈ d.attrs, WfAttr a

theorem dim_roundtrip (d : WDim) (h : WfDim d) (rest : Bytes) : dim (encDim d ++ rest) = some (d, rest) := by
  obtain ⟨h1, h2, h3, h4, h5⟩ := h
  have h3' : d.ordered < 2 ^ 64 := by omega
  have h3'' : ¬ d.ordered > 1 := by omega
  unfold dim encDim
  simp only [List.append_assoc, vec_wvec _ _ h2, h1, Bool.not_true, Bool.false_eq_true, if_false,
    leb_wleb _ h3', leb_wleb _ h4,
    many_flatMap attr encAttr d.attrs rest (fun a ha r => attr_roundtrip a (h5 a ha) r), h3'']

def WfStruct (s : WStruct) : Prop :=
  ((s.version = 1 ∧ ∃ n, s.nextId = some n ∧ n < 2 ^ 64) ∨
    (s.version = 0 ∧ s.nextId = none ∧ ∀ d ∈ s.dims, ∀ a ∈ d.attrs, a.id + 1 < 2 ^ 64)) ∧
    s.dims.length < 2 ^ 64 ∧ ∀ d ∈ s.dims, WfDim d

theorem struct_roundtrip (s : WStruct) (h : WfStruct s) (rest : Bytes) :
    struct_ (encStruct s ++ rest) = some (s, rest) := by
  obtain ⟨hv, h2, h3⟩ := h
  have hm := many_flatMap dim encDim s.dims rest (fun d hd r => dim_roundtrip d (h3 d hd) r)
  obtain ⟨version, nextId, dims⟩ := s
  simp only at hv h2 h3 hm
  unfold struct_ encStruct
  rcases hv with ⟨hv, n, hn, hlt⟩ | ⟨hv, hn, hids⟩
  · subst hv; subst hn
    have h1 : (1 : Nat) < 2 ^ 64 := by omega
    simp only [List.append_assoc, leb_wleb _ h1, show ¬ (1 > 1) by omega, if_false, if_true,
      leb_wleb _ hlt, Option.map_some, leb_wleb _ h2, hm, show ¬ ((1 : Nat) = 0) by omega, false_and]
  · subst hv; subst hn
    have h0 : (0 : Nat) < 2 ^ 64 := by omega
    have hany : dims.any (fun d => d.attrs.any (fun a => decide (2 ^ 64 ≤ a.id + 1))) = false := by
      rw [List.any_eq_false]
      intro d hd
      rw [Bool.not_eq_true, List.any_eq_false]
      intro a ha
      have := hids d hd a ha
      simp only [decide_eq_true_eq]; omega
    simp only [List.append_assoc, leb_wleb _ h0, show ¬ (0 > 1) by omega, if_false,
      show ¬ ((0 : Nat) = 1) by omega, List.nil_append, leb_wleb _ h2, hm, hany, Bool.false_eq_true, and_false]

/-- a key leaf pair of the right sizes: second leaf present iff hybridized -/
def WfKey (la lb : Nat) (k : WKey) : Prop :=
  k.a.length = la ∧ (if k.hyb then k.b.length = lb else k.b = [])

theorem key_roundtrip (first : Dec Bytes) (la lb : Nat) (k : WKey) (h : WfKey la lb k) (rest : Bytes)
    (hfirst : ∀ r, first (k.a ++ r) = some (k.a, r)) :
    key first lb (encKey k ++ rest) = some (k, rest) := by
  obtain ⟨_, hb⟩ := h
  obtain ⟨hyb, a, b⟩ := k
  simp only at hb hfirst
  unfold key encKey
  cases hyb with
  | true =>
    simp only [if_true] at hb
    have h1 : (1 : Nat) < 2 ^ 64 := by omega
    simp only [if_true, List.append_assoc, leb_wleb _ h1, hfirst, takeN_append _ _ _ hb]
  | false =>
    simp only [Bool.false_eq_true, if_false] at hb
    subst hb
    have h0 : (0 : Nat) < 2 ^ 64 := by omega
    simp only [Bool.false_eq_true, if_false, List.append_assoc, leb_wleb _ h0, hfirst, List.append_nil,
      List.nil_append, show ¬ ((0 : Nat) = 1) by omega, if_true]

theorem sk_roundtrip (c : Cfg) (b rest : Bytes) (h : b.length = c.sk) (hv : c.validSk b = true) :
    sk c (b ++ rest) = some (b, rest) := by
  unfold sk; rw [takeN_append _ _ _ h]; simp [hv]

theorem pk_roundtrip (c : Cfg) (b rest : Bytes) (h : b.length = c.pk) (hv : c.validPk b = true) :
    pk c (b ++ rest) = some (b, rest) := by
  unfold pk; rw [takeN_append _ _ _ h]; simp [hv]

/-- counted sequences -/
theorem counted_roundtrip {α : Type} (d : Dec α) (e : α → Bytes) (l : List α) (ne : Bool) (rest : Bytes)
    (hlen : l.length < 2 ^ 64) (hne : ne = true → l ≠ [])
    (h : ∀ x ∈ l, ∀ r, d (e x ++ r) = some (x, r)) :
    counted d ne (wleb l.length ++ l.flatMap e ++ rest) = some (l, rest) := by
  unfold counted
  rw [List.append_assoc, leb_wleb _ hlen]
  simp only
  have : ¬ ((ne && l.length == 0) = true) := by
    cases ne with
    | false => simp
    | true => simp; exact hne rfl
  simp only [this, if_false]
  exact many_flatMap d e l rest h

def WfEnc (c : Cfg) (x : WEnc) : Prop :=
  x.tag.length = TAG ∧ x.c ≠ [] ∧ x.c.length < 2 ^ 64 ∧ (∀ p ∈ x.c, p.length = c.pk ∧ c.validPk p = true) ∧
    x.encs.length < 2 ^ 64 ∧
    ∀ p ∈ x.encs, p.2.length = SS ∧ (if x.hyb then p.1.length = c.enc else p.1 = [])

theorem encItemH_roundtrip (c : Cfg) (p : Bytes × Bytes) (h1 : p.1.length = c.enc) (h2 : p.2.length = SS) (r : Bytes) :
    encItemH c ((p.1 ++ p.2) ++ r) = some (p, r) := by
  unfold encItemH
  simp only [List.append_assoc, takeN_append _ _ _ h1, takeN_append _ _ _ h2, Option.map_some]

theorem encItemC_roundtrip (p : Bytes × Bytes) (h1 : p.1 = []) (h2 : p.2.length = SS) (r : Bytes) :
    encItemC ((p.1 ++ p.2) ++ r) = some (p, r) := by
  obtain ⟨p1, p2⟩ := p
  simp only at h1 h2
  subst h1
  unfold encItemC
  simp only [List.nil_append, takeN_append _ _ _ h2, Option.map_some]

/-- encapsulations (classic and hybridized) round-trip -/
theorem xenc_roundtrip (c : Cfg) (x : WEnc) (h : WfEnc c x) (rest : Bytes) :
    xenc c (encXenc x ++ rest) = some (x, rest) := by
  obtain ⟨h1, h2, h3, h4, h5, h6⟩ := h
  obtain ⟨tag, cs, hyb, encs⟩ := x
  simp only at h1 h2 h3 h4 h5 h6
  unfold xenc encXenc
  have hc : ∀ r, counted (pk c) true (wleb cs.length ++ (cs.flatten ++ r)) = some (cs, r) := by
    intro r
    have := counted_roundtrip (pk c) id cs true r h3 (fun _ => h2)
      (fun p hp r => pk_roundtrip c p r (h4 p hp).1 (h4 p hp).2)
    simpa [List.flatMap_id, List.append_assoc] using this
  cases hyb with
  | true =>
    simp only [if_true] at h6
    have h1' : (1 : Nat) < 2 ^ 64 := by omega
    have he := counted_roundtrip (encItemH c) (fun p => p.1 ++ p.2) encs false rest h5 (by simp)
      (fun p hp r => encItemH_roundtrip c p (h6 p hp).2 (h6 p hp).1 r)
    simp only [List.append_assoc] at he
    simp only [if_true, List.append_assoc, takeN_append _ _ _ h1, hc, leb_wleb _ h1', he, Option.map_some]
  | false =>
    simp only [Bool.false_eq_true, if_false] at h6
    have h0 : (0 : Nat) < 2 ^ 64 := by omega
    have he := counted_roundtrip encItemC (fun p => p.1 ++ p.2) encs false rest h5 (by simp)
      (fun p hp r => encItemC_roundtrip p (h6 p hp).2 (h6 p hp).1 r)
    simp only [List.append_assoc] at he
    simp only [Bool.false_eq_true, if_false, List.append_assoc, takeN_append _ _ _ h1, hc, leb_wleb _ h0,
      show ¬ ((0 : Nat) = 1) by omega, if_true, he, Option.map_some]

/-- absent and empty header metadata are the same value on the wire: an empty ciphertext is read
back as absent (`norm`), everything else is the identity -/
def normMdata : Option Bytes → Option Bytes
  | some [] => none
  | m => m

theorem header_roundtrip (c : Cfg) (h : WHeader) (hx : WfEnc c h.enc)
    (hm : ∀ b, h.mdata = some b → b.length < 2 ^ 64) (rest : Bytes) :
    header c (encHeader h ++ rest) = some (⟨h.enc, normMdata h.mdata⟩, rest) := by
  unfold header encHeader
  simp only [List.append_assoc]
  rw [xenc_roundtrip c h.enc hx]
  simp only
  cases hmd : h.mdata with
  | none =>
    simp only
    rw [vec_wvec _ _ (by simp)]
    simp [normMdata]
  | some b =>
    simp only
    rw [vec_wvec _ _ (hm b hmd)]
    cases b <;> simp [normMdata]

theorem clear_roundtrip (cl : WClear) (hs : cl.secret.length = SS)
    (hm : ∀ b, cl.mdata = some b → b.length < 2 ^ 64) (rest : Bytes) :
    clear (encClear cl ++ rest) = some (⟨cl.secret, normMdata cl.mdata⟩, rest) := by
  unfold clear encClear
  simp only [List.append_assoc]
  rw [takeN_append _ _ _ hs]
  simp only
  cases hmd : cl.mdata with
  | none =>
    simp only
    rw [vec_wvec _ _ (by simp)]
    simp [normMdata]
  | some b =>
    simp only
    rw [vec_wvec _ _ (hm b hmd)]
    cases b <;> simp [normMdata]

/-! ### keys -/

def WfLeafPk (c : Cfg) (p : Bytes) : Prop := p.length = c.pk ∧ c.validPk p = true
def WfLeafSk (c : Cfg) (p : Bytes) : Prop := p.length = c.sk ∧ c.validSk p = true

def WfMpk (c : Cfg) (m : WMpk) : Prop :=
  m.tpk ≠ [] ∧ m.tpk.length < 2 ^ 64 ∧ (∀ p ∈ m.tpk, WfLeafPk c p) ∧ m.keys.length < 2 ^ 64 ∧
    (∀ p ∈ m.keys, p.1.length < 2 ^ 64 ∧ WfKey c.pk c.ek p.2 ∧ c.validPk p.2.a = true) ∧ WfStruct m.structure_

theorem mpkItem_roundtrip (c : Cfg) (p : Bytes × WKey) (h1 : p.1.length < 2 ^ 64) (h2 : WfKey c.pk c.ek p.2)
    (h3 : c.validPk p.2.a = true) (r : Bytes) : mpkItem c ((wvec p.1 ++ encKey p.2) ++ r) = some (p, r) := by
  unfold mpkItem
  simp only [List.append_assoc, vec_wvec _ _ h1,
    key_roundtrip (pk c) c.pk c.ek p.2 h2 r (fun r' => pk_roundtrip c p.2.a r' h2.1 h3), Option.map_some]

/-- master public keys round-trip -/
theorem mpk_roundtrip (c : Cfg) (m : WMpk) (h : WfMpk c m) (rest : Bytes) :
    mpk c (encMpk m ++ rest) = some (m, rest) := by
  obtain ⟨h1, h2, h3, h4, h5, h6⟩ := h
  obtain ⟨tpk, keys, st⟩ := m
  simp only at h1 h2 h3 h4 h5 h6
  unfold mpk encMpk
  have hc : ∀ r, counted (pk c) true (wleb tpk.length ++ (tpk.flatten ++ r)) = some (tpk, r) := by
    intro r
    have := counted_roundtrip (pk c) id tpk true r h2 (fun _ => h1)
      (fun p hp r => pk_roundtrip c p r (h3 p hp).1 (h3 p hp).2)
    simpa [List.flatMap_id, List.append_assoc] using this
  have hk := counted_roundtrip (mpkItem c) (fun p => wvec p.1 ++ encKey p.2) keys false (encStruct st ++ rest) h4 (by simp)
    (fun p hp r => mpkItem_roundtrip c p (h5 p hp).1 (h5 p hp).2.1 (h5 p hp).2.2 r)
  simp only [List.append_assoc] at hk
  simp only [List.append_assoc, hc, hk, struct_roundtrip st h6]

def WfUsk (c : Cfg) (u : WUsk) : Prop :=
  u.id ≠ [] ∧ u.id.length < 2 ^ 64 ∧ (∀ p ∈ u.id, WfLeafSk c p) ∧
    u.ps.length < 2 ^ 64 ∧ (∀ p ∈ u.ps, WfLeafPk c p) ∧ u.secrets.length < 2 ^ 64 ∧
    (∀ p ∈ u.secrets, p.1.length < 2 ^ 64 ∧ p.2 ≠ [] ∧ p.2.length < 2 ^ 64 ∧
      ∀ k ∈ p.2, WfKey c.sk c.dk k ∧ c.validSk k.a = true) ∧
    (∀ s, u.signature = some s → s.length = SIG)

theorem uskItem_roundtrip (c : Cfg) (p : Bytes × List WKey) (h1 : p.1.length < 2 ^ 64) (h2 : p.2.length < 2 ^ 64)
    (h3 : ∀ k ∈ p.2, WfKey c.sk c.dk k ∧ c.validSk k.a = true) (r : Bytes) :
    uskItem c ((wvec p.1 ++ wleb p.2.length ++ p.2.flatMap encKey) ++ r) = some (p, r) := by
  unfold uskItem
  have hk := counted_roundtrip (key (sk c) c.dk) encKey p.2 false r h2 (by simp)
    (fun k hk r' => key_roundtrip (sk c) c.sk c.dk k (h3 k hk).1 r'
      (fun r'' => sk_roundtrip c k.a r'' (h3 k hk).1.1 (h3 k hk).2))
  simp only [List.append_assoc] at hk
  simp only [List.append_assoc, vec_wvec _ _ h1, hk, Option.map_some]

/-- user keys (any number of rights and revisions, classic and hybridized, signed) round-trip
through `deserialize` -/
theorem usk_roundtrip (c : Cfg) (u : WUsk) (h : WfUsk c u) (hsig : u.signature ≠ none) :
    deserialize (usk c) (encUsk u) = some u := by
  obtain ⟨h1, h2, h3, h4, h5, h6, h7, h8⟩ := h
  obtain ⟨uid, ps, secrets, sig⟩ := u
  simp only at h1 h2 h3 h4 h5 h6 h7 h8 hsig
  cases sig with
  | none => exact absurd rfl hsig
  | some s =>
    have hs : s.length = SIG := h8 s rfl
    have hid : ∀ r, userId c (wleb uid.length ++ (uid.flatten ++ r)) = some (uid, r) := by
      intro r
      have := counted_roundtrip (sk c) id uid true r h2 (fun _ => h1)
        (fun p hp r => sk_roundtrip c p r (h3 p hp).1 (h3 p hp).2)
      simpa [userId, List.flatMap_id, List.append_assoc] using this
    have hps : ∀ r, counted (pk c) false (wleb ps.length ++ (ps.flatten ++ r)) = some (ps, r) := by
      intro r
      have := counted_roundtrip (pk c) id ps false r h4 (by simp)
        (fun p hp r => pk_roundtrip c p r (h5 p hp).1 (h5 p hp).2)
      simpa [List.flatMap_id, List.append_assoc] using this
    have hsec := counted_roundtrip (uskItem c) (fun p => wvec p.1 ++ wleb p.2.length ++ p.2.flatMap encKey) secrets false s h6 (by simp)
      (fun p hp r => uskItem_roundtrip c p (h7 p hp).1 (h7 p hp).2.2.1 (h7 p hp).2.2.2 r)
    simp only [List.append_assoc] at hsec
    have hfilter : secrets.filter (fun p => !p.2.isEmpty) = secrets := by
      apply List.filter_eq_self.2
      intro p hp
      have := (h7 p hp).2.1
      cases hc : p.2 with
      | nil => exact absurd hc this
      | cons _ _ => simp
    have hne : encUsk ⟨uid, ps, secrets, some s⟩ ≠ [] := by
      unfold encUsk encUserId wleb
      have := Leb.enc_ne_nil' uid.length
      intro hc
      simp only [List.append_assoc, List.append_eq_nil_iff] at hc
      exact this hc.1
    unfold deserialize
    have hemp : (encUsk ⟨uid, ps, secrets, some s⟩).isEmpty = false := by
      cases hh : encUsk ⟨uid, ps, secrets, some s⟩ with
      | nil => exact absurd hh hne
      | cons _ _ => rfl
    simp only [hemp, Bool.false_eq_true, if_false]
    unfold usk encUsk encUserId
    have hlen : ¬ (s.length < SIG) := by omega
    have htake : takeN SIG s = some (s, []) := by
      have := takeN_append s [] SIG hs
      simpa using this
    simp only [List.append_assoc, hid, hps, hsec, hfilter, hlen, if_false, htake, Option.map_some]

def WfMsk (c : Cfg) (m : WMsk) : Prop :=
  WfLeafSk c m.s ∧ m.tracers ≠ [] ∧ m.tracers.length < 2 ^ 64 ∧ (∀ t ∈ m.tracers, WfLeafSk c t.1 ∧ WfLeafPk c t.2) ∧
    m.users.length < 2 ^ 64 ∧ (∀ u ∈ m.users, u ≠ [] ∧ u.length < 2 ^ 64 ∧ ∀ x ∈ u, WfLeafSk c x) ∧
    m.secrets.length < 2 ^ 64 ∧
    (∀ p ∈ m.secrets, p.1.length < 2 ^ 64 ∧ p.2.length < 2 ^ 64 ∧ ∀ q ∈ p.2, WfKey c.sk c.dk q.2 ∧ c.validSk q.2.a = true) ∧
    (∃ k, m.signingKey = some k ∧ k.length = SIGK) ∧ WfStruct m.structure_

theorem tracer_roundtrip (c : Cfg) (t : Bytes × Bytes) (h1 : WfLeafSk c t.1) (h2 : WfLeafPk c t.2) (r : Bytes) :
    tracer c ((t.1 ++ t.2) ++ r) = some (t, r) := by
  unfold tracer
  simp only [List.append_assoc, sk_roundtrip c t.1 _ h1.1 h1.2, pk_roundtrip c t.2 r h2.1 h2.2, Option.map_some]

theorem userId_roundtrip (c : Cfg) (u : List Bytes) (h1 : u ≠ []) (h2 : u.length < 2 ^ 64)
    (h3 : ∀ x ∈ u, WfLeafSk c x) (r : Bytes) : userId c (encUserId u ++ r) = some (u, r) := by
  have := counted_roundtrip (sk c) id u true r h2 (fun _ => h1)
    (fun p hp r => sk_roundtrip c p r (h3 p hp).1 (h3 p hp).2)
  simpa [userId, encUserId, List.flatMap_id, List.append_assoc] using this

theorem mskChainItem_roundtrip (c : Cfg) (q : Bool × WKey) (h : WfKey c.sk c.dk q.2) (hv : c.validSk q.2.a = true) (r : Bytes) :
    mskChainItem c ((wleb (if q.1 then 1 else 0) ++ encKey q.2) ++ r) = some (q, r) := by
  unfold mskChainItem
  obtain ⟨b, k⟩ := q
  cases b with
  | true =>
    have h1 : (1 : Nat) < 2 ^ 64 := by omega
    simp only [if_true, List.append_assoc, leb_wleb _ h1,
      key_roundtrip (sk c) c.sk c.dk k h r (fun r' => sk_roundtrip c k.a r' h.1 hv), Option.map_some]
    rfl
  | false =>
    have h0 : (0 : Nat) < 2 ^ 64 := by omega
    simp only [Bool.false_eq_true, if_false, List.append_assoc, leb_wleb _ h0,
      key_roundtrip (sk c) c.sk c.dk k h r (fun r' => sk_roundtrip c k.a r' h.1 hv), Option.map_some]
    rfl

theorem mskItem_roundtrip (c : Cfg) (p : Bytes × List (Bool × WKey)) (h1 : p.1.length < 2 ^ 64) (h2 : p.2.length < 2 ^ 64)
    (h3 : ∀ q ∈ p.2, WfKey c.sk c.dk q.2 ∧ c.validSk q.2.a = true) (r : Bytes) :
    mskItem c ((wvec p.1 ++ wleb p.2.length ++ p.2.flatMap (fun q => wleb (if q.1 then 1 else 0) ++ encKey q.2)) ++ r) = some (p, r) := by
  unfold mskItem
  have hk := counted_roundtrip (mskChainItem c) (fun q => wleb (if q.1 then 1 else 0) ++ encKey q.2) p.2 false r h2 (by simp)
    (fun q hq r' => mskChainItem_roundtrip c q (h3 q hq).1 (h3 q hq).2 r')
  simp only [List.append_assoc] at hk
  simp only [List.append_assoc, vec_wvec _ _ h1, hk, Option.map_some]

/-- master keys (any number of tracers, users, rights and revisions, signing key present) round-trip -/
theorem msk_roundtrip (c : Cfg) (m : WMsk) (h : WfMsk c m) (rest : Bytes) :
    msk c (encMsk m ++ rest) = some (m, rest) := by
  obtain ⟨h1, h2, h3, h4, h5, h6, h7, h8, ⟨k, hk, hkl⟩, h10⟩ := h
  obtain ⟨s, tracers, users, secrets, sig, st⟩ := m
  simp only at h1 h2 h3 h4 h5 h6 h7 h8 hk h10
  subst hk
  unfold msk encMsk
  have ht := fun r => counted_roundtrip (tracer c) (fun p => p.1 ++ p.2) tracers true r h3 (fun _ => h2)
    (fun t ht r' => tracer_roundtrip c t (h4 t ht).1 (h4 t ht).2 r')
  have hu := fun r => counted_roundtrip (userId c) encUserId users false r h5 (by simp)
    (fun u hu r' => userId_roundtrip c u (h6 u hu).1 (h6 u hu).2.1 (h6 u hu).2.2 r')
  have hs := fun r => counted_roundtrip (mskItem c)
    (fun p => wvec p.1 ++ wleb p.2.length ++ p.2.flatMap (fun q => wleb (if q.1 then 1 else 0) ++ encKey q.2)) secrets false r h7 (by simp)
    (fun p hp r' => mskItem_roundtrip c p (h8 p hp).1 (h8 p hp).2.1 (h8 p hp).2.2 r')
  simp only [List.append_assoc] at ht hu hs
  have hlen : ¬ ((k ++ (encStruct st ++ rest)).length < SIGK) := by simp [hkl]
  simp only [List.append_assoc, sk_roundtrip c s _ h1.1 h1.2, ht, hu, hs, hlen, if_false,
    takeN_append _ _ _ hkl, Option.map_some, struct_roundtrip st h10]

/-- LEB128 round trip on the full `u64` range, and its announced length -/
theorem leb_roundtrip (n : Nat) (h : n < 2 ^ 64) (rest : Bytes) : leb (wleb n ++ rest) = some (n, rest) :=
  leb_wleb n h rest

/-- non-vacuity: a classic two-target encapsulation of the Curve25519 configuration -/
example : WfEnc cfgC25519 ⟨List.replicate 16 0, [List.replicate 32 1, List.replicate 32 2], false,
    [([], List.replicate 32 3), ([], List.replicate 32 4)]⟩ := by
  refine ⟨by decide, by simp, by simp, ?_, by simp, ?_⟩
  · intro p hp; simp at hp; rcases hp with rfl | rfl <;> simp [cfgC25519]
  · intro p hp; simp at hp; rcases hp with rfl | rfl <;> simp [SS]

end CC.Props.C13
