import CC.Props.C13
import CC.Lemmas.Leb
import CC.Model.WireLen
/-! # C13 — "serialization has exactly the announced length"

`length()` is computed by the code without serialising (see `CC.Model.WireLen`); the buffer is
allocated with that size. For every well-formed object — the same predicates as the round-trip
theorems, minus what lengths do not depend on — the announced length is the length of the
encoding, whatever the number of tracers, users, rights, revisions, dimensions, attributes and
the sizes of names and identifiers. -/

namespace CC.Props.C13
open CC CC.Wire

theorem wleb_length (n : Nat) : (wleb n).length = lebLen n := Leb.enc_length n

theorem lebLen_small (n : Nat) (h : n < 128) : lebLen n = 1 := by
  unfold lebLen Leb.len; simp [h]

theorem wvec_length (b : Bytes) : (wvec b).length = lenNamed b 0 := by
  simp [wvec, lenNamed, wleb_length]

theorem length_flatMap_eq {α : Type} (l : List α) (f : α → Bytes) (g : α → Nat)
    (h : ∀ x ∈ l, (f x).length = g x) : (l.flatMap f).length = (l.map g).sum := by
  induction l with
  | nil => simp
  | cons x xs ih =>
    simp only [List.flatMap_cons, List.length_append, List.map_cons, List.sum_cons]
    rw [h x (by simp), ih (fun y hy => h y (by simp [hy]))]

theorem length_flatten_eq (l : List Bytes) (k : Nat) (h : ∀ x ∈ l, x.length = k) :
    l.flatten.length = (l.map (fun _ => k)).sum := by
  have := length_flatMap_eq l id (fun _ => k) (by simpa using h)
  simpa [List.flatMap_id] using this

theorem attr_length (a : WAttr) (h : WfAttr a) : (encAttr a).length = lenNamed a.name (lenAttr a) := by
  obtain ⟨_, _, _, h4, h5⟩ := h
  simp only [encAttr, List.length_append, wvec_length, wleb_length, lenNamed, lenAttr,
    lebLen_small a.hint (by omega), lebLen_small a.status (by omega)]
  omega

theorem dim_length (d : WDim) (h : WfDim d) : (encDim d).length = lenNamed d.name (lenDim d) := by
  obtain ⟨_, _, h3, _, h5⟩ := h
  simp only [encDim, List.length_append, wvec_length, wleb_length, lenNamed, lenDim,
    lebLen_small d.ordered (by omega),
    length_flatMap_eq d.attrs encAttr _ (fun a ha => attr_length a (h5 a ha))]
  omega

/-- access structures: the announced length is the length of the encoding -/
theorem struct_length (s : WStruct) (h : WfStruct s) : (encStruct s).length = lenStruct s := by
  obtain ⟨hv, _, h3⟩ := h
  have hd := length_flatMap_eq s.dims encDim _ (fun d hd => dim_length d (h3 d hd))
  rcases hv with ⟨hv, n, hn, _⟩ | ⟨hv, hn⟩
  · simp only [encStruct, lenStruct, hn, hv, List.length_append, wleb_length, hd, lebLen_small 1 (by omega)]
  · simp only [encStruct, lenStruct, hn, hv, List.length_append, wleb_length, hd, lebLen_small 0 (by omega),
      List.length_nil]

theorem key_length (la lb : Nat) (k : WKey) (h : WfKey la lb k) : (encKey k).length = lenKey la lb k := by
  obtain ⟨h1, h2⟩ := h
  unfold encKey lenKey
  cases hk : k.hyb
  · rw [hk] at h2
    have h2' : k.b = [] := by simpa using h2
    simp [wleb_length, lebLen_small, h1, h2']
  · rw [hk] at h2
    have h2' : k.b.length = lb := by simpa using h2
    simp [wleb_length, lebLen_small, h1, h2']

/-- master public keys -/
theorem mpk_length (c : Cfg) (m : WMpk) (h : WfMpk c m) : (encMpk m).length = lenMpk c m := by
  obtain ⟨_, _, h3, _, h5, h6⟩ := h
  have hk := length_flatMap_eq m.keys (fun p => wvec p.1 ++ encKey p.2)
    (fun p => lenNamed p.1 0 + lenKey c.pk c.ek p.2)
    (fun p hp => by simp only [List.length_append, wvec_length, key_length _ _ _ (h5 p hp).2.1])
  simp only [encMpk, lenMpk, lenTpk, List.length_append, wleb_length, hk, struct_length _ h6,
    length_flatten_eq m.tpk c.pk (fun p hp => (h3 p hp).1)]

theorem userId_length (c : Cfg) (u : List Bytes) (h : ∀ x ∈ u, WfLeafSk c x) :
    (encUserId u).length = lenUserId c u := by
  simp only [encUserId, lenUserId, List.length_append, wleb_length,
    length_flatten_eq u c.sk (fun p hp => (h p hp).1)]

/-- master secret keys -/
theorem msk_length (c : Cfg) (m : WMsk) (h : WfMsk c m) : (encMsk m).length = lenMsk c m := by
  obtain ⟨hs, _, _, ht, _, hu, _, hsec, ⟨k, hk, _⟩, hst⟩ := h
  have h1 := length_flatMap_eq m.tracers (fun p => p.1 ++ p.2) (fun _ => c.sk + c.pk)
    (fun t htm => by simp only [List.length_append, (ht t htm).1.1, (ht t htm).2.1])
  have h2 := length_flatMap_eq m.users encUserId (lenUserId c)
    (fun u hum => userId_length c u (hu u hum).2.2)
  have h3 := length_flatMap_eq m.secrets
    (fun p => wvec p.1 ++ wleb p.2.length ++ p.2.flatMap (fun q => wleb (if q.1 then 1 else 0) ++ encKey q.2))
    (fun p => lenNamed p.1 0 + lebLen p.2.length + (p.2.map (fun q => 1 + lenKey c.sk c.dk q.2)).sum)
    (fun p hp => by
      have := length_flatMap_eq p.2 (fun q => wleb (if q.1 then 1 else 0) ++ encKey q.2)
        (fun q => 1 + lenKey c.sk c.dk q.2)
        (fun q hq => by
          simp only [List.length_append, wleb_length, key_length _ _ _ ((hsec p hp).2.2 q hq).1]
          cases q.1 <;> simp [lebLen_small])
      simp only [List.length_append, wvec_length, wleb_length, this])
  simp only [encMsk, lenMsk, lenTsk, List.length_append, wleb_length, h1, h2, h3, hk, hs.1,
    struct_length _ hst]
  omega

/-- user keys (signed or not) -/
theorem usk_length (c : Cfg) (u : WUsk) (h : WfUsk c u) : (encUsk u).length = lenUsk c u := by
  obtain ⟨_, _, hid, _, hps, _, hsec, _⟩ := h
  have h3 := length_flatMap_eq u.secrets
    (fun p => wvec p.1 ++ wleb p.2.length ++ p.2.flatMap encKey)
    (fun p => lenNamed p.1 0 + lebLen p.2.length + (p.2.map (lenKey c.sk c.dk)).sum)
    (fun p hp => by
      have := length_flatMap_eq p.2 encKey (lenKey c.sk c.dk)
        (fun q hq => key_length _ _ _ ((hsec p hp).2.2.2 q hq).1)
      simp only [List.length_append, wvec_length, wleb_length, this])
  simp only [encUsk, lenUsk, List.length_append, wleb_length, userId_length c u.id hid, h3,
    length_flatten_eq u.ps c.pk (fun p hp => (hps p hp).1)]
  cases u.signature <;> simp

/-- encapsulations -/
theorem xenc_length (c : Cfg) (x : WEnc) (h : WfEnc c x) : (encXenc x).length = lenXenc c x := by
  obtain ⟨h1, _, _, h4, _, h6⟩ := h
  have ht := length_flatten_eq x.c c.pk (fun p hp => (h4 p hp).1)
  cases hh : x.hyb
  · have he := length_flatMap_eq x.encs (fun p => p.1 ++ p.2) (fun p => p.2.length)
      (fun p hp => by
        have := (h6 p hp).2; rw [hh] at this
        have h' : p.1 = [] := by simpa using this
        simp [h'])
    simp only [encXenc, lenXenc, lenEncs, hh, List.length_append, wleb_length, ht, he, h1]
    simp [lebLen_small]; omega
  · have he := length_flatMap_eq x.encs (fun p => p.1 ++ p.2) (fun p => c.enc + p.2.length)
      (fun p hp => by
        have := (h6 p hp).2; rw [hh] at this
        have h' : p.1.length = c.enc := by simpa using this
        simp [h'])
    simp only [encXenc, lenXenc, lenEncs, hh, List.length_append, wleb_length, ht, he, h1]
    simp [lebLen_small]; omega

/-- encrypted headers: absent metadata is announced as one byte (the empty vector) -/
theorem header_length (c : Cfg) (h : WHeader) (hx : WfEnc c h.enc) :
    (encHeader h).length = lenHeader c h := by
  simp only [encHeader, lenHeader, List.length_append, xenc_length c h.enc hx, wvec_length, lenNamed]
  cases h.mdata <;> simp [lebLen_small]

/-- cleartext headers -/
theorem clear_length (cl : WClear) (hs : cl.secret.length = SS) : (encClear cl).length = lenClear cl := by
  simp only [encClear, lenClear, List.length_append, wvec_length, lenNamed, hs]
  cases cl.mdata <;> simp <;> omega

end CC.Props.C13
