import CC.Props.C13
import CC.Model.Embed
import CC.Model.Shape
import CC.Lemmas.Issued
import CC.Lemmas.World
/-! # C13 over every history — what the API can reach round-trips

`CC.Props.C13` proves `decode (encode x ++ rest) = (x, rest)` for every *well-formed wire object*.
This file closes the gap to the objects "reachable through the API": for every world reachable from
`setup` (with at least one tracer, which is what `MasterSecretKey::setup` builds) by any sequence of
operations with any arguments, the master key — laid out on the wire by `Msk.toWire` with **any**
leaf representation of the configuration's sizes — is a well-formed wire object, hence round-trips
(`reachable_msk_roundtrip`); so do the public key derived from it (`reachable_mpk_roundtrip`) and
every user key the world hands out (`keygen_usk_roundtrip`). Because the decoder gives back the very
object that was encoded, a history continued from the reloaded key is the history continued from the
original (`store_load_is_invisible`).

The only hypotheses left are physical: counts and name lengths are below `2^64` (`Small`; the code
stores them in `usize` and writes them as `u64`). They are stated, not hidden. -/

namespace CC.Props.C13Reach
open CC CC.Wire CC.Props.C13

theorem validUtf8_strBytes (s : String) : validUtf8 (strBytes s) = true := by
  unfold validUtf8 strBytes
  have : (ByteArray.mk s.toUTF8.data.toList.toArray) = s.toUTF8 := by simp
  rw [this]
  simp only [String.validateUTF8]
  rw [ByteArray.validateUTF8_eq_true_iff]
  exact s.isValidUTF8

/-! ## the access structure -/

/-- counts, name lengths and the identifier counter fit in 64 bits -/
def StructSmall (s : Struct) : Prop :=
  s.nextId < 2 ^ 64 ∧ s.dims.length < 2 ^ 64 ∧
    ∀ p ∈ s.dims, (strBytes p.1).length < 2 ^ 64 ∧ p.2.attrs.length < 2 ^ 64 ∧
      ∀ q ∈ p.2.attrs, (strBytes q.1).length < 2 ^ 64

theorem wfStruct_toWire (s : Struct) (hs : StructSmall s) (hb : s.IdsBelow) : WfStruct s.toWire := by
  obtain ⟨h1, h2, h3⟩ := hs
  refine ⟨Or.inl ⟨rfl, s.nextId, rfl, h1⟩, by simpa [Struct.toWire] using h2, ?_⟩
  intro d hd
  simp only [Struct.toWire, List.mem_map] at hd
  obtain ⟨p, hp, rfl⟩ := hd
  obtain ⟨hn, hl, ha⟩ := h3 p hp
  refine ⟨validUtf8_strBytes _, hn, ?_, by simpa [Dim.toWire] using hl, ?_⟩
  · simp only [Dim.toWire]; split <;> omega
  · intro a haw
    simp only [Dim.toWire, List.mem_map] at haw
    obtain ⟨q, hq, rfl⟩ := haw
    refine ⟨validUtf8_strBytes _, ha q hq, ?_, ?_, ?_⟩
    · have := hb p hp q hq
      simp only [Attr.toWire]; omega
    · simp only [Attr.toWire]; split <;> omega
    · simp only [Attr.toWire]; split <;> omega

/-! ## keys of rights -/

variable {c : Cfg}

theorem wfKey_sk (L : Leaves c) (s : Sk) : WfKey c.sk c.dk (s.toWireSk L) ∧ c.validSk (s.toWireSk L).a = true := by
  refine ⟨⟨L.scalar_len _, ?_⟩, L.scalar_ok _⟩
  cases h : s.hyb <;> simp [Sk.toWireSk, h, L.dk_len]

theorem wfKey_pk (L : Leaves c) (s : Sk) : WfKey c.pk c.ek (s.toWirePk L) ∧ c.validPk (s.toWirePk L).a = true := by
  refine ⟨⟨L.point_len _, ?_⟩, L.point_ok _⟩
  cases h : s.hyb <;> simp [Sk.toWirePk, h, L.ek_len]

/-! ## the master key -/

/-- what a reachable master key always satisfies, beyond the invariants proved elsewhere: a signing
key, identifiers of the key's tracing level -/
def Shape (m : Msk) : Prop := m.signKey.isSome = true ∧ ∀ id ∈ m.users, id.length = m.ntracers

theorem generateUserId_shape (msk : Msk) (n : Rng) (h : Shape msk) : Shape (generateUserId msk n).2.1 := by
  unfold generateUserId
  by_cases hnt : msk.ntracers = 0
  · simp only [hnt, if_true]; exact h
  · simp only [hnt, if_false]
    refine ⟨h.1, ?_⟩
    intro id hid
    simp only at hid ⊢
    split at hid
    · exact h.2 id hid
    · rcases List.mem_append.1 hid with h' | h'
      · exact h.2 id h'
      · simp only [List.mem_singleton] at h'
        subst h'
        simp

theorem refreshId_shape (msk : Msk) (id : UserId) (n : Rng) (h : Shape msk) : Shape (refreshId msk id n).2.1 := by
  unfold refreshId
  by_cases hk : id ∈ msk.users
  · by_cases hl : id.length = msk.ntracers
    · simp only [hk, not_true_eq_false, if_false, hl, ne_eq]; exact h
    · exact absurd (h.2 id hk) hl
  · simp only [hk, if_true]; exact h

theorem step_shape (w : World) (op : Op) (h : Shape w.msk) : Shape (w.step op).msk := by
  cases op with
  | edit e =>
    simp only [World.step]
    cases w.msk.structure_.apply e <;> exact h
  | update =>
    simp only [World.step]
    unfold updateMsk
    split
    · exact h
    · simp only
      rcases updateLoop (w.msk.secrets.retain fun r => (w.msk.structure_.omega.lookup r).isSome) w.msk.structure_.omega w.rng with ⟨res, n'⟩
      cases res <;> exact h
  | rekey p =>
    simp only [World.step]
    cases w.msk.structure_.uskRights p with
    | error _ => exact h
    | ok rights =>
      simp only
      unfold rekey
      split <;> exact h
  | prune p =>
    simp only [World.step]
    cases w.msk.structure_.uskRights p with
    | error _ => exact h
    | ok rights => exact h
  | keygen p =>
    simp only [World.step]
    cases w.msk.structure_.uskRights p with
    | error _ => exact h
    | ok rights =>
      simp only
      unfold uskKeygen
      cases latestRightSks w.msk rights with
      | error e => exact h
      | ok chains =>
        simp only
        have hg := generateUserId_shape w.msk w.rng h
        rcases hgen : generateUserId w.msk w.rng with ⟨res, m', n'⟩
        rw [hgen] at hg
        cases res <;> exact hg
  | refresh usk keep =>
    simp only [World.step]
    unfold refresh
    by_cases hv : verify w.msk usk = true
    · simp only [hv, Bool.not_true, Bool.false_eq_true, if_false]
      have key := refreshId_shape w.msk usk.id w.rng h
      rcases hid : refreshId w.msk usk.id w.rng with ⟨res, msk', n'⟩
      rw [hid] at key
      cases res with
      | error e => exact key
      | ok nid =>
        simp only
        generalize (if keep = true then Except.ok (refreshCoordinateKeys msk' usk.secrets)
            else latestRightSks msk' ((usk.secrets.map (·.1)).filter (fun r => msk'.secrets.containsKey r))) = nr
        cases nr <;> exact key
    · simp only [hv, Bool.not_false, if_true]; exact h
  | draw k => exact h

theorem init_shape (n : Rng) (k : Nat) : Shape (World.init n k).msk := by
  have h0 : Shape (setup n k).1 := ⟨rfl, by intro id hid; simp [setup] at hid⟩
  have hs := updateMsk_same (setup n k).1 (setup n k).1.structure_.omega (setup n k).2
  unfold World.init
  simp only
  unfold updateMsk
  split
  · exact h0
  · simp only
    rcases updateLoop ((setup n k).1.secrets.retain fun r => ((setup n k).1.structure_.omega.lookup r).isSome) (setup n k).1.structure_.omega (setup n k).2 with ⟨res, n'⟩
    cases res <;> exact h0

theorem reachable_shape (w : World) (h : Reachable w) : Shape w.msk := by
  obtain ⟨n, k, ops, rfl⟩ := h
  have : ∀ (ops : List Op) (w0 : World), Shape w0.msk → Shape (ops.foldl World.step w0).msk := by
    intro ops
    induction ops with
    | nil => intro w0 h0; exact h0
    | cons op rest ih => intro w0 h0; exact ih _ (step_shape w0 op h0)
  exact this ops _ (init_shape n k)

/-- counts of the master key fit in 64 bits -/
def MskSmall (m : Msk) : Prop :=
  m.ntracers < 2 ^ 64 ∧ m.users.length < 2 ^ 64 ∧ m.secrets.length < 2 ^ 64 ∧
    (∀ p ∈ m.secrets, p.1.length < 2 ^ 64 ∧ p.2.length < 2 ^ 64) ∧ StructSmall m.structure_

/-- **every master key the API can reach is a well-formed wire object**, whatever byte
representation the leaves have -/
theorem reachable_msk_wf (L : Leaves c) (w : World) (h : Reachable w) (hk : w.msk.ntracers ≠ 0)
    (hs : MskSmall w.msk) : WfMsk c (w.msk.toWire L) := by
  obtain ⟨hsig, hul⟩ := reachable_shape w h
  obtain ⟨s1, s2, s3, s4, s5⟩ := hs
  have hb := (reachable_struct_wf w h).2
  refine ⟨⟨L.scalar_len _, L.scalar_ok _⟩, ?_, ?_, ?_, ?_, ?_, ?_, ?_, ?_, wfStruct_toWire _ s5 hb⟩
  · simp only [Msk.toWire, tracerToks, ne_eq, List.map_eq_nil_iff, List.range_eq_nil]; exact hk
  · simpa [Msk.toWire, tracerToks] using s1
  · intro t ht
    simp only [Msk.toWire, List.mem_map] at ht
    obtain ⟨x, _, rfl⟩ := ht
    exact ⟨⟨L.scalar_len _, L.scalar_ok _⟩, ⟨L.point_len _, L.point_ok _⟩⟩
  · simpa [Msk.toWire] using s2
  · intro u hu
    simp only [Msk.toWire, List.mem_map] at hu
    obtain ⟨id, hid, rfl⟩ := hu
    have hl := hul id hid
    refine ⟨?_, ?_, ?_⟩
    · intro hnil
      have : id.length = 0 := by simpa using congrArg List.length hnil
      omega
    · simp only [List.length_map]; omega
    · intro x hx
      obtain ⟨m, _, rfl⟩ := List.mem_map.1 hx
      exact ⟨L.scalar_len _, L.scalar_ok _⟩
  · simpa [Msk.toWire] using s3
  · intro p hp
    simp only [Msk.toWire, List.mem_map] at hp
    obtain ⟨q, hq, rfl⟩ := hp
    refine ⟨(s4 q hq).1, by simpa using (s4 q hq).2, ?_⟩
    intro r hr
    obtain ⟨x, _, rfl⟩ := List.mem_map.1 hr
    exact wfKey_sk L x.2
  · cases hsk : w.msk.signKey with
    | none => simp [hsk] at hsig
    | some k => exact ⟨L.sigKey k, by simp [Msk.toWire, hsk], L.sigKey_len k⟩

/-- C13 for the master key, over every history: serialise, append anything, deserialise — the same
object and the untouched rest -/
theorem reachable_msk_roundtrip (L : Leaves c) (w : World) (h : Reachable w) (hk : w.msk.ntracers ≠ 0)
    (hs : MskSmall w.msk) (rest : Bytes) :
    msk c (encMsk (w.msk.toWire L) ++ rest) = some (w.msk.toWire L, rest) :=
  msk_roundtrip c _ (reachable_msk_wf L w h hk hs) rest

/-! ## the public key -/

theorem mem_mpk_keys {m : Msk} {p : Right × Sk} (hp : p ∈ m.mpk.keys) : ∃ ch, (p.1, ch) ∈ m.secrets := by
  simp only [Msk.mpk, List.mem_filterMap] at hp
  obtain ⟨q, hq, hqq⟩ := hp
  refine ⟨q.2, ?_⟩
  unfold mpkEntry at hqq
  split at hqq
  · simp only [Option.some.injEq] at hqq; subst hqq; exact hq
  · simp at hqq

/-- the public key derived from any reachable master key (by `update_msk`, `rekey`, `prune` or
`mpk()`) is a well-formed wire object -/
theorem reachable_mpk_wf (L : Leaves c) (w : World) (h : Reachable w) (hk : w.msk.ntracers ≠ 0)
    (hs : MskSmall w.msk) : WfMpk c (w.msk.mpk.toWire L) := by
  obtain ⟨s1, s2, s3, s4, s5⟩ := hs
  have hb := (reachable_struct_wf w h).2
  refine ⟨?_, ?_, ?_, ?_, ?_, wfStruct_toWire _ s5 hb⟩
  · simp only [Mpk.toWire, Msk.mpk, tracerToks, ne_eq, List.map_eq_nil_iff, List.range_eq_nil]; exact hk
  · simpa [Mpk.toWire, Msk.mpk, tracerToks] using s1
  · intro p hp
    simp only [Mpk.toWire, List.mem_map] at hp
    obtain ⟨x, _, rfl⟩ := hp
    exact ⟨L.point_len _, L.point_ok _⟩
  · have : w.msk.mpk.keys.length ≤ w.msk.secrets.length := by
      simpa [Msk.mpk] using List.length_filterMap_le mpkEntry w.msk.secrets
    simp only [Mpk.toWire, List.length_map]; omega
  · intro p hp
    simp only [Mpk.toWire, List.mem_map] at hp
    obtain ⟨q, hq, rfl⟩ := hp
    obtain ⟨ch, hch⟩ := mem_mpk_keys hq
    exact ⟨(s4 _ hch).1, (wfKey_pk L q.2).1, (wfKey_pk L q.2).2⟩

theorem reachable_mpk_roundtrip (L : Leaves c) (w : World) (h : Reachable w) (hk : w.msk.ntracers ≠ 0)
    (hs : MskSmall w.msk) (rest : Bytes) :
    Wire.mpk c (encMpk (w.msk.mpk.toWire L) ++ rest) = some (w.msk.mpk.toWire L, rest) :=
  mpk_roundtrip c _ (reachable_mpk_wf L w h hk hs) rest

/-! ## user keys -/

def UskSmall (u : Usk) : Prop :=
  u.id.length < 2 ^ 64 ∧ u.nps < 2 ^ 64 ∧ u.secrets.length < 2 ^ 64 ∧
    ∀ p ∈ u.secrets, p.1.length < 2 ^ 64 ∧ p.2.length < 2 ^ 64

/-- a user key with an identifier and no empty chain is a well-formed wire object -/
theorem usk_wf (L : Leaves c) (u : Usk) (hid : u.id ≠ []) (hne : ∀ p ∈ u.secrets, p.2 ≠ []) (hs : UskSmall u) :
    WfUsk c (u.toWire L) := by
  obtain ⟨s1, s2, s3, s4⟩ := hs
  refine ⟨?_, by simpa [Usk.toWire] using s1, ?_, by simpa [Usk.toWire, tracerToks] using s2, ?_,
    by simpa [Usk.toWire] using s3, ?_, ?_⟩
  · simpa [Usk.toWire] using hid
  · intro p hp
    simp only [Usk.toWire, List.mem_map] at hp
    obtain ⟨x, _, rfl⟩ := hp
    exact ⟨L.scalar_len _, L.scalar_ok _⟩
  · intro p hp
    simp only [Usk.toWire, List.mem_map] at hp
    obtain ⟨x, _, rfl⟩ := hp
    exact ⟨L.point_len _, L.point_ok _⟩
  · intro p hp
    simp only [Usk.toWire, List.mem_map] at hp
    obtain ⟨q, hq, rfl⟩ := hp
    refine ⟨(s4 q hq).1, by simpa using hne q hq, by simpa using (s4 q hq).2, ?_⟩
    intro k hk
    obtain ⟨x, _, rfl⟩ := List.mem_map.1 hk
    exact wfKey_sk L x
  · intro s hsig
    simp only [Usk.toWire, Option.map_eq_some_iff] at hsig
    obtain ⟨x, _, rfl⟩ := hsig
    exact L.mac_len x

theorem latestRightSks_nonempty (msk : Msk) : ∀ (rights : List Right) (chains : RevVec),
    latestRightSks msk rights = .ok chains → ∀ p ∈ chains, p.2 ≠ [] := by
  intro rights
  induction rights with
  | nil => intro chains h p hp; simp only [latestRightSks, Except.ok.injEq] at h; subst h; simp at hp
  | cons r rest ih =>
    intro chains h p hp
    simp only [latestRightSks] at h
    cases hl : msk.secrets.getLatest r with
    | none => simp [hl] at h
    | some v =>
      simp only [hl] at h
      cases hr : latestRightSks msk rest with
      | error e => simp [hr] at h
      | ok tl =>
        simp only [hr, Except.ok.injEq] at h
        subst h
        rcases List.mem_cons.1 hp with rfl | hp'
        · simp
        · exact ih tl hr p hp'

/-- C13 for user keys over every history: the key that `generate_user_secret_key` hands out in any
reachable world (with a signing key — every reachable world has one) round-trips -/
theorem keygen_usk_roundtrip (L : Leaves c) (w : World) (h : Reachable w) (rights : List Right) (usk : Usk)
    (hg : (uskKeygen w.msk rights w.rng).1 = .ok usk) (hs : UskSmall usk) :
    deserialize (Wire.usk c) (encUsk (usk.toWire L)) = some (usk.toWire L) := by
  obtain ⟨hsig, _⟩ := reachable_shape w h
  unfold uskKeygen at hg
  cases hl : latestRightSks w.msk rights with
  | error e => simp [hl] at hg
  | ok chains =>
    simp only [hl] at hg
    unfold generateUserId at hg
    by_cases hnt : w.msk.ntracers = 0
    · simp [hnt] at hg
    · simp only [hnt, if_false, Except.ok.injEq] at hg
      subst hg
      refine usk_roundtrip c _ (usk_wf L _ ?_ ?_ hs) ?_
      · simp only [ne_eq, List.map_eq_nil_iff, List.range_eq_nil]; exact hnt
      · exact latestRightSks_nonempty w.msk rights chains hl
      · cases hsk : w.msk.signKey with
        | none => simp [hsk] at hsig
        | some k => simp [Usk.toWire, sign, hsk]

/-- the chains `refresh_coordinate_keys` hands back are not empty when no master chain is -/
theorem refreshCoordinateKeys_nonempty (msk : Msk) (hne : msk.secrets.NonEmpty) (chains : RevVec) :
    ∀ p ∈ refreshCoordinateKeys msk chains, p.2 ≠ [] := by
  intro p hp
  simp only [refreshCoordinateKeys, List.mem_filterMap] at hp
  obtain ⟨q, _, hq⟩ := hp
  obtain ⟨r, uchain⟩ := q
  simp only at hq
  cases hg : msk.secrets.get r with
  | none => simp [hg] at hq
  | some mchain =>
    simp only [hg, Option.map_eq_some_iff] at hq
    obtain ⟨cch, hc, rfl⟩ := hq
    have hm : mchain ≠ [] := hne r mchain (CC.Look.lookup_mem hg)
    rcases CC.refreshChain_head (mchain.map (·.2)) uchain cch hc with hh | hh
    · intro hnil
      simp only at hnil
      rw [hnil] at hh
      cases mchain with
      | nil => exact hm rfl
      | cons x xs => simp at hh
    · exact absurd (List.map_eq_nil_iff.1 hh) hm

/-- C13 for refreshed keys over every history: whatever key is offered to `refresh_usk` in a reachable
world (with at least one tracer), with either flag, the key a successful refresh leaves behind is a
well-formed wire object and round-trips -/
theorem refreshed_usk_roundtrip (L : Leaves c) (w : World) (h : Reachable w) (hk : w.msk.ntracers ≠ 0)
    (usk : Usk) (keep : Bool) (hok : (refresh w.msk usk keep w.rng).1 = .ok ())
    (hs : UskSmall (refresh w.msk usk keep w.rng).2.2.1) :
    deserialize (Wire.usk c) (encUsk ((refresh w.msk usk keep w.rng).2.2.1.toWire L)) =
      some ((refresh w.msk usk keep w.rng).2.2.1.toWire L) := by
  obtain ⟨hsig, hul⟩ := reachable_shape w h
  have hne := reachable_nonEmpty w h
  revert hok hs
  unfold refresh
  by_cases hv : verify w.msk usk = true
  · simp only [hv, Bool.not_true, Bool.false_eq_true, if_false]
    have hsec := (refreshId_secrets w.msk usk.id w.rng).1
    have hsame := refreshId_same w.msk usk.id w.rng
    -- the identifier a successful `refresh_id` returns is not empty
    have hidne : ∀ nid, (refreshId w.msk usk.id w.rng).1 = .ok nid → nid ≠ [] := by
      intro nid
      unfold refreshId
      by_cases hkn : usk.id ∈ w.msk.users
      · by_cases hl : usk.id.length = w.msk.ntracers
        · simp only [hkn, not_true_eq_false, if_false, hl, ne_eq, Except.ok.injEq]
          intro he hnil
          subst he
          rw [hnil] at hl
          exact hk hl.symm
        · exact absurd (hul _ hkn) hl
      · simp [hkn]
    rcases hid : refreshId w.msk usk.id w.rng with ⟨res, msk', n'⟩
    rw [hid] at hsec hsame hidne
    simp only at hsec hsame hidne
    cases res with
    | error e => intro hok; simp at hok
    | ok nid =>
      simp only
      have hne' : msk'.secrets.NonEmpty := by rw [hsec]; exact hne
      have hsk' : msk'.signKey.isSome = true := by rw [hsame.1]; exact hsig
      cases hnr : (if keep = true then Except.ok (refreshCoordinateKeys msk' usk.secrets)
          else latestRightSks msk' ((usk.secrets.map (·.1)).filter (fun r => msk'.secrets.containsKey r))) with
      | error e => intro hok; simp at hok
      | ok nr =>
        simp only
        intro _ hs
        refine usk_roundtrip c _ (usk_wf L _ (hidne nid rfl) ?_ hs) ?_
        · simp only
          cases keep with
          | true =>
            simp only [if_true, Except.ok.injEq] at hnr
            subst hnr
            exact refreshCoordinateKeys_nonempty msk' hne' usk.secrets
          | false =>
            simp only [Bool.false_eq_true, if_false] at hnr
            exact latestRightSks_nonempty msk' _ nr hnr
        · cases hk2 : msk'.signKey with
          | none => simp [hk2] at hsk'
          | some k => simp [Usk.toWire, sign, hk2]
  · simp only [hv, Bool.not_false, if_true]
    intro hok; simp at hok

/-! ## encapsulations -/

def XEncSmall (x : XEnc) : Prop := x.ntraps < 2 ^ 64 ∧ x.targets.length < 2 ^ 64

/-- an encapsulation with at least one trap is a well-formed wire object -/
theorem xenc_wf (L : Leaves c) (x : XEnc) (hk : x.ntraps ≠ 0) (hs : XEncSmall x) : WfEnc c (x.toWire L) := by
  refine ⟨L.tag_len _, ?_, by simpa [XEnc.toWire, tracerToks] using hs.1, ?_, by simpa [XEnc.toWire] using hs.2, ?_⟩
  · simp only [XEnc.toWire, tracerToks, ne_eq, List.map_eq_nil_iff, List.range_eq_nil]; exact hk
  · intro p hp
    simp only [XEnc.toWire, List.mem_map] at hp
    obtain ⟨t, _, rfl⟩ := hp
    exact ⟨L.trap_len _ _, L.trap_ok _ _⟩
  · intro p hp
    simp only [XEnc.toWire, List.mem_map] at hp
    obtain ⟨t, _, rfl⟩ := hp
    refine ⟨L.mask_len _ _, ?_⟩
    cases hh : x.hybrid <;> simp [XEnc.toWire, hh, L.ct_len]

/-- C13 for encapsulations over every history: whatever `encaps` returns under the public key of a
reachable world (with at least one tracer) round-trips -/
theorem encaps_xenc_roundtrip (L : Leaves c) (w : World) (hk : w.msk.ntracers ≠ 0)
    (targets : List Right) (n : Rng) (s : Nat) (x : XEnc)
    (he : (encaps w.msk.mpk targets n).1 = .ok (s, x)) (hs : XEncSmall x) (rest : Bytes) :
    xenc c (encXenc (x.toWire L) ++ rest) = some (x.toWire L, rest) := by
  unfold encaps at he
  cases hsel : w.msk.mpk.selectSubkeys targets with
  | error e => simp [hsel] at he
  | ok p =>
    obtain ⟨hyb, ks⟩ := p
    simp only [hsel, Except.ok.injEq, Prod.mk.injEq] at he
    obtain ⟨_, rfl⟩ := he
    exact xenc_roundtrip c _ (xenc_wf L _ (by simpa [Msk.mpk] using hk) hs) rest

/-! ## encrypted headers -/

/-- C13 for encrypted headers over every history: whatever `EncryptedHeader::generate` returns under the
public key of a reachable world — metadata absent, empty or not — round-trips (an encrypted empty
metadata is nonce ‖ MAC, 28 bytes: present on the wire; only the absent one is the empty string) -/
theorem generated_header_roundtrip (L : Leaves c) (w : World) (hk : w.msk.ntracers ≠ 0)
    (targets : List Right) (mdata ad : Option CC.Bytes) (n : Rng) (k : DKey) (h : Header)
    (hg : (hdrGenerate w.msk.mpk targets mdata ad n).1 = .ok (k, h)) (hs : XEncSmall h.enc)
    (hm : ∀ m, mdata = some m → m.length + 28 < 2 ^ 64) (rest : Bytes) :
    header c (encHeader (h.toWire L) ++ rest) = some (h.toWire L, rest) := by
  unfold hdrGenerate at hg
  rcases he : encaps w.msk.mpk targets n with ⟨res, n'⟩
  rw [he] at hg
  cases res with
  | error e => simp at hg
  | ok p =>
    obtain ⟨seed, x⟩ := p
    have hx : (encaps w.msk.mpk targets n).1 = .ok (seed, x) := by rw [he]
    have hwf : ∀ (hsx : XEncSmall x), WfEnc c (x.toWire L) := by
      intro hsx
      unfold encaps at hx
      cases hsel : w.msk.mpk.selectSubkeys targets with
      | error e => simp [hsel] at hx
      | ok q =>
        obtain ⟨hyb, ks⟩ := q
        simp only [hsel, Except.ok.injEq, Prod.mk.injEq] at hx
        obtain ⟨_, rfl⟩ := hx
        exact xenc_wf L _ (by simpa [Msk.mpk] using hk) hsx
    cases mdata with
    | none =>
      simp only [Except.ok.injEq, Prod.mk.injEq] at hg
      obtain ⟨_, rfl⟩ := hg
      have := header_roundtrip c (Header.toWire L ⟨x, none⟩) (hwf hs) (by simp [Header.toWire]) rest
      simpa [Header.toWire, normMdata] using this
    | some m =>
      simp only [Except.ok.injEq, Prod.mk.injEq] at hg
      obtain ⟨_, rfl⟩ := hg
      generalize hsl : aeSeal ⟨seed, labelHdrKey⟩ n' (adBytes ad) m = sl
      have hptx : sl.ptx = m := by rw [← hsl]; rfl
      have hlen : (L.nonce sl.nonce ++ L.box sl).length = m.length + 28 := by
        simp only [List.length_append, L.nonce_len, L.box_len, hptx, NONCE_LENGTH]; omega
      have hne : (L.nonce sl.nonce ++ L.box sl) ≠ [] := by
        intro hnil
        have := congrArg List.length hnil
        rw [hlen] at this
        simp at this
      have hnorm : normMdata (some (L.nonce sl.nonce ++ L.box sl)) = some (L.nonce sl.nonce ++ L.box sl) := by
        cases hb : (L.nonce sl.nonce ++ L.box sl) with
        | nil => exact absurd hb hne
        | cons a as => rfl
      have := header_roundtrip c (Header.toWire L ⟨x, some sl⟩) (hwf hs)
        (by
          intro b hb
          simp only [Header.toWire, Option.map_some, Option.some.injEq] at hb
          subst hb
          rw [hlen]; exact hm m rfl) rest
      rw [this]
      simp only [Header.toWire, Option.map_some, hnorm]

/-! ## the wire layout determines the key -/

theorem strBytes_inj {a b : String} (h : strBytes a = strBytes b) : a = b := by
  unfold strBytes at h
  have h1 : a.toUTF8.data = b.toUTF8.data := Array.toList_inj.1 h
  have h2 : a.toUTF8 = b.toUTF8 := by
    cases ha : a.toUTF8; cases hb : b.toUTF8; simp_all
  exact String.toByteArray_inj.1 h2

theorem attr_toWire_inj {p q : String × Attr} (h : Attr.toWire p.1 p.2 = Attr.toWire q.1 q.2) : p = q := by
  obtain ⟨n, ⟨i, hy, ro⟩⟩ := p
  obtain ⟨n', ⟨i', hy', ro'⟩⟩ := q
  simp only [Attr.toWire, WAttr.mk.injEq] at h
  obtain ⟨h1, h2, h3, h4⟩ := h
  have := strBytes_inj h1
  subst this; subst h2
  cases hy <;> cases hy' <;> cases ro <;> cases ro' <;> simp_all

theorem dim_toWire_inj {p q : String × Dim} (h : Dim.toWire p.1 p.2 = Dim.toWire q.1 q.2) : p = q := by
  obtain ⟨n, ⟨o, as⟩⟩ := p
  obtain ⟨n', ⟨o', as'⟩⟩ := q
  simp only [Dim.toWire, WDim.mk.injEq] at h
  obtain ⟨h1, h2, h3⟩ := h
  have := strBytes_inj h1
  subst this
  have h3' : as = as' := (List.map_inj_right (fun x y hxy => attr_toWire_inj hxy)).1 h3
  subst h3'
  cases o <;> cases o' <;> simp_all

theorem struct_toWire_inj {s t : Struct} (h : s.toWire = t.toWire) : s = t := by
  obtain ⟨n, ds⟩ := s
  obtain ⟨n', ds'⟩ := t
  simp only [Struct.toWire, WStruct.mk.injEq, Option.some.injEq, true_and] at h
  obtain ⟨h1, h2⟩ := h
  subst h1
  have : ds = ds' := (List.map_inj_right (fun x y hxy => dim_toWire_inj hxy)).1 h2
  subst this; rfl

/-- distinct tokens have distinct representations (true of the real leaves up to collisions of
random 256-bit values) -/
def LeavesInj (L : Leaves c) : Prop :=
  (∀ a b, L.scalar a = L.scalar b → a = b) ∧ (∀ a b, L.sigKey a = L.sigKey b → a = b)

theorem sk_toWire_inj (L : Leaves c) (hL : LeavesInj L) {a b : Sk} (h : a.toWireSk L = b.toWireSk L) : a = b := by
  obtain ⟨t, hy⟩ := a
  obtain ⟨t', hy'⟩ := b
  simp only [Sk.toWireSk, WKey.mk.injEq] at h
  obtain ⟨h1, h2, _⟩ := h
  have := hL.1 _ _ h2
  subst this; subst h1; rfl

/-- **the wire object determines the symbolic master key** -/
theorem msk_toWire_inj (L : Leaves c) (hL : LeavesInj L) {a b : Msk} (h : a.toWire L = b.toWire L) : a = b := by
  obtain ⟨au, nt, us, se, sg, st⟩ := a
  obtain ⟨au', nt', us', se', sg', st'⟩ := b
  simp only [Msk.toWire, WMsk.mk.injEq] at h
  obtain ⟨h1, h2, h3, h4, h5, h6⟩ := h
  have e1 := hL.1 _ _ h1
  subst e1
  have e2 : nt = nt' := by
    have := congrArg List.length h2
    simpa [tracerToks] using this
  subst e2
  have e3 : us = us' :=
    (List.map_inj_right (fun x y hxy => (List.map_inj_right (fun a b hab => hL.1 a b hab)).1 hxy)).1 h3
  subst e3
  have e4 : se = se' := by
    refine (List.map_inj_right (fun x y hxy => ?_)).1 h4
    obtain ⟨r, ch⟩ := x
    obtain ⟨r', ch'⟩ := y
    simp only [Prod.mk.injEq] at hxy ⊢
    refine ⟨hxy.1, (List.map_inj_right (fun p q hpq => ?_)).1 hxy.2⟩
    obtain ⟨f, k⟩ := p
    obtain ⟨f', k'⟩ := q
    simp only [Prod.mk.injEq] at hpq ⊢
    exact ⟨hpq.1, sk_toWire_inj L hL hpq.2⟩
  subst e4
  have e5 : sg = sg' := by
    cases sg <;> cases sg' <;> simp_all
    exact hL.2 _ _ h5
  subst e5
  have e6 := struct_toWire_inj h6
  subst e6; rfl

/-! ## store / load inside a history -/

/-- **using the deserialised master key instead of the original changes no later outcome**: in any
reachable world, serialise the master key, deserialise it (`m'` is any symbolic key whose layout is
what the decoder returned); then every history continued from the reloaded key is the history
continued from the original — step by step the same worlds, hence the same outcomes of every later
operation -/
theorem store_load_is_invisible (L : Leaves c) (hL : LeavesInj L) (w : World) (h : Reachable w)
    (hk : w.msk.ntracers ≠ 0) (hs : MskSmall w.msk) (m' : Msk) (rest : Bytes)
    (hload : (msk c (encMsk (w.msk.toWire L) ++ rest)).map (·.1) = some (m'.toWire L)) (ops : List Op) :
    ops.foldl World.step ⟨m', w.rng⟩ = ops.foldl World.step w := by
  rw [reachable_msk_roundtrip L w h hk hs rest] at hload
  simp only [Option.map_some, Option.some.injEq] at hload
  have : m' = w.msk := msk_toWire_inj L hL hload.symm
  subst this
  rfl

/-- non-vacuity: leaf representations of both configurations' sizes exist (`CC.Model.Shape`) -/
example : Leaves cfgC25519 := zeroLeavesC25519
example : Leaves cfgP256 := zeroLeavesP256

end CC.Props.C13Reach

namespace CC.Props.C13Reach
open CC CC.Wire

/-- boolean form of `MskSmall`, for the tests below -/
def mskSmallB (m : Msk) : Bool :=
  decide (m.ntracers < 2 ^ 64) && decide (m.users.length < 2 ^ 64) && decide (m.secrets.length < 2 ^ 64) &&
  m.secrets.all (fun p => decide (p.1.length < 2 ^ 64) && decide (p.2.length < 2 ^ 64)) &&
  decide (m.structure_.nextId < 2 ^ 64) && decide (m.structure_.dims.length < 2 ^ 64) &&
  m.structure_.dims.all (fun p => decide ((strBytes p.1).length < 2 ^ 64) && decide (p.2.attrs.length < 2 ^ 64) &&
    p.2.attrs.all (fun q => decide ((strBytes q.1).length < 2 ^ 64)))

/-- non-vacuity (tests, run by the interpreter): a world reached by a short history — two dimensions,
three attributes, an update, a rotation, a key — has at least one tracer and small counts, i.e. it
meets every hypothesis of `reachable_msk_roundtrip` / `store_load_is_invisible` -/
def sampleWorld : World :=
  [Op.edit (.addDim "D" false), .edit (.addAttr "D" "A" false none), .edit (.addAttr "D" "B" true none),
   .edit (.addDim "H" true), .edit (.addAttr "H" "L" false none), .update,
   .rekey (.term ⟨"D", "A"⟩), .keygen (.term ⟨"D", "B"⟩)].foldl World.step (World.init 0 2)

#guard sampleWorld.msk.ntracers == 2
#guard mskSmallB sampleWorld.msk
#guard sampleWorld.msk.secrets.length == 6
#guard sampleWorld.msk.users.length == 1

example : Reachable sampleWorld := ⟨0, 2, _, rfl⟩

end CC.Props.C13Reach
