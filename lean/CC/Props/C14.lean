import CC.Model.Wire
import CC.Model.Keys
import CC.Generated.Allocs
/-! # C14 — deserializing or using untrusted bytes never crashes, hangs or over-allocates

The decoders of `CC.Model.Wire` are total functions with two outcomes (a value, or `none` = error):
there is no partial slice, no unchecked subtraction, no loop whose bound comes from the input
alone. The theorems bound the work and the pre-allocation by the input length for *every* byte
string, and show the accessors' subtractions cannot underflow on decoded values. -/

namespace CC.Props.C14
open CC CC.Wire

theorem takeN_rest (n : Nat) (bs b r : Bytes) (h : takeN n bs = some (b, r)) :
    b.length = n ∧ r.length + n = bs.length := by
  unfold takeN at h
  split at h
  · cases h
  · rename_i hlt
    simp only [Option.some.injEq, Prod.mk.injEq] at h
    obtain ⟨rfl, rfl⟩ := h
    simp only [List.length_take, List.length_drop]
    omega

theorem decU64Aux_progress : ∀ (bs : Bytes) (shift acc fuel : Nat) (v : Nat) (r : Bytes),
    Leb.decU64Aux bs shift acc fuel = some (v, r) → r.length < bs.length
  | _, _, _, 0, _, _, h => by simp [Leb.decU64Aux] at h
  | [], _, _, _ + 1, _, _, h => by simp [Leb.decU64Aux] at h
  | b :: rest, shift, acc, fuel + 1, v, r, h => by
    simp only [Leb.decU64Aux] at h
    split at h
    · cases h
    · split at h
      · simp only [Option.some.injEq, Prod.mk.injEq] at h
        obtain ⟨_, rfl⟩ := h
        simp
      · have := decU64Aux_progress rest _ _ fuel v r h
        simp; omega

/-- reading a count or a length consumes at least one byte -/
theorem leb_progress (bs : Bytes) (v : Nat) (r : Bytes) (h : leb bs = some (v, r)) : r.length < bs.length :=
  decU64Aux_progress bs 0 0 10 v r h

/-- a length-prefixed vector is only read (and allocated) when the announced length fits in what
remains of the input -/
theorem vec_bounded (bs b r : Bytes) (h : vec bs = some (b, r)) : b.length + r.length < bs.length := by
  unfold vec at h
  cases hl : leb bs with
  | none => simp [hl] at h
  | some p =>
    obtain ⟨n, r'⟩ := p
    simp only [hl] at h
    have h1 := leb_progress bs n r' hl
    have h2 := takeN_rest n r' b r h
    omega

/-- number of element reads performed by `for _ in 0..n { read }` -/
def manySteps {α : Type} : Nat → Dec α → Bytes → Nat
  | 0, _, _ => 0
  | n + 1, d, bs =>
    match d bs with
    | none => 1
    | some (_, r) => 1 + manySteps n d r

/-- **work is bounded by the input, not by the announced count**: whatever count is announced (up
to 2^64-1), a loop whose element reader consumes at least one byte per element performs at most
`|input| + 1` reads -/
theorem manySteps_le {α : Type} (d : Dec α) (hprog : ∀ bs a r, d bs = some (a, r) → r.length < bs.length) :
    ∀ (n : Nat) (bs : Bytes), manySteps n d bs ≤ bs.length + 1
  | 0, _ => by simp [manySteps]
  | n + 1, bs => by
    simp only [manySteps]
    cases hd : d bs with
    | none => simp
    | some p =>
      obtain ⟨a, r⟩ := p
      simp only
      have h1 := hprog bs a r hd
      have h2 := manySteps_le d hprog n r
      omega

/-- a count larger than the remaining input is always an error -/
theorem many_count_bounded {α : Type} (d : Dec α) (hprog : ∀ bs a r, d bs = some (a, r) → r.length < bs.length) :
    ∀ (n : Nat) (bs : Bytes) (l : List α) (r : Bytes), many n d bs = some (l, r) → n + r.length ≤ bs.length
  | 0, bs, l, r, h => by simp [many] at h; obtain ⟨_, rfl⟩ := h; simp
  | n + 1, bs, l, r, h => by
    simp only [many] at h
    cases hd : d bs with
    | none => simp [hd] at h
    | some p =>
      obtain ⟨a, r'⟩ := p
      simp only [hd] at h
      cases hm : many n d r' with
      | none => simp [hm] at h
      | some q =>
        obtain ⟨as, r''⟩ := q
        simp only [hm, Option.some.injEq, Prod.mk.injEq] at h
        obtain ⟨_, rfl⟩ := h
        have h1 := hprog bs a r' hd
        have h2 := many_count_bounded d hprog n r' as r'' hm
        omega

/-- `bounded_capacity(n, de)`: the pre-allocation never exceeds the number of remaining bytes -/
def boundedCapacity (n : Nat) (remaining : Bytes) : Nat := min n remaining.length

theorem boundedCapacity_le (n : Nat) (bs : Bytes) : boundedCapacity n bs ≤ bs.length := Nat.min_le_right _ _

/-- the tie to the source, re-extracted on every run: every `with_capacity` inside a deserialiser
(a function named `read…`) is wrapped in `bounded_capacity` (or is a constant), and no deserialiser
calls the unchecked `Deserializer::read_vec` directly. (That the list types whose `tracing_level()`
is `len() - 1` reject an empty list is checked on the running code: every count field of every
object is set to 0 by the mutant generator.) -/
theorem source_allocations_bounded : CC.Generated.allocsAvailable = true →
    CC.Generated.capacities.all (fun p => p.2.2) = true ∧ CC.Generated.rawReadVec = [] := by
  decide

/-- a decoded encapsulation has at least one trap: `tracing_level() = c.len() - 1` cannot underflow -/
theorem xenc_traps_nonempty (c : Cfg) (bs : Bytes) (x : WEnc) (r : Bytes) (h : xenc c bs = some (x, r)) : x.c ≠ [] := by
  unfold xenc at h
  cases h1 : takeN TAG bs with
  | none => simp [h1] at h
  | some p =>
    obtain ⟨tag, r1⟩ := p
    simp only [h1] at h
    cases h2 : counted (pk c) true r1 with
    | none => simp [h2] at h
    | some q =>
      obtain ⟨traps, r2⟩ := q
      simp only [h2] at h
      have hne : traps ≠ [] := by
        unfold counted at h2
        cases h3 : leb r1 with
        | none => simp [h3] at h2
        | some w =>
          obtain ⟨n, r3⟩ := w
          simp only [h3, Bool.true_and] at h2
          split at h2
          · cases h2
          · rename_i hn
            cases n with
            | zero => simp at hn
            | succ m =>
              simp only [many] at h2
              cases h4 : pk c r3 with
              | none => simp [h4] at h2
              | some z =>
                obtain ⟨a, r4⟩ := z
                simp only [h4] at h2
                cases h5 : many m (pk c) r4 with
                | none => simp [h5] at h2
                | some y =>
                  simp only [h5, Option.some.injEq, Prod.mk.injEq] at h2
                  obtain ⟨rfl, _⟩ := h2
                  simp
      cases h3 : leb r2 with
      | none => simp [h3] at h
      | some w =>
        obtain ⟨flag, r3⟩ := w
        simp only [h3] at h
        split at h
        · cases h4 : counted (encItemH c) false r3 with
          | none => simp [h4] at h
          | some y => simp only [h4, Option.map_some, Option.some.injEq, Prod.mk.injEq] at h; obtain ⟨rfl, _⟩ := h; exact hne
        · split at h
          · cases h4 : counted encItemC false r3 with
            | none => simp [h4] at h
            | some y => simp only [h4, Option.map_some, Option.some.injEq, Prod.mk.injEq] at h; obtain ⟨rfl, _⟩ := h; exact hne
          · cases h

/-- a counted list read with the non-empty flag is not empty -/
theorem counted_nonempty {α : Type} (d : Dec α) (bs : Bytes) (l : List α) (r : Bytes)
    (h : counted d true bs = some (l, r)) : l ≠ [] := by
  unfold counted at h
  cases h3 : leb bs with
  | none => simp [h3] at h
  | some w =>
    obtain ⟨n, r3⟩ := w
    simp only [h3, Bool.true_and] at h
    split at h
    · cases h
    · rename_i hn
      cases n with
      | zero => simp at hn
      | succ m =>
        simp only [many] at h
        cases h4 : d r3 with
        | none => simp [h4] at h
        | some z =>
          obtain ⟨a, r4⟩ := z
          simp only [h4] at h
          cases h5 : many m d r4 with
          | none => simp [h5] at h
          | some y =>
            simp only [h5, Option.some.injEq, Prod.mk.injEq] at h
            obtain ⟨rfl, _⟩ := h
            simp

/-- a decoded user key carries at least one marker: `UserSecretKey::tracing_level() = id.len() - 1`
cannot underflow, and `decaps` zips a non-empty identifier with the traps -/
theorem usk_id_nonempty (c : Cfg) (bs : Bytes) (u : WUsk) (r : Bytes) (h : usk c bs = some (u, r)) : u.id ≠ [] := by
  unfold usk at h
  cases h1 : userId c bs with
  | none => simp [h1] at h
  | some p =>
    obtain ⟨id, r1⟩ := p
    have hne := counted_nonempty (sk c) bs id r1 h1
    simp only [h1] at h
    cases h2 : counted (pk c) false r1 with
    | none => simp [h2] at h
    | some q =>
      obtain ⟨ps, r2⟩ := q
      simp only [h2] at h
      cases h3 : counted (uskItem c) false r2 with
      | none => simp [h3] at h
      | some w =>
        obtain ⟨secrets, r3⟩ := w
        simp only [h3] at h
        split at h
        · simp only [Option.some.injEq, Prod.mk.injEq] at h; obtain ⟨rfl, _⟩ := h; exact hne
        · cases h4 : takeN SIG r3 with
          | none => simp [h4] at h
          | some y => simp only [h4, Option.map_some, Option.some.injEq, Prod.mk.injEq] at h; obtain ⟨rfl, _⟩ := h; exact hne

/-- every chain of a decoded user key is non-empty (the reader drops empty chains): the revision
iterator and `refresh_coordinate_keys` never see an empty chain -/
theorem usk_chains_nonempty (c : Cfg) (bs : Bytes) (u : WUsk) (r : Bytes) (h : usk c bs = some (u, r)) :
    ∀ p ∈ u.secrets, p.2 ≠ [] := by
  unfold usk at h
  cases h1 : userId c bs with
  | none => simp [h1] at h
  | some p =>
    obtain ⟨id, r1⟩ := p
    simp only [h1] at h
    cases h2 : counted (pk c) false r1 with
    | none => simp [h2] at h
    | some q =>
      obtain ⟨ps, r2⟩ := q
      simp only [h2] at h
      cases h3 : counted (uskItem c) false r2 with
      | none => simp [h3] at h
      | some w =>
        obtain ⟨secrets, r3⟩ := w
        simp only [h3] at h
        have key : ∀ p ∈ secrets.filter (fun p => !p.2.isEmpty), p.2 ≠ [] := by
          intro p hp
          have := (List.mem_filter.1 hp).2
          intro he; simp [he] at this
        split at h
        · simp only [Option.some.injEq, Prod.mk.injEq] at h; obtain ⟨rfl, _⟩ := h; exact key
        · cases h4 : takeN SIG r3 with
          | none => simp [h4] at h
          | some y => simp only [h4, Option.map_some, Option.some.injEq, Prod.mk.injEq] at h; obtain ⟨rfl, _⟩ := h; exact key

/-- a decoded public key has at least one tracing point (`MasterPublicKey::tracing_level`) -/
theorem mpk_tpk_nonempty (c : Cfg) (bs : Bytes) (m : WMpk) (r : Bytes) (h : mpk c bs = some (m, r)) : m.tpk ≠ [] := by
  unfold mpk at h
  cases h1 : counted (pk c) true bs with
  | none => simp [h1] at h
  | some p =>
    obtain ⟨tpk, r1⟩ := p
    have hne := counted_nonempty (pk c) bs tpk r1 h1
    simp only [h1] at h
    cases h2 : counted (mpkItem c) false r1 with
    | none => simp [h2] at h
    | some q =>
      obtain ⟨keys, r2⟩ := q
      simp only [h2] at h
      cases h3 : struct_ r2 with
      | none => simp [h3] at h
      | some w => simp only [h3, Option.some.injEq, Prod.mk.injEq] at h; obtain ⟨rfl, _⟩ := h; exact hne

/-- a decoded V1 access structure (no stored identifier counter) only holds identifiers that have a
successor below `2^64`: the counter `max(id) + 1` the reader recomputes cannot overflow (D14: the
reader used `+ 1` on `usize`; an identifier `2^64 − 1` panicked with overflow checks and wrapped the
counter to 0 without) -/
theorem v1_ids_have_successor (bs : Bytes) (s : WStruct) (r : Bytes) (h : struct_ bs = some (s, r))
    (hv : s.version = 0) : ∀ d ∈ s.dims, ∀ a ∈ d.attrs, a.id + 1 < 2 ^ 64 := by
  unfold struct_ at h
  cases h0 : leb bs with
  | none => simp [h0] at h
  | some p0 =>
    obtain ⟨version, r0⟩ := p0
    simp only [h0] at h
    split at h
    · cases h
    · cases h1 : (if version = 1 then (leb r0).map (fun p => (some p.1, p.2)) else some (none, r0)) with
      | none => simp [h1] at h
      | some p1 =>
        obtain ⟨nextId, r1⟩ := p1
        simp only [h1] at h
        cases h2 : leb r1 with
        | none => simp [h2] at h
        | some p2 =>
          obtain ⟨n, r2⟩ := p2
          simp only [h2] at h
          cases h3 : many n dim r2 with
          | none => simp [h3] at h
          | some p3 =>
            obtain ⟨ds, r3⟩ := p3
            simp only [h3] at h
            split at h
            · cases h
            · rename_i hno
              simp only [Option.some.injEq, Prod.mk.injEq] at h
              obtain ⟨rfl, _⟩ := h
              simp only at hv
              subst hv
              intro d hd a ha
              apply Nat.lt_of_not_le
              intro hge
              apply hno
              refine ⟨rfl, ?_⟩
              rw [List.any_eq_true]
              refine ⟨d, hd, ?_⟩
              rw [List.any_eq_true]
              exact ⟨a, ha, by simp only [decide_eq_true_eq]; exact hge⟩

/-- a decoded master key has at least one tracer, and every registered identifier at least one
marker (`TracingSecretKey::tracing_level`, `UserId::tracing_level`; `full_decaps` divides by the
first tracer) -/
theorem msk_tracers_nonempty (c : Cfg) (bs : Bytes) (m : WMsk) (r : Bytes) (h : msk c bs = some (m, r)) :
    m.tracers ≠ [] := by
  unfold msk at h
  cases h0 : sk c bs with
  | none => simp [h0] at h
  | some p0 =>
    obtain ⟨s, r0⟩ := p0
    simp only [h0] at h
    cases h1 : counted (tracer c) true r0 with
    | none => simp [h1] at h
    | some p =>
      obtain ⟨tr, r1⟩ := p
      have hne := counted_nonempty (tracer c) r0 tr r1 h1
      simp only [h1] at h
      cases h2 : counted (userId c) false r1 with
      | none => simp [h2] at h
      | some q =>
        obtain ⟨users, r2⟩ := q
        simp only [h2] at h
        cases h3 : counted (mskItem c) false r2 with
        | none => simp [h3] at h
        | some w =>
          obtain ⟨secrets, r3⟩ := w
          simp only [h3] at h
          split at h
          · cases h
          · rename_i sig r4 _
            cases h5 : struct_ r4 with
            | none => simp [h5] at h
            | some y => simp only [h5, Option.some.injEq, Prod.mk.injEq] at h; obtain ⟨rfl, _⟩ := h; exact hne

/-- a decoded header's encapsulation has at least one trap (header decryption calls `decaps`) -/
theorem header_traps_nonempty (c : Cfg) (bs : Bytes) (hd : WHeader) (r : Bytes) (h : header c bs = some (hd, r)) :
    hd.enc.c ≠ [] := by
  unfold header at h
  cases h1 : xenc c bs with
  | none => simp [h1] at h
  | some p =>
    obtain ⟨e, r1⟩ := p
    simp only [h1] at h
    cases h2 : vec r1 with
    | none => simp [h2] at h
    | some q =>
      simp only [h2, Option.map_some, Option.some.injEq, Prod.mk.injEq] at h
      obtain ⟨rfl, _⟩ := h
      exact xenc_traps_nonempty c bs e r1 h1

/-- the (repaired) revision iterator terminates: it yields at most as many revisions as there are
secrets in the key, and none at all for a key without any chain (it does not spin) -/
theorem revisions_bounded (chains : RevVec) : (revisions chains).length ≤ revTotal chains := by
  induction chains using revisions.induct with
  | case1 chains h => rw [revisions, dif_pos h]; simp
  | case2 chains h ih =>
    rw [revisions, dif_neg h]
    have := revTotal_tails_lt chains h
    simp only [List.length_cons]
    omega

theorem revisions_nil : revisions [] = [] := by
  rw [revisions]; simp [revHeads]

/-- non-vacuity: a count of 2^64-1 on a 3-byte remainder fails after at most 4 reads -/
example : manySteps (2 ^ 64 - 1) (takeN 1) [1, 2, 3] ≤ 4 :=
  manySteps_le (takeN 1) (fun bs a r h => by have := takeN_rest 1 bs a r h; omega) _ _

end CC.Props.C14
