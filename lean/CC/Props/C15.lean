import CC.Model.Policy
/-! # C15 — the policy parser is total and logically faithful

The model `CC.parse` is a total function over `List Char` (accepted by well-founded recursion on
the remaining length: every arm consumes at least one character after trimming), with no partial
operation — `take`/`drop` replace the Rust slices, and `findClose_in_bounds` shows that the offsets
the Rust code slices at are within the string. The DNF of every policy is logically equivalent to
the policy, and the smart constructors used by the parser preserve the truth value. -/

namespace CC.Props.C15
open CC

/-- `impl BitAnd`: conjunction with the `Broadcast` shortcuts keeps the truth value -/
theorem and_eval (v : QA → Bool) (l r : AP) : (l.and r).eval v = (l.eval v && r.eval v) := by
  unfold AP.and; split
  · next h => subst h; simp [AP.eval]
  · split
    · next h => subst h; simp [AP.eval]
    · simp [AP.eval]

/-- `impl BitOr`: disjunction with the `Broadcast` shortcuts keeps the truth value -/
theorem or_eval (v : QA → Bool) (l r : AP) : (l.or r).eval v = (l.eval v || r.eval v) := by
  unfold AP.or; split
  · next h => subst h; simp [AP.eval]
  · split
    · next h => subst h; simp [AP.eval]
    · simp [AP.eval]

/-- `conjugate` is the conjunction of the queue -/
theorem conjugate_eval (v : QA → Bool) (first : AP) (rest : List AP) :
    (conjugate first rest).eval v = (first.eval v && rest.all (·.eval v)) := by
  unfold conjugate
  induction rest generalizing first with
  | nil => simp
  | cons a as ih => simp [List.foldl, ih, and_eval, Bool.and_assoc]

/-- the DNF is equivalent to the policy under every truth assignment -/
theorem toDnf_sound (v : QA → Bool) (p : AP) : evalDnf v p.toDnf = p.eval v := by
  induction p with
  | broadcast => simp [AP.toDnf, evalDnf, AP.eval]
  | term a => simp [AP.toDnf, evalDnf, AP.eval]
  | disj l r ihl ihr =>
    simp only [evalDnf] at *
    simp [AP.toDnf, AP.eval, List.any_append, ihl, ihr]
  | conj l r ihl ihr =>
    simp only [evalDnf] at *
    simp only [AP.toDnf, AP.eval, ← ihl, ← ihr]
    rw [Bool.eq_iff_iff]
    simp only [List.any_eq_true, List.mem_flatMap, List.mem_map, Bool.and_eq_true, List.all_eq_true]
    constructor
    · rintro ⟨c, ⟨x, hx, y, hy, rfl⟩, hc⟩
      exact ⟨⟨x, hx, fun a ha => hc a (List.mem_append_left _ ha)⟩,
             ⟨y, hy, fun a ha => hc a (List.mem_append_right _ ha)⟩⟩
    · rintro ⟨⟨x, hx, hxa⟩, ⟨y, hy, hya⟩⟩
      refine ⟨x ++ y, ⟨x, hx, y, hy, rfl⟩, ?_⟩
      intro a ha
      rcases List.mem_append.1 ha with h | h
      · exact hxa a h
      · exact hya a h

/-- a DNF always has at least one clause (so every policy targets at least one right) -/
theorem toDnf_ne_nil (p : AP) : p.toDnf ≠ [] := by
  induction p with
  | broadcast => simp [AP.toDnf]
  | term _ => simp [AP.toDnf]
  | disj a b iha _ => simp [AP.toDnf, iha]
  | conj a b iha ihb =>
    simp only [AP.toDnf, ne_eq, List.flatMap_eq_nil_iff, List.map_eq_nil_iff]
    intro h
    obtain ⟨x, hx⟩ := List.exists_mem_of_ne_nil _ iha
    exact ihb (h x hx)

/-- the atoms of the DNF are the atoms of the policy: names are preserved exactly -/
theorem toDnf_atoms (p : AP) (a : QA) : (∃ c ∈ p.toDnf, a ∈ c) ↔ a ∈ p.atoms := by
  induction p with
  | broadcast => simp [AP.toDnf, AP.atoms]
  | term b => simp [AP.toDnf, AP.atoms]
  | disj l r ihl ihr =>
    simp only [AP.toDnf, AP.atoms, List.mem_append, ← ihl, ← ihr]
    constructor
    · rintro ⟨c, hc | hc, ha⟩
      · exact Or.inl ⟨c, hc, ha⟩
      · exact Or.inr ⟨c, hc, ha⟩
    · rintro (⟨c, hc, ha⟩ | ⟨c, hc, ha⟩)
      · exact ⟨c, Or.inl hc, ha⟩
      · exact ⟨c, Or.inr hc, ha⟩
  | conj l r ihl ihr =>
    have hl : l.toDnf ≠ [] := toDnf_ne_nil l
    have hr : r.toDnf ≠ [] := toDnf_ne_nil r
    simp only [AP.toDnf, AP.atoms, List.mem_append, ← ihl, ← ihr, List.mem_flatMap, List.mem_map]
    constructor
    · rintro ⟨c, ⟨x, hx, y, hy, rfl⟩, ha⟩
      rcases List.mem_append.1 ha with h | h
      · exact Or.inl ⟨x, hx, h⟩
      · exact Or.inr ⟨y, hy, h⟩
    · rintro (⟨x, hx, ha⟩ | ⟨y, hy, ha⟩)
      · obtain ⟨y, hy⟩ := List.exists_mem_of_ne_nil _ hr
        exact ⟨x ++ y, ⟨x, hx, y, hy, rfl⟩, List.mem_append_left _ ha⟩
      · obtain ⟨x, hx⟩ := List.exists_mem_of_ne_nil _ hl
        exact ⟨x ++ y, ⟨x, hx, y, hy, rfl⟩, List.mem_append_right _ ha⟩

/-- the offset returned by `find_matching_closing_parenthesis` lies inside the string, so both
slices `&e[1..1 + offset]` and `&e[2 + offset..]` of the Rust code are in bounds -/
theorem findClose_in_bounds (s : List Char) (off : Nat) (h : findClose s 0 0 = some off) :
    off + 1 ≤ s.length := by
  have := findClose_lt s 0 0 off h; omega

/-- trimming never lengthens: the recursion of the parser is well founded (no divergence) -/
theorem trim_shrinks (s : List Char) : (trim s).length ≤ s.length := trim_length_le s

/-- the parser is total: every string yields a policy or one of the two error kinds (there is no
third outcome such as a panic in the model) -/
theorem parse_total (s : String) : (∃ p, parse s = .ok p) ∨ parse s = .error .invalidBool ∨
    parse s = .error .invalidAttr := by
  cases h : parse s with
  | ok p => exact Or.inl ⟨p, rfl⟩
  | error e => cases e <;> simp

/-- non-vacuity: a conjunction of a disjunction, evaluated -/
example : evalDnf (fun a => a.name == "x") (AP.conj (.disj (.term ⟨"A", "x"⟩) (.term ⟨"A", "y"⟩)) (.term ⟨"B", "x"⟩)).toDnf = true := by
  decide

end CC.Props.C15
