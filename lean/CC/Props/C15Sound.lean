import CC.Props.C15
import CC.Lemmas.Parse
/-! # C15 — the parser is logically faithful on the documented grammar (`parse_sound`)

The grammar, with its meaning, as an inductive relation `Den lvl s f` ("the text `s` at precedence
level `lvl` denotes the boolean function `f`"): parentheses first, AND (`&&`) before OR (`||`),
blanks anywhere between tokens and around the two names of an attribute, redundant parentheses
allowed. The theorem: whatever text the grammar derives, the parser returns a policy that evaluates
to the denoted function under every truth assignment, with the attribute names exactly as written
(trimmed). -/
namespace CC.Props.C15
open CC CC.Parse

inductive Lvl | unit | conj | disj

/-- the documented grammar and its meaning -/
inductive Den : Lvl → List Char → ((QA → Bool) → Bool) → Prop
  | atom (raw : List Char) (a : QA) : AtomText raw a → Den .unit raw (fun v => v a)
  | paren (s : List Char) (f) : Den .disj s f → Den .unit ('(' :: s ++ [')']) f
  | wsL (c : Char) (s : List Char) (f) : isWs c = true → Den .unit s f → Den .unit (c :: s) f
  | wsR (c : Char) (s : List Char) (f) : isWs c = true → Den .unit s f → Den .unit (s ++ [c]) f
  | unit (s : List Char) (f) : Den .unit s f → Den .conj s f
  | and (s t : List Char) (f g) : Den .unit s f → Den .conj t g →
      Den .conj (s ++ '&' :: '&' :: t) (fun v => f v && g v)
  | conj (s : List Char) (f) : Den .conj s f → Den .disj s f
  | or (s t : List Char) (f g) : Den .conj s f → Den .disj t g →
      Den .disj (s ++ '|' :: '|' :: t) (fun v => f v || g v)

/-- what the induction carries at each level -/
def Motive : Lvl → List Char → ((QA → Bool) → Bool) → Prop
  | .unit, s, f => Bal s ∧ ∀ q rest, Boundary rest →
      ∃ p, (∀ v, p.eval v = f v) ∧ parseLoop q (s ++ rest) = parseLoop (q ++ [p]) rest
  | .conj, s, f => Bal s ∧ ∀ q rest, Boundary rest →
      ∃ ps, ps ≠ [] ∧ (∀ v, ps.all (·.eval v) = f v) ∧ parseLoop q (s ++ rest) = parseLoop (q ++ ps) rest
  | .disj, s, f => Bal s ∧ ∀ w, AllWs w → ∃ p, (∀ v, p.eval v = f v) ∧ parseLoop [] (s ++ w) = .ok p

theorem bal_of_notMeta : ∀ (x : List Char), (∀ c ∈ x, isMeta c = false) → Bal x
  | [], _ => .nil
  | c :: x, h => by
    have hc := h c List.mem_cons_self
    refine .other c x ?_ ?_ (bal_of_notMeta x (fun y hy => h y (List.mem_cons_of_mem _ hy)))
    · intro hh; subst hh; simp [isMeta] at hc
    · intro hh; subst hh; simp [isMeta] at hc

theorem bal_atom {raw : List Char} {a : QA} (h : AtomText raw a) : Bal raw := by
  obtain ⟨c0, d, n, rfl, _, hd, hn, _, _⟩ := h
  apply bal_of_notMeta
  intro c hc
  simp only [List.cons_append, List.mem_cons, List.mem_append] at hc
  rcases hc with rfl | h1 | rfl | rfl | h1
  · exact (hd _ List.mem_cons_self).1
  · exact (hd c (List.mem_cons_of_mem _ h1)).1
  · decide
  · decide
  · exact (hn c h1).1

theorem boundary_meta (c : Char) (t : List Char) (hc : isMeta c = true) : Boundary (c :: t) :=
  ⟨[], c :: t, rfl, (fun x hx => by cases hx), Or.inr ⟨c, t, rfl, hc⟩⟩

theorem boundary_ws (w : List Char) (hw : AllWs w) : Boundary w :=
  ⟨w, [], by simp, hw, Or.inl rfl⟩

theorem boundary_cons_ws (c : Char) (rest : List Char) (hc : isWs c = true) (h : Boundary rest) : Boundary (c :: rest) := by
  obtain ⟨w, tail, rfl, hw, ht⟩ := h
  refine ⟨c :: w, tail, rfl, ?_, ht⟩
  intro x hx
  rcases List.mem_cons.1 hx with rfl | hx
  · exact hc
  · exact hw x hx

theorem den_motive : ∀ {lvl s f}, Den lvl s f → Motive lvl s f := by
  intro lvl s f h
  induction h with
  | atom raw a hat =>
    refine ⟨bal_atom hat, ?_⟩
    intro q rest hb
    exact ⟨.term a, fun v => rfl, atom_step hat q rest hb⟩
  | paren s f _ ih =>
    obtain ⟨hbal, ih⟩ := ih
    refine ⟨?_, ?_⟩
    · have := Bal.paren s [] hbal .nil
      simpa using this
    · intro q rest hb
      obtain ⟨p, hp, hparse⟩ := ih [] (fun _ h => by cases h)
      simp only [List.append_nil] at hparse
      refine ⟨p, hp, ?_⟩
      -- the trimmed expression starts with the parenthesis; its matching one is found after `s`
      have htrim : trim (('(' :: s ++ [')']) ++ rest) = '(' :: (s ++ ')' :: trimEnd rest) := by
        have e1 : ('(' :: s ++ [')']) ++ rest = '(' :: (s ++ (')' :: rest)) := by simp
        rw [e1, trim_cons _ _ (by decide)]
        have hne : trimEnd (')' :: rest) ≠ [] := by rw [trimEnd_cons _ _ (by decide)]; simp
        rw [trimEnd_append _ _ hne, trimEnd_cons _ _ (by decide)]
      rw [parseLoop_paren q _ _ htrim]
      have hfc : findClose (s ++ ')' :: trimEnd rest) 0 0 = some s.length := by
        rw [findClose_bal hbal]
        simp [findClose]
      simp only [hfc]
      have htake : List.take s.length (s ++ ')' :: trimEnd rest) = s := by simp
      have hdrop : List.drop (s.length + 1) (s ++ ')' :: trimEnd rest) = trimEnd rest := by
        rw [show s.length + 1 = (s ++ [')']).length by simp,
          show s ++ ')' :: trimEnd rest = (s ++ [')']) ++ trimEnd rest by simp, List.drop_left]
      rw [htake, hdrop, hparse]
      simp only
      exact parseLoop_congr _ (trim_trimEnd rest)
  | wsL c s f hc _ ih =>
    obtain ⟨hbal, ih⟩ := ih
    refine ⟨.other c s ?_ ?_ hbal, ?_⟩
    · intro hh; subst hh; revert hc; decide
    · intro hh; subst hh; revert hc; decide
    · intro q rest hb
      obtain ⟨p, hp, hparse⟩ := ih q rest hb
      refine ⟨p, hp, ?_⟩
      rw [← hparse]
      apply parseLoop_congr
      have : (c :: s) ++ rest = [c] ++ (s ++ rest) := by simp
      rw [this, trim_ws_left [c] _ (fun x hx => by simp at hx; subst hx; exact hc)]
  | wsR c s f hc _ ih =>
    obtain ⟨hbal, ih⟩ := ih
    refine ⟨hbal.append (.other c [] ?_ ?_ .nil), ?_⟩
    · intro hh; subst hh; revert hc; decide
    · intro hh; subst hh; revert hc; decide
    · intro q rest hb
      obtain ⟨p, hp, hparse⟩ := ih q (c :: rest) (boundary_cons_ws c rest hc hb)
      refine ⟨p, hp, ?_⟩
      have : (s ++ [c]) ++ rest = s ++ (c :: rest) := by simp
      rw [this, hparse]
      apply parseLoop_congr
      have : c :: rest = [c] ++ rest := rfl
      rw [this, trim_ws_left [c] _ (fun x hx => by simp at hx; subst hx; exact hc)]
  | unit s f _ ih =>
    obtain ⟨hbal, ih⟩ := ih
    refine ⟨hbal, ?_⟩
    intro q rest hb
    obtain ⟨p, hp, hparse⟩ := ih q rest hb
    exact ⟨[p], by simp, fun v => by simp [hp v], hparse⟩
  | and s t f g _ _ ih1 ih2 =>
    obtain ⟨hb1, ih1⟩ := ih1
    obtain ⟨hb2, ih2⟩ := ih2
    refine ⟨hb1.append (.other '&' _ (by decide) (by decide) (.other '&' _ (by decide) (by decide) hb2)), ?_⟩
    intro q rest hb
    obtain ⟨p, hp, hparse1⟩ := ih1 q ('&' :: '&' :: (t ++ rest)) (boundary_meta _ _ (by decide))
    obtain ⟨ps, hne, hps, hparse2⟩ := ih2 (q ++ [p]) rest hb
    refine ⟨p :: ps, by simp, ?_, ?_⟩
    · intro v; simp [hp v, hps v]
    · have e1 : (s ++ '&' :: '&' :: t) ++ rest = s ++ ('&' :: '&' :: (t ++ rest)) := by simp
      rw [e1, hparse1]
      have htrim : trim ('&' :: '&' :: (t ++ rest)) = '&' :: '&' :: trimEnd (t ++ rest) := by
        rw [trim_cons _ _ (by decide), trimEnd_cons _ _ (by decide)]
      rw [parseLoop_and _ _ _ htrim]
      have : (q ++ [p]).isEmpty = false := by simp
      simp only [this, Bool.false_eq_true, if_false]
      rw [parseLoop_congr _ (trim_trimEnd (t ++ rest)), hparse2]
      simp
  | conj s f _ ih =>
    obtain ⟨hbal, ih⟩ := ih
    refine ⟨hbal, ?_⟩
    intro w hw
    obtain ⟨ps, hne, hps, hparse⟩ := ih [] w (boundary_ws w hw)
    rw [hparse]
    have htrim : trim w = [] := by
      have := trim_ws_right [] w hw; simpa [trim, trimStart, trimEnd] using this
    rw [parseLoop_nil _ _ htrim]
    cases ps with
    | nil => exact absurd rfl hne
    | cons first rest =>
      simp only [List.nil_append]
      refine ⟨conjugate first rest, ?_, rfl⟩
      intro v
      rw [conjugate_eval, ← hps v]; simp
  | or s t f g _ _ ih1 ih2 =>
    obtain ⟨hb1, ih1⟩ := ih1
    obtain ⟨hb2, ih2⟩ := ih2
    refine ⟨hb1.append (.other '|' _ (by decide) (by decide) (.other '|' _ (by decide) (by decide) hb2)), ?_⟩
    intro w hw
    obtain ⟨ps, hne, hps, hparse1⟩ := ih1 [] ('|' :: '|' :: (t ++ w)) (boundary_meta _ _ (by decide))
    obtain ⟨p2, hp2, hparse2⟩ := ih2 w hw
    have e1 : (s ++ '|' :: '|' :: t) ++ w = s ++ ('|' :: '|' :: (t ++ w)) := by simp
    rw [e1, hparse1]
    have htrim : trim ('|' :: '|' :: (t ++ w)) = '|' :: '|' :: trimEnd (t ++ w) := by
      rw [trim_cons _ _ (by decide), trimEnd_cons _ _ (by decide)]
    rw [parseLoop_or _ _ _ htrim]
    cases ps with
    | nil => exact absurd rfl hne
    | cons base qs =>
      simp only [List.nil_append]
      rw [parseLoop_congr _ (trim_trimEnd (t ++ w)), hparse2]
      refine ⟨(conjugate base qs).or p2, ?_, rfl⟩
      intro v
      rw [or_eval, conjugate_eval, hp2 v, ← hps v]; simp

/-- **`parse_sound`.** Every text derived by the documented grammar (any spacing, redundant
parentheses) parses, and the parsed policy is logically equivalent to the denoted boolean
expression — parentheses first, AND before OR — under every truth assignment; so is its
disjunctive normal form; the attribute names are those written, trimmed. -/
theorem parse_sound (s : List Char) (f : (QA → Bool) → Bool) (h : Den .disj s f) :
    ∃ p, parse (String.ofList s) = .ok p ∧ (∀ v, p.eval v = f v) ∧ (∀ v, evalDnf v p.toDnf = f v) := by
  obtain ⟨_, hm⟩ := den_motive h
  obtain ⟨p, hp, hparse⟩ := hm [] (fun _ h => by cases h)
  refine ⟨p, ?_, hp, fun v => by rw [toDnf_sound, hp v]⟩
  unfold parse
  simpa using hparse

/-- the policy `*` alone is the broadcast policy -/
theorem parse_star : parse "*" = .ok .broadcast := by
  unfold parse
  rw [parseLoop.eq_def]
  simp only []
  have h : trim "*".toList = ['*'] := by decide
  split
  · rename_i he; rw [h] at he; cases he
  · rename_i c tl he
    simp only [h, if_true]
    rfl

/-- non-vacuity: the text `A::B && (C::D || E :: F)` is derived by the grammar with the meaning
`A::B ∧ (C::D ∨ E::F)` (names trimmed) -/
example : Den .disj "A::B && (C::D || E :: F)".toList
    (fun v => v ⟨"A", "B"⟩ && (v ⟨"C", "D"⟩ || v ⟨"E", "F"⟩)) := by
  have a1 : AtomText "A::B ".toList ⟨"A", "B"⟩ :=
    ⟨'A', [], ['B', ' '], by decide, by decide, by decide, by decide, by decide, by decide⟩
  have a2 : AtomText "C::D ".toList ⟨"C", "D"⟩ :=
    ⟨'C', [], ['D', ' '], by decide, by decide, by decide, by decide, by decide, by decide⟩
  have a3 : AtomText "E :: F".toList ⟨"E", "F"⟩ :=
    ⟨'E', [' '], [' ', 'F'], by decide, by decide, by decide, by decide, by decide, by decide⟩
  have inner : Den .disj ("C::D ".toList ++ '|' :: '|' :: (' ' :: "E :: F".toList)) (fun v => v ⟨"C", "D"⟩ || v ⟨"E", "F"⟩) :=
    .or _ _ _ _ (.unit _ _ (.atom _ _ a2)) (.conj _ _ (.unit _ _ (.wsL ' ' _ _ (by decide) (.atom _ _ a3))))
  have par : Den .unit (' ' :: ('(' :: ("C::D ".toList ++ '|' :: '|' :: (' ' :: "E :: F".toList)) ++ [')'])) _ :=
    .wsL ' ' _ _ (by decide) (.paren _ _ inner)
  exact .conj _ _ (.and _ _ _ _ (.atom _ _ a1) (.unit _ _ par))

end CC.Props.C15
