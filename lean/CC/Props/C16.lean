import CC.Lemmas.Prims
import CC.Model.Sym
import CC.Props.C04
import CC.Props.C12
import CC.Props.C17
import CC.Props.C06
import CC.Lemmas.Contig
/-! # C16 — every secret, nonce and identifier is fresh (partial)

The CSPRNG is idealised as a counter of fresh tokens threaded through every operation. What the
theorems establish is the *logic*: every value that must be fresh is a draw of its own (never a
constant, never a draw already used for something else), and the counter only moves forward, so
values drawn by different calls differ — for any history. **Partial:** a weak or mis-seeded
generator, state cloned across `fork`, or an entropy failure cannot be exhibited by this model;
the long statistical run of the check is support for that part, not a proof. -/

namespace CC.Props.C16
open CC

/-- an encapsulation's seed (hence its tag, traps `r·Pᵢ`, masked seeds and shared secret, which
are injective functions of it under the hash idealisation) is a draw of its own, and the counter
moves past it -/
theorem encaps_seed_fresh (mpk : Mpk) (t : List Right) (n : Rng) (s : Nat) (x : XEnc)
    (h : (encaps mpk t n).1 = .ok (s, x)) : s = n ∧ x.seed = n ∧ n < (encaps mpk t n).2 := by
  unfold encaps at h ⊢
  cases hs : mpk.selectSubkeys t with
  | error e => simp [hs] at h
  | ok v =>
    obtain ⟨hyb, ks⟩ := v
    simp only [hs, Except.ok.injEq, Prod.mk.injEq] at h ⊢
    obtain ⟨rfl, rfl⟩ := h
    exact ⟨rfl, rfl, Nat.lt_of_lt_of_le (Nat.lt_succ_self n) (Nat.le_add_right _ _)⟩

theorem encaps_rng_mono (mpk : Mpk) (t : List Right) (n : Rng) : n ≤ (encaps mpk t n).2 := by
  unfold encaps
  cases hs : mpk.selectSubkeys t with
  | error e => simp
  | ok v => obtain ⟨hyb, ks⟩ := v; exact Nat.le_trans (Nat.le_succ n) (Nat.le_add_right _ _)

/-- no two encapsulations share a seed, whatever happened in between (anything that leaves the
counter at or beyond where the first call left it — every operation does) -/
theorem two_encaps_distinct (mpk mpk' : Mpk) (t t' : List Right) (n m : Rng) (s s' : Nat) (x x' : XEnc)
    (h1 : (encaps mpk t n).1 = .ok (s, x)) (hm : (encaps mpk t n).2 ≤ m)
    (h2 : (encaps mpk' t' m).1 = .ok (s', x')) : s ≠ s' ∧ x.seed ≠ x'.seed := by
  obtain ⟨rfl, hx, hlt⟩ := encaps_seed_fresh mpk t n s x h1
  obtain ⟨rfl, hx', _⟩ := encaps_seed_fresh mpk' t' m s' x' h2
  rw [hx, hx']
  have : s < s' := Nat.lt_of_lt_of_le hlt hm
  exact ⟨Nat.ne_of_lt this, Nat.ne_of_lt this⟩

/-- the AEAD nonce of a PKE ciphertext is a draw of its own, made after (and different from) the
encapsulation's draws: identical keys and plaintexts never share a nonce -/
theorem pke_nonce_fresh (mpk : Mpk) (t : List Right) (ptx : Bytes) (n : Rng) (x : XEnc) (c : Sealed)
    (h : (pkeEncrypt mpk t ptx n).1 = .ok (x, c)) :
    n < c.nonce ∧ c.nonce < (pkeEncrypt mpk t ptx n).2 ∧ c.nonce ≠ x.seed := by
  unfold pkeEncrypt at h ⊢
  rcases he : encaps mpk t n with ⟨res, n'⟩
  cases res with
  | error e => simp [he] at h
  | ok v =>
    obtain ⟨seed, x0⟩ := v
    simp only [he, Except.ok.injEq, Prod.mk.injEq] at h ⊢
    obtain ⟨rfl, rfl⟩ := h
    have h1 : (encaps mpk t n).1 = .ok (seed, x0) := by rw [he]
    obtain ⟨_, hx, hlt⟩ := encaps_seed_fresh mpk t n seed x0 h1
    rw [he] at hlt
    simp only [aeSeal] at *
    refine ⟨hlt, Nat.lt_succ_self _, ?_⟩
    rw [hx]; exact Nat.ne_of_gt hlt

/-- the same for encrypted header metadata -/
theorem header_nonce_fresh (mpk : Mpk) (t : List Right) (md : Bytes) (ad : Option Bytes) (n : Rng)
    (sec : DKey) (hd : Header) (h : (hdrGenerate mpk t (some md) ad n).1 = .ok (sec, hd)) :
    ∃ c, hd.mdata = some c ∧ n < c.nonce ∧ c.nonce < (hdrGenerate mpk t (some md) ad n).2 ∧ c.nonce ≠ hd.enc.seed := by
  unfold hdrGenerate at h ⊢
  rcases he : encaps mpk t n with ⟨res, n'⟩
  cases res with
  | error e => simp [he] at h
  | ok v =>
    obtain ⟨seed, x0⟩ := v
    simp only [he, Except.ok.injEq, Prod.mk.injEq] at h ⊢
    obtain ⟨rfl, rfl⟩ := h
    have h1 : (encaps mpk t n).1 = .ok (seed, x0) := by rw [he]
    obtain ⟨_, hx, hlt⟩ := encaps_seed_fresh mpk t n seed x0 h1
    rw [he] at hlt
    refine ⟨_, rfl, ?_⟩
    simp only [aeSeal]
    refine ⟨hlt, Nat.lt_succ_self _, ?_⟩
    rw [hx]; exact Nat.ne_of_gt hlt

/-- every rekey publishes a value never published before: the new newest secret of a rekeyed right
carries a token drawn by this call -/
theorem rekey_publishes_fresh (secrets : RevMap) (rights : List Right) (n : Rng) (r : Right) (hr : r ∈ rights)
    (hall : ∀ r ∈ rights, (secrets.getLatest r).isSome) :
    ∃ act sk, (rekeyLoop secrets rights n).2.1.getLatest r = some (act, sk) ∧ n ≤ sk.tok :=
  CC.Props.C04.rekeyLoop_fresh secrets rights n r hr hall

/-- no two user keys share an identifier -/
theorem user_ids_fresh (msk : Msk) (rights : List Right) (n : Rng) (usk : Usk)
    (h : (uskKeygen msk rights n).1 = .ok usk) (old : UserId) (hold : ∀ m ∈ old, m < n) (hne : old ≠ []) :
    usk.id ≠ old :=
  CC.Props.C17.keygen_id_distinct msk rights n usk h old hold hne

/-- the metadata encryption key differs from the secret handed to the caller -/
theorem metadata_key_ne_secret (seed : Nat) : (⟨seed, labelHdrSecret⟩ : DKey) ≠ ⟨seed, labelHdrKey⟩ :=
  CC.Props.C12.header_secret_ne_metadata_key seed

/-! ## over every history -/

/-- the generator only moves forward along any sequence of operations from a reachable world -/
theorem steps_rng_mono (w : World) (hw : Reachable w) (ops : List Op) : w.rng ≤ (ops.foldl World.step w).rng := by
  induction ops generalizing w with
  | nil => exact Nat.le_refl _
  | cons op rest ih =>
    have hr' : Reachable (w.step op) := by
      obtain ⟨n0, k0, ops0, rfl⟩ := hw
      exact ⟨n0, k0, ops0 ++ [op], by simp [List.foldl_append]⟩
    exact Nat.le_trans (step_rng_mono w op (reachable_inv w hw)) (ih (w.step op) hr')

/-- whatever a reachable world publishes was drawn before: every published token is below the
generator's counter -/
theorem published_below (w : World) (hw : Reachable w) (r : Right) (pk : Sk) (h : (r, pk) ∈ w.msk.mpk.keys) :
    pk.tok < w.rng := by
  obtain ⟨chain, hm, hh⟩ := CC.Props.C06.mpk_only_activated w.msk r pk h
  have hb := (reachable_inv w hw).below r chain hm (true, pk)
  apply hb
  cases chain with
  | nil => simp at hh
  | cons a as => simp only [List.head?_cons, Option.some.injEq] at hh; subst hh; exact List.mem_cons_self

/-- **Every rekey publishes a value never published before, over every history.** Take any
reachable world `w0` and any value `pk0` it publishes (for any right); let any operations follow,
then a rekey of a policy whose rights the master key holds. The newest secret of every rekeyed
right — what the next public key publishes for it — is a draw of this very call, hence differs
from `pk0`: no public value of any earlier moment ever comes back through a rekey. -/
theorem rekey_never_republishes (w0 : World) (hw0 : Reachable w0) (r0 : Right) (pk0 : Sk)
    (hpub : (r0, pk0) ∈ w0.msk.mpk.keys) (ops : List Op) (p : AP) (rights : List Right)
    (hr : (ops.foldl World.step w0).msk.structure_.uskRights p = .ok rights)
    (hall : ∀ r ∈ rights, ((ops.foldl World.step w0).msk.secrets.getLatest r).isSome)
    (r : Right) (hmem : r ∈ rights) :
    ∃ act sk, ((ops.foldl World.step w0).step (.rekey p)).msk.secrets.getLatest r = some (act, sk) ∧
      pk0.tok < sk.tok := by
  have h0 := published_below w0 hw0 r0 pk0 hpub
  have hmono := steps_rng_mono w0 hw0 ops
  generalize ops.foldl World.step w0 = w1 at hr hall hmono
  obtain ⟨act, sk, hl, hn⟩ := rekey_publishes_fresh w1.msk.secrets rights w1.rng r hmem hall
  refine ⟨act, sk, ?_, Nat.lt_of_lt_of_le (Nat.lt_of_lt_of_le h0 hmono) hn⟩
  simp only [World.step, hr, rekey]
  have hany : (rights.any fun r => (w1.msk.secrets.getLatest r).isNone) = false := by
    rw [List.any_eq_false]
    intro x hx
    have := hall x hx
    cases hgl : w1.msk.secrets.getLatest x with
    | none => simp [hgl] at this
    | some v => simp
  simp only [hany]
  exact hl

end CC.Props.C16
