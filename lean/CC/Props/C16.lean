import CC.Lemmas.Prims
import CC.Model.Sym
import CC.Props.C04
import CC.Props.C12
import CC.Props.C17
/-! # C16 — every secret, nonce and identifier is fresh (partial)

The CSPRNG is idealised as a counter of fresh tokens threaded through every operation. What the
theorems establish is the *logic*: every value that must be fresh is a draw of its own (never a
constant, never a draw already used for something else), and the counter only moves forward, so
values drawn by different calls differ — for any history. **Partial:** a weak or mis-seeded
generator, state cloned across `fork`, or an entropy failure cannot be exhibited by this model;
the long statistical run of the check is support for that part, not a proof. -/

namespace CC.Props.C16
open CC

/-- an encapsulation's seed (hence its tag, traps `r·Pᵢ`, masked seeds and shared secret, which
are injective functions of it under the hash idealisation) is a draw of its own, and the counter
moves past it -/
theorem encaps_seed_fresh (mpk : Mpk) (t : List Right) (n : Rng) (s : Nat) (x : XEnc)
    (h : (encaps mpk t n).1 = .ok (s, x)) : s = n ∧ x.seed = n ∧ n < (encaps mpk t n).2 := by
  unfold encaps at h ⊢
  cases hs : mpk.selectSubkeys t with
  | error e => simp [hs] at h
  | ok v =>
    obtain ⟨hyb, ks⟩ := v
    simp only [hs, Except.ok.injEq, Prod.mk.injEq] at h ⊢
    obtain ⟨rfl, rfl⟩ := h
    exact ⟨rfl, rfl, Nat.lt_of_lt_of_le (Nat.lt_succ_self n) (Nat.le_add_right _ _)⟩

theorem encaps_rng_mono (mpk : Mpk) (t : List Right) (n : Rng) : n ≤ (encaps mpk t n).2 := by
  unfold encaps
  cases hs : mpk.selectSubkeys t with
  | error e => simp
  | ok v => obtain ⟨hyb, ks⟩ := v; exact Nat.le_trans (Nat.le_succ n) (Nat.le_add_right _ _)

/-- no two encapsulations share a seed, whatever happened in between (anything that leaves the
counter at or beyond where the first call left it — every operation does) -/
theorem two_encaps_distinct (mpk mpk' : Mpk) (t t' : List Right) (n m : Rng) (s s' : Nat) (x x' : XEnc)
    (h1 : (encaps mpk t n).1 = .ok (s, x)) (hm : (encaps mpk t n).2 ≤ m)
    (h2 : (encaps mpk' t' m).1 = .ok (s', x')) : s ≠ s' ∧ x.seed ≠ x'.seed := by
  obtain ⟨rfl, hx, hlt⟩ := encaps_seed_fresh mpk t n s x h1
  obtain ⟨rfl, hx', _⟩ := encaps_seed_fresh mpk' t' m s' x' h2
  rw [hx, hx']
  have : s < s' := Nat.lt_of_lt_of_le hlt hm
  exact ⟨Nat.ne_of_lt this, Nat.ne_of_lt this⟩

/-- the AEAD nonce of a PKE ciphertext is a draw of its own, made after (and different from) the
encapsulation's draws: identical keys and plaintexts never share a nonce -/
theorem pke_nonce_fresh (mpk : Mpk) (t : List Right) (ptx : Bytes) (n : Rng) (x : XEnc) (c : Sealed)
    (h : (pkeEncrypt mpk t ptx n).1 = .ok (x, c)) :
    n < c.nonce ∧ c.nonce < (pkeEncrypt mpk t ptx n).2 ∧ c.nonce ≠ x.seed := by
  unfold pkeEncrypt at h ⊢
  rcases he : encaps mpk t n with ⟨res, n'⟩
  cases res with
  | error e => simp [he] at h
  | ok v =>
    obtain ⟨seed, x0⟩ := v
    simp only [he, Except.ok.injEq, Prod.mk.injEq] at h ⊢
    obtain ⟨rfl, rfl⟩ := h
    have h1 : (encaps mpk t n).1 = .ok (seed, x0) := by rw [he]
    obtain ⟨_, hx, hlt⟩ := encaps_seed_fresh mpk t n seed x0 h1
    rw [he] at hlt
    simp only [aeSeal] at *
    refine ⟨hlt, Nat.lt_succ_self _, ?_⟩
    rw [hx]; exact Nat.ne_of_gt hlt

/-- the same for encrypted header metadata -/
theorem header_nonce_fresh (mpk : Mpk) (t : List Right) (md : Bytes) (ad : Option Bytes) (n : Rng)
    (sec : DKey) (hd : Header) (h : (hdrGenerate mpk t (some md) ad n).1 = .ok (sec, hd)) :
    ∃ c, hd.mdata = some c ∧ n < c.nonce ∧ c.nonce < (hdrGenerate mpk t (some md) ad n).2 ∧ c.nonce ≠ hd.enc.seed := by
  unfold hdrGenerate at h ⊢
  rcases he : encaps mpk t n with ⟨res, n'⟩
  cases res with
  | error e => simp [he] at h
  | ok v =>
    obtain ⟨seed, x0⟩ := v
    simp only [he, Except.ok.injEq, Prod.mk.injEq] at h ⊢
    obtain ⟨rfl, rfl⟩ := h
    have h1 : (encaps mpk t n).1 = .ok (seed, x0) := by rw [he]
    obtain ⟨_, hx, hlt⟩ := encaps_seed_fresh mpk t n seed x0 h1
    rw [he] at hlt
    refine ⟨_, rfl, ?_⟩
    simp only [aeSeal]
    refine ⟨hlt, Nat.lt_succ_self _, ?_⟩
    rw [hx]; exact Nat.ne_of_gt hlt

/-- every rekey publishes a value never published before: the new newest secret of a rekeyed right
carries a token drawn by this call -/
theorem rekey_publishes_fresh (secrets : RevMap) (rights : List Right) (n : Rng) (r : Right) (hr : r ∈ rights)
    (hall : ∀ r ∈ rights, (secrets.getLatest r).isSome) :
    ∃ act sk, (rekeyLoop secrets rights n).2.1.getLatest r = some (act, sk) ∧ n ≤ sk.tok :=
  CC.Props.C04.rekeyLoop_fresh secrets rights n r hr hall

/-- no two user keys share an identifier -/
theorem user_ids_fresh (msk : Msk) (rights : List Right) (n : Rng) (usk : Usk)
    (h : (uskKeygen msk rights n).1 = .ok usk) (old : UserId) (hold : ∀ m ∈ old, m < n) (hne : old ≠ []) :
    usk.id ≠ old :=
  CC.Props.C17.keygen_id_distinct msk rights n usk h old hold hne

/-- the metadata encryption key differs from the secret handed to the caller -/
theorem metadata_key_ne_secret (seed : Nat) : (⟨seed, labelHdrSecret⟩ : DKey) ≠ ⟨seed, labelHdrKey⟩ :=
  CC.Props.C12.header_secret_ne_metadata_key seed

end CC.Props.C16
