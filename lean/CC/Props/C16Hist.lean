import CC.Props.C16
import CC.Lemmas.Coh
/-! # C16 / C06 — a public value that has been replaced never comes back (over every history)

`C16.rekey_never_republishes` says that what a rekey puts in front of a chain is new. This file
closes the other direction: **no operation whatsoever** — update, rekey, prune, re‑derivation of
the public key, refresh, anything — can make a master key publish again, for any right, a value
that some earlier public key carried and that has since been replaced (or whose right has been
removed). It is the theorem behind the oracle `republished-public-value` of the history campaigns.

Proof: the closed form of what one operation does to one chain (`step_chain`): tokens put in front
of a chain or in a new chain are drawn by that operation (≥ the counter, hence above every token
that existed before), the other cases keep the head or shorten the chain behind it. -/

namespace CC.Props.C16
open CC CC.Look

/-- token `t` occurs under no right other than `r0` -/
def OnlyUnder (t : Nat) (r0 : Right) (w : World) : Prop :=
  ∀ k c, w.msk.secrets.lookup k = some c → k ≠ r0 → ∀ v ∈ c, v.2.tok ≠ t

/-- the newest secret of `r0`, if `r0` still has one, is not `t` -/
def HeadNe (t : Nat) (r0 : Right) (w : World) : Prop :=
  ∀ c h0, w.msk.secrets.lookup r0 = some c → c.head? = some h0 → h0.2.tok ≠ t

theorem step_onlyUnder (t : Nat) (r0 : Right) (w : World) (op : Op) (ht : t < w.rng)
    (h : OnlyUnder t r0 w) : OnlyUnder t r0 (w.step op) := by
  intro k c hl hk v hv
  have hs := step_chain w op k
  rw [hl] at hs
  generalize hold : w.msk.secrets.lookup k = o at hs
  cases hs with
  | same => exact h k c hold hk v hv
  | born o' t' hyb ro _ _ hge _ =>
    simp only [List.mem_singleton] at hv; subst hv
    exact Nat.ne_of_gt (Nat.lt_of_lt_of_le ht hge)
  | reflag h0 tl hyb ro _ =>
    rcases List.mem_cons.1 hv with rfl | hv
    · have := h k (h0 :: tl) hold hk h0 List.mem_cons_self
      simp only
      split <;> simpa [Sk.dropHyb] using this
    · exact h k (h0 :: tl) hold hk v (List.mem_cons_of_mem _ hv)
  | grown c0 news hnew _ _ =>
    rcases List.mem_append.1 hv with hv | hv
    · exact Nat.ne_of_gt (Nat.lt_of_lt_of_le ht (hnew v hv).1)
    · exact h k c0 hold hk v hv
  | pruned c0 => exact h k c0 hold hk v (List.mem_of_mem_take hv)

theorem step_headNe (t : Nat) (r0 : Right) (w : World) (op : Op) (ht : t < w.rng)
    (h : HeadNe t r0 w) : HeadNe t r0 (w.step op) := by
  intro c h0 hl hh
  have hs := step_chain w op r0
  rw [hl] at hs
  generalize hold : w.msk.secrets.lookup r0 = o at hs
  cases hs with
  | same => exact h c h0 hold hh
  | born o' t' hyb ro _ _ hge _ =>
    simp only [List.head?_cons, Option.some.injEq] at hh; subst hh
    exact Nat.ne_of_gt (Nat.lt_of_lt_of_le ht hge)
  | reflag h1 tl hyb ro _ =>
    simp only [List.head?_cons, Option.some.injEq] at hh; subst hh
    have := h (h1 :: tl) h1 hold rfl
    simp only
    split <;> simpa [Sk.dropHyb] using this
  | grown c0 news hnew _ _ =>
    cases news with
    | nil => simp only [List.nil_append] at hh; exact h c0 h0 hold hh
    | cons v vs =>
      simp only [List.cons_append, List.head?_cons, Option.some.injEq] at hh; subst hh
      exact Nat.ne_of_gt (Nat.lt_of_lt_of_le ht (hnew v List.mem_cons_self).1)
  | pruned c0 =>
    cases c0 with
    | nil => simp at hh
    | cons a as =>
      simp only [List.take_succ_cons, List.take_zero, List.head?_cons, Option.some.injEq] at hh
      subst hh
      exact h (a :: as) a hold rfl

theorem reachable_step (w : World) (hw : Reachable w) (op : Op) : Reachable (w.step op) := by
  obtain ⟨n0, k0, ops0, rfl⟩ := hw
  exact ⟨n0, k0, ops0 ++ [op], by simp [List.foldl_append]⟩

theorem reachable_steps (w : World) (hw : Reachable w) (ops : List Op) : Reachable (ops.foldl World.step w) := by
  induction ops generalizing w with
  | nil => exact hw
  | cons op rest ih => exact ih (w.step op) (reachable_step w hw op)

theorem steps_keep (t : Nat) (P : World → Prop)
    (hstep : ∀ w op, Reachable w → t < w.rng → P w → P (w.step op)) :
    ∀ (ops : List Op) (w : World), Reachable w → t < w.rng → P w → P (ops.foldl World.step w) := by
  intro ops
  induction ops with
  | nil => intro w _ _ h; exact h
  | cons op rest ih =>
    intro w hw ht h
    exact ih (w.step op) (reachable_step w hw op)
      (Nat.lt_of_lt_of_le ht (step_rng_mono w op (reachable_inv w hw))) (hstep w op hw ht h)

/-- **A replaced public value never comes back.** `w0` is any reachable world and `pk0` a value it
publishes for right `r0`. Operations follow (`ops1`) after which `pk0` is no longer the newest
secret of `r0` — it was replaced by a rekey, or the right is gone. Then, whatever operations come
next (`ops2`), no public key derived from the master key carries `pk0`'s token again, for any
right. -/
theorem replaced_value_never_returns (w0 : World) (hw0 : Reachable w0) (r0 : Right) (pk0 : Sk)
    (hpub : (r0, pk0) ∈ w0.msk.mpk.keys) (ops1 ops2 : List Op)
    (hrep : HeadNe pk0.tok r0 (ops1.foldl World.step w0))
    (r : Right) (pk : Sk)
    (h2 : (r, pk) ∈ (ops2.foldl World.step (ops1.foldl World.step w0)).msk.mpk.keys) :
    pk.tok ≠ pk0.tok := by
  have ht0 := published_below w0 hw0 r0 pk0 hpub
  -- at `w0` the token lives under `r0` only
  have hinv0 := reachable_inv w0 hw0
  obtain ⟨chain0, hm0, hh0⟩ := CC.Props.C06.mpk_only_activated w0.msk r0 pk0 hpub
  have hmem0 : (true, pk0) ∈ chain0 := by
    cases chain0 with
    | nil => simp at hh0
    | cons a as => simp only [List.head?_cons, Option.some.injEq] at hh0; subst hh0; exact List.mem_cons_self
  have hU0 : OnlyUnder pk0.tok r0 w0 := by
    intro k c hl hk v hv heq
    exact hk (hinv0.inj k c r0 chain0 v (true, pk0) (lookup_mem hl) hm0 hv hmem0 heq)
  -- carried along both stretches of history
  have hw1 : Reachable (ops1.foldl World.step w0) := reachable_steps w0 hw0 ops1
  have ht1 : pk0.tok < (ops1.foldl World.step w0).rng := Nat.lt_of_lt_of_le ht0 (steps_rng_mono w0 hw0 ops1)
  have hU1 := steps_keep pk0.tok (OnlyUnder pk0.tok r0)
    (fun w op _ ht h => step_onlyUnder pk0.tok r0 w op ht h) ops1 w0 hw0 ht0 hU0
  have hU2 := steps_keep pk0.tok (OnlyUnder pk0.tok r0)
    (fun w op _ ht h => step_onlyUnder pk0.tok r0 w op ht h) ops2 _ hw1 ht1 hU1
  have hH2 := steps_keep pk0.tok (HeadNe pk0.tok r0)
    (fun w op _ ht h => step_headNe pk0.tok r0 w op ht h) ops2 _ hw1 ht1 hrep
  have hw2 : Reachable (ops2.foldl World.step (ops1.foldl World.step w0)) := reachable_steps _ hw1 ops2
  generalize ops2.foldl World.step (ops1.foldl World.step w0) = w2 at h2 hU2 hH2 hw2
  obtain ⟨chain, hm, hh⟩ := CC.Props.C06.mpk_only_activated w2.msk r pk h2
  have hl : w2.msk.secrets.lookup r = some chain := mem_lookup_of_nodup (reachable_inv w2 hw2).keys hm
  by_cases hr : r = r0
  · subst hr
    exact hH2 chain (true, pk) hl hh
  · have hmem : (true, pk) ∈ chain := by
      cases chain with
      | nil => simp at hh
      | cons a as => simp only [List.head?_cons, Option.some.injEq] at hh; subst hh; exact List.mem_cons_self
    exact hU2 r chain hl hr (true, pk) hmem

end CC.Props.C16
