import CC.Lemmas.Prims
/-! # C17 — every issued user key is registered (bookkeeping part; the algebraic tracing relation
is `CC.Props.C17Alg`) -/

namespace CC.Props.C17
open CC

/-- a generated key carries an identifier recorded in the master key, made of fresh markers, and
embeds the tracers of the master key -/
theorem keygen_registers (msk : Msk) (rights : List Right) (n : Rng) (usk : Usk)
    (h : (uskKeygen msk rights n).1 = .ok usk) :
    usk.id ∈ (uskKeygen msk rights n).2.1.users ∧ (∀ m ∈ usk.id, n ≤ m) ∧
      usk.id.length = msk.ntracers ∧ usk.auth = msk.auth ∧ usk.nps = msk.ntracers := by
  unfold uskKeygen at h ⊢
  cases hl : latestRightSks msk rights with
  | error e => simp [hl] at h
  | ok chains =>
    simp only [hl] at h ⊢
    by_cases hnt : msk.ntracers = 0
    · simp [generateUserId, hnt] at h
    · simp only [generateUserId, hnt, if_false, Except.ok.injEq] at h ⊢
      subst h
      simp only
      refine ⟨?_, ?_, by simp, by simp⟩
      · split
        · assumption
        · simp
      · intro m hm
        simp only [List.mem_map, List.mem_range] at hm
        obtain ⟨a, _, rfl⟩ := hm
        exact Nat.le_add_left _ _

/-- fresh markers: the identifier of a new key differs from every identifier whose markers were
drawn earlier -/
theorem keygen_id_distinct (msk : Msk) (rights : List Right) (n : Rng) (usk : Usk)
    (h : (uskKeygen msk rights n).1 = .ok usk) (old : UserId) (hold : ∀ m ∈ old, m < n) (hne : old ≠ []) :
    usk.id ≠ old := by
  obtain ⟨_, hfresh, _⟩ := keygen_registers msk rights n usk h
  intro heq
  cases old with
  | nil => exact hne rfl
  | cons m ms =>
    have h1 := hold m List.mem_cons_self
    have h2 := hfresh m (heq ▸ List.mem_cons_self)
    exact absurd h2 (Nat.not_le.2 h1)

/-- a key whose identifier the master key does not know is refused, with nothing changed -/
theorem unknown_id_refused (msk : Msk) (usk : Usk) (keep : Bool) (n : Rng)
    (hv : verify msk usk = true) (hid : usk.id ∉ msk.users) :
    refresh msk usk keep n = (.error .tracing, msk, usk, n) := by
  unfold refresh
  simp [hv, refreshId, hid]

/-- a successful refresh keeps the key registered: its identifier is (still) recorded -/
theorem refresh_stays_registered (msk : Msk) (usk : Usk) (keep : Bool) (n : Rng)
    (hlen : usk.id.length = msk.ntracers) (h : (refresh msk usk keep n).1 = .ok ()) :
    (refresh msk usk keep n).2.2.1.id = usk.id ∧ usk.id ∈ (refresh msk usk keep n).2.1.users := by
  unfold refresh at h ⊢
  by_cases hv : verify msk usk = true
  · simp only [hv, Bool.not_true, Bool.false_eq_true, if_false] at h ⊢
    by_cases hknown : usk.id ∈ msk.users
    · have hid : refreshId msk usk.id n = (.ok usk.id, msk, n) := by simp [refreshId, hknown, hlen]
      simp only [hid] at h ⊢
      generalize (if keep = true then Except.ok (refreshCoordinateKeys msk usk.secrets)
          else latestRightSks msk ((usk.secrets.map (·.1)).filter (fun r => msk.secrets.containsKey r))) = nr at h ⊢
      cases nr with
      | error e => simp at h
      | ok x => exact ⟨rfl, hknown⟩
    · simp [refreshId, hknown] at h
  · simp [hv] at h

end CC.Props.C17
