import CC.Lemmas.Prims
import CC.Lemmas.Issued
import CC.Lemmas.Contig
/-! # C17 — every issued user key is registered (bookkeeping part; the algebraic tracing relation
is `CC.Props.C17Alg`) -/

namespace CC.Props.C17
open CC

/-- a generated key carries an identifier recorded in the master key, made of fresh markers, and
embeds the tracers of the master key -/
theorem keygen_registers (msk : Msk) (rights : List Right) (n : Rng) (usk : Usk)
    (h : (uskKeygen msk rights n).1 = .ok usk) :
    usk.id ∈ (uskKeygen msk rights n).2.1.users ∧ (∀ m ∈ usk.id, n ≤ m) ∧
      usk.id.length = msk.ntracers ∧ usk.auth = msk.auth ∧ usk.nps = msk.ntracers := by
  unfold uskKeygen at h ⊢
  cases hl : latestRightSks msk rights with
  | error e => simp [hl] at h
  | ok chains =>
    simp only [hl] at h ⊢
    by_cases hnt : msk.ntracers = 0
    · simp [generateUserId, hnt] at h
    · simp only [generateUserId, hnt, if_false, Except.ok.injEq] at h ⊢
      subst h
      simp only
      refine ⟨?_, ?_, by simp, by simp⟩
      · split
        · assumption
        · simp
      · intro m hm
        simp only [List.mem_map, List.mem_range] at hm
        obtain ⟨a, _, rfl⟩ := hm
        exact Nat.le_add_left _ _

/-- fresh markers: the identifier of a new key differs from every identifier whose markers were
drawn earlier -/
theorem keygen_id_distinct (msk : Msk) (rights : List Right) (n : Rng) (usk : Usk)
    (h : (uskKeygen msk rights n).1 = .ok usk) (old : UserId) (hold : ∀ m ∈ old, m < n) (hne : old ≠ []) :
    usk.id ≠ old := by
  obtain ⟨_, hfresh, _⟩ := keygen_registers msk rights n usk h
  intro heq
  cases old with
  | nil => exact hne rfl
  | cons m ms =>
    have h1 := hold m List.mem_cons_self
    have h2 := hfresh m (heq ▸ List.mem_cons_self)
    exact absurd h2 (Nat.not_le.2 h1)

/-- a key whose identifier the master key does not know is refused, with nothing changed -/
theorem unknown_id_refused (msk : Msk) (usk : Usk) (keep : Bool) (n : Rng)
    (hv : verify msk usk = true) (hid : usk.id ∉ msk.users) :
    refresh msk usk keep n = (.error .tracing, msk, usk, n) := by
  unfold refresh
  simp [hv, refreshId, hid]

/-- a successful refresh keeps the key registered: its identifier is (still) recorded -/
theorem refresh_stays_registered (msk : Msk) (usk : Usk) (keep : Bool) (n : Rng)
    (hlen : usk.id.length = msk.ntracers) (h : (refresh msk usk keep n).1 = .ok ()) :
    (refresh msk usk keep n).2.2.1.id = usk.id ∧ usk.id ∈ (refresh msk usk keep n).2.1.users := by
  unfold refresh at h ⊢
  by_cases hv : verify msk usk = true
  · simp only [hv, Bool.not_true, Bool.false_eq_true, if_false] at h ⊢
    by_cases hknown : usk.id ∈ msk.users
    · have hid : refreshId msk usk.id n = (.ok usk.id, msk, n) := by simp [refreshId, hknown, hlen]
      simp only [hid] at h ⊢
      generalize (if keep = true then Except.ok (refreshCoordinateKeys msk usk.secrets)
          else latestRightSks msk ((usk.secrets.map (·.1)).filter (fun r => msk.secrets.containsKey r))) = nr at h ⊢
      cases nr with
      | error e => simp at h
      | ok x => exact ⟨rfl, hknown⟩
    · simp [refreshId, hknown] at h
  · simp [hv] at h

/-- in every reachable world all registered identifiers are made of tokens drawn already -/
theorem reachable_usersBelow (w : World) (hw : Reachable w) : w.UsersBelow := by
  obtain ⟨n, k, ops, rfl⟩ := hw
  have hstep : ∀ (ops : List Op) (w0 : World), Reachable w0 → w0.UsersBelow → (ops.foldl World.step w0).UsersBelow := by
    intro ops
    induction ops with
    | nil => intro w0 _ h0; exact h0
    | cons op rest ih =>
      intro w0 hr h0
      have hr' : Reachable (w0.step op) := by
        obtain ⟨n0, k0, ops0, rfl⟩ := hr
        exact ⟨n0, k0, ops0 ++ [op], by simp [List.foldl_append]⟩
      apply ih _ hr'
      intro id hid m hm
      rcases step_users w0 op id hid with h | h
      · exact Nat.lt_of_lt_of_le (h0 id h m hm) (step_rng_mono w0 op (reachable_inv w0 hr))
      · exact (h m hm).2
  apply hstep ops _ ⟨n, k, [], rfl⟩
  -- the initial world registers nobody
  intro id hid
  have : (World.init n k).msk.users = [] := by
    unfold World.init updateMsk
    split
    · rfl
    · simp only
      rcases updateLoop ((setup n k).1.secrets.retain fun r => ((setup n k).1.structure_.omega.lookup r).isSome) (setup n k).1.structure_.omega (setup n k).2 with ⟨res, n'⟩
      cases res <;> rfl
  simp only [List.foldl_nil] at hid
  rw [this] at hid; cases hid

/-- **Identifiers are never reused, over every history.** In any reachable world a key generation
hands out an identifier that no key generated or refreshed before carries (it is not among the
registered identifiers), registers it, and the key stays an issued key of the master key — its
identifier registered, its signature valid — after any further operations. -/
theorem new_key_id_fresh_and_stays_registered (w : World) (hw : Reachable w) (p : AP) (rights : List Right)
    (hr : w.msk.structure_.uskRights p = .ok rights) (usk : Usk)
    (hk : (uskKeygen w.msk rights w.rng).1 = .ok usk) (ops : List Op) :
    usk.id ∉ w.msk.users ∧ Issued (ops.foldl World.step (w.step (.keygen p))).msk usk := by
  constructor
  · intro hin
    obtain ⟨_, hfresh, hlen, _, _⟩ := keygen_registers w.msk rights w.rng usk hk
    have hb := reachable_usersBelow w hw usk.id hin
    -- the identifier is not empty (a master key has at least one tracer when generation succeeds)
    cases hid : usk.id with
    | nil =>
      unfold uskKeygen at hk
      cases hl : latestRightSks w.msk rights with
      | error e => simp [hl] at hk
      | ok chains =>
        simp only [hl] at hk
        by_cases hnt : w.msk.ntracers = 0
        · simp [generateUserId, hnt] at hk
        · rw [hid] at hlen; exact hnt hlen.symm
    | cons m ms =>
      rw [hid] at hfresh hb
      exact Nat.lt_irrefl _ (Nat.lt_of_lt_of_le (hb m List.mem_cons_self) (hfresh m List.mem_cons_self))
  · have hstep : w.step (.keygen p) = ⟨(uskKeygen w.msk rights w.rng).2.1, (uskKeygen w.msk rights w.rng).2.2⟩ := by
      simp only [World.step, hr]
    have hi : Issued (w.step (.keygen p)).msk usk := by
      rw [hstep]; exact keygen_issues w.msk rights w.rng usk hk
    exact issued_stable _ ops usk hi

end CC.Props.C17
