import Mathlib.Algebra.Field.Basic
import Mathlib.Algebra.BigOperators.Group.List.Basic
import Mathlib.Tactic.FieldSimp
import Mathlib.Tactic.Ring
/-! # C17 (algebra) — the last marker solved from the others satisfies the tracing relation

Over any field `F` (the scalar field of Ristretto25519 or P-256): `generate_user_id` draws all
markers but the last at random and sets the last one to `(s - Σ tᵢ·aᵢ) / t_last`; then
`Σ tᵢ·aᵢ = s` over all tracers, for every tracing level. -/

namespace CC.Props.C17Alg

variable {F : Type} [Field F]

/-- `Σ tᵢ·aᵢ` over the zipped lists (as `_validate_user_id` computes it) -/
def dot : List F → List F → F
  | t :: ts, a :: as => t * a + dot ts as
  | _, _ => 0

theorem dot_append_single (ts as : List F) (t a : F) (h : ts.length = as.length) :
    dot (ts ++ [t]) (as ++ [a]) = dot ts as + t * a := by
  induction ts generalizing as with
  | nil => cases as with
    | nil => simp [dot]
    | cons _ _ => simp at h
  | cons x xs ih =>
    cases as with
    | nil => simp at h
    | cons y ys =>
      simp only [List.length_cons, Nat.add_right_cancel_iff] at h
      simp only [List.cons_append, dot, ih ys h]
      ring

/-- the identifier produced by `generate_user_id` satisfies the tracing relation -/
theorem userId_valid (s : F) (ts as : List F) (tlast : F) (h : ts.length = as.length) (hne : tlast ≠ 0) :
    dot (ts ++ [tlast]) (as ++ [(s - dot ts as) / tlast]) = s := by
  rw [dot_append_single ts as _ _ h]
  field_simp
  ring

/-- non-vacuity over ℚ-like fields is immediate; over any field with `1 ≠ 0`: level 1 -/
example (s t0 a0 t1 : F) (h : t1 ≠ 0) : dot [t0, t1] [a0, (s - dot [t0] [a0]) / t1] = s := by
  have := userId_valid s [t0] [a0] t1 rfl h
  simpa using this

end CC.Props.C17Alg
