import CC.Lemmas.Prims
import CC.Lemmas.Rev
/-! # C18 — re-encapsulation with the master key preserves the audience -/

namespace CC.Props.C18
open CC

/-- the rights `full_decaps` recovers: those whose newest secret is activated and one of whose
secrets (of any revision) opens a component — and the secret is the encapsulated one -/
theorem fullDecaps_spec (msk : Msk) (enc : XEnc) (s : Nat) (rights : List Right)
    (h : fullDecaps msk enc = .ok (s, rights)) :
    s = enc.seed ∧ rights ≠ [] ∧ ∀ r, r ∈ rights ↔ ∃ chain sk, (r, chain) ∈ msk.secrets ∧
      chain.head? = some (true, sk) ∧ msk.auth = enc.auth ∧ msk.ntracers = enc.ntraps ∧
      ∃ p ∈ chain, ∃ t ∈ enc.targets, opens enc.hybrid p.2 t = true := by
  unfold fullDecaps at h
  split at h
  · cases h
  · split at h
    · cases h
    · simp only at h
      split at h
      · cases h
      · rename_i hne
        simp only [Except.ok.injEq, Prod.mk.injEq] at h
        obtain ⟨rfl, rfl⟩ := h
        refine ⟨rfl, by simpa using hne, ?_⟩
        intro r
        simp only [List.mem_filterMap]
        constructor
        · rintro ⟨⟨r', chain⟩, hm, hh⟩
          simp only at hh
          cases hc : chain.head? with
          | none => simp [hc] at hh
          | some v =>
            obtain ⟨act, sk⟩ := v
            cases act with
            | false => simp [hc] at hh
            | true =>
              simp only [hc] at hh
              split at hh
              · rename_i hcond
                simp only [Option.some.injEq] at hh; subst hh
                obtain ⟨ha, hn, hany⟩ := hcond
                obtain ⟨p, hp, hq⟩ := List.any_eq_true.1 hany
                obtain ⟨t, ht, ho⟩ := List.any_eq_true.1 hq
                exact ⟨chain, sk, hm, hc, ha, hn, p, hp, t, ht, ho⟩
              · cases hh
        · rintro ⟨chain, sk, hm, hc, ha, hn, p, hp, t, ht, ho⟩
          refine ⟨(r, chain), hm, ?_⟩
          simp only [hc]
          have hany : chain.any (fun p => enc.targets.any (fun t => opens enc.hybrid p.2 t)) = true :=
            List.any_eq_true.2 ⟨p, hp, List.any_eq_true.2 ⟨t, ht, ho⟩⟩
          simp [ha, hn, hany]

/-- re-encapsulation yields a *new* secret (a fresh draw) and an encapsulation whose components are
made for the published keys of exactly the recovered rights, in the flavour they all support -/
theorem recaps_spec (msk : Msk) (mpk : Mpk) (enc : XEnc) (n : Rng) (s' : Nat) (x' : XEnc)
    (h : (recaps msk mpk enc n).1 = .ok (s', x')) :
    ∃ s rights, fullDecaps msk enc = .ok (s, rights) ∧ s' = n ∧ x'.seed = n ∧
      mapMExcept mpk.keyOf rights = .ok x'.targets ∧ x'.hybrid = x'.targets.all (·.hyb) ∧
      x'.auth = mpk.auth ∧ x'.ntraps = mpk.ntracers := by
  unfold recaps at h
  cases hf : fullDecaps msk enc with
  | error e => simp [hf] at h
  | ok v =>
    obtain ⟨s, rights⟩ := v
    simp only [hf] at h
    refine ⟨s, rights, rfl, ?_⟩
    unfold encaps at h
    cases hs : mpk.selectSubkeys rights with
    | error e => simp [hs] at h
    | ok w =>
      obtain ⟨hyb, ks⟩ := w
      simp only [hs, Except.ok.injEq, Prod.mk.injEq] at h
      obtain ⟨rfl, rfl⟩ := h
      unfold Mpk.selectSubkeys at hs
      cases hm : mapMExcept mpk.keyOf rights with
      | error e => simp [hm] at hs
      | ok ks' =>
        simp only [hm, Except.ok.injEq, Prod.mk.injEq] at hs
        obtain ⟨rfl, rfl⟩ := hs
        exact ⟨rfl, rfl, rfl, rfl, rfl, rfl⟩

/-- it fails when none of the original rights can be recovered -/
theorem recaps_fails_when_nothing_recovered (msk : Msk) (mpk : Mpk) (enc : XEnc) (n : Rng) (e : Err)
    (h : fullDecaps msk enc = .error e) : (recaps msk mpk enc n).1 = .error e := by
  unfold recaps; simp [h]

/-- a user key holding the newest secret of a recovered, published right opens the new encapsulation -/
theorem uptodate_key_opens_recaps (usk : Usk) (x' : XEnc) (r : Right) (c : List Sk) (pk : Sk)
    (hshape : usk.auth = x'.auth ∧ usk.nps = x'.ntraps ∧ usk.id.length = x'.ntraps)
    (hm : (r, c) ∈ usk.secrets) (hpk : pk ∈ c) (ht : pk ∈ x'.targets)
    (hflav : x'.hybrid = x'.targets.all (·.hyb)) : decaps usk x' = some x'.seed := by
  apply (decaps_eq_some_iff usk x' x'.seed).2
  refine ⟨rfl, hshape.1, hshape.2.1, hshape.2.2, r, c, pk, pk, hm, hpk, ht, ?_⟩
  simp only [opens, beq_self_eq_true, Bool.true_and]
  cases hh : x'.hybrid with
  | false => rfl
  | true =>
    have : x'.targets.all (·.hyb) = true := by rw [← hflav, hh]
    have := List.all_eq_true.1 this pk ht
    simp [this]

end CC.Props.C18
