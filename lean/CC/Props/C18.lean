import CC.Lemmas.Prims
import CC.Lemmas.Rev
import CC.Lemmas.Cover
import CC.Lemmas.World
/-! # C18 — re-encapsulation with the master key preserves the audience -/

namespace CC.Props.C18
open CC

/-- the rights `full_decaps` recovers: those whose newest secret is activated and one of whose
secrets (of any revision) opens a component — and the secret is the encapsulated one -/
theorem fullDecaps_spec (msk : Msk) (enc : XEnc) (s : Nat) (rights : List Right)
    (h : fullDecaps msk enc = .ok (s, rights)) :
    s = enc.seed ∧ rights ≠ [] ∧ ∀ r, r ∈ rights ↔ ∃ chain sk, (r, chain) ∈ msk.secrets ∧
      chain.head? = some (true, sk) ∧ msk.auth = enc.auth ∧ msk.ntracers = enc.ntraps ∧
      ∃ p ∈ chain, ∃ t ∈ enc.targets, opens enc.hybrid p.2 t = true := by
  unfold fullDecaps at h
  split at h
  · cases h
  · split at h
    · cases h
    · simp only at h
      split at h
      · cases h
      · rename_i hne
        simp only [Except.ok.injEq, Prod.mk.injEq] at h
        obtain ⟨rfl, rfl⟩ := h
        refine ⟨rfl, by simpa using hne, ?_⟩
        intro r
        simp only [List.mem_filterMap]
        constructor
        · rintro ⟨⟨r', chain⟩, hm, hh⟩
          simp only at hh
          cases hc : chain.head? with
          | none => simp [hc] at hh
          | some v =>
            obtain ⟨act, sk⟩ := v
            cases act with
            | false => simp [hc] at hh
            | true =>
              simp only [hc] at hh
              split at hh
              · rename_i hcond
                simp only [Option.some.injEq] at hh; subst hh
                obtain ⟨ha, hn, hany⟩ := hcond
                obtain ⟨p, hp, hq⟩ := List.any_eq_true.1 hany
                obtain ⟨t, ht, ho⟩ := List.any_eq_true.1 hq
                exact ⟨chain, sk, hm, hc, ha, hn, p, hp, t, ht, ho⟩
              · cases hh
        · rintro ⟨chain, sk, hm, hc, ha, hn, p, hp, t, ht, ho⟩
          refine ⟨(r, chain), hm, ?_⟩
          simp only [hc]
          have hany : chain.any (fun p => enc.targets.any (fun t => opens enc.hybrid p.2 t)) = true :=
            List.any_eq_true.2 ⟨p, hp, List.any_eq_true.2 ⟨t, ht, ho⟩⟩
          simp [ha, hn, hany]

/-- re-encapsulation yields a *new* secret (a fresh draw) and an encapsulation whose components are
made for the published keys of exactly the recovered rights, in the flavour they all support -/
theorem recaps_spec (msk : Msk) (mpk : Mpk) (enc : XEnc) (n : Rng) (s' : Nat) (x' : XEnc)
    (h : (recaps msk mpk enc n).1 = .ok (s', x')) :
    ∃ s rights, fullDecaps msk enc = .ok (s, rights) ∧ s' = n ∧ x'.seed = n ∧
      mapMExcept mpk.keyOf rights = .ok x'.targets ∧ x'.hybrid = x'.targets.all (·.hyb) ∧
      x'.auth = mpk.auth ∧ x'.ntraps = mpk.ntracers := by
  unfold recaps at h
  cases hf : fullDecaps msk enc with
  | error e => simp [hf] at h
  | ok v =>
    obtain ⟨s, rights⟩ := v
    simp only [hf] at h
    refine ⟨s, rights, rfl, ?_⟩
    unfold encaps at h
    cases hs : mpk.selectSubkeys rights with
    | error e => simp [hs] at h
    | ok w =>
      obtain ⟨hyb, ks⟩ := w
      simp only [hs, Except.ok.injEq, Prod.mk.injEq] at h
      obtain ⟨rfl, rfl⟩ := h
      unfold Mpk.selectSubkeys at hs
      cases hm : mapMExcept mpk.keyOf rights with
      | error e => simp [hm] at hs
      | ok ks' =>
        simp only [hm, Except.ok.injEq, Prod.mk.injEq] at hs
        obtain ⟨rfl, rfl⟩ := hs
        exact ⟨rfl, rfl, rfl, rfl, rfl, rfl⟩

/-- it fails when none of the original rights can be recovered -/
theorem recaps_fails_when_nothing_recovered (msk : Msk) (mpk : Mpk) (enc : XEnc) (n : Rng) (e : Err)
    (h : fullDecaps msk enc = .error e) : (recaps msk mpk enc n).1 = .error e := by
  unfold recaps; simp [h]

/-- a user key holding the newest secret of a recovered, published right opens the new encapsulation -/
theorem uptodate_key_opens_recaps (usk : Usk) (x' : XEnc) (r : Right) (c : List Sk) (pk : Sk)
    (hshape : usk.auth = x'.auth ∧ usk.nps = x'.ntraps ∧ usk.id.length = x'.ntraps)
    (hm : (r, c) ∈ usk.secrets) (hpk : pk ∈ c) (ht : pk ∈ x'.targets)
    (hflav : x'.hybrid = x'.targets.all (·.hyb)) : decaps usk x' = some x'.seed := by
  apply (decaps_eq_some_iff usk x' x'.seed).2
  refine ⟨rfl, hshape.1, hshape.2.1, hshape.2.2, r, c, pk, pk, hm, hpk, ht, ?_⟩
  simp only [opens, beq_self_eq_true, Bool.true_and]
  cases hh : x'.hybrid with
  | false => rfl
  | true =>
    have : x'.targets.all (·.hyb) = true := by rw [← hflav, hh]
    have := List.all_eq_true.1 this pk ht
    simp [this]

/-- **… and no other key does, over every history.** In any reachable world, take the result of a
re-encapsulation under the current public key; a user key all of whose secrets are master secrets
of the right they are filed under (every key just generated or refreshed is such a key) and none of
whose rights is among the recovered ones opens nothing: tokens never serve two rights. -/
theorem no_other_key_opens_recaps (w : World) (hw : Reachable w) (enc : XEnc) (n : Rng) (s' : Nat) (x' : XEnc)
    (h : (recaps w.msk w.msk.mpk enc n).1 = .ok (s', x'))
    (usk : Usk)
    (hfaith : ∀ r c, (r, c) ∈ usk.secrets → ∀ k ∈ c, ∃ mc, (r, mc) ∈ w.msk.secrets ∧ k ∈ mc.map (·.2))
    (hdisj : ∀ s rights, fullDecaps w.msk enc = .ok (s, rights) → ∀ r c, (r, c) ∈ usk.secrets → r ∉ rights) :
    decaps usk x' = none := by
  obtain ⟨s, rights, hfd, _, _, htargets, _, _, _⟩ := recaps_spec w.msk w.msk.mpk enc n s' x' h
  have hinv := reachable_inv w hw
  apply (decaps_eq_none_iff usk x').2
  rintro ⟨_, _, _, r, c, k, t, hm, hk, ht, ho⟩
  -- the component was made for the published key of a recovered right
  obtain ⟨r', hr', hkey⟩ := (mapMExcept_mem _ rights x'.targets htargets t).1 ht
  have hlat := (mpk_keyOf w.msk hinv.keys r' t).1 hkey
  unfold RevMap.getLatest at hlat
  cases hl : w.msk.secrets.lookup r' with
  | none => simp [hl] at hlat
  | some mc' =>
    rw [hl] at hlat
    simp only [Option.bind_some] at hlat
    have hmem' : (true, t) ∈ mc' := List.mem_of_mem_head? hlat
    obtain ⟨mc, hmc, hkin⟩ := hfaith r c hm k hk
    obtain ⟨v, hv, hvk⟩ := List.mem_map.1 hkin
    have htok : v.2.tok = (true, t).2.tok := by
      simp only [opens, Bool.and_eq_true, beq_iff_eq] at ho
      rw [hvk]; exact ho.1
    have := hinv.inj r mc r' mc' v (true, t) hmc (Look.lookup_mem hl) hv hmem' htok
    exact hdisj s rights hfd r c hm (this ▸ hr')

end CC.Props.C18
