import CC.Model.Sched
/-! # C19 — a shared instance is safe and live under concurrent use (partial)

The lock structure of every API function is re-extracted from the source on every run
(`CC.Generated.lockTable`). The theorems: that table is well nested (no acquisition and no call to
a locking function while the guard is held — the rule stated in the comment of `PkeAc::encrypt`);
and for *any* number of threads running *any* sequences of well-nested calls, every reachable
configuration has at most one thread inside a critical section, some thread can always take a
step while work remains (no deadlock), and every step consumes an event (every schedule
terminates: no call blocks forever). **Partial:** the Rust memory model, the implementation of
`std::sync::Mutex`, poisoning after a panic inside a critical section and OS scheduling are
outside the model; the multi-threaded stress run of the check is support for that part. -/

namespace CC.Props.C19
open CC.Sched CC.Generated

/-- every API function, with its calls to `encaps` / `decaps` expanded, is well nested -/
theorem table_wellNested : locksAvailable = true →
    lockTable.all (fun p => wellNested false (expand lockTable p.2)) = true := by decide

/-- after expansion no call to a locking function remains unresolved -/
theorem table_callFree : locksAvailable = true →
    lockTable.all (fun p => (expand lockTable p.2).all (fun e => match e with | .call _ => false | _ => true)) = true := by
  decide

/-- the functions that draw from the instance's generator: each must take the lock around its
draws (directly, or through the locking function it calls) — a function that draws without an
acquisition (e.g. from a generator that is not the shared, mutex-protected one) breaks this -/
def drawingFunctions : List String :=
  ["api::setup", "api::update_msk", "api::rekey", "api::generate_user_secret_key", "api::refresh_usk",
   "api::recaps", "api::encaps", "api::decaps", "api::encrypt", "header::generate"]

theorem drawing_functions_lock : locksAvailable = true →
    drawingFunctions.all (fun f => match lockTable.lookup f with
      | some evs => (expand lockTable evs).contains .acq
      | none => false) = true := by decide

def callFree (evs : List LockEv) : Prop := ∀ e ∈ evs, ∀ f, e ≠ .call f

/-- a well-nested, call-free event list alternates acquire / release -/
theorem wellNested_alt : ∀ (held : Bool) (evs : List LockEv), wellNested held evs = true → callFree evs → Alt held evs
  | held, [], h, _ => by cases held <;> simp [wellNested, Alt] at h ⊢
  | false, .acq :: rest, h, hc => by
    simp only [wellNested] at h
    exact wellNested_alt true rest h (fun e he => hc e (List.mem_cons_of_mem _ he))
  | true, .acq :: _, h, _ => by simp [wellNested] at h
  | true, .rel :: rest, h, hc => by
    simp only [wellNested] at h
    exact wellNested_alt false rest h (fun e he => hc e (List.mem_cons_of_mem _ he))
  | false, .rel :: _, h, _ => by simp [wellNested] at h
  | false, .call f :: _, _, hc => absurd rfl (hc (.call f) List.mem_cons_self f)
  | true, .call _ :: _, h, _ => by simp [wellNested] at h

/-- **mutual exclusion**: in every configuration satisfying the invariant, a thread that does not
hold the lock is outside any critical section (its next lock event, if any, is an acquisition) -/
theorem mutex_excl (s : State) (hinv : Inv s) (i : Nat) (evs : List LockEv)
    (hi : s.threads[i]? = some evs) (hne : s.holder ≠ some i) :
    evs = [] ∨ ∃ rest, evs = .acq :: rest := by
  have := hinv.1 i evs hi
  have hd : decide (s.holder = some i) = false := by simpa using hne
  rw [hd] at this
  cases evs with
  | nil => exact Or.inl rfl
  | cons e rest =>
    cases e with
    | acq => exact Or.inr ⟨rest, rfl⟩
    | rel => simp [Alt] at this
    | call f => simp [Alt] at this

/-- **no deadlock**: while some thread still has events, some thread can take a step -/
theorem progress (s : State) (hinv : Inv s) (hwork : ∃ (i : Nat) (evs : List LockEv), s.threads[i]? = some evs ∧ evs ≠ []) :
    ∃ s', Step s s' := by
  cases hh : s.holder with
  | some h =>
    have hlt := hinv.2 h hh
    have hget : s.threads[h]? = some s.threads[h] := by simp [hlt]
    have halt := hinv.1 h _ hget
    have hd : decide (s.holder = some h) = true := by simp [hh]
    rw [hd] at halt
    cases hev : s.threads[h] with
    | nil => rw [hev] at halt; simp [Alt] at halt
    | cons e rest =>
      rw [hev] at halt hget
      cases e with
      | rel => exact ⟨_, Step.rel s h rest hh hget⟩
      | acq => simp [Alt] at halt
      | call f => simp [Alt] at halt
  | none =>
    obtain ⟨i, evs, hi, hne⟩ := hwork
    have halt := hinv.1 i evs hi
    have hd : decide (s.holder = some i) = false := by simp [hh]
    rw [hd] at halt
    cases evs with
    | nil => exact absurd rfl hne
    | cons e rest =>
      cases e with
      | acq => exact ⟨_, Step.acq s i rest hh hi⟩
      | rel => simp [Alt] at halt
      | call f => simp [Alt] at halt

/-- the invariant is preserved by every step -/
theorem preservation (s s' : State) (hinv : Inv s) (hstep : Step s s') : Inv s' := by
  cases hstep with
  | acq i rest hnone hi =>
    have hlt : i < s.threads.length := by
      rcases List.getElem?_eq_some_iff.1 hi with ⟨h, _⟩; exact h
    refine ⟨?_, ?_⟩
    · intro j evs hj
      simp only at hj ⊢
      by_cases hji : j = i
      · subst hji
        rw [List.getElem?_set_self hlt] at hj
        simp only [Option.some.injEq] at hj; subst hj
        have := hinv.1 j _ hi
        have hd : decide (s.holder = some j) = false := by simp [hnone]
        rw [hd] at this
        simpa [Alt] using this
      · rw [List.getElem?_set_ne (Ne.symm hji)] at hj
        have := hinv.1 j evs hj
        have hd : decide (s.holder = some j) = false := by simp [hnone]
        rw [hd] at this
        have hd' : decide ((some i : Option Nat) = some j) = false := by simpa using Ne.symm hji
        rw [hd']; exact this
    · intro j hj
      simp only [Option.some.injEq] at hj; subst hj
      simpa using hlt
  | rel i rest hhold hi =>
    have hlt : i < s.threads.length := by
      rcases List.getElem?_eq_some_iff.1 hi with ⟨h, _⟩; exact h
    refine ⟨?_, ?_⟩
    · intro j evs hj
      simp only at hj ⊢
      have hd' : decide ((none : Option Nat) = some j) = false := by simp
      rw [hd']
      by_cases hji : j = i
      · subst hji
        rw [List.getElem?_set_self hlt] at hj
        simp only [Option.some.injEq] at hj; subst hj
        have := hinv.1 j _ hi
        have hd : decide (s.holder = some j) = true := by simp [hhold]
        rw [hd] at this
        simpa [Alt] using this
      · rw [List.getElem?_set_ne (Ne.symm hji)] at hj
        have := hinv.1 j evs hj
        have hd : decide (s.holder = some j) = false := by
          simp only [hhold, Option.some.injEq, decide_eq_false_iff_not]; exact fun h => hji h.symm
        rw [hd] at this
        exact this
    · intro j hj; cases hj

/-- the initial configuration of any number of threads, each a concatenation of well-nested
calls, satisfies the invariant -/
theorem init_inv (threads : List (List LockEv)) (h : ∀ t ∈ threads, Alt false t) :
    Inv { holder := none, threads := threads } := by
  refine ⟨?_, fun i hi => by cases hi⟩
  intro i evs hi
  have hd : decide ((none : Option Nat) = some i) = false := by simp
  rw [hd]
  exact h evs (List.mem_of_getElem? hi)

theorem sum_set_lt (l : List (List LockEv)) (i : Nat) (e : LockEv) (rest : List LockEv)
    (h : l[i]? = some (e :: rest)) : ((l.set i rest).map List.length).sum + 1 = (l.map List.length).sum := by
  induction l generalizing i with
  | nil => simp at h
  | cons x xs ih =>
    cases i with
    | zero =>
      simp only [List.getElem?_cons_zero, Option.some.injEq] at h
      subst h
      simp only [List.set_cons_zero, List.map_cons, List.sum_cons, List.length_cons]
      omega
    | succ j =>
      simp only [List.getElem?_cons_succ] at h
      have := ih j h
      simp only [List.set_cons_succ, List.map_cons, List.sum_cons]
      omega

/-- **no call blocks forever**: every step consumes exactly one event, so every schedule of any
configuration ends after `remaining` steps, with all calls completed (by `progress`) -/
theorem step_consumes (s s' : State) (hstep : Step s s') : remaining s' + 1 = remaining s := by
  cases hstep with
  | acq i rest _ hi => exact sum_set_lt s.threads i .acq rest hi
  | rel i rest _ hi => exact sum_set_lt s.threads i .rel rest hi

/-- non-vacuity: two threads, one running `encrypt` then `decaps`, the other `header::generate` -/
example : Inv { holder := none, threads := [[.acq, .rel, .acq, .rel, .acq, .rel], [.acq, .rel, .acq, .rel]] } := by
  apply init_inv
  intro t ht
  simp at ht
  rcases ht with rfl | rfl <;> simp [Alt]

end CC.Props.C19
